/-
  C06 — Overlay layers: ordered, isolated, first-hit lookup, last-wins merged view.

  State `Overlay` = the layers in creation order; a history is a list of `Op`s
  (`put` / `add` / `populate`), `run s ops` executes it and is `.ok` exactly when no step
  panics (the property's domain: no write descends through an existing scalar, nor by a key
  step through an existing list).  "Layer snapshots are deep copies that later writes do not
  affect" has no counterpart in the value model (`layers` returns values); it is carried by
  the harness, which re-reads every `Layers()` snapshot at the end of the history —
  and, at POINTER level, by the heap theorems at the end of this file (`heap_layers_*`,
  `heap_put_shares`, `heap_overlay_writes_own_layer`) over YtkModel/HeapOverlay.lean, tied to
  the code by the sharing-map correspondence of harness/heap_share2.go (kind heap-overlay).
-/
import YtkProofs.Overlay
import YtkProofs.OverlayRel
import YtkProofs.MergeRel
import YtkProofs.OverlayValid
import YtkProofs.OverlaySafe
import YtkModel.Codec
import YtkProofs.HeapOverlay
import YtkProofs.HeapOverlayPut
import YtkProofs.Decisions2
import YtkProofs.FuncsDomOverlay

namespace Ytk.C06

/-! ## decision tables regenerated from the source (extract/tables2.go) -/
section DecisionTables2
open Ytk.TableT Ytk.Overlay

/-- (i) The kind dispatch of overlayDocument.Put, regenerated from dom/overlay.go as an ORDERED case
    table, decides as the case table of the model's `Overlay.put` does — for every node kind the first
    matching arm runs the statements the model's decision stands for; and `put` does what that table
    says on ALL values: a container is flattened into one leaf write per flattened entry (so a
    leafless container changes nothing, not even the layer list), a leaf or a list is stored as it is. -/
theorem overlay_put_table_matches_model :
    (∀ x ∈ kindShapes, condStepsFor "arg2" Generated.overlayPutCases x = (putDecision x).steps) ∧
    (∀ (s : Ytk.Overlay) (l path : String) (v : Node),
      match putDecision v.shape with
      | .flatten => ∃ kvs, v = .cont kvs ∧ put s l path v = putLeaves s l path (flattenMap kvs)
      | .store => put s l path v = putNode s l path v) ∧
    (∀ (s : Ytk.Overlay) (l path : String) (kvs : AMap Node), flattenMap kvs = [] → put s l path (.cont kvs) = .ok s) :=
  ⟨by decide +kernel, put_decision, put_leafless⟩

/-- (ii) The rule of the property on the regenerated table ("putting a container writes each of its
    leaves, so a leafless container writes nothing"): a container value is turned into one Put per entry
    of its Flatten(), under the path extended by the entry's key, and that arm never touches the layer
    itself (no ensureOverlay: the layer is created only by a leaf write); a leaf and a list take the
    same arm: the layer is ensured first, the parents of the path are ensured, and the value ITSELF
    (arg2) is stored under the last component. -/
theorem overlay_put_table_rule :
    condStepsFor "arg2" Generated.overlayPutCases .container =
      ["for v0,v1 in arg2.(Container).Flatten(){recv.Put(arg0,utils.ToPath(arg1,v0),v1)}"] ∧
    condStepsFor "arg2" Generated.overlayPutCases .leaf = condStepsFor "arg2" Generated.overlayPutCases .list ∧
    condStepsFor "arg2" Generated.overlayPutCases .leaf =
      ["v2:=recv.ensureOverlay(arg0)", "v3:=recv.pathComponents(arg1)", "v2=ensurePath(v2,v3[:len(v3)-1])",
       "v2.AddValue(v3[len(v3)-1],arg2)"] := by
  decide +kernel

/-- (iii) the chain is not empty, ends in the catch-all arm, and no arm is shadowed: every arm is the
    first match for some kind -/
theorem nonvacuous_overlay_put_table :
    Generated.overlayPutCases.length = 2 ∧ Generated.overlayPutCases.getLast?.map (·.cond) = some "otherwise" ∧
    (conds Generated.overlayPutCases).Nodup ∧
    (∀ a ∈ Generated.overlayPutCases, ∃ x ∈ kindShapes, condStepsFor "arg2" Generated.overlayPutCases x = a.steps) := by
  decide +kernel

end DecisionTables2

open Ytk.Overlay

/-! ### layer names: order of first write -/

/-- After any history the layer names are the layers written to, in order of first write
    (`writesLayer` is `none` exactly for a Put of a leafless container, which writes nothing). -/
theorem layerNames_run (ops : List Op) (s : Overlay) (h : run [] ops = .ok s) :
    layerNames s = (ops.filterMap writesLayer).eraseDups := by
  rw [run_names ops h, foldl_ensureName_eq]
  have hf : ∀ (xs : List String), xs.filter (fun _ => true) = xs := fun xs => List.filter_eq_self.mpr (by simp)
  simp [layerNames, hf]

/-- invariant: layer names are duplicate-free after every history -/
theorem layerNames_nodup (ops : List Op) (s : Overlay) (h : run [] ops = .ok s) : (layerNames s).Nodup := by
  rw [run_names ops h]
  exact nodup_foldl_ensureName _ _ (by simp [layerNames])

/-- a Put of a leafless container changes nothing at all -/
theorem put_leafless (s : Overlay) (l path : String) (kvs : AMap Node) (h : flattenMap kvs = []) :
    put s l path (.cont kvs) = .ok s := by
  simp [put, h, putLeaves]

/-! ### isolation: a write to one layer is invisible in every other layer -/

theorem layer_isolated (s s' : Overlay) (op : Op) (l : String) (hl : l ≠ op.target)
    (h : step s op = .ok s') : layer s' l = layer s l := by
  have := step_effect h
  cases hw : writesLayer op with
  | none => simp only [hw] at this; rw [this]
  | some l' =>
    simp only [hw] at this
    obtain ⟨e, t⟩ := this
    exact t.2 l (by rw [e]; exact hl)

theorem lookup_isolated (s s' : Overlay) (op : Op) (l path : String) (hl : l ≠ op.target)
    (h : step s op = .ok s') : Overlay.lookup s' l path = Overlay.lookup s l path := by
  rw [lookup_eq, lookup_eq, layer_isolated s s' op l hl h]

/-- a per-layer lookup is the document lookup in that layer's content, nothing else -/
theorem lookup_spec (s : Overlay) (l path : String) :
    Overlay.lookup s l path = (layer s l).bind fun c => Ytk.lookup c path := lookup_eq s l path

/-- per-layer refinement: after any history, the content of layer `l` is what a standalone
    document (starting empty) holds after exactly the steps of the history that name `l`
    (`runDoc` / `stepDoc`: the same edits with the layer name ignored) -/
theorem layer_refinement (ops : List Op) (s : Overlay) (l : String) (h : run [] ops = .ok s) :
    runDoc [] (ops.filter fun op => op.target == l) = .ok (layerOrEmpty s l) := by
  have := run_doc l ops h
  simpa [layerOrEmpty, layer] using this

/-! ### LookupAny: the hit from the earliest layer that has one -/

theorem lookupAny_spec (s : Overlay) (path : String) (n : Node) :
    lookupAny s path = some n ↔
      ∃ i, ∃ h : i < (layerNames s).length, Overlay.lookup s (layerNames s)[i] path = some n ∧
        ∀ j, ∀ hj : j < i, Overlay.lookup s ((layerNames s)[j]'(Nat.lt_trans hj h)) path = none := by
  unfold lookupAny
  rw [List.findSome?_eq_some_iff]
  constructor
  · rintro ⟨l₁, a, l₂, e, ha, hnone⟩
    have hlen : l₁.length < (layerNames s).length := by rw [e]; simp
    refine ⟨l₁.length, hlen, ?_, ?_⟩
    · have : (layerNames s)[l₁.length] = a := by simp [e]
      rw [this]; exact ha
    · intro j hj
      have : (layerNames s)[j]'(Nat.lt_trans hj hlen) = l₁[j] := by simp [e, List.getElem_append_left hj]
      rw [this]
      exact hnone _ (List.getElem_mem hj)
  · rintro ⟨i, hi, hhit, hnone⟩
    refine ⟨(layerNames s).take i, (layerNames s)[i], (layerNames s).drop (i + 1), ?_, hhit, ?_⟩
    · simp
    · intro x hx
      obtain ⟨j, hj, rfl⟩ := List.getElem_of_mem hx
      have hji : j < i := by simp at hj; omega
      have := hnone j hji
      simpa using this

theorem lookupAny_none (s : Overlay) (path : String) :
    lookupAny s path = none ↔ ∀ l, Overlay.lookup s l path = none := by
  unfold lookupAny
  rw [List.findSome?_eq_none_iff]
  constructor
  · intro h l
    by_cases hl : l ∈ layerNames s
    · exact h l hl
    · exact lookup_none_of_not_mem s hl path
  · intro h l _
    exact h l

/-! ### Search: per-layer matches, layers in order -/

/-- the matching positions are the concatenation, in layer order, of each layer's own
    `Search` result tagged with the layer name -/
theorem search_spec (f : Scalar → Bool) (s : Overlay) :
    Overlay.search f s = s.flatMap fun q => (Ytk.search f q.2).map fun path => (q.1, path) := rfl

/-- the same by layer names, as the code iterates (`names` is duplicate-free: `layerNames_nodup`) -/
theorem search_by_layer_names (f : Scalar → Bool) (s : Overlay) (h : (layerNames s).Nodup) :
    Overlay.search f s =
      (layerNames s).flatMap fun l => (Ytk.search f (layerOrEmpty s l)).map fun path => (l, path) :=
  search_by_names f s h

/-- …and a layer's own result is exactly the flattened paths whose leaf satisfies `f` -/
theorem search_layer_spec (f : Scalar → Bool) (c : AMap Node) :
    Ytk.search f c = ((flattenMap c).filter fun p => f p.2).map (·.1) := rfl

/-! ### Walk: all (layer, path, leaf) triples in layer order, until the visitor says stop -/

/-- Walk is the early-exit fold of the visitor over the per-layer flattened triples, layers in
    creation order: it visits the longest prefix of `triples s` up to and including the first
    triple on which the visitor returns `false` (within a layer the model lists the triples in
    key order where Go uses map order). -/
theorem walk_spec {σ : Type} (fn : σ → String → String → Scalar → σ × Bool) (s : Overlay) (st : σ) :
    walk fn s st = foldUntil fn (triples s) st := walk_eq fn s st

/-- a visitor that never stops sees every triple exactly once, in that order -/
theorem walk_full {σ : Type} (fn : σ → String → String → Scalar → σ × Bool)
    (h : ∀ st l p v, (fn st l p v).2 = true) (s : Overlay) (st : σ) :
    walk fn s st = ((triples s).foldl (fun st t => (fn st t.1 t.2.1 t.2.2).1) st, true) := by
  rw [walk_eq, foldUntil_all fn h]

/-- the triples are the per-layer flattened views -/
theorem triples_spec (s : Overlay) :
    triples s = s.flatMap fun q => (flatten q.2).map fun pv => (q.1, pv.1, pv.2) := rfl

/-! ### Walk and Search under arbitrary Go map iteration order

  The executable model ranges over the children of a container in key order; Go ranges over a
  map.  `WalkRel fn s st tr r` (YtkProofs/OverlayRel.lean) is the operational relation "Walk(fn),
  started with visitor state `st`, may call the visitor on exactly the triples `tr`, in this
  order, and end with visitor state `r.1` and continue-flag `r.2`", in which every
  `range con.Children()` (any depth, any layer) uses an arbitrary permutation, layers are taken
  in creation order and list items in index order.  `SearchRel f s out` is the same for
  Search(fn): `Flatten()` fills a Go map by such a traversal (a later write to the same path
  overwrites), that map is ranged over in any order, layers in creation order.
  `LayerwisePerm g s E`: `E` is the concatenation, in layer order, of one permutation of
  `g layer` per layer (`layerwisePerm_parts` spells it out). -/

/-- meaning of `LayerwisePerm`: a list of parts, one per layer and in layer order, each a
    permutation of that layer's list -/
theorem layerwisePerm_parts {β : Type} (g : String × AMap Node → List β) (s : Overlay) (E : List β) :
    LayerwisePerm g s E ↔
      ∃ parts : List (List β), parts.length = s.length ∧ E = parts.flatten ∧
        ∀ (i : Nat) (h1 : i < parts.length) (h2 : i < s.length), (parts[i]).Perm (g s[i]) :=
  layerwisePerm_iff_parts g s E

/-- (a) a visitor that never returns `false`: whatever the map orders, every run visits, layer by
    layer in creation order, a permutation of that layer's flattened triples — every
    (layer, path, leaf) position exactly once — and ends with the fold of the visitor over the
    visited sequence -/
theorem walk_rel_full {σ : Type} (fn : σ → String → String → Scalar → σ × Bool)
    (hfn : ∀ st l p v, (fn st l p v).2 = true) (s : Overlay) (st : σ) (tr : List Triple) (r : σ × Bool)
    (h : WalkRel fn s st tr r) :
    LayerwisePerm (fun q => tag q.1 (flatten q.2)) s tr ∧ tr.Perm (triples s) ∧
      r = (tr.foldl (fun st t => (fn st t.1 t.2.1 t.2.2).1) st, true) := by
  obtain ⟨E, he, h1, h2⟩ := walkRel_enum fn h
  rw [visited_all fn hfn] at h1
  subst h1
  have hl := enumOverlay_layerwise he
  exact ⟨hl, hl.perm, by rw [h2, foldUntil_all fn hfn]⟩

/-- (b) with early exit: the visited sequence is the `visited` prefix — everything up to and
    including the first triple on which the visitor returns `false` — of an enumeration `E` that
    is a complete traversal (`EnumOverlay`), hence layer by layer a permutation of the flattened
    triples; the final state and flag are those of the early-exit fold over `E` -/
theorem walk_rel_early_exit {σ : Type} (fn : σ → String → String → Scalar → σ × Bool)
    (s : Overlay) (st : σ) (tr : List Triple) (r : σ × Bool) (h : WalkRel fn s st tr r) :
    ∃ E, EnumOverlay s E ∧ LayerwisePerm (fun q => tag q.1 (flatten q.2)) s E ∧
      tr = visited fn E st ∧ r = foldUntil fn E st := by
  obtain ⟨E, he, h1, h2⟩ := walkRel_enum fn h
  exact ⟨E, he, enumOverlay_layerwise he, h1, h2⟩

/-- … and conversely the `visited` prefix of every complete traversal is a run: the relational
    runs are exactly these -/
theorem walk_rel_iff {σ : Type} (fn : σ → String → String → Scalar → σ × Bool)
    (s : Overlay) (st : σ) (tr : List Triple) (r : σ × Bool) :
    WalkRel fn s st tr r ↔ ∃ E, EnumOverlay s E ∧ tr = visited fn E st ∧ r = foldUntil fn E st := by
  constructor
  · exact walkRel_enum fn
  · rintro ⟨E, he, rfl, rfl⟩
    exact enum_walkRel fn he st

/-- what `visited` is: a prefix of the enumeration, carrying the same final state/flag; when the
    flag is `true` it is the whole enumeration; when it is `false` its last element is the
    first triple on which the visitor returned `false`; on every element that has a successor the
    visitor returned `true` (nothing is visited after a `false`) -/
theorem visited_spec {σ : Type} (fn : σ → String → String → Scalar → σ × Bool) (E : List Triple) (st : σ) :
    visited fn E st <+: E ∧ foldUntil fn (visited fn E st) st = foldUntil fn E st ∧
      ((foldUntil fn E st).2 = true → visited fn E st = E) ∧
      ((foldUntil fn E st).2 = false → ∃ (pre : List Triple) (t : Triple), visited fn E st = pre ++ [t] ∧
        (foldUntil fn pre st).2 = true ∧ (fn (foldUntil fn pre st).1 t.1 t.2.1 t.2.2).2 = false) ∧
      (∀ (pre : List Triple) (t : Triple) (post : List Triple), visited fn E st = pre ++ t :: post → post ≠ [] →
        (foldUntil fn pre st).2 = true ∧ (fn (foldUntil fn pre st).1 t.1 t.2.1 t.2.2).2 = true) :=
  ⟨visited_prefix fn E st, foldUntil_visited fn E st, visited_of_true fn E st, visited_of_false fn E st,
    visited_nonlast_true fn E st⟩

/-- the executable model is one of the relational runs (the one that takes key order everywhere) -/
theorem walk_is_rel {σ : Type} (fn : σ → String → String → Scalar → σ × Bool) (s : Overlay) (st : σ) :
    WalkRel fn s st (visited fn (triples s) st) (walk fn s st) := by
  rw [walk_eq]
  exact enum_walkRel fn (enumOverlay_self s) st

/-- the traversal enumerations themselves: any permutation at every container -/
theorem enum_perm (n : Node) (p : String) (out : List (String × Scalar)) (h : EnumNode n p out) :
    out.Perm (flattenNode n p) := enumNode_perm h

/-- (c) Search: when no layer has two different leaves under one flattened path (true for every
    valid document with path-safe keys: `search_rel_domain`), every run returns, layer by layer in
    creation order, a permutation of that layer's `search_layer_spec` list tagged with the layer
    name — the model's result as a multiset grouped by layer in layer order -/
theorem search_rel_layerwise (f : Scalar → Bool) (s : Overlay) (out : List (String × String))
    (hf : ∀ q ∈ s, PathsFunctional q.2) (h : SearchRel f s out) :
    LayerwisePerm (fun q => (Ytk.search f q.2).map fun path => (q.1, path)) s out ∧
      out.Perm (Overlay.search f s) := by
  have hl := searchRel_layerwise hf h
  exact ⟨hl, hl.perm⟩

/-- the hypothesis of `search_rel_layerwise` holds on the property's domain -/
theorem search_rel_domain (c : AMap Node) (hv : (Node.cont c).Valid) (hs : (Node.cont c).SafeKeys) :
    PathsFunctional c := pathsFunctional_of_valid c hv hs

/-- …and on every state the property quantifies over: after any history whose payloads are
    valid documents (`Op.PayloadValid`) and which stays in the path-safe domain (`Op.Safe`: path
    components with path-safe key parts, payload keys path-safe) every layer is valid with
    path-safe keys, hence has one leaf per flattened path -/
theorem layers_domain_run (ops : List Op) (s : Overlay) (hv : ∀ op ∈ ops, op.PayloadValid)
    (ho : ∀ op ∈ ops, op.Safe) (h : run [] ops = .ok s) :
    ∀ q ∈ s, (Node.cont q.2).Valid ∧ (Node.cont q.2).SafeKeys ∧ PathsFunctional q.2 := by
  intro q hq
  have h1 := run_valid ops (fun _ hq => by cases hq) hv h q hq
  have h2 := run_safe ops (fun _ hq => by cases hq) hv ho h q hq
  exact ⟨h1, h2, pathsFunctional_of_valid q.2 h1 h2⟩

/-- (c) without side condition on reachable states -/
theorem search_rel_run (f : Scalar → Bool) (ops : List Op) (s : Overlay) (hv : ∀ op ∈ ops, op.PayloadValid)
    (ho : ∀ op ∈ ops, op.Safe) (h : run [] ops = .ok s) (out : List (String × String)) (hr : SearchRel f s out) :
    LayerwisePerm (fun q => (Ytk.search f q.2).map fun path => (q.1, path)) s out ∧
      out.Perm (Overlay.search f s) :=
  search_rel_layerwise f s out (fun q hq => (layers_domain_run ops s hv ho h q hq).2.2) hr

/-- the executable model is one of the relational runs -/
theorem search_is_rel (f : Scalar → Bool) (s : Overlay) : SearchRel f s (Overlay.search f s) :=
  searchRel_self f s

/-! ### merged view and serialisation -/

/-- the merged view is the fold of merge over the layers in creation order (later layers win) -/
theorem merged_spec (o : ListStrategy) (s : Overlay) :
    merged o s = s.foldl (fun acc p => mergeC o acc p.2) [] := by
  simp [merged, mergeAll, mergeC, List.foldl_map]

/-- one Merge with arbitrary Go map order at EVERY depth (`MergeContRel`, YtkProofs/MergeRel.lean:
    the copy loop over c1's children, the fold loop over c2's children and every nested
    `mergeContainers` reached through a common key or, via `mergeListsMeld`, a common list index
    may each range in any permutation): on well-formed documents every run returns the model's
    `mergeC` — the deep version of C04's `merge_order_independent` -/
theorem merge_deep_order_independent (o : ListStrategy) (a b r : AMap Node) (ha : (Node.cont a).WF)
    (hb : (Node.cont b).WF) (h : MergeContRel o a b r) : r = mergeC o a b :=
  mergeContRel_det h ha hb

/-- the merged view does not depend on the order in which any layer's children (at any depth)
    are visited: every run of `mergeOverlay` with free map order (`MergedRel`: layers in creation
    order, each `mergeContainers` a `MergeContRel`) returns `merged o s` -/
theorem merged_order_independent (o : ListStrategy) (s : Overlay) (hw : ∀ q ∈ s, (Node.cont q.2).WF)
    (r : AMap Node) (h : MergedRel o [] (s.map (·.2)) r) : r = merged o s := by
  refine mergedRel_det h (.cont .nil (fun _ hp => by cases hp)) ?_
  intro c hc
  obtain ⟨q, hq, rfl⟩ := List.mem_map.mp hc
  exact hw q hq

/-- the executable model is one of these runs -/
theorem merged_is_rel (o : ListStrategy) (s : Overlay) (hw : ∀ q ∈ s, (Node.cont q.2).WF) :
    MergedRel o [] (s.map (·.2)) (merged o s) := by
  refine mergedRel_self o _ [] (.cont .nil (fun _ hp => by cases hp)) ?_
  intro c hc
  obtain ⟨q, hq, rfl⟩ := List.mem_map.mp hc
  exact hw q hq

/-- after any history whose payloads are valid documents every layer is a valid document
    (keys strictly sorted, none ending in an index group), so the well-formedness hypothesis of
    `merged_order_independent` holds on every reachable state -/
theorem layers_valid_run (ops : List Op) (s : Overlay) (hv : ∀ op ∈ ops, op.PayloadValid)
    (h : run [] ops = .ok s) : ∀ q ∈ s, (Node.cont q.2).Valid :=
  run_valid ops (fun _ hq => by cases hq) hv h

theorem merged_order_independent_run (o : ListStrategy) (ops : List Op) (s : Overlay)
    (hv : ∀ op ∈ ops, op.PayloadValid) (h : run [] ops = .ok s)
    (r : AMap Node) (hr : MergedRel o [] (s.map (·.2)) r) : r = merged o s :=
  merged_order_independent o s (fun q hq => (layers_valid_run ops s hv h q hq).1) r hr

/-- serialising the overlay serialises the (default-strategy) merged view -/
theorem serialize_spec {β : Type} (enc : AMap Node → β) (s : Overlay) :
    Overlay.serialize enc s = enc (merged .meld s) := rfl

/-- with C01's concrete document serialiser (`Ytk.serialize enc w d = enc w (asMap d)`, value
    encoder `enc`, sink `w`) as the encoding step: serialising the overlay is C01's `serialize`
    of the merged view, i.e. the value encoder applied to `AsMap(Merged())` -/
theorem serialize_overlay {W R : Type} (enc : W → List (String × Val) → R) (w : W) (s : Overlay) :
    Overlay.serialize (Ytk.serialize enc w) s = Ytk.serialize enc w (merged .meld s) ∧
      Overlay.serialize (Ytk.serialize enc w) s = enc w (asMap (merged .meld s)) := ⟨rfl, rfl⟩

/-- …so an encoder failure is the overlay's Serialize failure -/
theorem serialize_overlay_error {W : Type} (enc : W → List (String × Val) → Except Unit Unit) (w : W) (s : Overlay)
    (hfail : ∀ v, (enc w v).isOk = false) : (Overlay.serialize (Ytk.serialize enc w) s).isOk = false := hfail _

/-! ### non-vacuity -/

def i (n : String) : Node := .leaf ⟨"int", n⟩

def exOps : List Op :=
  [.put "top" "a" (.cont [("x", .cont []), ("l", .list [])]),     -- leafless: no layer
   .put "base" "a.b" (i "1"),
   .put "top" "a.b" (i "2"),
   .add "env" [("a", .cont [("b", Node.null)])],
   .populate "base" "a" [("c", i "4")],
   .put "env" "q" (.cont [("r", .cont [("s", i "6")]), ("t", i "5")])]

def exState : Overlay :=
  [("base", [("a", .cont [("b", i "1"), ("c", i "4")])]),
   ("top", [("a", .cont [("b", i "2")])]),
   ("env", [("a", .cont [("b", Node.null)]), ("q", .cont [("r", .cont [("s", i "6")]), ("t", i "5")])])]

theorem nonvacuous_run : run [] exOps = .ok exState := by decide

/-- list items written out of order: the second write goes through the padding slot -/
theorem nonvacuous_padding :
    run [] [.put "base" "l[1].x" (i "1")] = .ok [("base", [("l", .list [Node.null, .cont [("x", i "1")]])])] := by
  decide +kernel

theorem nonvacuous_names : layerNames exState = ["base", "top", "env"] := by decide

/-- first layer wins for LookupAny, last non-null wins in the merged view -/
theorem nonvacuous_precedence :
    lookupAny exState "a.b" = some (i "1") ∧ Ytk.lookup (merged .meld exState) "a.b" = some (i "2") := by
  decide

theorem nonvacuous_panic : (run [] [.put "base" "a" (i "1"), .put "base" "a.b" (i "2")]).isPanic = true := by
  decide

/-! ### non-vacuity of the relational variants -/

def exSmall : Overlay :=
  [("base", [("a", .cont [("b", i "1"), ("c", i "4")])]), ("top", [("a", .cont [("b", i "2")])])]

/-- records `layer:path`, stops on the first path `a.b` -/
def exVisitor : List String → String → String → Scalar → List String × Bool :=
  fun st l p _ => (st ++ [l ++ ":" ++ p], p != "a.b")

def exEnum : List Triple :=
  [("base", "a.c", ⟨"int", "4"⟩), ("base", "a.b", ⟨"int", "1"⟩), ("top", "a.b", ⟨"int", "2"⟩)]

theorem enum_exSmall : EnumOverlay exSmall exEnum := by
  have h : EnumOverlay exSmall _ :=
    .cons (n := "base")
      (.cont (List.Perm.refl _)
        (.cons (.cont (kvs' := [("c", i "4"), ("b", i "1")]) (List.Perm.swap _ _ _)
          (.cons (.leaf ⟨"int", "4"⟩ _) (.cons (.leaf ⟨"int", "1"⟩ _) (.nil _)))) (.nil _)))
      (.cons (n := "top")
        (.cont (List.Perm.refl _)
          (.cons (.cont (List.Perm.refl _) (.cons (.leaf ⟨"int", "2"⟩ _) (.nil _))) (.nil _)))
        .nil)
  have e1 : toPath (toPath "" "a") "c" = "a.c" := by decide +kernel
  have e2 : toPath (toPath "" "a") "b" = "a.b" := by decide +kernel
  simpa [e1, e2, tag, exEnum] using h

/-- a run that is NOT the key-order run: in layer `base` the children of `a` are visited as
    `c, b`; the visitor stops on `a.b`, so two triples are visited where the executable model
    visits one, and layer `top` is never entered -/
theorem nonvacuous_walk_rel :
    WalkRel exVisitor exSmall [] [("base", "a.c", ⟨"int", "4"⟩), ("base", "a.b", ⟨"int", "1"⟩)]
        (["base:a.c", "base:a.b"], false) ∧
      walk exVisitor exSmall [] = (["base:a.b"], false) ∧
      visited exVisitor (triples exSmall) [] = [("base", "a.b", ⟨"int", "1"⟩)] := by
  refine ⟨?_, by decide +kernel, by decide +kernel⟩
  exact (walk_rel_iff exVisitor exSmall [] _ _).mpr ⟨exEnum, enum_exSmall, by decide +kernel, by decide +kernel⟩

/-! Outside the property's domain (a key containing `.`): `{"a": {"b": 2}, "a.b": 1}` flattens
    to the single path `a.b` whose leaf depends on the map order inside `Flatten()`, so Search
    is order-dependent there — the hypothesis `PathsFunctional` of `search_rel_layerwise` cannot
    be dropped. -/

def exDotted : AMap Node := [("a", .cont [("b", i "2")]), ("a.b", i "1")]
def isTwo : Scalar → Bool := fun v => v == ⟨"int", "2"⟩

theorem enum_dotted_key : EnumNode (.cont exDotted) "" [("a.b", ⟨"int", "2"⟩), ("a.b", ⟨"int", "1"⟩)] := by
  have h : EnumNode (.cont exDotted) "" _ :=
    .cont (List.Perm.refl _)
      (.cons (.cont (List.Perm.refl _) (.cons (.leaf ⟨"int", "2"⟩ _) (.nil _))) (.cons (.leaf ⟨"int", "1"⟩ _) (.nil _)))
  have e : toPath "" "a.b" = "a.b" := by decide +kernel
  have e2 : toPath (toPath "" "a") "b" = "a.b" := by decide +kernel
  simpa [e, e2] using h

theorem enum_dotted_swapped : EnumNode (.cont exDotted) "" [("a.b", ⟨"int", "1"⟩), ("a.b", ⟨"int", "2"⟩)] := by
  have h : EnumNode (.cont exDotted) "" _ :=
    .cont (kvs' := [("a.b", i "1"), ("a", .cont [("b", i "2")])]) (List.Perm.swap _ _ _)
      (.cons (.leaf ⟨"int", "1"⟩ _) (.cons (.cont (List.Perm.refl _) (.cons (.leaf ⟨"int", "2"⟩ _) (.nil _))) (.nil _)))
  have e : toPath "" "a.b" = "a.b" := by decide +kernel
  have e2 : toPath (toPath "" "a") "b" = "a.b" := by decide +kernel
  simpa [e, e2] using h

theorem search_rel_dotted_key_counterexample :
    AMap.Sorted exDotted ∧ ¬ PathsFunctional exDotted ∧
      SearchLayerRel isTwo exDotted [] ∧ SearchLayerRel isTwo exDotted ["a.b"] := by
  refine ⟨sorted_of_sortedb _ (by decide +kernel), ?_, ?_, ?_⟩
  · intro h
    have := h ("a.b", ⟨"int", "2"⟩) (by decide +kernel) ("a.b", ⟨"int", "1"⟩) (by decide +kernel) rfl
    exact absurd this (by decide +kernel)
  · have := SearchLayerRel.mk (f := isTwo) enum_dotted_key (List.Perm.refl _)
    have e : ((AMap.ofList [("a.b", (⟨"int", "2"⟩ : Scalar)), ("a.b", ⟨"int", "1"⟩)]).filter fun p => isTwo p.2).map (·.1) = [] := by
      decide +kernel
    rwa [e] at this
  · have := SearchLayerRel.mk (f := isTwo) enum_dotted_swapped (List.Perm.refl _)
    have e : ((AMap.ofList [("a.b", (⟨"int", "1"⟩ : Scalar)), ("a.b", ⟨"int", "2"⟩)]).filter fun p => isTwo p.2).map (·.1) = ["a.b"] := by
      decide +kernel
    rwa [e] at this

def exM : Overlay :=
  [("base", [("a", i "1"), ("m", .cont [("x", i "1"), ("y", i "2")])]),
   ("top", [("a", Node.null), ("m", .cont [("y", i "3"), ("z", i "4")])])]

def exMerged : AMap Node := [("a", i "1"), ("m", .cont [("x", i "1"), ("y", i "3"), ("z", i "4")])]

/-- a merge run that takes the REVERSE key order in every range (copy loop, fold loop, nested
    container) arrives at the model's merged view -/
theorem nonvacuous_merged_rel :
    (∀ q ∈ exM, (Node.cont q.2).WF) ∧ merged .meld exM = exMerged ∧
      MergedRel .meld [] (exM.map (·.2)) exMerged := by
  refine ⟨?_, by decide +kernel, ?_⟩
  · intro q hq
    simp only [exM, List.mem_cons, List.not_mem_nil, or_false] at hq
    rcases hq with rfl | rfl <;> exact wf_of_wfb _ (by decide +kernel)
  · refine .cons (acc' := [("a", i "1"), ("m", .cont [("x", i "1"), ("y", i "2")])]) ?_ (.cons ?_ (.nil _))
    · exact MergeContRel.mk_eq (a' := []) (b' := [("m", .cont [("x", i "1"), ("y", i "2")]), ("a", i "1")])
        (List.Perm.refl _) (List.Perm.swap _ _ _) (a₀ := []) (by decide +kernel)
        (.fresh_eq (a₂ := [("m", .cont [("x", i "1"), ("y", i "2")])]) (by decide +kernel) (by decide +kernel)
          (.fresh_eq (a₂ := [("a", i "1"), ("m", .cont [("x", i "1"), ("y", i "2")])]) (by decide +kernel)
            (by decide +kernel) (.nil_eq rfl)))
    · exact MergeContRel.mk_eq (a' := [("m", .cont [("x", i "1"), ("y", i "2")]), ("a", i "1")])
        (b' := [("m", .cont [("y", i "3"), ("z", i "4")]), ("a", Node.null)])
        (List.Perm.swap _ _ _) (List.Perm.swap _ _ _)
        (a₀ := [("a", i "1"), ("m", .cont [("x", i "1"), ("y", i "2")])]) (by decide +kernel)
        (.both_eq (n := .cont [("x", i "1"), ("y", i "2")]) (x := .cont [("x", i "1"), ("y", i "3"), ("z", i "4")])
          (a₂ := exMerged) (by decide +kernel)
          (.cont (MergeContRel.mk_eq (a' := [("y", i "2"), ("x", i "1")]) (b' := [("z", i "4"), ("y", i "3")])
            (List.Perm.swap _ _ _) (List.Perm.swap _ _ _) (a₀ := [("x", i "1"), ("y", i "2")]) (by decide +kernel)
            (.fresh_eq (a₂ := [("x", i "1"), ("y", i "2"), ("z", i "4")]) (by decide +kernel) (by decide +kernel)
              (.both_eq (n := i "2") (x := coalesce (i "2") (i "3")) (a₂ := [("x", i "1"), ("y", i "3"), ("z", i "4")])
                (by decide +kernel) (.other (by decide) (by decide)) (by decide +kernel) (.nil_eq rfl)))))
          (by decide +kernel)
          (.both_eq (n := i "1") (x := coalesce (i "1") Node.null) (a₂ := exMerged) (by decide +kernel)
            (.other (by decide) (by decide)) (by decide +kernel) (.nil_eq rfl)))

/-- the example history with its first payload written as a well-formed (key-sorted) map -/
def exOpsDom : List Op :=
  .put "top" "a" (.cont [("l", .list []), ("x", .cont [])]) :: exOps.tail

/-- …lies in the domain of `layers_domain_run` / `search_rel_run` / `merged_order_independent_run`
    and reaches the same three-layer state -/
theorem nonvacuous_domain : (∀ op ∈ exOpsDom, op.PayloadValid ∧ op.Safe) ∧ run [] exOpsDom = .ok exState := by
  have h : exOpsDom.all Op.okB = true := by decide +kernel
  refine ⟨?_, by decide +kernel⟩
  intro op hop
  exact Op.okB_sound (List.all_eq_true.mp h op hop)

/-! ## Pointer level: the overlay on the heap model (YtkModel/HeapOverlay.lean)

  A layer is the ADDRESS of its container cell; allocation appends, so "new" means
  `address ≥ old size`.  What the code shares (read off dom/overlay.go, mirrored by the model):
  `Put` of a leaf or LIST stores the caller's node itself; `Put` of a container stores the caller's
  LEAF objects below new containers; `Add` stores the caller's child nodes; `Populate` builds new
  nodes (nulls are the shared nil leaf); `Lookup` hands out the stored node; `Layers()` clones. -/

section heap
open Ytk.Heap

/-- `Layers()` never writes an existing cell, reports the layers' names, and EVERY cell reachable
    from a snapshot root — containers, lists, leaves, nulls — was allocated by this call. -/
theorem heap_layers_fresh (f : Nat) (h h' : Heap) (s snaps : HOverlay)
    (he : layersF f h s = some (h', snaps)) :
    h ≤ h' ∧ snaps.names = s.names ∧
      ∀ p ∈ snaps, ∀ b, Reach h' p.2 b → h.size ≤ b ∧ b < h'.size := by
  obtain ⟨l1, hn, hb, _⟩ := layersF_spec f s h h' snaps he
  refine ⟨l1, hn, fun p hp b hr => ?_⟩
  exact (layersF_region he).reach hr (hb p hp).1 (hb p hp).2

/-- On layers with defined abstractions (finite documents) `Layers()` succeeds; snapshot `i` has
    the name of layer `i` and abstracts to the document layer `i` abstracts to at that moment,
    and every layer still abstracts to what it did. -/
theorem heap_layers_abs (f : Nat) (h : Heap) (s : HOverlay)
    (hd : ∀ p ∈ s, ∃ x, absH f h p.2 = some x) :
    ∃ h' snaps, layersF f h s = some (h', snaps) ∧
      (∀ (i : Nat) (p q : String × Addr), s[i]? = some p → snaps[i]? = some q →
        p.1 = q.1 ∧ absH f h' q.2 = absH f h p.2) ∧
      ∀ p ∈ s, absH f h' p.2 = absH f h p.2 := by
  obtain ⟨h', snaps, he, hall⟩ := layersF_abs f s h hd
  refine ⟨h', snaps, he, hall, fun p hp => ?_⟩
  obtain ⟨x, hx⟩ := hd p hp
  rw [hx]
  exact absH_mono (layersF_spec f s h h' snaps he).1 f p.2 x hx

/-- ISOLATION, overlay side: after `Layers()`, ANY history of overlay writes (Put / Add / Populate,
    to existing or new layers) leaves the abstraction of every snapshot root unchanged — provided
    the caller does not hand a node OF A SNAPSHOT back to the overlay (`hargs`: the argument nodes
    are old nodes or nodes created after the call; a snapshot's own node put into a layer would be
    stored itself and make the two share, by `heap_put_shares`). -/
theorem heap_layers_isolated (f : Nat) (h h1 h2 : Heap) (s snaps s2 : HOverlay) (ops : List OvOp)
    (hcl : h.Closed) (hpos : 0 < h.size) (hroots : ∀ a ∈ s.roots, a < h.size)
    (he : layersF f h s = some (h1, snaps))
    (hops : applyOvOps h1 s ops = some (h2, s2))
    (hargs : ∀ op ∈ ops, ∀ a ∈ op.args, a < h.size) :
    ∀ p ∈ snaps, ∀ (g : Nat) (n : Node), absH g h1 p.2 = some n → absH g h2 p.2 = some n := by
  obtain ⟨l1, _, hb, _⟩ := layersF_spec f s h h1 snaps he
  let R : Addr → Prop := fun b => b < h.size ∨ h1.size ≤ b
  have hc : ClosedIn R h1 := by
    intro a c ha hg k hk
    rcases ha with ha | ha
    · rw [Heap.get?_eq_of_le l1 ha] at hg
      exact Or.inl (hcl a c hg k hk)
    · exact absurd (Heap.get?_lt hg) (Nat.not_lt.mpr ha)
  have hf : FreshIn R h1 := fun a ha => Or.inr ha
  obtain ⟨u, _⟩ := applyOvOps_upd (R := R) (Or.inl hpos) ops h1 s h2 s2 hc hf
    (fun a ha => Or.inl (hroots a ha))
    (fun op hop a ha => ⟨Or.inl (hargs op hop a ha),
      Nat.lt_of_lt_of_le (hargs op hop a ha) (Heap.size_le_of_le l1)⟩) hops
  intro p hp g n hn
  refine u.writes.absH_frame_wc ?_ hn
  intro b hr
  have := (layersF_region he).reach hr (hb p hp).1 (hb p hp).2
  left
  intro hR
  rcases hR with hR | hR
  · exact absurd this.1 (Nat.not_le.mpr hR)
  · exact absurd this.2 (Nat.not_lt.mpr hR)

/-- ISOLATION, snapshot side: any sequence of in-place writes to cells of the snapshots (or to cells
    allocated later) — in particular any list of builder calls on them — leaves every cell that
    existed before `Layers()` as it was, hence the abstraction of every layer and of every other old
    root unchanged. -/
theorem heap_layers_isolated_symm (f : Nat) (h h1 h2 : Heap) (s snaps : HOverlay)
    (he : layersF f h s = some (h1, snaps)) :
    (Writes (fun _ b => h.size ≤ b) h1 h2 →
      h ≤ h2 ∧ ∀ (g : Nat) (x : Addr) (n : Node), absH g h x = some n → absH g h2 x = some n) ∧
    (∀ (ops : List Ytk.Heap.Op), (∀ op ∈ ops, h.size ≤ op.target) → applyOps h1 ops = some h2 →
      h ≤ h2 ∧ ∀ (g : Nat) (x : Addr) (n : Node), absH g h x = some n → absH g h2 x = some n) := by
  have l1 := (layersF_spec f s h h1 snaps he).1
  have key : Writes (fun _ b => h.size ≤ b) h1 h2 →
      h ≤ h2 ∧ ∀ (g : Nat) (x : Addr) (n : Node), absH g h x = some n → absH g h2 x = some n := by
    intro hw
    have hl := hw.le_of_fresh l1
    exact ⟨hl, fun g x n hn => absH_mono hl g x n hn⟩
  exact ⟨key, fun ops hq ha => key (applyOps_writes hq ha)⟩

/-- THE SNAPSHOTS OF ONE CALL ARE DISJOINT FROM EACH OTHER, too: the cells of snapshot `i` all lie
    below the cells of snapshot `j > i` (consecutive Clone regions) — a write into one layer's
    snapshot cannot show in another layer's snapshot. -/
theorem heap_layers_pairwise_disjoint (f : Nat) (h h' : Heap) (s snaps : HOverlay)
    (he : layersF f h s = some (h', snaps)) (i j : Nat) (p q : String × Addr) (hij : i < j)
    (hp : snaps[i]? = some p) (hq : snaps[j]? = some q) :
    ∀ b, Reach h' p.2 b → ¬ Reach h' q.2 b := by
  intro b hb hb'
  exact Nat.lt_irrefl b (layersF_ordered f s h h' snaps he i j p q hij hp hq b b hb hb')

/-- WHAT PUT STORES.  After `Put(l, path, v)` every cell a layer reaches is
      (1) a cell some layer reached before, or
      (2) a cell allocated by this call (the new layer, the containers made along the path), or
      (3) of the caller's value: when `v` is a leaf or a LIST — any cell below `v` (the node `v`
          ITSELF is stored: its last write is `children[last] = v`, second clause); when `v` is a
          container — only LEAF cells below `v` (the caller's leaf objects are stored, no container
          object of `v` is), or
      (4) the shared nil leaf.
    Nothing else is written than container cells of (1)–(2) (third clause): the caller's value is
    not modified. -/
theorem heap_put_shares (h h' : Heap) (s s' : HOverlay) (l : String) (comps : List String) (v : Addr)
    (hcl : h.Closed) (hroots : ∀ a ∈ s.roots, a < h.size)
    (he : putH h s l comps v = some (h', s')) :
    let Old : Addr → Prop := fun b => ∃ a ∈ s.roots, Reach h a b
    let Val : Addr → Prop := fun b =>
      ((∀ kvs, h.get? v ≠ some (.cont kvs)) ∧ Reach h v b) ∨
      ((∃ kvs, h.get? v = some (.cont kvs)) ∧ LeafBelow h v b)
    (∀ a ∈ s'.roots, ∀ b, Reach h' a b → Old b ∨ h.size ≤ b ∨ Val b) ∧
    ((∀ kvs, h.get? v ≠ some (.cont kvs)) →
      ∃ c kvs last, comps.getLast? = some last ∧ h'.get? c = some (.cont kvs) ∧ AMap.get? kvs last = some v) ∧
    Writes (WC fun b => Old b ∨ h.size ≤ b ∨ Val b) h h' := by
  intro Old Val
  let R : Addr → Prop := fun b => Old b ∨ h.size ≤ b ∨ Val b
  have hc : ClosedIn R h := by
    intro a c ha hg k hk
    rcases ha with ⟨a0, ha0, hr⟩ | ha | ⟨hnc, hr⟩ | ⟨_, hr, sc, hleaf⟩
    · exact Or.inl ⟨a0, ha0, hr.trans (Reach.child hg hk)⟩
    · exact absurd (Heap.get?_lt hg) (Nat.not_lt.mpr ha)
    · exact Or.inr (Or.inr (Or.inl ⟨hnc, hr.trans (Reach.child hg hk)⟩))
    · rw [hg] at hleaf; cases Option.some.inj hleaf; simp [Cell.kids] at hk
  have hf : FreshIn R h := fun a ha => Or.inr (Or.inl ha)
  have hs : ∀ a, s.find l = some a → R a := fun a ha => Or.inl ⟨a, HOverlay.find_mem ha, .refl _⟩
  obtain ⟨u, hn⟩ := putH_upd (R := R) hc hf hs
    (fun hnc => Or.inr (Or.inr (Or.inl ⟨hnc, .refl _⟩)))
    (fun hcv b hb => Or.inr (Or.inr (Or.inr ⟨hcv, hb⟩))) he
  refine ⟨?_, ?_, u.writes⟩
  · intro a ha b hr
    have hRa : R a := by
      rcases hn.1 a ha with h1 | h1
      · exact Or.inl ⟨a, h1, .refl _⟩
      · exact Or.inr (Or.inl h1)
    exact u.closed.reach hRa hr
  · intro hnc
    -- a value that is not a container goes through putNodeH: the last statement is AddValue
    have hput : putNodeH h s l comps v = some (h', s') := by
      unfold putH at he
      cases hg : h.get? v with
      | none => simp [hg] at he
      | some cell =>
        cases cell with
        | leaf sc => simpa [hg] using he
        | list xs => simpa [hg] using he
        | cont kvs => exact absurd hg (hnc kvs)
    unfold putNodeH at hput
    cases hl : comps.getLast? with
    | none => simp [hl] at hput
    | some last =>
      simp only [hl] at hput
      generalize ensureOverlay h s l = eo at hput
      obtain ⟨h1, s1, cur⟩ := eo
      simp only at hput
      cases hp : ensurePathH h1 cur comps.dropLast with
      | none => simp [hp] at hput
      | some q =>
        obtain ⟨h2, c⟩ := q
        simp only [hp] at hput
        cases ha : addValue h2 c last v with
        | none => simp [ha] at hput
        | some h3 =>
          simp only [ha, Option.some.injEq, Prod.mk.injEq] at hput
          obtain ⟨rfl, rfl⟩ := hput
          unfold addValue at ha
          split at ha
          · rename_i kvs hg
            cases ha
            exact ⟨c, AMap.insert kvs last v, last, rfl,
              Heap.get?_write_self h2 _ (Heap.get?_lt hg), AMap.get?_insert_self kvs last v⟩
          · cases ha

/-- A WRITE TO ONE LAYER WRITES NO CELL OF ANOTHER.  Let `P` be a set of cells (think: everything a
    different layer reaches) such that the cells the call may walk — what the written layer's root
    reaches and what the caller's argument nodes reach — meet `P` in LEAF cells only (leaves are
    immutable; the shared nil leaf is in every layer).  Then Put / Add / Populate on layer
    `op.layer` leaves every cell of `P` exactly as it was, and with it the abstraction of every
    root that reaches only `P` cells.  Layers STAY disjoint as long as no node reachable from one
    layer (e.g. a node handed out by `Lookup`) is passed to Put / Add for another layer — the
    argument nodes are stored themselves (`heap_put_shares`); `Populate` and `Layers()` never
    introduce sharing (new cells, nil leaf). -/
theorem heap_overlay_writes_own_layer (h h' : Heap) (s s' : HOverlay) (op : OvOp) (P : Addr → Prop)
    (hnil : h.NilOk) (hPlt : ∀ b, P b → b < h.size)
    (hargs : ∀ a ∈ op.args, a < h.size)
    (hdisj : ∀ b, ((∃ a, s.find op.layer = some a ∧ Reach h a b) ∨ (∃ a ∈ op.args, Reach h a b)) → P b →
      ∃ sc, h.get? b = some (.leaf sc))
    (he : applyOvOp h s op = some (h', s')) :
    (∀ b, P b → h'.get? b = h.get? b) ∧
    (∀ r, (∀ b, Reach h r b → P b) → ∀ (g : Nat) (n : Node), absH g h r = some n → absH g h' r = some n) := by
  let R : Addr → Prop := fun b =>
    (∃ a, s.find op.layer = some a ∧ Reach h a b) ∨ (∃ a ∈ op.args, Reach h a b) ∨ b = nilAddr ∨ h.size ≤ b
  have hc : ClosedIn R h := by
    intro a c ha hg k hk
    rcases ha with ⟨a0, ha0, hr⟩ | ⟨a0, ha0, hr⟩ | rfl | ha
    · exact Or.inl ⟨a0, ha0, hr.trans (Reach.child hg hk)⟩
    · exact Or.inr (Or.inl ⟨a0, ha0, hr.trans (Reach.child hg hk)⟩)
    · rw [hnil] at hg; cases Option.some.inj hg; simp [Cell.kids] at hk
    · exact absurd (Heap.get?_lt hg) (Nat.not_lt.mpr ha)
  have hf : FreshIn R h := fun a ha => Or.inr (Or.inr (Or.inr ha))
  obtain ⟨u, _⟩ := applyOvOp_upd (R := R) (Or.inr (Or.inr (Or.inl rfl))) hc hf
    (fun a ha => Or.inl ⟨a, ha, .refl _⟩)
    (fun a ha => ⟨Or.inr (Or.inl ⟨a, ha, .refl _⟩), hargs a ha⟩) he
  -- a written cell is in `R` and holds a container: it is not in `P`
  have hw : Writes (WC fun b => R b ∧ ¬ P b) h h' := by
    have hsub : ∀ g g', Writes (WC R) g g' → (∀ b, b < h.size → (∃ sc, h.get? b = some (.leaf sc)) →
        g.get? b = h.get? b) → Writes (WC fun b => R b ∧ ¬ P b) g g' := by
      intro g g' hwr
      induction hwr with
      | refl _ => intro _; exact .refl _
      | @write x x' a c hp _ ih =>
        intro hleafs
        obtain ⟨hRa, kvs, hga⟩ := hp
        have hnP : ¬ P a := by
          intro hPa
          have hlt := hPlt a hPa
          have hleaf : ∃ sc, h.get? a = some (.leaf sc) := by
            rcases hRa with h1 | h1 | rfl | h1
            · exact hdisj a (Or.inl h1) hPa
            · exact hdisj a (Or.inr h1) hPa
            · exact ⟨_, hnil⟩
            · exact absurd hlt (Nat.not_lt.mpr h1)
          obtain ⟨sc, hsc⟩ := hleaf
          rw [hleafs a hlt ⟨sc, hsc⟩, hsc] at hga
          cases hga
        refine .write a c ⟨⟨hRa, hnP⟩, kvs, hga⟩ (ih ?_)
        intro b hb hleaf
        have hba : b ≠ a := by
          intro e; subst e
          obtain ⟨sc, hsc⟩ := hleaf
          rw [hleafs b hb ⟨sc, hsc⟩, hsc] at hga
          cases hga
        rw [Heap.get?_write_ne x c hba]
        exact hleafs b hb hleaf
      | @alloc x x' c _ ih =>
        intro hleafs
        refine .alloc c (ih ?_)
        intro b hb hleaf
        have hbx : b < x.size := by
          have := hleafs b hb hleaf
          obtain ⟨sc, hsc⟩ := hleaf
          rw [hsc] at this
          exact Heap.get?_lt this
        rw [Heap.get?_eq_of_le (Heap.le_alloc x c) hbx]
        exact hleafs b hb hleaf
    exact hsub h h' u.writes (fun _ _ _ => rfl)
  refine ⟨fun b hPb => ?_, fun r hr g n hn => ?_⟩
  · exact hw.get?_frame_wc (fun hb => hb.2 hPb) (hPlt b hPb)
  · exact hw.absH_frame_wc (fun b hb => Or.inl (fun hR => hR.2 (hr b hb))) hn

/-! ### Non-vacuity on a concrete history

  `ovHeap`: 0 nilLeaf · 1 leaf "v" · 2 list [#1, nilLeaf] · 3 {x: #1} — the caller's nodes. -/
def ovHeap : Heap := ⟨[.leaf Scalar.null, .leaf ⟨"string", "v"⟩, .list [1, 0], .cont [("x", 1)]]⟩

def ovOps : List OvOp := [.put "base" ["a", "b"] 2, .put "env" ["c"] 3,
  .populate "env" ["d"] [("k", .leaf ⟨"int", "1"⟩), ("n", .leaf Scalar.null)]]

/-- the state after the history, after `Layers()`, and after one more Put -/
def ovRun : Option ((Heap × HOverlay) × (Heap × HOverlay) × (Heap × HOverlay)) :=
  (applyOvOps ovHeap [] ovOps).bind fun r1 =>
    (layersH r1.1 r1.2).bind fun r2 =>
      (applyOvOps r2.1 r1.2 [.put "base" ["a", "z"] 1]).map fun r3 => (r1, r2, r3)

/-- `ovRun` succeeds; `h1 s1` after the history, `h2 snaps` after `Layers()`, `h3 s3` after one more Put -/
theorem nonvacuous_heap_overlay :
    ovRun.isSome = true ∧
    (ovRun.get!).1.2 = [("base", 4), ("env", 6)] ∧ (ovRun.get!).1.1.size = 10 ∧
    -- Put of a list stores the caller's list #2 itself; Put of a container stores its LEAF #1 below a
    -- NEW container #7 (not the caller's #3); Populate's null is the shared nil leaf #0
    ovLookupH (ovRun.get!).1.1 (ovRun.get!).1.2 "base" ["a", "b"] = some 2 ∧
    ovLookupH (ovRun.get!).1.1 (ovRun.get!).1.2 "env" ["c", "x"] = some 1 ∧
    ovLookupH (ovRun.get!).1.1 (ovRun.get!).1.2 "env" ["c"] = some 7 ∧
    ovLookupH (ovRun.get!).1.1 (ovRun.get!).1.2 "env" ["d", "n"] = some 0 ∧
    -- the snapshots: new roots, same documents, every reachable cell new (≥ 10)
    (ovRun.get!).2.1.2 = [("base", 14), ("env", 20)] ∧
    abs (ovRun.get!).2.1.1 14 = abs (ovRun.get!).1.1 4 ∧ abs (ovRun.get!).2.1.1 20 = abs (ovRun.get!).1.1 6 ∧
    (∀ b ∈ reach (ovRun.get!).2.1.1 14 ++ reach (ovRun.get!).2.1.1 20, 10 ≤ b) ∧
    -- the later Put changes the layer, not the snapshot
    abs (ovRun.get!).2.2.1 14 = abs (ovRun.get!).2.1.1 14 ∧
    abs (ovRun.get!).2.2.1 4 ≠ abs (ovRun.get!).2.1.1 4 ∧
    ovLookupH (ovRun.get!).2.2.1 (ovRun.get!).2.2.2 "base" ["a", "z"] = some 1 := by
  decide +kernel

/-! ### The domain boundary of the heap-level `Put` for container values

  `heap_put_shares` / `heap_layers_isolated` / `heap_overlay_writes_own_layer` speak about calls for which
  `putH` answers `some …`; they carry no "no list" hypothesis of their own.  The restriction sits in the
  DEFINITION: `putH` flattens a container value with `flattenF`, which has no case for list cells, and
  stores with the plain-name `Heap.addValue`, whereas the Go code (`Flatten` names list items `k[i]`,
  the recursive `Put(l, path.k[i], leaf)` goes through `ensurePath` / `AddValue` with index groups)
  needs `flattenList` and `HeapBuilder.addH` / `ensureList`.  The two theorems below state the boundary
  exactly: a defined `Put` of a container value has seen no list, and a container value holding a list
  at ANY depth is mapped to `none` for every overlay, layer and path (the harness skips those steps). -/

/-- a `Put` of a container value that the heap model answers has no list cell anywhere below the value -/
theorem heap_put_container_defined_list_free (h h' : Heap) (s s' : HOverlay) (l : String) (comps : List String)
    (v : Addr) (kvs : AMap Addr) (hv : h.get? v = some (.cont kvs)) (he : putH h s l comps v = some (h', s')) :
    ∀ b, Reach h v b → ∀ ys, h.get? b ≠ some (.list ys) :=
  putH_cont_some_list_free hv he

/-- … and a container value that holds a list is outside the model: `none`, whatever else is given -/
theorem heap_put_container_list_outside_model (h : Heap) (s : HOverlay) (l : String) (comps : List String)
    (v b : Addr) (kvs : AMap Addr) (ys : List Addr) (hv : h.get? v = some (.cont kvs)) (hvb : Reach h v b)
    (hb : h.get? b = some (.list ys)) : putH h s l comps v = none :=
  putH_cont_list_none s l comps hv hvb hb

/-- `ovHeapL`: 0 nilLeaf · 1 leaf "v" · 2 list [#1] · 3 {x: #2}: `Put` of the LIST #2 is modelled (the list
    itself is stored), `Put` of the container #3 that holds it is not -/
def ovHeapL : Heap := ⟨[.leaf Scalar.null, .leaf ⟨"string", "v"⟩, .list [1], .cont [("x", 2)]]⟩

theorem nonvacuous_heap_put_boundary :
    (putH ovHeapL [] "base" ["a"] 2).isSome = true ∧
    ((putH ovHeapL [] "base" ["a"] 2).bind fun r => ovLookupH r.1 r.2 "base" ["a"]) = some 2 ∧
    putH ovHeapL [] "base" ["a"] 3 = none ∧ putH ovHeapL [] "base" [] 3 = none := by
  decide +kernel

end heap

end Ytk.C06

/-! ## gap7a: "later layers win" made explicit (C06 × C04) -/
namespace Ytk.C06
open Ytk.Overlay

/-- the merged view after one more layer is the merge of the merged view so far with that layer -/
theorem merged_snoc (o : ListStrategy) (s : Overlay) (l : String) (c : AMap Node) :
    merged o (s ++ [(l, c)]) = mergeC o (merged o s) c := by
  simp [merged, mergeAll, mergeC, List.foldl_append]

/-- the merged view of a single layer is that layer -/
theorem merged_single (o : ListStrategy) (l : String) (c : AMap Node) (hc : (Node.cont c).WF) :
    merged o [(l, c)] = c := by
  simp only [merged, mergeAll, List.map_cons, List.map_nil, List.foldl_cons, List.foldl_nil]
  exact mergeKvs_nil_left o hc.sorted

/-- LAST WINS, at a member: when the LAST layer holds a non-null scalar or a value of another kind
    than the merged view of the earlier layers at member `k` (anything but container-on-container and
    list-on-list, which merge), the merged view holds the last layer's value there — whatever any
    earlier layer says; a null in the last layer lets the earlier value through; a member the last
    layer lacks is what the earlier layers give. -/
theorem merged_last_wins (o : ListStrategy) (s : Overlay) (l k : String) (c : AMap Node) (hc : AMap.Sorted c) :
    (∀ v, AMap.get? c k = some v → hasValue v = true →
      (∀ x, AMap.get? (merged o s) k = some x → ¬ (x.isCont = true ∧ v.isCont = true) ∧ ¬ (x.isList = true ∧ v.isList = true)) →
      AMap.get? (merged o (s ++ [(l, c)])) k = some v) ∧
    (∀ x, AMap.get? c k = some Node.null → AMap.get? (merged o s) k = some x → hasValue x = true →
      AMap.get? (merged o (s ++ [(l, c)])) k = some x) ∧
    (AMap.get? c k = none → AMap.get? (merged o (s ++ [(l, c)])) k = AMap.get? (merged o s) k) := by
  rw [merged_snoc, mergeC]
  refine ⟨fun v hv hval hk => ?_, fun x hn hx hval => ?_, fun hn => ?_⟩
  · rw [get?_mergeKvs o _ c (keys_nodup_of_sorted hc), hv]
    cases hx : AMap.get? (merged o s) k with
    | none => rfl
    | some x =>
      obtain ⟨h1, h2⟩ := hk x hx
      simp only [mergeEntry]
      rw [mergeNode_other o x v h1 h2, coalesce_eq, if_pos hval]
  · rw [get?_mergeKvs o _ c (keys_nodup_of_sorted hc), hn, hx]
    simp only [mergeEntry]
    have h1 : ¬ (x.isCont = true ∧ Node.null.isCont = true) := by simp [Node.null, Node.isCont]
    have h2 : ¬ (x.isList = true ∧ Node.null.isList = true) := by simp [Node.null, Node.isList]
    rw [mergeNode_other o x Node.null h1 h2, coalesce_eq]
    have : hasValue Node.null = false := (hasValue_false_iff _).mpr rfl
    simp [this, hval]
  · rw [get?_mergeKvs o _ c (keys_nodup_of_sorted hc), hn]
    cases AMap.get? (merged o s) k <;> rfl

/-- non-vacuity on `exState`: `top` overrides `base` at `a.b`, `env`'s null lets it through -/
theorem nonvacuous_last_wins :
    Ytk.lookup (merged .meld (exState.take 2)) "a.b" = some (i "2") ∧
    Ytk.lookup (merged .meld exState) "a.b" = some (i "2") ∧
    Ytk.lookup (merged .meld exState) "a.c" = some (i "4") := by
  decide +kernel

end Ytk.C06

/-! ## xlate7d: the REGENERATED translation of dom/overlay.go's walkers and lookups (Generated/FuncsDom.lean)

  `walkNode / walkList / walkContainer` (the code behind `Walk`), `Lookup`, `LookupAny` are rewritten from the Go source on
  every run.  The visitor is a PARAMETER of the translation, in the monad `Go.Res` (it may panic); the model's walkers
  carry a visitor with state σ.  Instantiating σ with "the first abnormal outcome of the visitor"
  (`FuncsDomOverlay.liftV`) the two are EQUAL for every visitor — which pins down the set of visited leaves, their order
  and the early exit (a visitor that would panic on a leaf behind the one where it returned false is not reached). -/
namespace Ytk.C06
open Ytk.Generated Ytk.FuncsDomOverlay

theorem walkContainer_generated_eq_model (g : String → String → Scalar → Go.Res Bool) (layer path : String) (c : AMap Node) :
    FuncsDom.walkContainer layer path c (fnOf g) = outcome (Overlay.walkKvs (liftV g) layer c path (.ok ())) :=
  FuncsDomOverlay.walkContainer_generated_eq_model g layer path c

theorem walkList_generated_eq_model (g : String → String → Scalar → Go.Res Bool) (layer path : String) (l : List Node) :
    FuncsDom.walkList layer path l (fnOf g) = outcome (Overlay.walkList (liftV g) layer l path 0 (.ok ())) :=
  FuncsDomOverlay.walkList_generated_eq_model g layer path l

theorem walkNode_generated_eq_model (g : String → String → Scalar → Go.Res Bool) (layer path : String) (parent n : Node) :
    FuncsDom.walkNode layer path parent n (fnOf g) = outcome (Overlay.walkNode (liftV g) layer n path (.ok ())) :=
  FuncsDomOverlay.walkNode_generated_eq_model g layer path parent n

/-- Lookup(overlay, path) over the Go state `names` + `overlays` representing the model's layer list `s` -/
theorem overlayLookup_generated_eq_model (s : Overlay) (ov : GoDom.ContMap) (hr : Rep s ov) (l path : String) :
    FuncsDom.overlayLookup (Overlay.layerNames s) ov l path = .ok (Overlay.lookup s l path) :=
  FuncsDomOverlay.overlayLookup_generated_eq_model s ov hr l path

/-- LookupAny(path): the first layer in creation order with a hit -/
theorem overlayLookupAny_generated_eq_model (s : Overlay) (ov : GoDom.ContMap) (hr : Rep s ov) (path : String) :
    FuncsDom.overlayLookupAny (Overlay.layerNames s) ov path = .ok (Overlay.lookupAny s path) :=
  FuncsDomOverlay.overlayLookupAny_generated_eq_model s ov hr path

/-- the translated walkers RUN with a visitor that stops at `b` and would PANIC on `c`: the early exit is taken
    (`ok false`); with a visitor that accepts `b` the panic is reached -/
theorem nonvacuous_walk_generated :
    FuncsDom.walkContainer "L" "" [("a", .list [.leaf ⟨"int", "1"⟩]), ("b", .leaf ⟨"int", "2"⟩), ("c", .leaf ⟨"int", "3"⟩)]
        (fnOf (fun _ p _ => if p == "b" then .ok false else if p == "c" then .panic else .ok true)) = .ok false ∧
    FuncsDom.walkContainer "L" "" [("a", .list [.leaf ⟨"int", "1"⟩]), ("b", .leaf ⟨"int", "2"⟩), ("c", .leaf ⟨"int", "3"⟩)]
        (fnOf (fun _ p _ => if p == "c" then .panic else .ok true)) = .panic ∧
    FuncsDom.overlayLookupAny ["x", "y"] [("x", [("k", .leaf ⟨"int", "1"⟩)]), ("y", [("k", .leaf ⟨"int", "2"⟩), ("m", .leaf ⟨"int", "3"⟩)])] "m"
      = .ok (some (.leaf ⟨"int", "3"⟩)) := by
  decide +kernel

/-- merger.mergeOverlay — what `Merged()` runs: the fold of the translated `mergeContainers` over the layers in `names`
    order.  Over the Go state (`names`, `overlays`) of an overlay document with distinct layer names and well-formed
    layers it is the model's `merged`, for every list strategy `f` that meets its contract on lists of size ≤ M -/
theorem mergeOverlay_generated_eq_model (o : ListStrategy) (f : List Node → List Node → Go.Res (List Node)) (M : Nat)
    (hf : FuncsDomMerge.ListFnOk o f M) (s : Overlay) (ov : GoDom.ContMap) (hr : Rep s ov)
    (hnd : (Overlay.layerNames s).Nodup) (hw : ∀ p ∈ s, (Node.cont p.2).WF ∧ Node.sizeKvs p.2 ≤ M) :
    FuncsDom.mergeOverlay f (some ⟨Overlay.layerNames s, ov⟩) = .ok (Overlay.merged o s) :=
  FuncsDomOverlay.mergeOverlay_generated_eq_model o f M hf s ov hr hnd hw

/-- `Merged(ListsMergeAppend())`: the list strategy is the translated `mergeListsAppend`; no size bound is left -/
theorem merged_append_generated_eq_model (s : Overlay) (ov : GoDom.ContMap) (hr : Rep s ov)
    (hnd : (Overlay.layerNames s).Nodup) (hw : ∀ p ∈ s, (Node.cont p.2).WF) :
    FuncsDom.mergeOverlay FuncsDom.mergeListsAppend (some ⟨Overlay.layerNames s, ov⟩) = .ok (Overlay.merged .append s) := by
  obtain ⟨M, hM⟩ : ∃ M, ∀ p ∈ s, Node.sizeKvs p.2 ≤ M := by
    clear hr hnd hw
    induction s with
    | nil => exact ⟨0, by intro p hp; cases hp⟩
    | cons q rest ih =>
      obtain ⟨M, hM⟩ := ih
      refine ⟨max M (Node.sizeKvs q.2), ?_⟩
      intro p hp
      rcases List.mem_cons.mp hp with rfl | hp
      · exact Nat.le_max_right ..
      · exact Nat.le_trans (hM p hp) (Nat.le_max_left ..)
  exact FuncsDomOverlay.mergeOverlay_generated_eq_model .append _ M (FuncsDomMerge.listFnOk_append M) s ov hr hnd
    (fun p hp => ⟨hw p hp, hM p hp⟩)

/-- the default `Merged()`: the list strategy is the same merger's translated `mergeListsMeld` (`meldKnot`, unrolled
    as often as the layers are deep) -/
theorem merged_meld_generated_eq_model (M : Nat) (s : Overlay) (ov : GoDom.ContMap) (hr : Rep s ov)
    (hnd : (Overlay.layerNames s).Nodup) (hw : ∀ p ∈ s, (Node.cont p.2).WF ∧ Node.sizeKvs p.2 ≤ M) :
    FuncsDom.mergeOverlay (FuncsDomMerge.meldKnot M) (some ⟨Overlay.layerNames s, ov⟩) = .ok (Overlay.merged .meld s) :=
  FuncsDomOverlay.mergeOverlay_generated_eq_model .meld _ M (FuncsDomMerge.listFnOk_meld M) s ov hr hnd hw

/-- merger.mergeLists is the call of the strategy field -/
theorem mergeLists_generated_eq_model (f : List Node → List Node → Go.Res (List Node)) (a b : List Node) :
    FuncsDom.mergeLists f a b = f a b := by
  unfold FuncsDom.mergeLists
  cases f a b <;> rfl

/-- the translated `mergeOverlay` RUN on two layers (created in the order top, base): later layers win, lists append -/
theorem nonvacuous_mergeOverlay_generated :
    FuncsDom.mergeOverlay FuncsDom.mergeListsAppend
        (some ⟨["top", "base"], [("base", [("a", .leaf ⟨"int", "1"⟩), ("l", .list [.leaf ⟨"int", "9"⟩])]),
                                  ("top", [("a", .leaf ⟨"int", "2"⟩), ("b", .leaf ⟨"int", "3"⟩), ("l", .list [.leaf ⟨"int", "8"⟩])])]⟩)
      = .ok [("a", .leaf ⟨"int", "1"⟩), ("b", .leaf ⟨"int", "3"⟩), ("l", .list [.leaf ⟨"int", "8"⟩, .leaf ⟨"int", "9"⟩])] ∧
    FuncsDom.mergeOverlay FuncsDom.mergeListsAppend (some ⟨["ghost"], []⟩) = .panic ∧
    FuncsDom.mergeOverlay FuncsDom.mergeListsAppend none = .panic := by
  decide +kernel

end Ytk.C06
