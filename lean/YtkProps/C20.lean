/-
  C20 — Reading a document never writes to it: concurrent readers are race-free.

  `Generated.effectTable` is rewritten from /repo/{utils,dom,diff,patch} on every run: for every
  function its direct write roots and its call edges (callee, root mapping); `Generated.readApi`
  lists, for every read method of DESIGN §6 C20, every implementation in package dom.  The theorems
  below are re-checked against those tables by `lake build`, so a write to the receiver on a read
  path (e.g. the lazy `ensureChildren` of D25) breaks `readApi_writeFree`.

  Assumptions carried by the extractor (trusted, validated dynamically by the fingerprint and race
  harness): syntactic points-to rules, allow-list of external calls, caller-supplied function
  values (search predicate, overlay visitor, encoder / mapping functions, merge options) do not
  write the document, all `dom.Node` implementations are the package's own.  A list merge function
  that the analysed packages themselves hand to an option constructor (`ListsMergeAppend` passes
  `mergeListsAppend` to `ListsMergeFunc`, which stores it in `merger.listMergeFn`) is NOT treated as
  caller-supplied: the call through the field fans out to it, so a write through one of its list
  arguments (e.g. an `append` into the first list's backing array) is charged to `Merged`.
-/
import YtkProofs.Effects
import YtkModel.Generated.Effects

namespace Ytk.C20
open Ytk.EffectT Ytk.Effects Ytk.Generated

/-- the read API of the property (interface.method); every one must be present in `readApi` -/
def requiredReadMethods : List String :=
  ["Container.Child", "Container.Children", "Container.Lookup", "Container.Flatten", "Container.Search",
   "Container.AsMap", "List.AsSlice", "Node.Equals", "Node.SameAs", "Node.Clone", "Container.Serialize",
   "List.Items", "List.Size", "Leaf.Value",
   "OverlayDocument.Lookup", "OverlayDocument.LookupAny", "OverlayDocument.Search", "OverlayDocument.Merged",
   "OverlayDocument.Layers", "OverlayDocument.LayerNames", "OverlayDocument.Walk", "OverlayDocument.Serialize"]

/-- every read method of the property has at least one analysed implementation, and every entry
    points into the table -/
theorem readApi_complete :
    (∀ m ∈ requiredReadMethods, m ∈ readApi.map (·.1)) ∧ (∀ e ∈ readApi, e.2 < effectTable.length) := by
  decide +kernel

/-- every call edge points into the table -/
theorem table_wellFormed : ∀ f ∈ effectTable, ∀ e ∈ f.calls, e.callee < effectTable.length := by
  decide +kernel

/-- The computed summary is a fixpoint of `step` (the fuel sufficed) … -/
theorem fixpoint_reached : step effectTable (writesAll effectTable) = writesAll effectTable := by
  decide +kernel

/-- … and it is closed: it contains every direct write and is preserved along every call edge. -/
theorem summary_closed : Closed effectTable (writesAll effectTable) := by
  decide +kernel

/-- No function of the read API writes — directly or through any chain of calls, interface calls
    fanned out to every implementation — through its receiver or any of its parameters, at any depth.
    (Roots below 1000 are receiver/parameter roots.) -/
theorem readApi_writeFree :
    ∀ e ∈ readApi, ∀ r ∈ writesOf effectTable e.2, isGlobal r = true := by
  decide +kernel

/-- Nor through any package variable — except that `Merged` (and overlay `Serialize`, which calls
    it) runs the merge options `defOpts` / `opts...`, function values the extractor does not
    resolve: the conservative rule charges such a call with a write to the *unknown* global
    (roots 1000–1002) and to its arguments, which here is the freshly allocated `merger`.
    Full statement (not proved): `∀ e ∈ readApi, writesOf effectTable e.2 = []`. -/
theorem readApi_globalFree_partial :
    ∀ e ∈ readApi, e.1 ≠ "OverlayDocument.Merged" → e.1 ≠ "OverlayDocument.Serialize" →
      writesOf effectTable e.2 = [] := by
  decide +kernel

/-- what remains for the two excluded methods is only the unknown-global charge -/
theorem merged_only_unknown_global :
    ∀ e ∈ readApi, ∀ r ∈ writesOf effectTable e.2, r = 1000 ∨ r = 1001 ∨ r = 1002 := by
  decide +kernel

/-- Composition: if every function's own writes are within its direct summary, the writes of ANY
    call tree (any depth, any branching) are within the closed summary of its root function. -/
theorem summary_sound_composition (tbl : List FnSummary) (W : State) (hc : Closed tbl W)
    (run : Run) (h : run.Conforms tbl) : ∀ r ∈ run.writes, r ∈ W.getD run.fn [] :=
  run_sound tbl W hc run h

/-- hence: no execution of a read API function that follows the extracted table writes through its
    receiver or a parameter -/
theorem readApi_runs_writeFree (e : String × Nat) (he : e ∈ readApi) (run : Run) (hfn : run.fn = e.2)
    (h : run.Conforms effectTable) : ∀ r ∈ run.writes, isGlobal r = true := by
  intro r hr
  have := run_sound effectTable (writesAll effectTable) summary_closed run h r hr
  rw [hfn] at this
  exact readApi_writeFree e he r this

/-- Threads that only read have no data race: any number of threads. -/
theorem no_race_of_readOnly (ts : List Thread) (h : ReadOnly ts) : ¬ Race ts :=
  Effects.no_race_of_readOnly ts h

/-- Under every interleaving of read-only threads, every thread observes exactly what it observes
    running alone: all readers see the same content. -/
theorem same_observations (ts : List Thread) (tr : List (Nat × Ev)) (hi : Interleave ts tr)
    (h : ReadOnly ts) (i : Nat) (σ : Store) :
    observe i σ tr = observeAlone σ ((ts[i]?).getD []) :=
  Effects.same_observations ts tr hi h i σ

/-! ### Non-vacuity -/

/-- the pinned tree's shape (D25): `Child` calls `ensureChildren`, which writes the receiver; the
    closure charges `Child` — and `Lookup`, which calls `Child` on something reachable from its receiver -/
def d25Table : List FnSummary :=
  [ { name := "ensureChildren", slots := 1, writes := [0], calls := [], callbacks := [], conservative := [] },
    { name := "Child", slots := 2, writes := [], calls := [{ callee := 0, map := [(0, [0])] }], callbacks := [], conservative := [] },
    { name := "Lookup", slots := 2, writes := [], calls := [{ callee := 1, map := [(0, [0, 1, 2])] }], callbacks := [], conservative := [] } ]

theorem nonvacuous_d25_detected :
    writesOf d25Table 1 = [0] ∧ writesOf d25Table 2 = [0, 1, 2] ∧ Closed d25Table (writesAll d25Table) := by
  decide +kernel

/-- a writer function of the real table is charged (the summary is not trivially empty) -/
theorem nonvacuous_writer_charged :
    ∃ i ∈ List.range effectTable.length,
      (effectTable.getD i default).name = "dom.(*containerBuilderImpl).AddValue" ∧ 0 ∈ writesOf effectTable i := by
  decide +kernel

/-- a race exists as soon as one thread writes what another reads -/
theorem nonvacuous_race : Race [[.rd 1], [.wr 1 5]] :=
  ⟨0, 1, .rd 1, .wr 1 5, [.rd 1], [.wr 1 5], by decide, rfl, rfl, by simp, by simp, rfl, Or.inr rfl⟩

/-- … and then observations do depend on the schedule -/
theorem nonvacuous_schedule_matters :
    observe 0 (fun _ => 0) [(0, .rd 1), (1, .wr 1 5)] ≠ observe 0 (fun _ => 0) [(1, .wr 1 5), (0, .rd 1)] := by
  decide

theorem nonvacuous_interleaving :
    Interleave [[.rd 1, .rd 2], [.rd 1]] [(0, .rd 1), (1, .rd 1), (0, .rd 2)] := by
  refine .step _ 0 (.rd 1) [.rd 2] _ rfl (.step _ 1 (.rd 1) [] _ rfl (.step _ 0 (.rd 2) [] _ rfl (.done _ ?_)))
  intro t ht
  simp at ht
  exact ht

end Ytk.C20
