/-
  C20 — Reading a document never writes to it: concurrent readers are race-free.

  `Generated.effectTable` is rewritten from /repo/{utils,dom,diff,patch} on every run: for every
  function its direct write roots and its call edges (callee, root mapping); `Generated.readApi`
  lists, for every read method of DESIGN §6 C20, every implementation in package dom.  The theorems
  below are re-checked against those tables by `lake build`, so a write to the receiver on a read
  path (e.g. the lazy `ensureChildren` of D25) breaks `readApi_writeFree`.

  Assumptions carried by the extractor (trusted, validated dynamically by the fingerprint and race
  harness): syntactic points-to rules, allow-list of external calls, caller-supplied function
  values (search predicate, overlay visitor, encoder / mapping functions, list-merge function) do not
  write the document, all `dom.Node` implementations are the package's own.  A list merge function
  that the analysed packages themselves hand to an option constructor (`ListsMergeAppend` passes
  `mergeListsAppend` to `ListsMergeFunc`, which stores it in `merger.listMergeFn`) is NOT treated as
  caller-supplied: the call through the field fans out to it, so a write through one of its list
  arguments (e.g. an `append` into the first list's backing array) is charged to `Merged`.

  Merge options are NOT assumed anything about — they are resolved:
  * the default options `for _, opt := range defOpts { opt(mg) }` of `merger.init`: `defOpts` is an
    unexported package-level variable whose initializer `[]MergeOption{defaultListMerger()}` is
    enumerable (a literal returned by a package function) and that no file of the package assigns,
    appends to, stores into or takes the address of; the call fans out to that literal
    (`dom.defaultListMerger$1`, a table entry of its own).  The table records this in `pkgVars`
    (`resolved`, `fnValues`, `writers`), and `resolvedVars_neverWritten` checks that, over the whole
    table, nothing writes the variable — not even through an alias, which the syntactic scan would miss;
  * the caller's options `for _, opt := range opts { opt(mg) }`: `MergeOption = func(*merger)` mentions
    the unexported type `merger`, so no other package can write a function of that type; the call fans
    out to every function literal / function of that type in the analysed packages
    (`dom.defaultListMerger$1`, `dom.ListsMergeFunc$1`).  (Trusted: nobody forges a `MergeOption` by
    reflection or by instantiating generic code of their own with the inferred type.)
  THE ONE ASSUMPTION left for `Merged` / `Merge` is therefore the function a caller hands to
  `ListsMergeFunc(fn)`: `fn` is called through `merger.listMergeFn` (callback "field:listMergeFn") and
  is assumed not to write — `merged_callbacks_only_listMergeFn`.
-/
import YtkProofs.Effects
import YtkModel.Generated.Effects
import YtkModel.GapThreads

namespace Ytk.C20
open Ytk.EffectT Ytk.Effects Ytk.Generated

/-- the read API of the property (interface.method); every one must be present in `readApi` -/
def requiredReadMethods : List String :=
  ["Container.Child", "Container.Children", "Container.Lookup", "Container.Flatten", "Container.Search",
   "Container.AsMap", "List.AsSlice", "Node.Equals", "Node.SameAs", "Node.Clone", "Container.Serialize",
   "List.Items", "List.Size", "Leaf.Value",
   "OverlayDocument.Lookup", "OverlayDocument.LookupAny", "OverlayDocument.Search", "OverlayDocument.Merged",
   "OverlayDocument.Layers", "OverlayDocument.LayerNames", "OverlayDocument.Walk", "OverlayDocument.Serialize"]

/-- every read method of the property has at least one analysed implementation, and every entry
    points into the table -/
theorem readApi_complete :
    (∀ m ∈ requiredReadMethods, m ∈ readApi.map (·.1)) ∧ (∀ e ∈ readApi, e.2 < effectTable.length) := by
  decide +kernel

/-- every call edge points into the table -/
theorem table_wellFormed : ∀ f ∈ effectTable, ∀ e ∈ f.calls, e.callee < effectTable.length := by
  decide +kernel

/-- The computed summary is a fixpoint of `step` (the fuel sufficed) … -/
theorem fixpoint_reached : step effectTable (writesAll effectTable) = writesAll effectTable := by
  decide +kernel

/-- … and it is closed: it contains every direct write and is preserved along every call edge. -/
theorem summary_closed : Closed effectTable (writesAll effectTable) := by
  decide +kernel

/-- No function of the read API writes — directly or through any chain of calls, interface calls
    fanned out to every implementation — through its receiver or any of its parameters, at any depth.
    (Roots below 1000 are receiver/parameter roots.) -/
theorem readApi_writeFree :
    ∀ e ∈ readApi, ∀ r ∈ writesOf effectTable e.2, isGlobal r = true := by
  decide +kernel

/-- Nor through any package variable, nor through the unknown global (roots 1000–1002) that every call of an
    unknown callee is charged with: the closed write summary of EVERY read API function is empty — `Merged`
    and overlay `Serialize` (which calls it) included, with the default options and with whatever options the
    package's constructors (`ListsMergeAppend`, `ListsMergeFunc`) produce.  The same for `auxApi`
    (`ContainerBuilder.Merge`, below). -/
theorem readApi_globalFree : ∀ e ∈ readApi ++ auxApi, writesOf effectTable e.2 = [] := by
  decide +kernel

/-- `ContainerBuilder.Merge(other, opts...)` is not a method of the read interfaces, but it must not write
    either (it builds a new container): every implementation is in the table … -/
theorem auxApi_complete :
    (∀ m ∈ ["ContainerBuilder.Merge"], m ∈ auxApi.map (·.1)) ∧ (∀ e ∈ auxApi, e.2 < effectTable.length) := by
  decide +kernel

/-- … and writes nothing: not its receiver, not `other`, not the options, no package variable, no unknown global. -/
theorem merge_writeFree : ∀ e ∈ auxApi, writesOf effectTable e.2 = [] :=
  fun e he => readApi_globalFree e (List.mem_append_right _ he)

/-! #### What is behind an entry point: reachable functions -/

/-- The computed reachability is a fixpoint (the fuel sufficed) … -/
theorem reach_fixpoint : reachStep effectTable (reachAll effectTable) = reachAll effectTable := by
  decide +kernel

/-- … and closed: every function reaches itself and everything the callee of any of its call edges reaches. -/
theorem reach_closed : ReachClosed effectTable (reachAll effectTable) := by
  decide +kernel

/-- No function behind the read API (or `Merge`) calls an UNKNOWN callee: no function value the extractor could
    not enumerate, no un-allow-listed call leaving the analysed packages, no body-less function. -/
theorem readApi_noUnknownCallee :
    ∀ e ∈ readApi ++ auxApi, ∀ j ∈ reachOf effectTable e.2, (effectTable.getD j default).unknownCalls = [] := by
  decide +kernel

/-- (the extractor's rule, checked on the table: a function with an unknown call is charged with the unknown
    global, so `readApi_globalFree` alone already excludes one) -/
theorem unknownCalls_charged : ∀ f ∈ effectTable, f.unknownCalls ≠ [] → 1000 ∈ f.writes := by
  decide +kernel

/-- The caller-supplied function values that ARE called behind the read API, and assumed not to write — the
    complete list, as (function, callback): a number is the parameter slot of that function. -/
def assumedCallbacks : List (String × String) :=
  [("dom.(*containerImpl).Search", "1"),          -- the search predicate
   ("dom.(*containerImpl).Serialize", "2"),       -- the encoder
   ("dom.(*containerImpl).Serialize", "3"),       -- the node mapping function
   ("dom.(*overlayDocument).Serialize", "2"),
   ("dom.(*overlayDocument).Serialize", "3"),
   ("dom.walkNode", "5"),                          -- the overlay visitor (the property's "read-only visitor")
   ("dom.(*merger).mergeContainers", "field:listMergeFn"),   -- ListsMergeFunc(fn)'s fn
   ("dom.(*merger).mergeListsMeld", "field:listMergeFn")]

theorem readApi_callbacks_listed :
    ∀ e ∈ readApi ++ auxApi, ∀ j ∈ reachOf effectTable e.2, ∀ c ∈ (effectTable.getD j default).callbacks,
      ((effectTable.getD j default).name, c) ∈ assumedCallbacks := by
  decide +kernel

/-- For `OverlayDocument.Merged` and `ContainerBuilder.Merge` the ONLY function value called that is not
    resolved to functions of the table is the list-merge function a caller passed to `ListsMergeFunc`
    (stored in, and called through, `merger.listMergeFn`).  The merge options themselves — `defOpts` and the
    caller's `opts...` — are resolved: no callback entry for them, no unknown call (`readApi_noUnknownCallee`). -/
theorem merged_callbacks_only_listMergeFn :
    ∀ e ∈ readApi ++ auxApi, e.1 = "OverlayDocument.Merged" ∨ e.1 = "ContainerBuilder.Merge" →
      ∀ j ∈ reachOf effectTable e.2, ∀ c ∈ (effectTable.getD j default).callbacks, c = "field:listMergeFn" := by
  decide +kernel

/-! #### Package-level variables (`pkgVars`: the syntactic scan of every file of the analysed packages) -/

/-- `pkgVars` lists exactly the variables behind the global roots (global 0 is the unknown global), and its
    function indices point into the table. -/
theorem pkgVars_wellFormed :
    globalNames.length = pkgVars.length + 1 ∧
    ∀ v ∈ pkgVars, globalNames[v.global]? = some v.name ∧ v.global ≠ 0 ∧
      (∀ j ∈ v.writers, j < effectTable.length) ∧ (∀ j ∈ v.fnValues, j < effectTable.length) := by
  decide +kernel

/-- No function behind the read API (or `Merge`) contains an assignment to a package-level variable, a store
    into or through one, an `append` to one, or takes the address of one — independently of the points-to
    analysis (a memo map filled by `Child` is caught here and by `readApi_globalFree`). -/
theorem readApi_noPkgVarWriter :
    ∀ e ∈ readApi ++ auxApi, ∀ j ∈ reachOf effectTable e.2, ∀ v ∈ pkgVars, j ∉ v.writers := by
  decide +kernel

/-- Every variable whose contents the extractor relied on (calls of function values read from it were resolved
    to its initializer's functions) is unexported, initialised, has NO syntactic writer anywhere, and NO function
    of the whole table writes it or anything reachable from it in its closed summary — which also covers a
    write through an alias (`x := defOpts; x[0] = f`) or by a callee that was handed the variable. -/
theorem resolvedVars_neverWritten :
    ∀ v ∈ pkgVars, v.resolved = true →
      v.exported = false ∧ v.hasInit = true ∧ v.writers = [] ∧ v.initWritten = false ∧
      ∀ i ∈ List.range effectTable.length, ∀ r ∈ writesOf effectTable i, rootGlobal r ≠ some v.global := by
  decide +kernel

/-- Composition: if every function's own writes are within its direct summary, the writes of ANY
    call tree (any depth, any branching) are within the closed summary of its root function. -/
theorem summary_sound_composition (tbl : List FnSummary) (W : State) (hc : Closed tbl W)
    (run : Run) (h : run.Conforms tbl) : ∀ r ∈ run.writes, r ∈ W.getD run.fn [] :=
  run_sound tbl W hc run h

/-- hence: no execution of a read API function that follows the extracted table writes through its
    receiver or a parameter -/
theorem readApi_runs_writeFree (e : String × Nat) (he : e ∈ readApi) (run : Run) (hfn : run.fn = e.2)
    (h : run.Conforms effectTable) : ∀ r ∈ run.writes, isGlobal r = true := by
  intro r hr
  have := run_sound effectTable (writesAll effectTable) summary_closed run h r hr
  rw [hfn] at this
  exact readApi_writeFree e he r this

/-- … nor through a package variable or the unknown global: such an execution writes NOTHING the analysis can
    name, it executes no function with an unknown call, and no function that syntactically writes a
    package-level variable. -/
theorem readApi_runs_globalFree (e : String × Nat) (he : e ∈ readApi ++ auxApi) (run : Run) (hfn : run.fn = e.2)
    (h : run.Conforms effectTable) :
    run.writes = [] ∧
    ∀ j ∈ run.fns, (effectTable.getD j default).unknownCalls = [] ∧ ∀ v ∈ pkgVars, j ∉ v.writers := by
  refine ⟨?_, ?_⟩
  · apply List.eq_nil_iff_forall_not_mem.mpr
    intro r hr
    have := run_sound effectTable (writesAll effectTable) summary_closed run h r hr
    rw [hfn] at this
    have hnil : writesOf effectTable e.2 = [] := readApi_globalFree e he
    simp only [writesOf] at hnil
    rw [hnil] at this
    cases this
  · intro j hj
    have := run_fns_reach effectTable reach_closed run h j hj
    rw [hfn] at this
    exact ⟨readApi_noUnknownCallee e he j this, readApi_noPkgVarWriter e he j this⟩

/-- Threads that only read have no data race: any number of threads. -/
theorem no_race_of_readOnly (ts : List Thread) (h : ReadOnly ts) : ¬ Race ts :=
  Effects.no_race_of_readOnly ts h

/-- Under every interleaving of read-only threads, every thread observes exactly what it observes
    running alone: all readers see the same content. -/
theorem same_observations (ts : List Thread) (tr : List (Nat × Ev)) (hi : Interleave ts tr)
    (h : ReadOnly ts) (i : Nat) (σ : Store) :
    observe i σ tr = observeAlone σ ((ts[i]?).getD []) :=
  Effects.same_observations ts tr hi h i σ

/-! ### Non-vacuity -/

/-- the pinned tree's shape (D25): `Child` calls `ensureChildren`, which writes the receiver; the
    closure charges `Child` — and `Lookup`, which calls `Child` on something reachable from its receiver -/
def d25Table : List FnSummary :=
  [ { name := "ensureChildren", slots := 1, writes := [0], calls := [], callbacks := [], conservative := [] },
    { name := "Child", slots := 2, writes := [], calls := [{ callee := 0, map := [(0, [0])] }], callbacks := [], conservative := [] },
    { name := "Lookup", slots := 2, writes := [], calls := [{ callee := 1, map := [(0, [0, 1, 2])] }], callbacks := [], conservative := [] } ]

theorem nonvacuous_d25_detected :
    writesOf d25Table 1 = [0] ∧ writesOf d25Table 2 = [0, 1, 2] ∧ Closed d25Table (writesAll d25Table) := by
  decide +kernel

/-- a writer function of the real table is charged (the summary is not trivially empty) -/
theorem nonvacuous_writer_charged :
    ∃ i ∈ List.range effectTable.length,
      (effectTable.getD i default).name = "dom.(*containerBuilderImpl).AddValue" ∧ 0 ∈ writesOf effectTable i := by
  decide +kernel

/-- the default merge options ARE resolved: `defOpts` is a resolved variable with at least one function value,
    `merger.init` has a call edge to each of them, and `init` is behind `Merged` and behind `Merge` -/
theorem nonvacuous_defOpts_resolved :
    ∃ v ∈ pkgVars, v.name = "dom.defOpts" ∧ v.resolved = true ∧ v.fnValues ≠ [] ∧
      ∃ i ∈ List.range effectTable.length, (effectTable.getD i default).name = "dom.(*merger).init" ∧
        (∀ j ∈ v.fnValues, j ∈ (effectTable.getD i default).calls.map (·.callee)) ∧
        ∀ e ∈ readApi ++ auxApi, e.1 = "OverlayDocument.Merged" ∨ e.1 = "ContainerBuilder.Merge" →
          i ∈ reachOf effectTable e.2 := by
  decide +kernel

/-- the shape of a memo cache (seeded change C20-4): `Child` stores into package variable 1 (root 1004 = what the
    variable refers to); `Lookup` calls `Child`.  Both clauses see it: the closed summary charges the global
    root to `Lookup`, and `Child`, a syntactic writer of the variable, is behind `Lookup`. -/
def memoTable : List FnSummary :=
  [ { name := "Child", slots := 2, writes := [1004], calls := [], callbacks := [], conservative := [] },
    { name := "Lookup", slots := 2, writes := [], calls := [{ callee := 0, map := [(0, [0, 1, 2])] }], callbacks := [], conservative := [] } ]

def memoVars : List PkgVar :=
  [ { name := "memo", global := 1, exported := false, hasInit := true, writers := [0], writeKinds := ["store"],
      initWritten := false, resolved := false, fnValues := [] } ]

theorem nonvacuous_memo_detected :
    writesOf memoTable 1 = [1004] ∧ rootGlobal 1004 = some 1 ∧ reachOf memoTable 1 = [0, 1] ∧
    ReachClosed memoTable (reachAll memoTable) ∧
    ∃ j ∈ reachOf memoTable 1, ∃ v ∈ memoVars, j ∈ v.writers := by
  decide +kernel

/-- unknown calls do occur in the real table (and are charged, `unknownCalls_charged`): the clause
    `readApi_noUnknownCallee` is not about an empty field -/
theorem nonvacuous_unknownCalls : ∃ f ∈ effectTable, f.unknownCalls ≠ [] ∧ 1000 ∈ f.writes := by
  decide +kernel

/-- a race exists as soon as one thread writes what another reads -/
theorem nonvacuous_race : Race [[.rd 1], [.wr 1 5]] :=
  ⟨0, 1, .rd 1, .wr 1 5, [.rd 1], [.wr 1 5], by decide, rfl, rfl, by simp, by simp, rfl, Or.inr rfl⟩

/-- … and then observations do depend on the schedule -/
theorem nonvacuous_schedule_matters :
    observe 0 (fun _ => 0) [(0, .rd 1), (1, .wr 1 5)] ≠ observe 0 (fun _ => 0) [(1, .wr 1 5), (0, .rd 1)] := by
  decide

theorem nonvacuous_interleaving :
    Interleave [[.rd 1, .rd 2], [.rd 1]] [(0, .rd 1), (1, .rd 1), (0, .rd 2)] := by
  refine .step _ 0 (.rd 1) [.rd 2] _ rfl (.step _ 1 (.rd 1) [] _ rfl (.step _ 0 (.rd 2) [] _ rfl (.done _ ?_)))
  intro t ht
  simp at ht
  exact ht

/-! ### round 8 (lean/CLAUSES_B.md, clauses C20.4, C20.5): from "no write on a read path" to "no race"

  The property says: read-only use never modifies the document; THEREFORE any number of goroutines may read
  at the same time without data races and observe the same content.  The two halves were separate theorems
  (`readApi_runs_globalFree` about call trees, `no_race_of_readOnly` / `same_observations` about threads
  that are ASSUMED read-only).  Here they are composed (YtkModel/GapThreads.lean): a goroutine is a
  sequence of calls; each call is a call tree that conforms to the regenerated table, rooted in a function
  of the read API (or `Merge`), together with the memory events performed during it, every write event
  going through a root the call tree writes (`Covered`). -/

/-- what is assumed of one goroutine -/
def ReadApiCalls (ρ : Nat → Root) (cs : List Call) : Prop :=
  ∀ c ∈ cs, (∃ e ∈ readApi ++ auxApi, c.run.fn = e.2) ∧ c.run.Conforms effectTable ∧ Covered ρ c

/-- such a goroutine performs no write event at all -/
theorem readApi_threads_readOnly (ρ : Nat → Root) (tss : List (List Call))
    (h : ∀ cs ∈ tss, ReadApiCalls ρ cs) : ReadOnly (tss.map threadOf) := by
  intro t ht e he
  obtain ⟨cs, hcs, rfl⟩ := List.mem_map.mp ht
  simp only [threadOf, List.mem_flatMap] at he
  obtain ⟨c, hc, hec⟩ := he
  obtain ⟨⟨a, ha, hfn⟩, hconf, hcov⟩ := h cs hcs c hc
  cases hr : e.isRead with
  | true => rfl
  | false =>
    have hw := hcov e hec hr
    rw [(readApi_runs_globalFree a ha c.run hfn hconf).1] at hw
    cases hw

/-- C20.4: ANY number of goroutines, each running ANY sequence of read-API calls on the same document:
    there is no data race -/
theorem readApi_threads_no_race (ρ : Nat → Root) (tss : List (List Call))
    (h : ∀ cs ∈ tss, ReadApiCalls ρ cs) : ¬ Race (tss.map threadOf) :=
  Effects.no_race_of_readOnly _ (readApi_threads_readOnly ρ tss h)

/-- C20.5: … and under EVERY interleaving the scheduler may produce, every goroutine observes exactly
    what it observes when it runs alone on the same store -/
theorem readApi_threads_same_observations (ρ : Nat → Root) (tss : List (List Call))
    (h : ∀ cs ∈ tss, ReadApiCalls ρ cs) (tr : List (Nat × Ev)) (hi : Interleave (tss.map threadOf) tr)
    (i : Nat) (σ : Store) :
    observe i σ tr = observeAlone σ ((((tss.map threadOf))[i]?).getD []) :=
  Effects.same_observations _ tr hi (readApi_threads_readOnly ρ tss h) i σ

/-- the coverage hypothesis is what excludes a writer: a call whose events contain a write is NOT covered
    by a call tree without write roots — so for a function of the read API (whose conforming call trees
    all have `writes = []`) no conforming, covered call can contain a write event -/
theorem covered_excludes_write (ρ : Nat → Root) (c : Call) (hw : c.run.writes = [])
    (e : Ev) (he : e ∈ c.evs) (hwr : e.isRead = false) : ¬ Covered ρ c := by
  intro h
  have := h e he hwr
  rw [hw] at this
  cases this

/-- non-vacuity: two goroutines, each making two calls of the first read-API function of the regenerated
    table (leaf call trees, read events on overlapping locations): the hypotheses hold -/
theorem nonvacuous_readApi_threads :
    let fn := (readApi.headD ("", 0)).2
    let c1 : Call := ⟨.node fn [] [], [.rd 1, .rd 2]⟩
    let c2 : Call := ⟨.node fn [] [], [.rd 2]⟩
    readApi ≠ [] ∧ (∀ cs ∈ [[c1, c2], [c2, c1]], ReadApiCalls (fun _ => 0) cs) ∧
    threadOf [c1, c2] = [.rd 1, .rd 2, .rd 2] := by
  intro fn c1 c2
  have hfn : fn < effectTable.length := by decide +kernel
  have hmem : (readApi.headD ("", 0)) ∈ readApi ++ auxApi := by decide +kernel
  have hc : ∀ c : Call, c = c1 ∨ c = c2 →
      (∃ e ∈ readApi ++ auxApi, c.run.fn = e.2) ∧ c.run.Conforms effectTable ∧ Covered (fun _ => 0) c := by
    intro c hc
    rcases hc with rfl | rfl
    · refine ⟨⟨_, hmem, rfl⟩, ⟨hfn, by simp, trivial⟩, ?_⟩
      intro e he hr
      simp only [c1, List.mem_cons, List.not_mem_nil, or_false] at he
      rcases he with rfl | rfl <;> cases hr
    · refine ⟨⟨_, hmem, rfl⟩, ⟨hfn, by simp, trivial⟩, ?_⟩
      intro e he hr
      simp only [c2, List.mem_cons, List.not_mem_nil, or_false] at he
      rcases he with rfl <;> cases hr
  refine ⟨by decide +kernel, ?_, rfl⟩
  intro cs hcs c hcc
  simp only [List.mem_cons, List.not_mem_nil, or_false] at hcs
  rcases hcs with rfl | rfl
  · simp only [List.mem_cons, List.not_mem_nil, or_false] at hcc
    exact hc c hcc
  · simp only [List.mem_cons, List.not_mem_nil, or_false] at hcc
    exact hc c hcc.symm

end Ytk.C20
