/-
  C01 — Documents pass through the DOM unchanged (lossless load / convert / serialise).

  Plain values are `Val`, DOM nodes are `Node`; `decodeNode` mirrors FromMap /
  DefaultNodeDecoderFn (entries are put with `add`, i.e. AddValue / AddContainer / AddList),
  `encodeNode` mirrors AsMap / AsSlice / DefaultNodeEncoderFn.

  FULL STATEMENT (kept visible):   ∀ v, v.WF → encodeNode (decodeNode v) = v.
  It is FALSE of the code at HEAD for map keys that end in an index group `[digits]`
  (known finding D26, `encode_decode_counterexample` below), so the proved theorem is
  `encode_decode_partial`, with exactly that class excluded (`Val.noIdxKeys`).
  `Val.WF` (keys strictly sorted = a Go map has each key once, order immaterial) is not a
  restriction of the domain, only the canonical representation of a Go map.
-/
import YtkProofs.Codec
import YtkProofs.CodecI

namespace Ytk.C01

/-- AsMap(FromMap(m)) == m : no entry, list item or null is dropped, added, reordered or retyped. -/
theorem encode_decode_partial (v : Val) (hw : v.WF) (hn : Val.noIdxKeys v = true) :
    encodeNode (decodeNode v) = v := encode_decode_aux v hw hn

/-- the same at the root-map level, as the API states it -/
theorem asMap_fromMap_partial (m : List (String × Val)) (hw : (Val.obj m).WF) (hn : Val.noIdxKeys (.obj m) = true) :
    asMap (fromMap m) = m := by
  have := encode_decode_aux (.obj m) hw hn
  simpa [decodeNode, encodeNode, asMap, fromMap] using this

/-- D26: the full statement fails for a key ending in an index group. -/
theorem encode_decode_counterexample :
    encodeNode (decodeNode (.obj [("a[1]", .sc ⟨"int", "1"⟩)])) =
      .obj [("a", .arr [.sc Scalar.null, .sc ⟨"int", "1"⟩])] := by decide

/-- The other direction: every DOM constructible through the API is the image of its plain value. -/
theorem decode_encode (n : Node) (h : n.Valid) : decodeNode (encodeNode n) = n := decode_encode_aux n h

/-- FromMap yields a valid DOM (sorted unique keys, no key ending in an index group) for EVERY
    input, including D26 inputs: the invariant all other properties rely on. -/
theorem decode_valid (v : Val) : (decodeNode v).Valid := decodeNode_valid v

/-- no scalar position is lost or added -/
theorem scalarCount_decode_partial (v : Val) (hw : v.WF) (hn : Val.noIdxKeys v = true) :
    Node.scalarCount (decodeNode v) = Val.scalarCount v := by
  rw [← scalarCount_encode, encode_decode_aux v hw hn]

/-- Loading text fails iff the underlying decoder fails (for every decoder and text) … -/
theorem fromReader_error_iff {T : Type} (dec : T → Except Unit (List (String × Val))) (t : T) :
    (fromReader dec t).isOk = (dec t).isOk := by
  unfold fromReader; cases dec t <;> rfl

/-- … and otherwise yields exactly the DOM of the value the decoder produced, whose AsMap is that value. -/
theorem asMap_fromReader_partial {T : Type} (dec : T → Except Unit (List (String × Val))) (t : T)
    (m : List (String × Val)) (hd : dec t = .ok m) (hw : (Val.obj m).WF) (hn : Val.noIdxKeys (.obj m) = true) :
    (fromReader dec t).map asMap = .ok m := by
  unfold fromReader; rw [hd]
  simp [Except.map, asMap_fromMap_partial m hw hn]

/-- Serialising is the encoder applied to AsMap: two calls on the same document hand the encoder
    the same value (byte identity then rests on the encoder being a function of the value), and
    an encoder that reports a stream failure makes Serialize report it. -/
theorem serialize_deterministic {W R : Type} (enc : W → List (String × Val) → R) (w : W) (d : AMap Node) :
    serialize enc w d = enc w (asMap d) := rfl

theorem serialize_error {W : Type} (enc : W → List (String × Val) → Except Unit Unit) (w : W) (d : AMap Node)
    (hfail : ∀ v, (enc w v).isOk = false) : (serialize enc w d).isOk = false := hfail _

/-- Maps with non-string keys (yaml.v3's `map[interface{}]interface{}`, repaired defect D3): the
    decoder is total (no panic), always yields a valid DOM … -/
theorem decodeI_valid (v : IVal) : (decodeI v).Valid := decodeNode_valid _

/-- … and loses no scalar when, within every map, the stringified keys are pairwise distinct and none
    ends in an index group (`IVal.keysOk`; two keys such as `1` and `"1"` collide and then Go's map
    order decides which survives). -/
theorem decodeI_scalarCount (v : IVal) (h : IVal.keysOk v = true) :
    Node.scalarCount (decodeI v) = IVal.scalarCount v := by
  obtain ⟨hw, hn, hc⟩ := toVal_good v h
  unfold decodeI
  rw [← scalarCount_encode, encode_decode_aux _ hw hn, hc]

/-- non-vacuity: integer and boolean keys, nested in a list -/
def exIVal : IVal := .obj [(⟨"string", "a"⟩, .obj [(⟨"int", "1"⟩, .sc ⟨"string", "x"⟩), (⟨"bool", "true"⟩, .sc Scalar.null)]),
  (⟨"string", "l"⟩, .arr [.obj [(⟨"int", "2"⟩, .sc ⟨"string", "b"⟩)]])]
theorem nonvacuous_keysOk : IVal.keysOk exIVal = true := by decide
theorem nonvacuous_decodeI : encodeNode (decodeI exIVal) =
    .obj [("a", .obj [("1", .sc ⟨"string", "x"⟩), ("true", .sc Scalar.null)]), ("l", .arr [.obj [("2", .sc ⟨"string", "b"⟩)]])] := by
  decide +kernel

/-- non-vacuity: a nested value with nulls inside lists, empty map and empty list satisfies the hypotheses -/
def exVal : Val := .obj [("a", .arr [.sc ⟨"int", "1"⟩, .sc Scalar.null, .arr [], .obj []]),
  ("b", .obj [("c", .sc Scalar.null), ("d-e", .sc ⟨"time.Time", "2001-12-14 00:00:00 +0000 UTC"⟩)])]

theorem nonvacuous_noIdx : Val.noIdxKeys exVal = true := by decide
theorem nonvacuous_roundtrip : encodeNode (decodeNode exVal) = exVal := by decide

end Ytk.C01
