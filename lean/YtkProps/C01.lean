/-
  C01 — Documents pass through the DOM unchanged (lossless load / convert / serialise).

  Plain values are `Val`, DOM nodes are `Node`; `decodeNode` mirrors FromMap /
  DefaultNodeDecoderFn (entries are put with `add`, i.e. AddValue / AddContainer / AddList),
  `encodeNode` mirrors AsMap / AsSlice / DefaultNodeEncoderFn.

  FULL STATEMENT (kept visible):   ∀ v, v.WF → encodeNode (decodeNode v) = v.
  It is FALSE of the code at HEAD for map keys that end in an index group `[digits]`
  (known finding D26, `encode_decode_counterexample` below), so the proved theorem is
  `encode_decode_partial`, with exactly that class excluded (`Val.noIdxKeys`).
  `Val.WF` (keys strictly sorted = a Go map has each key once, order immaterial) is not a
  restriction of the domain, only the canonical representation of a Go map.
-/
import YtkProofs.Codec
import YtkProofs.CodecI
import YtkProofs.Decisions
import YtkProofs.FuncsDomCodec

namespace Ytk.C01

/-! ## decision tables regenerated from the source (extract/tables.go) -/
section DecisionTables
open Ytk.TableT Ytk.FileCodec

/-- decoder and encoder of one suffix belong to the same codec of the model -/
def suffixConsistent (r : Row) : Bool :=
  match ofSuffix r.key with
  | some f => r.target == f.decoder && lookupD Generated.fileEncoders Generated.fileEncodersDefault r.key == f.encoder
  | none => false

/-- (i) The two `reflect.Kind` switches of dom/codec.go (decodeContainerFn for map entries, decodeListFn
    for list items) as regenerated from the source decide, for EVERY reflect.Kind of Go, what the model's
    decoder builds for a value of that kind (`decodeShape k`: the node kind of `decodeNode` on the model's
    representation of such a value: `.obj` for maps, `.arr` for slices and arrays, `.sc` otherwise); nil is
    a leaf on both sides; and `decodeNode` never builds anything but the node kind of its argument. -/
theorem decode_kinds_table_matches_model :
    (∀ k ∈ reflectKinds,
      lookupD Generated.decodeContainerKinds Generated.decodeContainerKindsDefault k = (decodeShape k).goName ∧
      lookupD Generated.decodeListKinds Generated.decodeListKindsDefault k = (decodeShape k).goName) ∧
    Generated.decodeContainerKindsNil = (decodeNode (.sc Scalar.null)).shape.goName ∧
    Generated.decodeListKindsNil = (decodeNode (.sc Scalar.null)).shape.goName ∧
    (∀ v, (decodeNode v).shape = v.shape) :=
  ⟨by decide +kernel, by decide +kernel, by decide +kernel, decodeNode_shape⟩

/-- (ii) every kind of the generic-value domain is handled and nothing is skipped: a map becomes a
    container, a slice AND an array a list, every scalar kind a leaf, nil a leaf — for map entries and for
    list items alike — and no reflect.Kind whatsoever falls out of the switch (`skip`). -/
theorem decode_kinds_table_rule :
    (∀ t ∈ [(Generated.decodeContainerKinds, Generated.decodeContainerKindsDefault, Generated.decodeContainerKindsNil),
            (Generated.decodeListKinds, Generated.decodeListKindsDefault, Generated.decodeListKindsNil)],
      lookupD t.1 t.2.1 "Map" = "container" ∧ lookupD t.1 t.2.1 "Slice" = "list" ∧
      lookupD t.1 t.2.1 "Array" = "list" ∧ (∀ k ∈ scalarKinds, lookupD t.1 t.2.1 k = "leaf") ∧
      t.2.2 = "leaf" ∧
      (∀ k ∈ reflectKinds, lookupD t.1 t.2.1 k ∈ ["container", "list", "leaf"])) ∧
    pairs Generated.decodeContainerKinds = pairs Generated.decodeListKinds ∧
    Generated.decodeContainerKindsDefault = Generated.decodeListKindsDefault := by
  decide +kernel

/-- (i) The suffix switches of common.DefaultFileDecoderProvider / DefaultFileEncoderProvider as
    regenerated from common/common.go ARE the model's suffix table: same suffixes, for each the decoder /
    encoder function of the model's codec for that suffix, nil for anything else. -/
theorem file_codec_table_matches_model :
    pairs Generated.fileDecoders = suffixTable.map (fun p => (p.1, p.2.decoder)) ∧
    pairs Generated.fileEncoders = suffixTable.map (fun p => (p.1, p.2.encoder)) ∧
    Generated.fileDecodersDefault = "nil" ∧ Generated.fileEncodersDefault = "nil" ∧
    (∀ r ∈ Generated.fileDecoders, decoderOf r.key = r.target) ∧
    (∀ r ∈ Generated.fileEncoders, encoderOf r.key = r.target) := by
  decide +kernel

/-- (ii) `.yaml` and `.yml` select the YAML codec of package dom, `.json` the JSON codec — the default
    codecs the property is stated for —, an unknown suffix selects nothing, and what the encoder provider
    writes for a suffix the decoder provider reads with the same codec. -/
theorem file_codec_table_rule :
    lookupD Generated.fileDecoders Generated.fileDecodersDefault ".yaml" = "dom.DefaultYamlDecoder" ∧
    lookupD Generated.fileDecoders Generated.fileDecodersDefault ".yml" = "dom.DefaultYamlDecoder" ∧
    lookupD Generated.fileDecoders Generated.fileDecodersDefault ".json" = "dom.DefaultJsonDecoder" ∧
    lookupD Generated.fileEncoders Generated.fileEncodersDefault ".yaml" = "dom.DefaultYamlEncoder" ∧
    lookupD Generated.fileEncoders Generated.fileEncodersDefault ".yml" = "dom.DefaultYamlEncoder" ∧
    lookupD Generated.fileEncoders Generated.fileEncodersDefault ".json" = "dom.DefaultJsonEncoder" ∧
    lookupD Generated.fileDecoders Generated.fileDecodersDefault ".txt" = "nil" ∧
    lookupD Generated.fileEncoders Generated.fileEncodersDefault "" = "nil" ∧
    keys Generated.fileDecoders = keys Generated.fileEncoders ∧
    (∀ r ∈ Generated.fileDecoders, suffixConsistent r = true) := by
  decide +kernel

/-- (iii) the tables are not empty and their keys are distinct -/
theorem nonvacuous_decode_tables :
    Generated.decodeContainerKinds ≠ [] ∧ (keys Generated.decodeContainerKinds).Nodup ∧
    Generated.decodeListKinds ≠ [] ∧ (keys Generated.decodeListKinds).Nodup ∧
    (∀ k ∈ keys Generated.decodeContainerKinds ++ keys Generated.decodeListKinds, k ∈ reflectKinds) ∧
    reflectKinds.Nodup ∧ reflectKinds.length = 27 ∧ (∀ k ∈ scalarKinds, k ∈ reflectKinds) ∧
    Generated.fileDecoders.length = 4 ∧ (keys Generated.fileDecoders).Nodup ∧
    Generated.fileEncoders.length = 4 ∧ (keys Generated.fileEncoders).Nodup := by
  decide +kernel

end DecisionTables

/-- AsMap(FromMap(m)) == m : no entry, list item or null is dropped, added, reordered or retyped. -/
theorem encode_decode_partial (v : Val) (hw : v.WF) (hn : Val.noIdxKeys v = true) :
    encodeNode (decodeNode v) = v := encode_decode_aux v hw hn

/-- the same at the root-map level, as the API states it -/
theorem asMap_fromMap_partial (m : List (String × Val)) (hw : (Val.obj m).WF) (hn : Val.noIdxKeys (.obj m) = true) :
    asMap (fromMap m) = m := by
  have := encode_decode_aux (.obj m) hw hn
  simpa [decodeNode, encodeNode, asMap, fromMap] using this

/-- D26: the full statement fails for a key ending in an index group. -/
theorem encode_decode_counterexample :
    encodeNode (decodeNode (.obj [("a[1]", .sc ⟨"int", "1"⟩)])) =
      .obj [("a", .arr [.sc Scalar.null, .sc ⟨"int", "1"⟩])] := by decide

/-- The other direction: every DOM constructible through the API is the image of its plain value. -/
theorem decode_encode (n : Node) (h : n.Valid) : decodeNode (encodeNode n) = n := decode_encode_aux n h

/-- FromMap yields a valid DOM (sorted unique keys, no key ending in an index group) for EVERY
    input, including D26 inputs: the invariant all other properties rely on. -/
theorem decode_valid (v : Val) : (decodeNode v).Valid := decodeNode_valid v

/-- no scalar position is lost or added -/
theorem scalarCount_decode_partial (v : Val) (hw : v.WF) (hn : Val.noIdxKeys v = true) :
    Node.scalarCount (decodeNode v) = Val.scalarCount v := by
  rw [← scalarCount_encode, encode_decode_aux v hw hn]

/-- Loading text fails iff the underlying decoder fails (for every decoder and text) … -/
theorem fromReader_error_iff {T : Type} (dec : T → Except Unit (List (String × Val))) (t : T) :
    (fromReader dec t).isOk = (dec t).isOk := by
  unfold fromReader; cases dec t <;> rfl

/-- … and otherwise yields exactly the DOM of the value the decoder produced, whose AsMap is that value. -/
theorem asMap_fromReader_partial {T : Type} (dec : T → Except Unit (List (String × Val))) (t : T)
    (m : List (String × Val)) (hd : dec t = .ok m) (hw : (Val.obj m).WF) (hn : Val.noIdxKeys (.obj m) = true) :
    (fromReader dec t).map asMap = .ok m := by
  unfold fromReader; rw [hd]
  simp [Except.map, asMap_fromMap_partial m hw hn]

/-- Serialising is the encoder applied to AsMap: two calls on the same document hand the encoder
    the same value (byte identity then rests on the encoder being a function of the value), and
    an encoder that reports a stream failure makes Serialize report it. -/
theorem serialize_deterministic {W R : Type} (enc : W → List (String × Val) → R) (w : W) (d : AMap Node) :
    serialize enc w d = enc w (asMap d) := rfl

theorem serialize_error {W : Type} (enc : W → List (String × Val) → Except Unit Unit) (w : W) (d : AMap Node)
    (hfail : ∀ v, (enc w v).isOk = false) : (serialize enc w d).isOk = false := hfail _

/-- Maps with non-string keys (yaml.v3's `map[interface{}]interface{}`, repaired defect D3): the
    decoder is total (no panic), always yields a valid DOM … -/
theorem decodeI_valid (v : IVal) : (decodeI v).Valid := decodeNode_valid _

/-- … and loses no scalar when, within every map, the stringified keys are pairwise distinct and none
    ends in an index group (`IVal.keysOk`; two keys such as `1` and `"1"` collide and then Go's map
    order decides which survives). -/
theorem decodeI_scalarCount (v : IVal) (h : IVal.keysOk v = true) :
    Node.scalarCount (decodeI v) = IVal.scalarCount v := by
  obtain ⟨hw, hn, hc⟩ := toVal_good v h
  unfold decodeI
  rw [← scalarCount_encode, encode_decode_aux _ hw hn, hc]

/-- non-vacuity: integer and boolean keys, nested in a list -/
def exIVal : IVal := .obj [(⟨"string", "a"⟩, .obj [(⟨"int", "1"⟩, .sc ⟨"string", "x"⟩), (⟨"bool", "true"⟩, .sc Scalar.null)]),
  (⟨"string", "l"⟩, .arr [.obj [(⟨"int", "2"⟩, .sc ⟨"string", "b"⟩)]])]
theorem nonvacuous_keysOk : IVal.keysOk exIVal = true := by decide
theorem nonvacuous_decodeI : encodeNode (decodeI exIVal) =
    .obj [("a", .obj [("1", .sc ⟨"string", "x"⟩), ("true", .sc Scalar.null)]), ("l", .arr [.obj [("2", .sc ⟨"string", "b"⟩)]])] := by
  decide +kernel

/-- non-vacuity: a nested value with nulls inside lists, empty map and empty list satisfies the hypotheses -/
def exVal : Val := .obj [("a", .arr [.sc ⟨"int", "1"⟩, .sc Scalar.null, .arr [], .obj []]),
  ("b", .obj [("c", .sc Scalar.null), ("d-e", .sc ⟨"time.Time", "2001-12-14 00:00:00 +0000 UTC"⟩)])]

theorem nonvacuous_noIdx : Val.noIdxKeys exVal = true := by decide
theorem nonvacuous_roundtrip : encodeNode (decodeNode exVal) = exVal := by decide

end Ytk.C01

/-! ## gap7a: the hypothesis of `decodeI_scalarCount` is needed -/
namespace Ytk.C01

/-- `IVal.keysOk` cannot be dropped from `decodeI_scalarCount`: the integer key `1` and the string key
    `"1"` of one yaml.v3 map stringify to the same member name, one of the two scalars is lost (which one
    is decided by Go's map order on the implementation; the model keeps the later one) — two scalars in,
    one scalar out.  Likewise a key ending in an index group (D26). -/
theorem decodeI_collision_counterexample :
    IVal.keysOk (.obj [(⟨"int", "1"⟩, .sc ⟨"string", "x"⟩), (⟨"string", "1"⟩, .sc ⟨"string", "y"⟩)]) = false ∧
    IVal.scalarCount (.obj [(⟨"int", "1"⟩, .sc ⟨"string", "x"⟩), (⟨"string", "1"⟩, .sc ⟨"string", "y"⟩)]) = 2 ∧
    Node.scalarCount (decodeI (.obj [(⟨"int", "1"⟩, .sc ⟨"string", "x"⟩), (⟨"string", "1"⟩, .sc ⟨"string", "y"⟩)])) = 1 := by
  decide +kernel

/-- `Val.noIdxKeys` cannot be dropped from `scalarCount_decode_partial` either: with the keys `a` and
    `a[0]` in one map the second entry overwrites the first (the list replaces the scalar) — a scalar is
    lost, not only moved. -/
theorem scalarCount_decode_counterexample :
    (Val.obj [("a", .sc ⟨"int", "1"⟩), ("a[0]", .sc ⟨"int", "2"⟩)]).WF ∧
    Val.scalarCount (.obj [("a", .sc ⟨"int", "1"⟩), ("a[0]", .sc ⟨"int", "2"⟩)]) = 2 ∧
    Node.scalarCount (decodeNode (.obj [("a", .sc ⟨"int", "1"⟩), ("a[0]", .sc ⟨"int", "2"⟩)])) = 1 := by
  refine ⟨?_, by decide +kernel, by decide +kernel⟩
  refine .obj (.cons ?_ (.cons (fun _ hp => by cases hp) .nil)) ?_
  · intro p hp
    simp only [List.mem_singleton] at hp
    subst hp
    decide
  · intro p hp
    simp only [List.mem_cons, List.not_mem_nil, or_false] at hp
    rcases hp with rfl | rfl <;> exact .sc _

end Ytk.C01

/-! ## xlate7d: the REGENERATED translation of the encoders of dom/codec.go (Generated/FuncsDom.lean)

  `encodeLeafFn`, `encodeListFn` (`make([]interface{}, n)` + `res[i] = …`), `encodeContainerFn` (a fresh Go map filled
  key by key), and `AsMap`, `AsSlice`, `DefaultNodeMappingFn`, `DefaultNodeEncoderFn` on top are rewritten from the Go
  source on every run; on this side `interface{}` is a plain value (`Val`).  `WF` = every container is a Go map
  (strictly sorted keys in the model's representation): the translated loop rebuilds the map. -/
namespace Ytk.C01
open Ytk.Generated

theorem encodeContainerFn_generated_eq_model (c : AMap Node) (h : (Node.cont c).WF) :
    FuncsDom.encodeContainerFn c = .ok (encodeKvs c) :=
  FuncsDomCodec.encodeContainerFn_generated_eq_model c h

theorem encodeListFn_generated_eq_model (l : List Node) (h : (Node.list l).WF) :
    FuncsDom.encodeListFn l = .ok (encodeList l) :=
  FuncsDomCodec.encodeListFn_generated_eq_model l h

theorem encodeLeafFn_generated_eq_model (s : Scalar) : FuncsDom.encodeLeafFn s = .ok (encodeNode (.leaf s)) := rfl

/-- Container.AsMap() -/
theorem AsMap_generated_eq_model (c : AMap Node) (h : (Node.cont c).WF) :
    FuncsDom.containerAsMap c = .ok (asMap c) :=
  FuncsDomCodec.containerAsMap_generated_eq_model c h

/-- List.AsSlice() -/
theorem AsSlice_generated_eq_model (l : List Node) (h : (Node.list l).WF) :
    FuncsDom.listAsSlice l = .ok (encodeList l) :=
  FuncsDomCodec.listAsSlice_generated_eq_model l h

/-- DefaultNodeEncoderFn (what Serialize hands to the encoder) -/
theorem DefaultNodeEncoderFn_generated_eq_model (c : AMap Node) (h : (Node.cont c).WF) :
    FuncsDom.DefaultNodeEncoderFn c = .ok (encodeNode (.cont c)) :=
  FuncsDomCodec.DefaultNodeEncoderFn_generated_eq_model c h

/-- `WF` is needed as a matter of representation only: on an association list that is not a Go map the translated
    loop yields the sorted map, the model keeps the order of the list -/
theorem encode_generated_needs_wf_counterexample :
    FuncsDom.encodeContainerFn [("b", Node.null), ("a", Node.null)] = .ok [("a", Val.null), ("b", Val.null)] ∧
    encodeKvs [("b", Node.null), ("a", Node.null)] = [("b", Val.null), ("a", Val.null)] := by
  decide +kernel

/-- the translated encoders RUN on nested lists and containers -/
theorem nonvacuous_encode_generated :
    FuncsDom.containerAsMap [("a", .list [.leaf ⟨"int", "1"⟩, .cont [("x", .leaf ⟨"string", "s"⟩)], .list []]), ("b", .cont [])]
      = .ok [("a", .arr [.sc ⟨"int", "1"⟩, .obj [("x", .sc ⟨"string", "s"⟩)], .arr []]), ("b", .obj [])] := by
  decide +kernel

end Ytk.C01
