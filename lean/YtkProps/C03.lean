/-
  C03 — Builder edits behave like edits on a plain tree (set-get and frame).

  The document is a value (`AMap Node`); each builder call is a function on it (`bstep`), a
  history is `brun`.  The laws below are stated on the string-path functions the driver executes
  (`addValueAt`, `lookup`, `removeAt`, `add`, `child`, …) and hold for ALL path strings — no
  restriction to a safe alphabet is needed.  `Diverge ps qs`: the two component lists share a
  (possibly empty) prefix and then continue with components whose base keys differ.
  `DivergeIdx ps qs` (YtkProofs/LensIdx.lean) additionally allows the same base key with index
  groups that differ at some position; `pathSteps`/`Fits` give the frame law for every pair of
  paths that are not prefix-related.  Padding: a write at `l[3]` into a shorter list creates
  `l[1]`, `l[2]` holding null — the only other positions that change, from absent to null.
-/
import YtkProofs.Builder
import YtkProofs.LensIdx
import YtkProofs.ValidB

namespace Ytk.C03

/-- set-get: a value written at a path is what lookup returns there. -/
theorem lookup_addValueAt (d : AMap Node) (path : String) (v : Node) (h : path ≠ "") :
    lookup (addValueAt d path v) path = some v := lookup_addValueAt_self d path v h

/-- set-get for a direct child (AddValue / AddContainer / AddList), with or without index groups. -/
theorem child_add (d : AMap Node) (name : String) (v : Node) : child (add d name v) name = some v :=
  child_add_self d name v

/-- frame (write): nothing changes at a path that diverges from the written one. -/
theorem addValueAt_frame (d : AMap Node) (ps qs : List String) (v : Node) (h : Diverge ps qs) :
    lookupSegs (addAtSegs d ps v) qs = lookupSegs d qs := lookupSegs_addAtSegs_frame ps qs d v h

/-- missing list slots are created and padded with null; other existing slots are untouched. -/
theorem add_index_pads (cur : Option Node) (i j : Nat) (v : Node) (h : j ≠ i) :
    walkIdx (some (setSlot cur [i] v)) [j] =
      if j < (listOf cur).length then (listOf cur)[j]? else if j < i + 1 then some Node.null else none :=
  setSlot_single_other cur v h

/-- the pad law at any depth: reading below index groups `pre ++ j :: js'` after a write below
    `pre ++ i :: is'`, `j ≠ i` (`l[2][5]…` against `l[2][1]…`), where `L` is the list found at `pre`
    before the write — inside `L`: what was there; beyond `L` but below `i`: the slot was padded and
    holds null; otherwise nothing. -/
theorem add_index_diverge (cur : Option Node) (pre : List Nat) (i j : Nat) (is' js' : List Nat) (v : Node)
    (h : j ≠ i) :
    walkIdx (some (setSlot cur (pre ++ i :: is') v)) (pre ++ j :: js') =
      if j < (listOf (walkIdx cur pre)).length then walkIdx cur (pre ++ j :: js')
      else if j < i + 1 then walkIdx (some Node.null) js' else none :=
  walkIdx_setSlot_diverge pre cur i j is' js' v h

/-- frame (write), list items: `DivergeIdx ps qs` — after a common prefix of components the two
    paths continue with different base keys, or with the same base key and index groups that differ
    at some position (`a.l[3].b` against `a.l[1]`, `a.l[1].c`, `a.m` …).  Nothing changes at `qs`,
    except that a slot created by padding (absent before) now holds null. -/
theorem addValueAt_frame_index (d : AMap Node) (ps qs : List String) (v : Node) (h : DivergeIdx ps qs) :
    lookupSegs (addAtSegs d ps v) qs = lookupSegs d qs ∨
      (lookupSegs d qs = none ∧ lookupSegs (addAtSegs d ps v) qs = some Node.null) :=
  lookupSegs_addAtSegs_frame_idx h d v

/-- frame (write), every pair of paths: when the written path fits the document (no key step onto
    an existing list, no index step onto an existing container — the domain of C03), the same holds
    for EVERY path whose step sequence is not prefix-related to the written one
    (`pathSteps ["a", "l[1]", "b"]` = key a, key l, idx 1, key b). -/
theorem addValueAt_frame_steps (d : AMap Node) (ps qs : List String) (v : Node) (hf : Fits d ps)
    (h1 : ¬ pathSteps ps <+: pathSteps qs) (h2 : ¬ pathSteps qs <+: pathSteps ps) :
    lookupSegs (addAtSegs d ps v) qs = lookupSegs d qs ∨
      (lookupSegs d qs = none ∧ lookupSegs (addAtSegs d ps v) qs = some Node.null) :=
  lookupSegs_addAtSegs_frame_steps d ps qs v hf h1 h2

/-- putting back what is there is the identity: `AddValue(name, Child(name))`, every name. -/
theorem add_child_back (d : AMap Node) (name : String) (v : Node) (hs : AMap.Sorted d)
    (h : child d name = some v) : add d name v = d := add_put_back hs h

/-- removing a path at which lookup finds nothing changes nothing. -/
theorem removeAt_absent (d : AMap Node) (path : String) (hv : (Node.cont d).Valid) (hp : path ≠ "")
    (h : lookup d path = none) : removeAt d path = d := removeAt_absent_of_ne d path hv hp h

/-- the same on component lists (no side condition; `lookup d "" = none` holds by fiat, whereas
    `lookupSegs d [""]` looks the empty key up) -/
theorem removeAtSegs_absent (d : AMap Node) (segs : List String) (hv : (Node.cont d).Valid)
    (h : lookupSegs d segs = none) : removeAtSegs d segs = d := Ytk.removeAtSegs_absent segs d hv h

/-- `path ≠ ""` cannot be dropped in `removeAt_absent`: Lookup("") is nil by definition, but
    RemoveAt("") deletes the child with the empty key. -/
theorem removeAt_absent_empty_path :
    (Node.cont [("", Node.null)]).Valid ∧ lookup [("", Node.null)] "" = none ∧
      removeAt [("", Node.null)] "" = [] :=
  ⟨Node.validB_sound _ (by decide +kernel), by decide +kernel, by decide +kernel⟩

/-- remove-get: after removing a path whose last step is a key, lookup returns nothing there. -/
theorem lookup_removeAt (d : AMap Node) (segs : List String) (hv : (Node.cont d).Valid) (hne : segs ≠ [])
    (hl : ∀ l, segs.getLast? = some l → hasIdxSuffix l = false) :
    lookupSegs (removeAtSegs d segs) segs = none := lookupSegs_removeAtSegs_self segs d hv hne hl

/-- frame (remove): nothing changes at a path that diverges from the removed one. -/
theorem removeAt_frame (d : AMap Node) (ps qs : List String) (h : Diverge ps qs) :
    lookupSegs (removeAtSegs d ps) qs = lookupSegs d qs := lookupSegs_removeAtSegs_frame ps qs d h

/-- frame (remove), every pair of paths: removing `ps` is invisible at every path whose step
    sequence is not prefix-related to it, list-item components included — no side condition and
    no padding (removal never creates or replaces a node). -/
theorem removeAt_frame_steps (d : AMap Node) (ps qs : List String)
    (h1 : ¬ pathSteps ps <+: pathSteps qs) (h2 : ¬ pathSteps qs <+: pathSteps ps) :
    lookupSegs (removeAtSegs d ps) qs = lookupSegs d qs := lookupSegs_removeAtSegs_frame_steps d ps qs h1 h2

/-- ListBuilder.Set: length, the written slot, every other slot (padding is null). -/
theorem list_set_length (xs : List Node) (i : Nat) (v : Node) : (listSet xs i v).length = max xs.length (i + 1) :=
  listSet_length xs i v
theorem list_set_get (xs : List Node) (i : Nat) (v : Node) : (listSet xs i v)[i]? = some v := listSet_get_self xs i v
theorem list_set_other (xs : List Node) (i j : Nat) (v : Node) (h : j ≠ i) :
    (listSet xs i v)[j]? = if j < xs.length then xs[j]? else if j < i + 1 then some Node.null else none :=
  listSet_get_other xs v h
theorem list_append (xs : List Node) (v : Node) : listAppend xs v = xs ++ [v] := rfl
/-- MustSet out of range panics (documented), in range it never does. -/
theorem list_mustSet_out_of_range (xs : List Node) (i : Nat) (v : Node) (h : xs.length ≤ i) :
    listMustSet xs i v = .panic := listMustSet_panics xs i v h
theorem list_mustSet_in_range (xs : List Node) (i : Nat) (v : Node) (h : i < xs.length) :
    listMustSet xs i v = .ok (xs.set i v) := by simp [listMustSet, h]

/-- Walk(CompactFn) keeps every leaf and leaves no empty keyed container behind. -/
theorem compact_flatten (d : AMap Node) : flatten (compactKvs d) = flatten d := flatten_compact d
theorem compact_no_empty (d : AMap Node) (p : String × Node) (h : p ∈ compactKvs d) : p.2 ≠ .cont [] :=
  compactKvs_no_empty d p h

/-- Invariant over ALL histories: every document reachable by builder calls is valid (unique sorted
    keys, no key ending in an index group), and no call other than an out-of-range MustSet panics. -/
theorem run_valid (ops : List BOp) (d d' : AMap Node) (h : (Node.cont d).Valid) (hv : ∀ op ∈ ops, op.ValuesValid)
    (hr : brun d ops = .ok d') : (Node.cont d').Valid := brun_valid ops d d' h hv hr

theorem step_no_panic (d : AMap Node) (op : BOp) (h : ∀ p i v, op ≠ .listMustSet p i v) : bstep d op ≠ .panic := by
  cases op <;> simp_all [bstep]

/-- non-vacuity: a concrete nested history -/
def exOps : List BOp := [.addValueAt "a.b" (.leaf ⟨"int", "1"⟩), .addContainer "e", .compact]
theorem nonvacuous_run : brun [] exOps = .ok [("a", .cont [("b", .leaf ⟨"int", "1"⟩)])] := by
  decide
theorem nonvacuous_diverge : Diverge ["a", "b[2]", "c"] ["a", "x", "c"] :=
  .tail (by simp) (by simp) (.head (by decide))

/-- list-item paths: the two index-divergent shapes, and a fitting target with a step-unrelated path -/
theorem nonvacuous_divergeIdx :
    DivergeIdx ["a", "l[3]", "b"] ["a", "l[1]"] ∧ DivergeIdx ["l[2][5]"] ["l[2][1]", "c"] ∧
    Fits [("a", .cont [("l", .list [Node.null])])] ["a", "l[3]", "b"] ∧
    ¬ pathSteps ["a", "l[3]", "b"] <+: pathSteps ["a", "l[1]"] ∧
    ¬ pathSteps ["a", "l[1]"] <+: pathSteps ["a", "l[3]", "b"] ∧
    lookupSegs [("a", .cont [("l", .list [Node.null])])] ["a", "l[1]"] = none ∧
    lookupSegs (addAtSegs [("a", .cont [("l", .list [Node.null])])] ["a", "l[3]", "b"] Node.null) ["a", "l[1]"] =
      some Node.null := by
  refine ⟨.tail rfl (by simp) (by simp) (.idx (by decide +kernel) ⟨[], 3, 1, [], [], ?_, ?_, by decide⟩),
    .idx (by decide +kernel) ⟨[2], 5, 1, [], [], ?_, ?_, by decide⟩,
    fitsB_sound _ _ (by decide +kernel), by decide +kernel, by decide +kernel, by decide +kernel,
    by decide +kernel⟩ <;> decide +kernel

end Ytk.C03
