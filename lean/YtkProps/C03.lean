/-
  C03 — Builder edits behave like edits on a plain tree (set-get and frame).

  The document is a value (`AMap Node`); each builder call is a function on it (`bstep`), a
  history is `brun`.  The laws below are stated on the string-path functions the driver executes
  (`addValueAt`, `lookup`, `removeAt`, `add`, `child`, …) and hold for ALL path strings — no
  restriction to a safe alphabet is needed.  `Diverge ps qs`: the two component lists share a
  (possibly empty) prefix and then continue with components whose base keys differ.
  `DivergeIdx ps qs` (YtkProofs/LensIdx.lean) additionally allows the same base key with index
  groups that differ at some position; `pathSteps`/`Fits` give the frame law for every pair of
  paths that are not prefix-related.  Padding: a write at `l[3]` into a shorter list creates
  `l[1]`, `l[2]` holding null — the only other positions that change, from absent to null.
-/
import YtkProofs.Builder
import YtkProofs.GapBuilder
import YtkProofs.LensIdx
import YtkProofs.ValidB
import YtkProofs.HeapBuilder
import YtkProofs.HeapBuilderRefine
import YtkProofs.HeapBuild
import YtkProofs.HeapBuilderRun
import YtkProofs.HeapBuilderHist
import YtkProofs.PlainSpec
import YtkProofs.FuncsDomBuilder

namespace Ytk.C03

/-- set-get: a value written at a path is what lookup returns there. -/
theorem lookup_addValueAt (d : AMap Node) (path : String) (v : Node) (h : path ≠ "") :
    lookup (addValueAt d path v) path = some v := lookup_addValueAt_self d path v h

/-- set-get for a direct child (AddValue / AddContainer / AddList), with or without index groups. -/
theorem child_add (d : AMap Node) (name : String) (v : Node) : child (add d name v) name = some v :=
  child_add_self d name v

/-- frame (write): nothing changes at a path that diverges from the written one. -/
theorem addValueAt_frame (d : AMap Node) (ps qs : List String) (v : Node) (h : Diverge ps qs) :
    lookupSegs (addAtSegs d ps v) qs = lookupSegs d qs := lookupSegs_addAtSegs_frame ps qs d v h

/-- missing list slots are created and padded with null; other existing slots are untouched. -/
theorem add_index_pads (cur : Option Node) (i j : Nat) (v : Node) (h : j ≠ i) :
    walkIdx (some (setSlot cur [i] v)) [j] =
      if j < (listOf cur).length then (listOf cur)[j]? else if j < i + 1 then some Node.null else none :=
  setSlot_single_other cur v h

/-- the pad law at any depth: reading below index groups `pre ++ j :: js'` after a write below
    `pre ++ i :: is'`, `j ≠ i` (`l[2][5]…` against `l[2][1]…`), where `L` is the list found at `pre`
    before the write — inside `L`: what was there; beyond `L` but below `i`: the slot was padded and
    holds null; otherwise nothing. -/
theorem add_index_diverge (cur : Option Node) (pre : List Nat) (i j : Nat) (is' js' : List Nat) (v : Node)
    (h : j ≠ i) :
    walkIdx (some (setSlot cur (pre ++ i :: is') v)) (pre ++ j :: js') =
      if j < (listOf (walkIdx cur pre)).length then walkIdx cur (pre ++ j :: js')
      else if j < i + 1 then walkIdx (some Node.null) js' else none :=
  walkIdx_setSlot_diverge pre cur i j is' js' v h

/-- frame (write), list items: `DivergeIdx ps qs` — after a common prefix of components the two
    paths continue with different base keys, or with the same base key and index groups that differ
    at some position (`a.l[3].b` against `a.l[1]`, `a.l[1].c`, `a.m` …).  Nothing changes at `qs`,
    except that a slot created by padding (absent before) now holds null. -/
theorem addValueAt_frame_index (d : AMap Node) (ps qs : List String) (v : Node) (h : DivergeIdx ps qs) :
    lookupSegs (addAtSegs d ps v) qs = lookupSegs d qs ∨
      (lookupSegs d qs = none ∧ lookupSegs (addAtSegs d ps v) qs = some Node.null) :=
  lookupSegs_addAtSegs_frame_idx h d v

/-- frame (write), every pair of paths: when the written path fits the document (no key step onto
    an existing list, no index step onto an existing container — the domain of C03), the same holds
    for EVERY path whose step sequence is not prefix-related to the written one
    (`pathSteps ["a", "l[1]", "b"]` = key a, key l, idx 1, key b). -/
theorem addValueAt_frame_steps (d : AMap Node) (ps qs : List String) (v : Node) (hf : Fits d ps)
    (h1 : ¬ pathSteps ps <+: pathSteps qs) (h2 : ¬ pathSteps qs <+: pathSteps ps) :
    lookupSegs (addAtSegs d ps v) qs = lookupSegs d qs ∨
      (lookupSegs d qs = none ∧ lookupSegs (addAtSegs d ps v) qs = some Node.null) :=
  lookupSegs_addAtSegs_frame_steps d ps qs v hf h1 h2

/-- putting back what is there is the identity: `AddValue(name, Child(name))`, every name. -/
theorem add_child_back (d : AMap Node) (name : String) (v : Node) (hs : AMap.Sorted d)
    (h : child d name = some v) : add d name v = d := add_put_back hs h

/-- removing a path at which lookup finds nothing changes nothing. -/
theorem removeAt_absent (d : AMap Node) (path : String) (hv : (Node.cont d).Valid) (hp : path ≠ "")
    (h : lookup d path = none) : removeAt d path = d := removeAt_absent_of_ne d path hv hp h

/-- the same on component lists (no side condition; `lookup d "" = none` holds by fiat, whereas
    `lookupSegs d [""]` looks the empty key up) -/
theorem removeAtSegs_absent (d : AMap Node) (segs : List String) (hv : (Node.cont d).Valid)
    (h : lookupSegs d segs = none) : removeAtSegs d segs = d := Ytk.removeAtSegs_absent segs d hv h

/-- `path ≠ ""` cannot be dropped in `removeAt_absent`: Lookup("") is nil by definition, but
    RemoveAt("") deletes the child with the empty key. -/
theorem removeAt_absent_empty_path :
    (Node.cont [("", Node.null)]).Valid ∧ lookup [("", Node.null)] "" = none ∧
      removeAt [("", Node.null)] "" = [] :=
  ⟨Node.validB_sound _ (by decide +kernel), by decide +kernel, by decide +kernel⟩

/-- remove-get: after removing a path whose last step is a key, lookup returns nothing there. -/
theorem lookup_removeAt (d : AMap Node) (segs : List String) (hv : (Node.cont d).Valid) (hne : segs ≠ [])
    (hl : ∀ l, segs.getLast? = some l → hasIdxSuffix l = false) :
    lookupSegs (removeAtSegs d segs) segs = none := lookupSegs_removeAtSegs_self segs d hv hne hl

/-- frame (remove): nothing changes at a path that diverges from the removed one. -/
theorem removeAt_frame (d : AMap Node) (ps qs : List String) (h : Diverge ps qs) :
    lookupSegs (removeAtSegs d ps) qs = lookupSegs d qs := lookupSegs_removeAtSegs_frame ps qs d h

/-- frame (remove), every pair of paths: removing `ps` is invisible at every path whose step
    sequence is not prefix-related to it, list-item components included — no side condition and
    no padding (removal never creates or replaces a node). -/
theorem removeAt_frame_steps (d : AMap Node) (ps qs : List String)
    (h1 : ¬ pathSteps ps <+: pathSteps qs) (h2 : ¬ pathSteps qs <+: pathSteps ps) :
    lookupSegs (removeAtSegs d ps) qs = lookupSegs d qs := lookupSegs_removeAtSegs_frame_steps d ps qs h1 h2

/-- ListBuilder.Set: length, the written slot, every other slot (padding is null). -/
theorem list_set_length (xs : List Node) (i : Nat) (v : Node) : (listSet xs i v).length = max xs.length (i + 1) :=
  listSet_length xs i v
theorem list_set_get (xs : List Node) (i : Nat) (v : Node) : (listSet xs i v)[i]? = some v := listSet_get_self xs i v
theorem list_set_other (xs : List Node) (i j : Nat) (v : Node) (h : j ≠ i) :
    (listSet xs i v)[j]? = if j < xs.length then xs[j]? else if j < i + 1 then some Node.null else none :=
  listSet_get_other xs v h
theorem list_append (xs : List Node) (v : Node) : listAppend xs v = xs ++ [v] := rfl
/-- MustSet out of range panics (documented), in range it never does. -/
theorem list_mustSet_out_of_range (xs : List Node) (i : Nat) (v : Node) (h : xs.length ≤ i) :
    listMustSet xs i v = .panic := listMustSet_panics xs i v h
theorem list_mustSet_in_range (xs : List Node) (i : Nat) (v : Node) (h : i < xs.length) :
    listMustSet xs i v = .ok (xs.set i v) := by simp [listMustSet, h]

/-- Walk(CompactFn) keeps every leaf and leaves no empty keyed container behind. -/
theorem compact_flatten (d : AMap Node) : flatten (compactKvs d) = flatten d := flatten_compact d
theorem compact_no_empty (d : AMap Node) (p : String × Node) (h : p ∈ compactKvs d) : p.2 ≠ .cont [] :=
  compactKvs_no_empty d p h

/-- Invariant over ALL histories: every document reachable by builder calls is valid (unique sorted
    keys, no key ending in an index group), and no call other than an out-of-range MustSet panics. -/
theorem run_valid (ops : List BOp) (d d' : AMap Node) (h : (Node.cont d).Valid) (hv : ∀ op ∈ ops, op.ValuesValid)
    (hr : brun d ops = .ok d') : (Node.cont d').Valid := brun_valid ops d d' h hv hr

theorem step_no_panic (d : AMap Node) (op : BOp) (h : ∀ p i v, op ≠ .listMustSet p i v) : bstep d op ≠ .panic := by
  cases op <;> simp_all [bstep]

/-- non-vacuity: a concrete nested history -/
def exOps : List BOp := [.addValueAt "a.b" (.leaf ⟨"int", "1"⟩), .addContainer "e", .compact]
theorem nonvacuous_run : brun [] exOps = .ok [("a", .cont [("b", .leaf ⟨"int", "1"⟩)])] := by
  decide
theorem nonvacuous_diverge : Diverge ["a", "b[2]", "c"] ["a", "x", "c"] :=
  .tail (by simp) (by simp) (.head (by decide))

/-- list-item paths: the two index-divergent shapes, and a fitting target with a step-unrelated path -/
theorem nonvacuous_divergeIdx :
    DivergeIdx ["a", "l[3]", "b"] ["a", "l[1]"] ∧ DivergeIdx ["l[2][5]"] ["l[2][1]", "c"] ∧
    Fits [("a", .cont [("l", .list [Node.null])])] ["a", "l[3]", "b"] ∧
    ¬ pathSteps ["a", "l[3]", "b"] <+: pathSteps ["a", "l[1]"] ∧
    ¬ pathSteps ["a", "l[1]"] <+: pathSteps ["a", "l[3]", "b"] ∧
    lookupSegs [("a", .cont [("l", .list [Node.null])])] ["a", "l[1]"] = none ∧
    lookupSegs (addAtSegs [("a", .cont [("l", .list [Node.null])])] ["a", "l[3]", "b"] Node.null) ["a", "l[1]"] =
      some Node.null := by
  refine ⟨.tail rfl (by simp) (by simp) (.idx (by decide +kernel) ⟨[], 3, 1, [], [], ?_, ?_, by decide⟩),
    .idx (by decide +kernel) ⟨[2], 5, 1, [], [], ?_, ?_, by decide⟩,
    fitsB_sound _ _ (by decide +kernel), by decide +kernel, by decide +kernel, by decide +kernel,
    by decide +kernel⟩ <;> decide +kernel

/-! ## Pointer level: the path-level builder API on the heap model (YtkModel/HeapBuilder.lean)

  The theorems above live in a value model, where "a handle stays attached", "AddContainer yields a
  fresh container" or "the node itself is stored" cannot even be said.  Below a document is a root
  ADDRESS in a heap of cells (YtkModel/Heap.lean), a handle — what AddContainer / AddList / Child /
  Lookup return — is an address, and the builder calls are the store-passing functions of
  YtkModel/HeapBuilder.lean (`addH` = AddValue, `addValueAtH`, `addContainerH`, `removeAtH`, `childH`,
  `lookupH`, `listSet`, `compactH`, histories `HOp` / `hstep`).

  `Inv h`: closed, acyclic (ranked), sorted children maps, cell 0 = the shared nil leaf.
  `Apart h x y`: the graphs below `x` and `y` share at most leaves.  `SibSep h r`: the graph below `r`
  is a tree apart from shared leaves. -/

section heap
open Ytk.Heap

/-- REFINEMENT: on a well-formed heap whose graph below the handle `c` is a tree apart from shared
    leaves (`SibSep`), with a value node that shares at most leaves with it (`Apart`), the document
    below `c` after the heap-level `AddValueAt` is the value-level `addValueAt` of the document before
    with the value's abstraction — and the heap is well-formed again.  This transfers every theorem
    above (set-get, frame, padding, validity, …) to the pointer level.  Every path string. -/
theorem heap_addValueAt_abs (h h' : Heap) (c v : Addr) (d : AMap Node) (vn : Node) (path : String)
    (hi : Inv h) (hs : SibSep h c) (hap : Apart h c v) (hcl : c < h.size) (hvl : v < h.size)
    (hd : abs h c = some (.cont d)) (hv : abs h v = some vn) (he : addValueAtH h c path v = some h') :
    Inv h' ∧ abs h' c = some (.cont (addValueAt d path vn)) :=
  addValueAtH_refines hi hs hap hcl hvl hd hv he

/-- … with a NEWLY BUILT value node (`build h n`: what `dom.LeafNode` / `ListNode` / a new container
    filled by `AddValue` give — every cell new) all hypotheses on the value are met by construction:
    for every well-formed value-level node `n`, `AddValueAt(path, <new n>)` / `AddValue(name, <new n>)`
    on a tree-shaped document is the value-level `addValueAt d path n` / `add d name n`. This is
    literally what the model driver executes for a harness case. -/
theorem heap_addValueAt_build_abs (h h' : Heap) (c : Addr) (d : AMap Node) (n : Node) (hi : Inv h) (hwf : n.WF)
    (hcl : c < h.size) (hs : SibSep h c) (hd : abs h c = some (.cont d)) :
    (∀ path, addValueAtH (build h n).1 c path (build h n).2 = some h' →
      Inv h' ∧ abs h' c = some (.cont (addValueAt d path n))) ∧
    (∀ name, addH (build h n).1 c name (build h n).2 = some h' →
      Inv h' ∧ abs h' c = some (.cont (add d name n))) :=
  ⟨fun _ he => addValueAt_build_refines hi n hwf hcl hs hd he, fun _ he => addValue_build_refines hi n hwf hcl hs hd he⟩

/-- REFINEMENT of `RemoveAt` / `Remove`. -/
theorem heap_removeAt_abs (h h' : Heap) (c : Addr) (d : AMap Node) (hi : Inv h) (hcl : c < h.size)
    (hd : abs h c = some (.cont d)) :
    (∀ path, SibSep h c → removeAtH h c path = some h' → Inv h' ∧ abs h' c = some (.cont (removeAt d path))) ∧
    (∀ name, Ytk.Heap.remove h c name = some h' → Inv h' ∧ abs h' c = some (.cont (Ytk.remove d name))) :=
  ⟨fun _ hs he => removeAtH_refines hi hs hcl hd he, fun _ he => remove_refines hi hcl hd he⟩

/-- REFINEMENT of `AddValue` / `AddContainer` / `AddList` (names with index groups included):
    value-level `add` with the value's abstraction / an empty container / an empty list. -/
theorem heap_add_abs (h h' : Heap) (c : Addr) (d : AMap Node) (name : String) (hi : Inv h) (hs : SibSep h c)
    (hcl : c < h.size) (hd : abs h c = some (.cont d)) :
    (∀ v vn, Apart h c v → v < h.size → abs h v = some vn → addH h c name v = some h' →
      Inv h' ∧ abs h' c = some (.cont (add d name vn))) ∧
    (∀ b, addContainerH h c name = some (h', b) → Inv h' ∧ abs h' c = some (.cont (add d name (.cont [])))) ∧
    (∀ b, addListH h c name = some (h', b) → Inv h' ∧ abs h' c = some (.cont (add d name (.list [])))) :=
  ⟨fun _ _ hap hvl hv he => addH_refines hi hs hap hcl hvl hd hv he,
   fun _ he => addContainerH_refines hi hs hcl hd he, fun _ he => addListH_refines hi hs hcl hd he⟩

/-- REFINEMENT of `ListBuilder.Set` / `Append` / `Clear` / `MustSet` on the list cell `l` (no tree
    hypothesis needed: one cell is written; the value must not reach the list). `MustSet`: in range it
    writes the slot, out of range BOTH models panic. -/
theorem heap_listSet_abs (h h' : Heap) (l v : Addr) (ns : List Node) (vn : Node) (i : Nat) (hi : Inv h)
    (hvl : ¬ Reach h v l) (hll : l < h.size) (hvlt : v < h.size) (hd : abs h l = some (.list ns))
    (hv : abs h v = some vn) :
    (Ytk.Heap.listSet h l i v = some h' → Inv h' ∧ abs h' l = some (.list (listSet ns i vn))) ∧
    (Ytk.Heap.listAppend h l v = some h' → Inv h' ∧ abs h' l = some (.list (listAppend ns vn))) ∧
    (listClear h l = some h' → Inv h' ∧ abs h' l = some (.list [])) ∧
    (i < ns.length → ∃ h2 f', listMustSetH h l i v = .ok h2 ∧ absH f' h2 l = some (.list (ns.set i vn)) ∧
      listMustSet ns i vn = .ok (ns.set i vn)) ∧
    (ns.length ≤ i → listMustSetH h l i v = .panic ∧ listMustSet ns i vn = .panic) := by
  obtain ⟨rank, hr⟩ := hi.acyclic
  have hms := Refine.listMustSetH_abs (i := i) hi.closed hr hvl (abs_absH hd) (abs_absH hv)
  exact ⟨fun he => listSet_refines hi hvl hll hvlt hd hv he, fun he => listAppend_refines hi hvl hll hvlt hd hv he,
    fun he => listClear_refines hi hd he, hms.1, hms.2⟩

/-- REFINEMENT of `Walk(CompactFn)`: the value-level `compactKvs` (so `compact_flatten`,
    `compact_no_empty` hold at pointer level). -/
theorem heap_compact_abs (h h' : Heap) (c : Addr) (d : AMap Node) (hi : Inv h) (hs : SibSep h c)
    (hd : abs h c = some (.cont d)) (he : compactH h c = some h') :
    Inv h' ∧ abs h' c = some (.cont (compactKvs d)) :=
  compactH_refines hi hs hd he

/-- SET-GET, pointer level: after `AddValueAt(path, v)` on the handle `c`, `Lookup(path)` returns the
    very node `v` that was passed in — it is attached itself, not a copy (the documented sharing of
    the builder API). Every path string. -/
theorem heap_addValueAt_stores_node (h h' : Heap) (rank : Addr → Nat) (c v : Addr) (path : String)
    (hc : h.Closed) (hr : h.RankedBy rank) (hn : h.NilOk) (hm : h.MapsOk) (hv : v < h.size) (hcl : c < h.size)
    (hp : path ≠ "") (he : addValueAtH h c path v = some h') : lookupH h' c path = some v := by
  simp only [lookupH, if_neg hp]
  exact addAtSegsH_lookup hc hr hn hm hv _ c h' (splitPath_ne_nil path) hcl he

/-- … and for a direct member (`AddValue`, names with index groups included): `Child(name)` is `v`. -/
theorem heap_add_stores_node (h h' : Heap) (rank : Addr → Nat) (c v : Addr) (name : String)
    (hr : h.RankedBy rank) (hn : h.NilOk) (he : addH h c name v = some h') : childH h' c name = some v :=
  addH_child hr hn he

/-- `AddContainer(name)` / `AddList(name)` return a FRESHLY ALLOCATED, EMPTY cell — its address is
    not an address of the old heap, whatever was stored under the name before (an existing container
    there is detached, never reused) —, `Child(name)` returns that cell, and at most one existing cell
    (reachable from the handle) is written. -/
theorem heap_addContainer_fresh (h h2 : Heap) (rank : Addr → Nat) (c b : Addr) (name : String)
    (hc : h.Closed) (hr : h.RankedBy rank) (hn : h.NilOk) (hm : h.MapsOk) (hcl : c < h.size) :
    (addContainerH h c name = some (h2, b) →
      b = h.size ∧ h2.get? b = some (.cont []) ∧ childH h2 c name = some b ∧
        ∃ w, Reach h c w ∧ ∀ a, a < h.size → a ≠ w → h2.get? a = h.get? a) ∧
    (addListH h c name = some (h2, b) →
      b = h.size ∧ h2.get? b = some (.list []) ∧ childH h2 c name = some b ∧
        ∃ w, Reach h c w ∧ ∀ a, a < h.size → a ≠ w → h2.get? a = h.get? a) :=
  ⟨addContainerH_fresh hc hr hn hm hcl, addListH_fresh hc hr hn hm hcl⟩

/-- WRITE SET of `AddValueAt`: exactly ONE existing cell `w` can change — a container or list on
    the walked path (reachable from the handle; it keeps its kind) —, every other existing cell is
    what it was, and everything reachable from the handle afterwards was reachable before, or is
    freshly allocated, or lies below the value node, or is the shared nil leaf (padding). -/
theorem heap_addValueAt_writes (h h' : Heap) (rank : Addr → Nat) (c v : Addr) (path : String)
    (hc : h.Closed) (hr : h.RankedBy rank) (hn : h.NilOk) (hm : h.MapsOk) (hv : v < h.size) (hcl : c < h.size)
    (he : addValueAtH h c path v = some h') :
    ∃ w, Reach h c w ∧ Composite h w ∧ Composite h' w ∧
      (∀ a, a < h.size → a ≠ w → h'.get? a = h.get? a) ∧
      (∀ b, Reach h' c b → Reach h c b ∨ h.size ≤ b ∨ Reach h v b ∨ b = nilAddr) := by
  obtain ⟨w, spec⟩ := addAtSegsH_spec hc hr hn hm hv _ c h' (splitPath_ne_nil path) hcl he
  refine ⟨w, spec.reach_w, spec.composite_w, ?_, spec.frame, fun b hb => spec.reach_after hc hn hv hcl hb⟩
  obtain ⟨cw, cw', _, h2w, hleaf, hl, hcn, _⟩ := spec.written
  refine ⟨cw', h2w, ?_⟩
  cases cw' with
  | leaf s => cases cw <;> simp_all [Cell.isLeaf, Cell.isList, Cell.isCont]
  | list _ => rfl
  | cont _ => rfl

/-- HANDLES ARE PATHS: when the walk of `path` from the root ends in the container `x` (the handle an
    earlier AddContainer / Child / Lookup returned), a call made on the handle IS the path-level call
    made on the root — `x.AddValue(last, v)` = `root.AddValueAt(path, v)`, `x.Remove(last)` =
    `root.RemoveAt(path)`, `x.Child(last)` = `root.Lookup(path)` — the same heap results, literally.
    So every refinement / set-get / frame law of the path-level calls holds for writes through a live
    handle. -/
theorem heap_handle_live (h : Heap) (root x v : Addr) (segs : List String) (ha : ancestorH h root segs = some x) :
    Reach h root x ∧ ∃ last, segs.getLast? = some last ∧
      addAtSegsH h root segs v = addH h x last v ∧
      removeAtSegsH h root segs = Ytk.Heap.remove h x last ∧
      lookupSegsH h root segs = childH h x last :=
  ⟨ancestorH_reach segs root x ha, ancestorH_spec v segs root x ha⟩

/-- … hence a write through a LIVE handle is visible from the root exactly as the value-level edit at
    the handle's path: `x.AddValue(last, v)` changes `abs root` to `addAtSegs d segs vn`. -/
theorem heap_handle_live_abs (h h' : Heap) (root x v : Addr) (d : AMap Node) (vn : Node) (segs : List String)
    (last : String) (hi : Inv h) (hs : SibSep h root) (hap : Apart h root v) (hrl : root < h.size) (hvl : v < h.size)
    (hd : abs h root = some (.cont d)) (hv : abs h v = some vn)
    (ha : ancestorH h root segs = some x) (hl : segs.getLast? = some last) (he : addH h x last v = some h') :
    Inv h' ∧ abs h' root = some (.cont (addAtSegs d segs vn)) := by
  obtain ⟨last', hl', h1, _, _⟩ := ancestorH_spec v segs root x ha
  rw [hl] at hl'; cases hl'
  rw [← h1] at he
  exact addAtSegsH_refines hi hs hap hrl hvl hd hv (by intro e; rw [e] at hl; cases hl) he

/-- HANDLES STAY ATTACHED (frame at pointer level): in a tree-shaped document, `AddValueAt(ps, v)` and
    `RemoveAt(ps)` (last component a plain member name, the domain of remove paths) do not move what
    `Lookup(qs)` finds when the two paths diverge by key after a common prefix (`Diverge`, as in
    `addValueAt_frame`): the handle obtained at `qs` is still the node stored there — pointer-identical,
    not merely equal in content.  With `heap_handle_live` this covers writes made through OTHER handles. -/
theorem heap_handle_stays (h h' : Heap) (rank : Addr → Nat) (c v x : Addr) (ps qs : List String)
    (hc : h.Closed) (hr : h.RankedBy rank) (hn : h.NilOk) (hm : h.MapsOk) (hs : SibSep h c) (hv : v < h.size)
    (hcl : c < h.size) (hd : Diverge ps qs) (hl : lookupSegsH h c qs = some x) :
    (addAtSegsH h c ps v = some h' → lookupSegsH h' c qs = some x) ∧
    (LastPlain ps → removeAtSegsH h c ps = some h' → lookupSegsH h' c qs = some x) :=
  ⟨fun he => addAtSegsH_lookup_frame hc hr hn hm hv ps qs hd c h' x hs hcl he hl,
   fun hlp he => removeAtSegsH_lookup_frame hc hr ps qs hd hlp c h' x hs he hl⟩

/-- `SibSep` cannot be dropped: when ONE container object is attached at two places
    (`dagB`: root #2 = {p: #1, q: #1}), `AddValueAt("p.z", v)` also changes what is found below `q` —
    the document is no longer what the value-level `addValueAt` (an edit of a plain TREE) predicts.
    (A plain Go `map[string]any` holding one inner map twice behaves the same way.) -/
def dagB : Heap := ⟨[.leaf Scalar.null, .cont [], .cont [("p", 1), ("q", 1)], .leaf ⟨"string", "v"⟩]⟩

theorem heap_shared_node_counterexample :
    dagB.Closed ∧ dagB.Acyclic ∧ dagB.MapsOk ∧ ¬ SibSep dagB 2 ∧
    ((addValueAtH dagB 2 "p.z" 3).bind fun h' => abs h' 2) =
      some (.cont [("p", .cont [("z", .leaf ⟨"string", "v"⟩)]), ("q", .cont [("z", .leaf ⟨"string", "v"⟩)])]) ∧
    (abs dagB 2).map (fun n => match n with
      | .cont d => Node.cont (addValueAt d "p.z" (.leaf ⟨"string", "v"⟩))
      | n => n) =
      some (.cont [("p", .cont [("z", .leaf ⟨"string", "v"⟩)]), ("q", .cont [])]) := by
  refine ⟨closed_of_all (by decide), ⟨fun a => if a = 2 then 1 else 0, rankedBy_of_all (by decide)⟩,
    mapsOk_of_all (by decide +kernel), ?_, by decide +kernel, by decide +kernel⟩
  intro hs
  exact hs 2 _ (.refl _) (show dagB.get? 2 = some (.cont [("p", 1), ("q", 1)]) from rfl) 0 1 1 1 rfl rfl (by decide)
    1 (.refl _) (.refl _) ⟨.cont [], rfl, rfl⟩

/-- DETACHED HANDLES: any builder call (`op`, with any value node) made on a handle whose graph shares
    no container / list with the graph below `root` leaves the document below `root` unchanged — at
    every fuel, i.e. `abs root` is what it was. -/
theorem heap_handle_detached (h h' : Heap) (op : HOp) (ret : Option Addr) (root : Addr) (hi : Inv h) (hok : op.Ok h)
    (he : hstep h op = .ok (h', ret)) (hrl : root < h.size) (hap : Apart h root op.target) (f : Nat) :
    absH f h' root = absH f h root := hstep_abs_frame hi hok he hrl hap f

/-- … and overwriting / removing a position DETACHES the node that was stored there, at any depth
    of a tree-shaped document, for EVERY path whose walk ends in an existing container `x` — the last
    component may be a plain member name or a list position `l[i]…[k]` (a handle sitting in a list slot,
    overwritten through a CONTAINER call): after `root.AddValueAt(path, v)` (for a one-component path:
    `AddValue`; `AddContainer` / `AddList`: `v` = the new cell) the node `y` that `Lookup(path)` returned
    before shares no container / list with the graph below `root` any more — so by
    `heap_handle_detached` later writes through the old handle `y`, or through any handle below it, are
    invisible from `root`.  The ONLY condition on the new node: it shares no container / list with `y`
    (the earlier `¬ Reach h v x` is not needed — the statement is about `Apart`, not about acyclicity).
    `root.RemoveAt(path)` detaches `y` when the last component is a plain name (`LastPlain`, the domain
    of remove paths) — necessarily so: `heap_removeAt_index_no_detach_counterexample`. -/
theorem heap_overwrite_detaches (h h' : Heap) (rank : Addr → Nat) (root x y : Addr) (segs : List String)
    (hr : h.RankedBy rank) (hm : h.MapsOk) (hs : SibSep h root)
    (ha : ancestorH h root segs = some x) (hy : lookupSegsH h root segs = some y) :
    (∀ v, Apart h v y → addAtSegsH h root segs v = some h' → Apart h' root y) ∧
    (LastPlain segs → removeAtSegsH h root segs = some h' → Apart h' root y) := by
  obtain ⟨last, hl, _⟩ := ancestorH_spec 0 segs root x ha
  exact ⟨fun v hvy he => pathwrite_detaches_full hr hm hs ha hy hvy he,
    fun hp he => (pathwrite_detaches hr hm hs ha hl (hp last hl) hy).1 he⟩

/-- `idxHeap`: 0 nilLeaf · 1 {} · 2 [#1] · 3 = root {l: #2} -/
def idxHeap : Heap := ⟨[.leaf Scalar.null, .cont [], .list [1], .cont [("l", 2)]]⟩

/-- `LastPlain` cannot be dropped from the removal clause: `RemoveAt("l[0]")` is `delete(children, "l[0]")`
    on the LITERAL key — there is no such key, nothing is written — so the container `Lookup("l[0]")`
    returns stays attached to the document. -/
theorem heap_removeAt_index_no_detach_counterexample :
    Inv idxHeap ∧ SibSep idxHeap 3 ∧ ancestorH idxHeap 3 ["l[0]"] = some 3 ∧
    lookupSegsH idxHeap 3 ["l[0]"] = some 1 ∧ removeAtSegsH idxHeap 3 ["l[0]"] = some idxHeap ∧
    removeAtH idxHeap 3 "l[0]" = some idxHeap ∧ ¬ Apart idxHeap 3 1 := by
  refine ⟨⟨closed_of_all (by decide), ⟨fun a => a, rankedBy_of_all (by decide)⟩, mapsOk_of_all (by decide +kernel), rfl⟩,
    sibSep_of_sibSepB (by decide +kernel), by decide +kernel, by decide +kernel, by decide +kernel,
    by decide +kernel, ?_⟩
  intro hap
  have h31 : Reach idxHeap 3 1 := mem_reachF _ 3 1 (show 1 ∈ Ytk.Heap.reach idxHeap 3 by decide)
  exact hap 1 h31 (.refl _) ⟨.cont [], rfl, rfl⟩

/-- `exD`: 0 nilLeaf · 1 leaf 1 · 2 {k: #1} · 3 [#2] · 4 {l: #3} · 5 = root {a: #4} · 6 leaf "v" -/
def exD : Heap := ⟨[.leaf Scalar.null, .leaf ⟨"int", "1"⟩, .cont [("k", 1)], .list [2], .cont [("l", 3)],
  .cont [("a", 4)], .leaf ⟨"string", "v"⟩]⟩

/-- the list-position case is not vacuous: `root.AddValueAt("a.l[0]", #6)` overwrites slot 0 of the list
    #3 (the ONLY cell whose content changes) and detaches the container #2 that sat in it -/
theorem nonvacuous_heap_overwrite_detaches :
    exD.RankedBy (fun a => a) ∧ exD.MapsOk ∧ SibSep exD 5 ∧ ancestorH exD 5 ["a", "l[0]"] = some 4 ∧
    lookupSegsH exD 5 ["a", "l[0]"] = some 2 ∧ ¬ LastPlain ["a", "l[0]"] ∧ Apart exD 6 2 ∧
    ∃ h', addAtSegsH exD 5 ["a", "l[0]"] 6 = some h' ∧ Apart h' 5 2 ∧
      ((List.range 7).filter fun a => h'.get? a != exD.get? a) = [3] := by
  have hr : exD.RankedBy (fun a => a) := rankedBy_of_all (by decide)
  have hm : exD.MapsOk := mapsOk_of_all (by decide +kernel)
  have hs : SibSep exD 5 := sibSep_of_sibSepB (by decide +kernel)
  have hap : Apart exD 6 2 := apart_of_apartB (by decide +kernel)
  refine ⟨hr, hm, hs, by decide +kernel, by decide +kernel, ?_, hap, ?_⟩
  · intro hp
    have := hp "l[0]" rfl
    revert this
    decide +kernel
  · cases he : addAtSegsH exD 5 ["a", "l[0]"] 6 with
    | none =>
      have : (addAtSegsH exD 5 ["a", "l[0]"] 6).isSome = true := by decide +kernel
      rw [he] at this; cases this
    | some h' =>
      refine ⟨h', rfl, (heap_overwrite_detaches exD h' _ 5 4 2 _ hr hm hs (by decide +kernel) (by decide +kernel)).1
        6 hap he, ?_⟩
      have : ((addAtSegsH exD 5 ["a", "l[0]"] 6).map fun h' =>
          (List.range 7).filter fun a => h'.get? a != exD.get? a) = some [3] := by decide +kernel
      rw [he] at this
      exact Option.some.inj this

/-- … the same for handles sitting in LIST SLOTS, when the slot is overwritten / the list cleared through
    the list (`ListBuilder.Set` / `MustSet` / `Clear` on a list `l` of the tree-shaped document): the
    item `y` that was stored in slot `i` is detached from the whole document. -/
theorem heap_list_overwrite_detaches (h h' : Heap) (rank : Addr → Nat) (root l y v : Addr) (xs : List Addr) (i : Nat)
    (hr : h.RankedBy rank) (hs : SibSep h root) (hrl : Reach h root l) (hg : h.get? l = some (.list xs))
    (hy : xs[i]? = some y) :
    (Apart h v y → ¬ Reach h v l → Ytk.Heap.listSet h l i v = some h' → Apart h' root y) ∧
    (Apart h v y → ¬ Reach h v l → listMustSetH h l i v = .ok h' → Apart h' root y) ∧
    (listClear h l = some h' → Apart h' root y) :=
  listwrite_detaches hr hs hrl hg hy

/-- INVARIANT of one call: closed, acyclic, sorted maps, nil leaf — provided the call is made on an
    existing cell and the node it attaches (if any) exists and reaches no container / list of the graph
    below the handle (`HOp.Ok`; in particular it does not reach the cell it is stored in). -/
theorem heap_step_closed (h h' : Heap) (op : HOp) (ret : Option Addr) (hi : Inv h) (hok : op.Ok h)
    (he : hstep h op = .ok (h', ret)) : Inv h' := hstep_inv hi hok he

/-- INVARIANT of every history in which each call is `Ok` in the heap it is applied to. -/
theorem heap_run_closed (h h' : Heap) (ops : List HOp) (hrun : SafeRun h ops h') (hi : Inv h) :
    Inv h' ∧ Ytk.Heap.hrun h ops = .ok h' := ⟨hrun.inv hi, hrun.hrun_ok⟩

/-- TREE-NESS IS AN INVARIANT TOO: in a tree-shaped document every call made on a cell of the document
    (the root or a live handle) that attaches a tree sharing at most leaves with the document
    (`HOp.TreeOk`) leaves a well-formed, tree-shaped document — so the hypotheses of the refinement
    theorems (`heap_addValueAt_abs` …) hold again after the call, and hence at EVERY step of a history
    (`TreeRun`). -/
theorem heap_run_tree (root : Addr) (h h' : Heap) (ops : List HOp) (hrun : TreeRun root h ops h') (hi : Inv h)
    (hs : SibSep h root) (hrl : root < h.size) : Inv h' ∧ SibSep h' root ∧ root < h'.size :=
  hrun.inv hi hs hrl

theorem heap_step_tree (root : Addr) (h h' : Heap) (op : HOp) (ret : Option Addr) (hi : Inv h) (hs : SibSep h root)
    (hrl : root < h.size) (hok : op.TreeOk h root) (he : hstep h op = .ok (h', ret)) :
    Inv h' ∧ SibSep h' root := hstep_tree hi hs hrl hok he

/-- … and each root-level call of such a history IS the value-level step `bstep` of
    YtkModel/Builder.lean on the abstraction (`HOp.toBOp`: AddValue / AddValueAt / AddContainer / AddList /
    Remove / RemoveAt / Walk(CompactFn); list calls go through their list handle: `heap_listSet_abs`). -/
theorem heap_step_refines_bstep (h h' : Heap) (root : Addr) (op : HOp) (ret : Option Addr) (d : AMap Node)
    (vn : Node) (bop : BOp) (hi : Inv h) (hs : SibSep h root) (hrl : root < h.size) (hok : op.TreeOk h root)
    (htgt : op.target = root) (hd : abs h root = some (.cont d)) (hv : ∀ v, op.value = some v → abs h v = some vn)
    (hb : op.toBOp vn = some bop) (he : hstep h op = .ok (h', ret)) :
    ∃ d', bstep d bop = .ok d' ∧ abs h' root = some (.cont d') :=
  hstep_bstep hi hs hrl hok htgt hd hv hb he

/-- The hypothesis on the attached node cannot be dropped: attaching an ANCESTOR below itself
    (`#2.AddValue("up", #1)` where #1 = {"a": #2}) gives a closed heap that is cyclic, and the
    document has no abstraction any more (every traversal diverges) — the shape of D28. -/
theorem heap_add_own_ancestor_cycle :
    cycHeap.Closed ∧ cycHeap.Acyclic ∧
    ∃ h', addH cycHeap 2 "up" 1 = some h' ∧ h'.Closed ∧ ¬ h'.Acyclic ∧ abs h' 1 = none :=
  addH_own_ancestor_cycle

/-! ### Non-vacuity on a concrete heap

  `exB`: 0 nilLeaf · 1 leaf 1 · 2 {b: #1} · 3 = root {a: #2, n: nilLeaf} · 4 leaf "v" (a value to attach) -/
def exB : Heap := ⟨[.leaf Scalar.null, .leaf ⟨"int", "1"⟩, .cont [("b", 1)], .cont [("a", 2), ("n", 0)],
  .leaf ⟨"string", "v"⟩]⟩

def exBRank : Addr → Nat | 3 => 2 | 2 => 1 | _ => 0

theorem nonvacuous_heap_builder_inv : Inv exB ∧ exB.RankedBy exBRank ∧ SibSep exB 3 := by
  have hr : exB.RankedBy exBRank := rankedBy_of_all (by decide)
  refine ⟨⟨closed_of_all (by decide), ⟨exBRank, hr⟩, mapsOk_of_all (by decide +kernel), rfl⟩, hr, ?_⟩
  intro a c _ hg i j ki kj hi hj hij
  have halt : a < 5 := Heap.get?_lt hg
  -- only the root has two slots; one of them is the nil leaf, which reaches only itself
  have key : ki = 0 ∨ kj = 0 := by
    match a, hg, halt with
    | 0, hg, _ | 1, hg, _ | 4, hg, _ =>
      simp only [exB, Heap.get?, List.getElem?_cons_zero, List.getElem?_cons_succ, Option.some.injEq] at hg
      subst hg; simp [Cell.kids] at hi
    | 2, hg, _ =>
      simp only [exB, Heap.get?, List.getElem?_cons_zero, List.getElem?_cons_succ, Option.some.injEq] at hg
      subst hg
      simp only [Cell.kids, List.map_cons, List.map_nil] at hi hj
      match i, j with
      | 0, 0 => exact absurd rfl hij
      | 0, j + 1 => simp at hj
      | i + 1, _ => simp at hi
    | 3, hg, _ =>
      simp only [exB, Heap.get?, List.getElem?_cons_zero, List.getElem?_cons_succ, Option.some.injEq] at hg
      subst hg
      simp only [Cell.kids, List.map_cons, List.map_nil] at hi hj
      match i, j with
      | 0, 0 => exact absurd rfl hij
      | 1, 1 => exact absurd rfl hij
      | 0, 1 => right; simpa using hj.symm
      | 1, 0 => left; simpa using hi.symm
      | i + 2, _ => simp at hi
      | 0, j + 2 => simp at hj
      | 1, j + 2 => simp at hj
    | a + 5, _, halt => exact absurd halt (Nat.not_lt.mpr (Nat.le_add_left 5 a))
  intro b hb1 hb2 hcomp
  have hb0 : b = 0 := by
    rcases key with rfl | rfl
    · exact Reach.of_leaf (h := exB) (s := Scalar.null) rfl hb1
    · exact Reach.of_leaf (h := exB) (s := Scalar.null) rfl hb2
  subst hb0
  obtain ⟨cell, hgc, hl⟩ := hcomp
  cases (Option.some.inj hgc : Cell.leaf Scalar.null = cell)
  simp [Cell.isLeaf] at hl

/-- `root.AddValueAt("a.c[1].d", #4)`: refines the value-level `addValueAt`, `Lookup` returns #4 itself,
    the only existing cell written is #2 (the container `a`), slot 0 of the new list is the shared nil leaf -/
theorem nonvacuous_heap_addValueAt :
    ((addValueAtH exB 3 "a.c[1].d" 4).bind fun h' => abs h' 3) =
      (abs exB 3).bind (fun n => match n, abs exB 4 with
        | .cont d, some v => some (.cont (addValueAt d "a.c[1].d" v))
        | _, _ => none) ∧
    (abs exB 3).isSome = true ∧
    ((addValueAtH exB 3 "a.c[1].d" 4).bind fun h' => lookupH h' 3 "a.c[1].d") = some 4 ∧
    ((addValueAtH exB 3 "a.c[1].d" 4).map fun h' =>
      (List.range 5).filter fun a => h'.get? a != exB.get? a) = some [2] ∧
    ((addValueAtH exB 3 "a.c[1].d" 4).bind fun h' => lookupH h' 3 "a.c[0]") = some nilAddr := by
  decide +kernel

/-- handles: `x := root.Child("a")` (#2); a write through the live handle is the root-level path
    write; `root.AddContainer("a")` returns a NEW empty cell (#5) and detaches #2: a later write through
    the old handle #2 is invisible from the root -/
theorem nonvacuous_heap_handles :
    childH exB 3 "a" = some 2 ∧ ancestorH exB 3 ["a", "z"] = some 2 ∧
    addH exB 2 "z" 4 = addValueAtH exB 3 "a.z" 4 ∧
    ((addContainerH exB 3 "a").map fun p => (p.2, p.1.get? p.2, childH p.1 3 "a")) = some (5, some (.cont []), some 5) ∧
    ((addContainerH exB 3 "a").bind fun p => (addH p.1 2 "z" 4).bind fun h2 => abs h2 3) =
      ((addContainerH exB 3 "a").bind fun p => abs p.1 3) ∧
    ((addContainerH exB 3 "a").bind fun p => abs p.1 3).isSome = true := by
  decide +kernel

/-- the value-level result the run below must have -/
def exRunValue : Option Node :=
  (abs exB 3).bind (fun n => match n with
    | .cont d => (match brun d [.addValueAt "a.c" (.leaf ⟨"string", "v"⟩), .remove "n"] with
      | .ok d' => some (.cont d')
      | _ => none)
    | _ => none)

def exRunCheck : Bool :=
  match hstep exB (.addValueAt 3 "a.c" 4) with
  | .ok p =>
    match hstep p.1 (.remove 3 "n") with
    | .ok q => decide (abs q.1 3 = exRunValue) && (abs q.1 3).isSome
    | _ => false
  | _ => false

/-- a `TreeRun` on `exB`: `root.AddValueAt("a.c", #4)` then `root.Remove("n")` — every hypothesis of
    `heap_run_tree` / `heap_step_refines_bstep` is satisfiable, and the run is the value-level `brun` -/
theorem nonvacuous_heap_tree_run :
    ∃ h', TreeRun 3 exB [.addValueAt 3 "a.c" 4, .remove 3 "n"] h' ∧ abs h' 3 = exRunValue ∧
      (abs h' 3).isSome = true := by
  have hleaf4 : exB.get? 4 = some (.leaf ⟨"string", "v"⟩) := rfl
  have hok1 : (HOp.addValueAt 3 "a.c" 4).TreeOk exB 3 := by
    refine ⟨.refl _, fun v hv => ?_⟩
    simp only [HOp.value, Option.some.injEq] at hv
    subst hv
    refine ⟨by decide, ?_, ?_⟩
    · intro a c ha hg i j ki kj hi
      have := Reach.of_leaf hleaf4 ha
      subst this
      rw [hleaf4] at hg; cases hg
      simp [Cell.kids] at hi
    · intro b _ hb hcomp
      have := Reach.of_leaf hleaf4 hb
      subst this
      obtain ⟨cell, hgc, hl⟩ := hcomp
      rw [hleaf4] at hgc; cases hgc
      simp [Cell.isLeaf] at hl
  have key : exRunCheck = true := by decide +kernel
  unfold exRunCheck at key
  cases he1 : hstep exB (.addValueAt 3 "a.c" 4) with
  | err => rw [he1] at key; cases key
  | panic => rw [he1] at key; cases key
  | ok p1 =>
    obtain ⟨h1, r1⟩ := p1
    rw [he1] at key
    simp only at key
    have hok2 : (HOp.remove 3 "n").TreeOk h1 3 := ⟨.refl _, fun v hv => by simp [HOp.value] at hv⟩
    cases he2 : hstep h1 (.remove 3 "n") with
    | err => rw [he2] at key; cases key
    | panic => rw [he2] at key; cases key
    | ok p2 =>
      obtain ⟨h2, r2⟩ := p2
      rw [he2] at key
      simp only [Bool.and_eq_true, decide_eq_true_eq] at key
      exact ⟨h2, .cons hok1 he1 (.cons hok2 he2 (.nil _)), key.1, key.2⟩

/-! ### Whole histories that mix calls on handles with calls on the root

  `HandleRun root h ops bops h'` (YtkProofs/HeapBuilderHist.lean) is the CORRESPONDENCE OF HISTORIES:
  the heap-level history `ops` (each call addressed by the ADDRESS of the handle it is made on) runs
  from `h` to `h'`, and `bops` is the value-level history that corresponds to it:

    * a call on a handle that is LIVE at the path string `p` when the call is made (`LiveAt`: the root
      for `p = ""`, otherwise the node `root.Lookup(p)` returns in the current heap) contributes the
      explicit function `HOp.atPath p vn xn op` — on the root the root-level `BOp` (`HOp.toBOp`), on a
      handle the PATH-LEVEL call at `utils.ToPath(p, name)`: `x.AddValue(name, v)` ↦
      `AddValueAt(p.name, v)`, `x.AddContainer(name)` ↦ `AddValueAt(p.name, {})`, `x.Remove(name)` ↦
      `RemoveAt(p.name)`, `x.AddValueAt(q, v)` ↦ `AddValueAt(p.q, v)`, `l.Set(i, v)` ↦ the list call
      addressed by `p`, `Child` / `Lookup` ↦ nothing.  Two kinds of handle calls have no path-level
      counterpart — a member name containing '.' (the handle call stores the literal key, every path
      would split it) and `Walk(CompactFn)` on a sub-container (`BOp.compact` is the root call) —;
      they are rendered as `AddValueAt(p, <the handle's updated subtree>)` (`restoreAt`, computed from
      `xn`, the abstraction of the handle).  The call must be `HOp.TreeOk` (as in `heap_run_tree`),
      `vn` is the abstraction of its value node;
    * a call on a DETACHED handle (`Apart h root target`, `HOp.Ok` as in `heap_run_closed`)
      contributes NOTHING.

  So every successful call on the root, on a live handle or on a detached handle is covered. -/

/-- WHOLE-HISTORY REFINEMENT WITH HANDLES: for every history of builder calls on the root, on live
    handles (containers and lists, also handles sitting in list slots: `p = "a.l[2]"`) and on detached
    handles, started in a well-formed tree-shaped document, every invariant of `heap_run_closed` /
    `heap_run_tree` holds at the end, `hrun` succeeds, and the abstraction of the root is `brun` of the
    corresponding value-level history — so every value-level law (set-get, frame, padding, `run_valid`)
    holds for programs that keep and use handles. -/
theorem heap_run_refines (root : Addr) (h h' : Heap) (ops : List HOp) (bops : List BOp) (d : AMap Node)
    (hrun : HandleRun root h ops bops h') (hi : Inv h) (hs : SibSep h root) (hrl : root < h.size)
    (hd : abs h root = some (.cont d)) :
    Inv h' ∧ SibSep h' root ∧ root < h'.size ∧ Ytk.Heap.hrun h ops = .ok h' ∧
      ∃ d', brun d bops = .ok d' ∧ abs h' root = some (.cont d') :=
  hrun.refines hi hs hrl hd

/-- … one live call, stated on its own: the call on the handle at `p` IS `brun` of `HOp.atPath p` -/
theorem heap_step_live_refines (h h' : Heap) (root : Addr) (op : HOp) (ret : Option Addr) (d : AMap Node)
    (vn xn : Node) (p : String) (bops : List BOp) (hi : Inv h) (hs : SibSep h root) (hrl : root < h.size)
    (hok : op.TreeOk h root) (hlive : LiveAt h root op.target p) (hd : abs h root = some (.cont d))
    (hv : ∀ v, op.value = some v → abs h v = some vn) (hxn : abs h op.target = some xn)
    (hb : op.atPath p vn xn = some bops) (he : hstep h op = .ok (h', ret)) :
    ∃ d', brun d bops = .ok d' ∧ abs h' root = some (.cont d') :=
  hstep_live_refines hi hs hrl hok hlive hd hv hxn hb he

def exV : Node := .leaf ⟨"string", "v"⟩
def exOne : Node := .leaf ⟨"int", "1"⟩

/-- the heaps of the history below (cells 0, 1, 3 and 4 never change after the second call) -/
def exH1 : Heap := ⟨[.leaf Scalar.null, .leaf ⟨"int", "1"⟩, .cont [("b", 1), ("z", 4)], .cont [("a", 2), ("n", 0)],
  .leaf ⟨"string", "v"⟩]⟩
def exH2 : Heap := ⟨[.leaf Scalar.null, .leaf ⟨"int", "1"⟩, .cont [("b", 1), ("z", 4)], .cont [("a", 5), ("n", 0)],
  .leaf ⟨"string", "v"⟩, .cont []]⟩
def exHd (tail : List Cell) : Heap := ⟨[.leaf Scalar.null, .leaf ⟨"int", "1"⟩, .cont [("b", 1), ("y", 1), ("z", 4)],
  .cont [("a", 5), ("n", 0)], .leaf ⟨"string", "v"⟩] ++ tail⟩
def exH3 : Heap := exHd [.cont []]
def exH4 : Heap := exHd [.cont [("l", 6)], .list []]
def exH5 : Heap := exHd [.cont [("l", 6)], .list [4]]
def exH6 : Heap := exHd [.cont [("e", 7), ("l", 6)], .list [4], .cont []]
def exH7 : Heap := exHd [.cont [("e", 7), ("l", 6), ("x.y", 1)], .list [4], .cont []]
def exH8 : Heap := exHd [.cont [("l", 6), ("x.y", 1)], .list [4], .cont []]

/-- the heap-level history: `x := root.Child("a")` (= #2) ·
    1 `x.AddValue("z", #4)` (x LIVE at "a") · 2 `y := root.AddContainer("a")` (on the root; returns the new
    #5 and DETACHES #2) · 3 `x.AddValue("y", #1)` (on the now detached #2: invisible) ·
    4 `l := y.AddList("l")` (y live at "a"; returns #6) · 5 `l.Append(#4)` (list handle, live at "a.l") ·
    6 `y.AddContainer("e")` · 7 `y.AddValue("x.y", #1)` (a dotted member name) · 8 `y.Walk(CompactFn)` -/
def exHOps : List HOp := [.addValue 2 "z" 4, .addContainer 3 "a", .addValue 2 "y" 1, .addList 5 "l",
  .listAppend 6 4, .addContainer 5 "e", .addValue 5 "x.y" 1, .compact 5]

/-- … and the value-level history that corresponds to it: SEVEN calls (call 3 contributes none) -/
def exBOps : List BOp := [.addValueAt "a.z" exV, .addContainer "a", .addValueAt "a.l" (.list []),
  .listAppend "a.l" exV, .addValueAt "a.e" (.cont []),
  .addValueAt "a" (.cont (add [("e", .cont []), ("l", .list [exV])] "x.y" exOne)),
  .addValueAt "a" (.cont (compactKvs [("e", .cont []), ("l", .list [exV]), ("x.y", exOne)]))]

/-- a history on `exB` (root #3) that uses handles in every way; the document at the end is `brun` of
    the corresponding value-level history -/
theorem nonvacuous_heap_run_refines :
    HandleRun 3 exB exHOps exBOps exH8 ∧
    abs exB 3 = some (.cont [("a", .cont [("b", exOne)]), ("n", Node.null)]) ∧
    brun [("a", .cont [("b", exOne)]), ("n", Node.null)] exBOps =
      .ok [("a", .cont [("l", .list [exV]), ("x.y", exOne)]), ("n", Node.null)] ∧
    abs exH8 3 = some (.cont [("a", .cont [("l", .list [exV]), ("x.y", exOne)]), ("n", Node.null)]) := by
  refine ⟨?_, by decide +kernel, by decide +kernel, by decide +kernel⟩
  have reach : ∀ (g : Heap) (a b : Addr), b ∈ Ytk.Heap.reach g a → Reach g a b := fun g a b hb => mem_reachF _ a b hb
  have novalue : ∀ (g : Heap) (op : HOp), op.value = none → ∀ v, op.value = some v →
      v < g.size ∧ SibSep g v ∧ Apart g 3 v := fun g op hn v hv => by rw [hn] at hv; cases hv
  have leafval : ∀ (g : Heap) (v : Addr) (s : Scalar), g.get? v = some (.leaf s) →
      v < g.size ∧ SibSep g v ∧ Apart g 3 v := fun g v s hg => by
    obtain ⟨h1, h2, h3, _⟩ := leaf_value_ok hg 3
    exact ⟨h1, h2, h3⟩
  -- 1. x.AddValue("z", #4), x = #2 live at "a"
  refine .live (p := "a") (vn := exV) (xn := .cont [("b", exOne)]) (bs := [.addValueAt "a.z" exV])
    (ret := none) (h1 := exH1) ⟨reach exB 3 2 (by decide), fun v hv => ?_⟩ (by decide +kernel)
    (fun v hv => by cases hv; decide +kernel) (by decide +kernel) rfl (by decide +kernel) ?_
  · cases hv; exact leafval exB 4 ⟨"string", "v"⟩ rfl
  -- 2. root.AddContainer("a")
  refine .live (p := "") (vn := Node.null)
    (xn := .cont [("a", .cont [("b", exOne), ("z", exV)]), ("n", Node.null)]) (bs := [.addContainer "a"])
    (ret := some 5) (h1 := exH2) ⟨.refl _, novalue exH1 _ rfl⟩ (by decide +kernel) (fun v hv => by cases hv)
    (by decide +kernel) rfl (by decide +kernel) ?_
  -- 3. x.AddValue("y", #1) on the DETACHED #2
  refine .detached (ret := none) (h1 := exH3) ⟨by decide, fun v hv => ?_⟩ (apart_of_apartB (by decide +kernel))
    (by decide +kernel) ?_
  · cases hv
    obtain ⟨h1, _, _, h4⟩ := leaf_value_ok (h := exH2) (v := 1) (s := ⟨"int", "1"⟩) rfl 2
    exact ⟨h1, h4⟩
  -- 4. y.AddList("l"), y = #5 live at "a"
  refine .live (p := "a") (vn := Node.null) (xn := .cont []) (bs := [.addValueAt "a.l" (.list [])])
    (ret := some 6) (h1 := exH4) ⟨reach exH3 3 5 (by decide), novalue exH3 _ rfl⟩ (by decide +kernel)
    (fun v hv => by cases hv) (by decide +kernel) rfl (by decide +kernel) ?_
  -- 5. l.Append(#4), l = #6 live at "a.l"
  refine .live (p := "a.l") (vn := exV) (xn := .list []) (bs := [.listAppend "a.l" exV])
    (ret := none) (h1 := exH5) ⟨reach exH4 3 6 (by decide), fun v hv => ?_⟩ (by decide +kernel)
    (fun v hv => by cases hv; decide +kernel) (by decide +kernel) rfl (by decide +kernel) ?_
  · cases hv; exact leafval exH4 4 ⟨"string", "v"⟩ rfl
  -- 6. y.AddContainer("e")
  refine .live (p := "a") (vn := Node.null) (xn := .cont [("l", .list [exV])])
    (bs := [.addValueAt "a.e" (.cont [])]) (ret := some 7) (h1 := exH6)
    ⟨reach exH5 3 5 (by decide), novalue exH5 _ rfl⟩ (by decide +kernel) (fun v hv => by cases hv)
    (by decide +kernel) rfl (by decide +kernel) ?_
  -- 7. y.AddValue("x.y", #1): a dotted member name — the updated subtree is re-stored at "a"
  refine .live (p := "a") (vn := exOne) (xn := .cont [("e", .cont []), ("l", .list [exV])])
    (bs := [.addValueAt "a" (.cont (add [("e", .cont []), ("l", .list [exV])] "x.y" exOne))])
    (ret := none) (h1 := exH7) ⟨reach exH6 3 5 (by decide), fun v hv => ?_⟩ (by decide +kernel)
    (fun v hv => by cases hv; decide +kernel) (by decide +kernel) rfl (by decide +kernel) ?_
  · cases hv; exact leafval exH6 1 ⟨"int", "1"⟩ rfl
  -- 8. y.Walk(CompactFn) on the sub-container: drops the empty "e"
  exact .live (p := "a") (vn := Node.null) (xn := .cont [("e", .cont []), ("l", .list [exV]), ("x.y", exOne)])
    (bs := [.addValueAt "a" (.cont (compactKvs [("e", .cont []), ("l", .list [exV]), ("x.y", exOne)]))])
    (ret := none) (h1 := exH8) ⟨reach exH7 3 5 (by decide), novalue exH7 _ rfl⟩ (by decide +kernel)
    (fun v hv => by cases hv) (by decide +kernel) rfl (by decide +kernel) (.nil _)

/-- HANDLES ARE BORN LIVE (how the `LiveAt` hypotheses of `HandleRun` arise): on a handle `x` that is live
    at `p`, the cell `x.AddContainer(name)` / `x.AddList(name)` returns is live at `utils.ToPath(p, name)` in
    the heap after the call (member names without '.'), and what `x.Child(name)` / `x.Lookup(q)` return is
    live at `ToPath(p, q)` — so a handle is live from the call that produced it until a call overwrites
    or removes a position on its path (`heap_overwrite_detaches`; `heap_handle_stays`: writes at diverging
    paths do not move it). -/
theorem heap_handle_born_live (h h' : Heap) (root x b : Addr) (p name : String) (hi : Inv h) (hrl : root < h.size)
    (hlive : LiveAt h root x p) (hdot : '.' ∉ name.toList) (hq : toPath p name ≠ "") :
    (addContainerH h x name = some (h', b) → b = h.size ∧ LiveAt h' root b (toPath p name)) ∧
    (addListH h x name = some (h', b) → b = h.size ∧ LiveAt h' root b (toPath p name)) ∧
    (∀ y q kvs, h.get? x = some (.cont kvs) → toPath p q ≠ "" → lookupSegsH h x (splitPath q) = some y →
      LiveAt h root y (toPath p q)) := by
  refine ⟨fun he => ?_, fun he => ?_, fun y q kvs hg hq' hl => born_live_read hlive hg q hq' hl⟩
  · unfold addContainerH at he
    simp only at he
    split at he
    · rename_i h2 he'
      simp only [Option.some.injEq, Prod.mk.injEq] at he
      obtain ⟨rfl, rfl⟩ := he
      exact ⟨rfl, born_live_new rfl (fun kvs hk => by cases hk; exact .nil) hi hrl hlive hdot hq he'⟩
    · cases he
  · unfold addListH at he
    simp only at he
    split at he
    · rename_i h2 he'
      simp only [Option.some.injEq, Prod.mk.injEq] at he
      obtain ⟨rfl, rfl⟩ := he
      exact ⟨rfl, born_live_new rfl (fun kvs hk => by cases hk) hi hrl hlive hdot hq he'⟩
    · cases he

/-- … AND THE DOCUMENTED PANIC: when such a history is followed by `l.MustSet(i, v)` on a list handle that
    is live at `p`, the heap-level history panics EXACTLY WHEN the corresponding value-level history
    (`… ++ [MustSet at p]`) does — out of range both panic, in range neither does. -/
theorem heap_run_refines_panic (root : Addr) (h h1 : Heap) (ops : List HOp) (bops : List BOp) (d : AMap Node)
    (hrun : HandleRun root h ops bops h1) (hi : Inv h) (hs : SibSep h root) (hrl : root < h.size)
    (hd : abs h root = some (.cont d)) (l v : Addr) (i : Nat) (p : String) (vn : Node) (hp : p ≠ "")
    (hlive : LiveAt h1 root l p) :
    Ytk.Heap.hrun h (ops ++ [.listMustSet l i v]) = .panic ↔ brun d (bops ++ [.listMustSet p i vn]) = .panic :=
  hrun.refines_panic hi hs hrl hd vn hp hlive

/-- after the history above `l.MustSet(5, #4)` on the one-item list #6 (live at "a.l") panics in both models,
    `l.MustSet(0, #4)` in neither -/
theorem nonvacuous_heap_run_panic :
    LiveAt exH8 3 6 "a.l" ∧
    Ytk.Heap.hrun exB (exHOps ++ [.listMustSet 6 5 4]) = .panic ∧
    brun [("a", .cont [("b", exOne)]), ("n", Node.null)] (exBOps ++ [.listMustSet "a.l" 5 exV]) = .panic ∧
    Ytk.Heap.hrun exB (exHOps ++ [.listMustSet 6 0 4]) ≠ .panic ∧
    brun [("a", .cont [("b", exOne)]), ("n", Node.null)] (exBOps ++ [.listMustSet "a.l" 0 exV]) ≠ .panic := by
  decide +kernel

end heap


end Ytk.C03

/-! ## gap7a: the laws on the path STRINGS the driver runs, below-the-write, list steps of a history -/
namespace Ytk.C03

/-- remove-get on path strings (`lookup` / `removeAt` are what the driver executes; `lookup_removeAt`
    above is the same on component lists): after `RemoveAt(path)`, `Lookup(path)` finds nothing — when
    the last component carries no index group (remove paths end in a key). -/
theorem lookup_removeAt_str (d : AMap Node) (path : String) (hv : (Node.cont d).Valid)
    (hl : ∀ l, (splitPath path).getLast? = some l → hasIdxSuffix l = false) :
    lookup (removeAt d path) path = none := by
  by_cases hp : path = ""
  · simp [lookup, hp]
  · simp only [lookup, if_neg hp, removeAt]
    exact lookupSegs_removeAtSegs_self _ d hv (splitPath_ne_nil path) hl

/-- the side condition is needed at value level too: `RemoveAt("l[0]")` is Go's `delete` on the LITERAL
    key `l[0]`, which no container built through the API has — nothing is removed and `Lookup("l[0]")`
    still finds the item. -/
theorem lookup_removeAt_index_counterexample :
    (Node.cont [("l", .list [.leaf ⟨"int", "1"⟩])]).Valid ∧
    removeAt [("l", .list [.leaf ⟨"int", "1"⟩])] "l[0]" = [("l", .list [.leaf ⟨"int", "1"⟩])] ∧
    lookup (removeAt [("l", .list [.leaf ⟨"int", "1"⟩])] "l[0]") "l[0]" = some (.leaf ⟨"int", "1"⟩) :=
  ⟨Node.validB_sound _ (by decide +kernel), by decide +kernel, by decide +kernel⟩

/-- frame (write) on path strings: nothing changes at a path that diverges by key from the written one -/
theorem addValueAt_frame_str (d : AMap Node) (p q : String) (v : Node) (h : Diverge (splitPath p) (splitPath q)) :
    lookup (addValueAt d p v) q = lookup d q := by
  by_cases hq : q = ""
  · simp [lookup, hq]
  · simp only [lookup, if_neg hq, addValueAt]
    exact lookupSegs_addAtSegs_frame _ _ d v h

/-- frame (write) on path strings, every pair of paths that are not prefix-related (under `Fits`) -/
theorem addValueAt_frame_steps_str (d : AMap Node) (p q : String) (v : Node) (hq : q ≠ "") (hf : Fits d (splitPath p))
    (h1 : ¬ pathSteps (splitPath p) <+: pathSteps (splitPath q))
    (h2 : ¬ pathSteps (splitPath q) <+: pathSteps (splitPath p)) :
    lookup (addValueAt d p v) q = lookup d q ∨ (lookup d q = none ∧ lookup (addValueAt d p v) q = some Node.null) := by
  simp only [lookup, if_neg hq, addValueAt]
  exact lookupSegs_addAtSegs_frame_steps d _ _ v hf h1 h2

/-- frame (remove) on path strings, every pair of paths that are not prefix-related -/
theorem removeAt_frame_str (d : AMap Node) (p q : String)
    (h1 : ¬ pathSteps (splitPath p) <+: pathSteps (splitPath q))
    (h2 : ¬ pathSteps (splitPath q) <+: pathSteps (splitPath p)) :
    lookup (removeAt d p) q = lookup d q := by
  by_cases hq : q = ""
  · simp [lookup, hq]
  · simp only [lookup, if_neg hq, removeAt]
    exact lookupSegs_removeAtSegs_frame_steps d _ _ h1 h2

/-- BELOW the written path: after `AddValueAt(path, {c})`, a lookup that continues past `path`
    (`ToPath(path, sub)`) continues inside the written container — together with set-get (at the
    path) and the frame laws (beside the path) this determines `Lookup` after a write everywhere
    except on proper prefixes of the path. Every path string. -/
theorem lookup_addValueAt_below (d c : AMap Node) (path sub : String) (hp : path ≠ "") (hs : sub ≠ "") :
    lookup (addValueAt d path (.cont c)) (toPath path sub) = lookup c sub := by
  simp only [lookup, if_neg (gap_toPath_ne_empty hp sub), if_neg hs, addValueAt, gap_splitPath_toPath hp]
  exact lookupSegs_addAtSegs_below _ _ d c (splitPath_ne_nil path) (splitPath_ne_nil sub)

/-- … and below a written leaf or list there is nothing to find by key steps -/
theorem lookup_addValueAt_below_noncont (d : AMap Node) (v : Node) (path sub : String) (hp : path ≠ "")
    (hv : ∀ c, v ≠ .cont c) : lookup (addValueAt d path v) (toPath path sub) = none := by
  simp only [lookup, if_neg (gap_toPath_ne_empty hp sub), addValueAt, gap_splitPath_toPath hp]
  exact lookupSegs_addAtSegs_below_noncont _ _ d v (splitPath_ne_nil path) (splitPath_ne_nil sub) hv

/-- the list-builder steps of a HISTORY (`bstep d (.listSet path i v)` etc. go through `updateAt`):
    what `Lookup(path)` finds afterwards is `f` applied to what it found before, for every path and
    every document — so `list_set_*`, `list_append`, … above are laws of history steps, not only of
    bare lists. -/
theorem lookup_updateAt (d : AMap Node) (path : String) (f : Node → Node) :
    lookup (updateAt d path f) path = (lookup d path).map f := by
  by_cases hp : path = ""
  · simp [lookup, hp]
  · simp only [lookup, if_neg hp, updateAt]
    exact lookupSegs_updateAtSegs _ d f

/-- `l := Lookup(path).(List); l.Set(i, v)` as a step of a history: the list found at `path` afterwards is
    `listSet` of the list found before (length `max len (i+1)`, slot `i` holds `v`, pads are null by
    `list_set_*`); Append and Clear likewise; in-range MustSet is `List.set`. -/
theorem bstep_list_lookup (d : AMap Node) (path : String) (xs : List Node) (i : Nat) (v : Node)
    (h : lookup d path = some (.list xs)) :
    (∃ d', bstep d (.listSet path i v) = .ok d' ∧ lookup d' path = some (.list (listSet xs i v))) ∧
    (∃ d', bstep d (.listAppend path v) = .ok d' ∧ lookup d' path = some (.list (xs ++ [v]))) ∧
    (∃ d', bstep d (.listClear path) = .ok d' ∧ lookup d' path = some (.list [])) ∧
    (i < xs.length → ∃ d', bstep d (.listMustSet path i v) = .ok d' ∧ lookup d' path = some (.list (xs.set i v))) ∧
    (xs.length ≤ i → bstep d (.listMustSet path i v) = .panic) := by
  refine ⟨⟨_, rfl, ?_⟩, ⟨_, rfl, ?_⟩, ⟨_, rfl, ?_⟩, ?_, ?_⟩
  · rw [lookup_updateAt, h]; rfl
  · rw [lookup_updateAt, h]; rfl
  · rw [lookup_updateAt, h]; rfl
  · intro hi
    refine ⟨updateAt d path (onList fun xs => xs.set i v), by simp [bstep, h, hi], ?_⟩
    rw [lookup_updateAt, h]; rfl
  · intro hi
    have : ¬ i < xs.length := by omega
    simp [bstep, h, this]

/-- a list step aimed at a path where there is no list changes nothing that `Lookup(path)` sees -/
theorem bstep_list_absent (d : AMap Node) (path : String) (i : Nat) (v : Node) (h : lookup d path = none) :
    lookup (updateAt d path (onList fun xs => listSet xs i v)) path = none := by
  rw [lookup_updateAt, h]; rfl

/-- Walk(CompactFn) twice is Walk(CompactFn) once -/
theorem compact_idem (d : AMap Node) : compactKvs (compactKvs d) = compactKvs d := compactKvs_idem d

/-- non-vacuity: below / list step on concrete documents -/
theorem nonvacuous_below_and_list_step :
    lookup (addValueAt [] "a.l[1]" (.cont [("x", .cont [("y", .leaf ⟨"int", "1"⟩)])])) (toPath "a.l[1]" "x.y")
      = some (.leaf ⟨"int", "1"⟩) ∧
    bstep [("a", .cont [("l", .list [Node.null])])] (.listSet "a.l" 2 (.leaf ⟨"int", "7"⟩)) =
      .ok [("a", .cont [("l", .list [Node.null, Node.null, .leaf ⟨"int", "7"⟩])])] := by
  decide +kernel

end Ytk.C03

namespace Ytk.C03

/-! ## The plain tree (clause C03.1): an independent structured specification and the refinement to it

  Everything above characterises the builder by laws ABOUT the string-path algorithm.  This section
  states what the property literally says: after every step of every history, `AsMap(doc)` is the result
  of "the same edits on a plain map/slice tree".

  * The plain tree and its edits are YtkModel/PlainSpec.lean (`Ytk.Plain`): `Val`s, paths as lists of
    STEPS (`PSeg.key k` / `PSeg.idx i`), `setAt` / `updAt` / `getAt` by recursion over the steps — no
    path string, no splitting, no index-group parsing.
  * `toStructured` (YtkProofs/PlainSpec.lean) reads a builder call as a structured edit: a member name is
    one component (`segOfComp`: key, then index groups), a path its dotted components; values cross by
    AsMap.  On the property's domain — paths RENDERED by `ToPath` / `ToListPath` from structured
    components over path-safe keys — this reading is the identity (`toStructured_render`), so
    `run_eq_plain_structured` has no parser on either side of the equation.
  * What is NOT a hypothesis: DESIGN 10.4's "no index step on an existing non-list, no key step into an
    existing list".  The specification replaces a node of the wrong kind by a fresh map / list, and so
    does the code — the refinement holds there too (`plain_replaces_wrong_kind_instance`).  The
    hypotheses that ARE needed each have a kernel-checked counterexample below. -/

section plain
open Ytk.Plain

/-- THE HEART, no hypothesis at all: for EVERY document, path string and value, AsMap after
    `AddValueAt(path, v)` is the structured write `setAt` along the steps of the path — missing parents
    created (a map for a key step, a list padded with nulls for an index step), a node of the other kind
    replaced. -/
theorem addValueAt_eq_specSet (d : AMap Node) (path : String) (v : Node) :
    encDoc (addValueAt d path v) = specSet (encDoc d) (pathStepsOf path) (encodeNode v) :=
  encode_addValueAt d path v

/-- … and for a direct member (`AddValue`, `AddContainer`, `AddList`; names with index groups included) -/
theorem add_eq_specSet (d : AMap Node) (name : String) (v : Node) :
    encDoc (add d name v) = specSet (encDoc d) (segOfComp name) (encodeNode v) := encode_add d name v

/-- `RemoveAt` / `Remove` on a valid document: the last KEY is deleted from the map at the parent path;
    a path ending in an index group removes nothing (every path string). -/
theorem removeAt_eq_specRemove (d : AMap Node) (hv : (Node.cont d).Valid) :
    (∀ path, encDoc (removeAt d path) = specRemove (encDoc d) (pathStepsOf path)) ∧
    (∀ name, encDoc (remove d name) = specRemove (encDoc d) (segOfComp name)) :=
  ⟨encode_removeAt d hv, encode_remove d hv⟩

/-- `Lookup` is `getAt` along the steps (every document, every non-empty path string) -/
theorem lookup_eq_specGet (d : AMap Node) (path : String) (hp : path ≠ "") :
    (lookup d path).map encodeNode = getAt (encDoc d) (pathStepsOf path) := encode_lookup d path hp

/-- ONE step of a history — any of the eleven calls, the `MustSet` panic included — is the structured
    edit it denotes. -/
theorem step_eq_plain (d : AMap Node) (op : BOp) (hv : (Node.cont d).Valid) (hp : op.PathOk) :
    (bstep d op).map encDoc = specStep (encDoc d) (toStructured op) := bstep_eq_specStep d op hv hp

/-- **run_eq_plain**: for every valid start document and every history whose values are valid and whose
    ListBuilder calls are addressed by a non-empty path — ALL path strings otherwise, no `Fits`, no
    alphabet restriction —, after EVERY prefix (`take n`, every `n`) the AsMap of the builder's document
    is the plain tree after the same prefix of structured edits; a `MustSet` panic is a panic of both. -/
theorem run_eq_plain (d : AMap Node) (h : List BOp) (hd : (Node.cont d).Valid)
    (hh : ∀ op ∈ h, op.ValuesValid ∧ op.PathOk) (n : Nat) :
    (brun d (h.take n)).map encDoc = specRun (encDoc d) ((h.map toStructured).take n) := by
  rw [← List.map_take]
  exact brun_eq_specRun _ d hd (fun op ho => hh op (List.mem_of_mem_take ho))

/-- On rendered paths the reading `toStructured` is the identity: a structured call (`POp`: components =
    key + index groups) over path-safe keys, rendered to the strings the Go program passes
    (`POp.render`, by `ToPath` / `ToListPath`), denotes exactly its own steps (`POp.spec`). -/
theorem toStructured_render (op : POp) (h : op.Ok) : toStructured op.render = op.spec :=
  POp.toStructured_render h

/-- **run_eq_plain, structured form** (no parser in the statement): for every valid start document and
    every STRUCTURED history in the domain `POp.Ok` (non-empty paths, path-safe keys, valid values —
    decidable: `inDomB`), rendering the paths, running the builder's string-path algorithm and taking
    AsMap equals running the structured edits on the plain tree — after every prefix. -/
theorem run_eq_plain_structured (d : AMap Node) (h : List POp) (hd : (Node.cont d).Valid)
    (hh : ∀ op ∈ h, op.Ok) (n : Nat) :
    (brun d ((h.take n).map POp.render)).map encDoc = specRun (encDoc d) ((h.take n).map POp.spec) :=
  brun_render_eq_specRun d (h.take n) hd (fun op ho => hh op (List.mem_of_mem_take ho))

/-- … from the decidable domain check -/
theorem run_eq_plain_structured_dec (d : AMap Node) (h : List POp) (hd : inDomB d h = true) (n : Nat) :
    (brun d ((h.take n).map POp.render)).map encDoc = specRun (encDoc d) ((h.take n).map POp.spec) :=
  run_eq_plain_structured d h (inDomB_sound hd).1 (inDomB_sound hd).2 n

/-- END TO END, pointer level → plain tree: compose `heap_run_refines` with `run_eq_plain`.  For every
    history of builder calls on the root, on live and on detached handles, started in a well-formed
    tree-shaped heap whose root abstracts to the valid document `d`, the AsMap of the root afterwards is
    the plain tree after the corresponding structured edits. -/
theorem heap_run_eq_plain (root : Ytk.Heap.Addr) (h h' : Ytk.Heap.Heap) (ops : List Ytk.Heap.HOp) (bops : List BOp)
    (d : AMap Node) (hrun : Ytk.Heap.HandleRun root h ops bops h') (hi : Ytk.Heap.Inv h)
    (hs : Ytk.Heap.SibSep h root) (hrl : root < h.size) (hd : Ytk.Heap.abs h root = some (.cont d))
    (hv : (Node.cont d).Valid) (hh : ∀ op ∈ bops, op.ValuesValid ∧ op.PathOk) :
    ∃ d', Ytk.Heap.abs h' root = some (.cont d') ∧
      specRun (encDoc d) (bops.map toStructured) = .ok (encDoc d') := by
  obtain ⟨_, _, _, _, d', hb, ha⟩ := heap_run_refines root h h' ops bops d hrun hi hs hrl hd
  refine ⟨d', ha, ?_⟩
  rw [← brun_eq_specRun bops d hv hh, hb]
  rfl

/-! ### each hypothesis is needed (kernel-checked) -/

/-- the START DOCUMENT must be valid: with a literal key ending in an index group (D26's shape, no
    document built through the API has one) `Remove("l[0]")` deletes that key — the plain tree has no
    list `l` to look into. -/
theorem run_eq_plain_needs_valid_doc :
    (brun [("l[0]", Node.null)] [.remove "l[0]"]).map encDoc ≠
      specRun (encDoc [("l[0]", Node.null)]) ([BOp.remove "l[0]"].map toStructured) ∧
    -- … and its keys sorted (= a Go map, unique keys): `[b, a]` is no map, "replace member a" is undefined
    (brun [("b", Node.null), ("a", Node.null)] [.listClear "a.x"]).map encDoc ≠
      specRun (encDoc [("b", Node.null), ("a", Node.null)]) ([BOp.listClear "a.x"].map toStructured) := by
  decide +kernel

/-- the VALUES must be valid: the same effect one level down, through a value that carries such a key -/
theorem run_eq_plain_needs_valid_values :
    (brun [] [.addValue "a" (.cont [("l[0]", Node.null)]), .removeAt "a.l[0]"]).map encDoc ≠
      specRun (encDoc []) ([BOp.addValue "a" (.cont [("l[0]", Node.null)]), .removeAt "a.l[0]"].map toStructured) := by
  decide +kernel

/-- a ListBuilder call needs a NON-EMPTY path: `Lookup("")` is nil by definition (no list to edit),
    while the member with the empty key exists in the plain tree -/
theorem run_eq_plain_needs_list_path :
    (brun [("", .list [])] [.listAppend "" Node.null]).map encDoc ≠
      specRun (encDoc [("", .list [])]) ([BOp.listAppend "" Node.null].map toStructured) := by
  decide +kernel

/-- structured form: keys must be PATH-SAFE — a dot splits, a bracket group is read as an index, an
    empty key vanishes from the rendered path — and the path NON-EMPTY -/
theorem run_eq_plain_structured_needs_safe_keys :
    (brun [] ([POp.addValueAt [("a.b", [])] Node.null].map POp.render)).map encDoc ≠
      specRun (encDoc []) ([POp.addValueAt [("a.b", [])] Node.null].map POp.spec) ∧
    (brun [] ([POp.addValue ("x[0]", []) Node.null].map POp.render)).map encDoc ≠
      specRun (encDoc []) ([POp.addValue ("x[0]", []) Node.null].map POp.spec) ∧
    (brun [] ([POp.addValueAt [("", []), ("b", [])] Node.null].map POp.render)).map encDoc ≠
      specRun (encDoc []) ([POp.addValueAt [("", []), ("b", [])] Node.null].map POp.spec) ∧
    (brun [] ([POp.addValueAt [] Node.null].map POp.render)).map encDoc ≠
      specRun (encDoc []) ([POp.addValueAt [] Node.null].map POp.spec) := by
  decide +kernel

/-- NOT excluded — DESIGN 10.4's two classes: a key step into an existing list (`a.b` with `a` a list)
    and an index step onto an existing container (`c[1]` with `c` a container) do not fit the document
    (`fitsB = false`), and still both sides agree: the node of the wrong kind is replaced by a fresh map /
    a fresh padded list, in the code and in the specification. -/
theorem plain_replaces_wrong_kind_instance :
    let d : AMap Node := [("a", .list [.leaf ⟨"int", "1"⟩]), ("c", .cont [("x", .leaf ⟨"int", "1"⟩)])]
    let h : List BOp := [.addValueAt "a.b" (.leaf ⟨"int", "2"⟩), .addValueAt "c[1]" (.leaf ⟨"int", "3"⟩)]
    fitsB d ["a", "b"] = false ∧ fitsB d ["c[1]"] = false ∧
    (brun d h).map encDoc = .ok (.obj [("a", .obj [("b", .sc ⟨"int", "2"⟩)]),
      ("c", .arr [Val.null, .sc ⟨"int", "3"⟩])]) ∧
    specRun (encDoc d) (h.map toStructured) = .ok (.obj [("a", .obj [("b", .sc ⟨"int", "2"⟩)]),
      ("c", .arr [Val.null, .sc ⟨"int", "3"⟩])]) := by
  decide +kernel

/-! ### non-vacuity: an eight-step structured history with nested lists inside the domain -/

def plainDoc : AMap Node := [("srv", .cont [("port", .leaf ⟨"int", "80"⟩)])]

/-- `srv.hosts[1][0] = a` (creates `hosts`, pads `hosts[0]`, nests a list), AddList, Append,
    `Set(2)` on the inner list `srv.hosts[1]` (pads), AddContainer, RemoveAt, Walk(CompactFn) (drops the
    empty `tmp`), MustSet in range -/
def plainHist : List POp := [
  .addValueAt [("srv", []), ("hosts", [1, 0])] (.leaf ⟨"string", "a"⟩),
  .addList ("tags", []),
  .listAppend [("tags", [])] (.leaf ⟨"string", "x"⟩),
  .listSet [("srv", []), ("hosts", [1])] 2 (.leaf ⟨"string", "c"⟩),
  .addContainer ("tmp", []),
  .removeAt [("srv", []), ("port", [])],
  .compact,
  .listMustSet [("tags", [])] 0 (.leaf ⟨"string", "y"⟩)]

def plainResult : Val :=
  .obj [("srv", .obj [("hosts", .arr [Val.null, .arr [.sc ⟨"string", "a"⟩, Val.null, .sc ⟨"string", "c"⟩]])]),
        ("tags", .arr [.sc ⟨"string", "y"⟩])]

/-- the history is in the (decidable) domain, the rendered calls are the strings a Go caller writes,
    both sides of `run_eq_plain_structured` evaluate to the same non-trivial tree, and an out-of-range
    `MustSet` appended to it is a panic of both -/
theorem nonvacuous_run_eq_plain :
    inDomB plainDoc plainHist = true ∧
    renderFrom "" [("srv", []), ("hosts", [1, 0])] = "srv.hosts[1][0]" ∧
    renderFrom "" [("srv", []), ("hosts", [1])] = "srv.hosts[1]" ∧ renderFrom "" [("tags", [])] = "tags" ∧
    (brun plainDoc (plainHist.map POp.render)).map encDoc = .ok plainResult ∧
    specRun (encDoc plainDoc) (plainHist.map POp.spec) = .ok plainResult ∧
    specRun (encDoc plainDoc) ((plainHist ++ [POp.listMustSet [("tags", [])] 5 Node.null]).map POp.spec) = .panic ∧
    (brun plainDoc ((plainHist ++ [POp.listMustSet [("tags", [])] 5 Node.null]).map POp.render)).map encDoc = .panic := by
  decide +kernel

end plain

end Ytk.C03

/-! ## xlate7d: the REGENERATED translation of the ListBuilder methods of dom/list.go (Generated/FuncsDom.lean)

  `Append`, `Clear`, `MustSet`, `Set` mutate their receiver and return it; the translation threads the receiver.  The
  theorems prove the hand-written list primitives of the model — and with them the DomPrelude primitives `GoDom.append`
  / `GoDom.set` that every other translated function calls — EQUAL to the translation of their Go source. -/
namespace Ytk.C03
open Ytk.Generated

theorem listBuilderAppend_generated_eq_model (l : List Node) (x : Node) :
    FuncsDom.listBuilderAppend l x = .ok (listAppend l x) := rfl

theorem listBuilderClear_generated_eq_model (l : List Node) : FuncsDom.listBuilderClear l = .ok [] := rfl

/-- MustSet: the panic of the bounds test, else the element assignment -/
theorem listBuilderMustSet_generated_eq_model (l : List Node) (i : Nat) (x : Node) :
    FuncsDom.listBuilderMustSet l i x = (match listMustSet l i x with
      | .ok r => .ok r
      | _ => .panic) := by
  rw [FuncsDomBuilder.listBuilderMustSet_generated_eq_model]
  cases listMustSet l i x <;> rfl

/-- Set(index, item): the padding loop with `Append(nilLeaf)` and the element assignment — the model's `listSet`,
    for every list and every index; never panics -/
theorem listBuilderSet_generated_eq_model (l : List Node) (i : Nat) (x : Node) :
    FuncsDom.listBuilderSet l i x = .ok (listSet l i x) :=
  FuncsDomBuilder.listBuilderSet_generated_eq_model l i x

theorem nonvacuous_listBuilder_generated :
    FuncsDom.listBuilderSet [.leaf ⟨"int", "1"⟩] 3 (.leaf ⟨"int", "9"⟩)
      = .ok [.leaf ⟨"int", "1"⟩, Node.null, Node.null, .leaf ⟨"int", "9"⟩] ∧
    FuncsDom.listBuilderMustSet [.leaf ⟨"int", "1"⟩] 1 (.leaf ⟨"int", "9"⟩) = .panic ∧
    FuncsDom.listBuilderMustSet [.leaf ⟨"int", "1"⟩] 0 (.leaf ⟨"int", "9"⟩) = .ok [.leaf ⟨"int", "9"⟩] := by
  decide +kernel

/-- dom.ListNode(items...) -/
theorem ListNode_generated_eq_model (items : List Node) : FuncsDom.ListNode items = .ok items :=
  FuncsDomBuilder.ListNode_generated_eq_model items

/-- ContainerBuilder.Remove(name) is the model's `remove` (the definition behind `GoDom.remove`) -/
theorem containerBuilderRemove_generated_eq_model (c : AMap Node) (name : String) :
    FuncsDom.containerBuilderRemove c name = .ok (remove c name) := rfl

end Ytk.C03
