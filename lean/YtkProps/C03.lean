/-
  C03 — Builder edits behave like edits on a plain tree (set-get and frame).

  The document is a value (`AMap Node`); each builder call is a function on it (`bstep`), a
  history is `brun`.  The laws below are stated on the string-path functions the driver executes
  (`addValueAt`, `lookup`, `removeAt`, `add`, `child`, …) and hold for ALL path strings — no
  restriction to a safe alphabet is needed.  `Diverge ps qs`: the two component lists share a
  (possibly empty) prefix and then continue with components whose base keys differ.
-/
import YtkProofs.Builder

namespace Ytk.C03

/-- set-get: a value written at a path is what lookup returns there. -/
theorem lookup_addValueAt (d : AMap Node) (path : String) (v : Node) (h : path ≠ "") :
    lookup (addValueAt d path v) path = some v := lookup_addValueAt_self d path v h

/-- set-get for a direct child (AddValue / AddContainer / AddList), with or without index groups. -/
theorem child_add (d : AMap Node) (name : String) (v : Node) : child (add d name v) name = some v :=
  child_add_self d name v

/-- frame (write): nothing changes at a path that diverges from the written one. -/
theorem addValueAt_frame (d : AMap Node) (ps qs : List String) (v : Node) (h : Diverge ps qs) :
    lookupSegs (addAtSegs d ps v) qs = lookupSegs d qs := lookupSegs_addAtSegs_frame ps qs d v h

/-- missing list slots are created and padded with null; other existing slots are untouched. -/
theorem add_index_pads (cur : Option Node) (i j : Nat) (v : Node) (h : j ≠ i) :
    walkIdx (some (setSlot cur [i] v)) [j] =
      if j < (listOf cur).length then (listOf cur)[j]? else if j < i + 1 then some Node.null else none :=
  setSlot_single_other cur v h

/-- remove-get: after removing a path whose last step is a key, lookup returns nothing there. -/
theorem lookup_removeAt (d : AMap Node) (segs : List String) (hv : (Node.cont d).Valid) (hne : segs ≠ [])
    (hl : ∀ l, segs.getLast? = some l → hasIdxSuffix l = false) :
    lookupSegs (removeAtSegs d segs) segs = none := lookupSegs_removeAtSegs_self segs d hv hne hl

/-- frame (remove): nothing changes at a path that diverges from the removed one. -/
theorem removeAt_frame (d : AMap Node) (ps qs : List String) (h : Diverge ps qs) :
    lookupSegs (removeAtSegs d ps) qs = lookupSegs d qs := lookupSegs_removeAtSegs_frame ps qs d h

/-- ListBuilder.Set: length, the written slot, every other slot (padding is null). -/
theorem list_set_length (xs : List Node) (i : Nat) (v : Node) : (listSet xs i v).length = max xs.length (i + 1) :=
  listSet_length xs i v
theorem list_set_get (xs : List Node) (i : Nat) (v : Node) : (listSet xs i v)[i]? = some v := listSet_get_self xs i v
theorem list_set_other (xs : List Node) (i j : Nat) (v : Node) (h : j ≠ i) :
    (listSet xs i v)[j]? = if j < xs.length then xs[j]? else if j < i + 1 then some Node.null else none :=
  listSet_get_other xs v h
theorem list_append (xs : List Node) (v : Node) : listAppend xs v = xs ++ [v] := rfl
/-- MustSet out of range panics (documented), in range it never does. -/
theorem list_mustSet_out_of_range (xs : List Node) (i : Nat) (v : Node) (h : xs.length ≤ i) :
    listMustSet xs i v = .panic := listMustSet_panics xs i v h
theorem list_mustSet_in_range (xs : List Node) (i : Nat) (v : Node) (h : i < xs.length) :
    listMustSet xs i v = .ok (xs.set i v) := by simp [listMustSet, h]

/-- Walk(CompactFn) keeps every leaf and leaves no empty keyed container behind. -/
theorem compact_flatten (d : AMap Node) : flatten (compactKvs d) = flatten d := flatten_compact d
theorem compact_no_empty (d : AMap Node) (p : String × Node) (h : p ∈ compactKvs d) : p.2 ≠ .cont [] :=
  compactKvs_no_empty d p h

/-- Invariant over ALL histories: every document reachable by builder calls is valid (unique sorted
    keys, no key ending in an index group), and no call other than an out-of-range MustSet panics. -/
theorem run_valid (ops : List BOp) (d d' : AMap Node) (h : (Node.cont d).Valid) (hv : ∀ op ∈ ops, op.ValuesValid)
    (hr : brun d ops = .ok d') : (Node.cont d').Valid := brun_valid ops d d' h hv hr

theorem step_no_panic (d : AMap Node) (op : BOp) (h : ∀ p i v, op ≠ .listMustSet p i v) : bstep d op ≠ .panic := by
  cases op <;> simp_all [bstep]

/-- non-vacuity: a concrete nested history -/
def exOps : List BOp := [.addValueAt "a.b" (.leaf ⟨"int", "1"⟩), .addContainer "e", .compact]
theorem nonvacuous_run : brun [] exOps = .ok [("a", .cont [("b", .leaf ⟨"int", "1"⟩)])] := by
  decide
theorem nonvacuous_diverge : Diverge ["a", "b[2]", "c"] ["a", "x", "c"] :=
  .tail (by simp) (by simp) (.head (by decide))

end Ytk.C03
