/-
  C08 — Applying a diff to the right document reconstructs the left one.

  `apply`, `diff`, `lookup`, `flatten` are the definitions the driver executes
  (YtkModel/Diff.lean, YtkModel/Dom.lean).
-/
import YtkProofs.Apply
import YtkProofs.ApplyDiffStr
import YtkProofs.DiffRel
import YtkProofs.ApplyDiffB
import YtkProofs.ValidB
import YtkProofs.Decisions2
import YtkModel.Generated.Constants
import YtkProofs.FuncsPlpc
import YtkProofs.FuncsPlpcGroups

namespace Ytk.C08

/-! ## decision tables regenerated from the source (extract/tables2.go) -/
section DecisionTables2
open Ytk.TableT

/-- (i) The `switch mod.Type` of diff.applySingle as regenerated from diff/apply.go IS the action table
    of the model (same modification types, same parent walk and final statement for each, nothing for any
    other type); the statements before the switch, the two parent walks and applyNonListItem /
    applyListItem are the model's; and `applySingle` equals the function RUN FROM the regenerated case
    table (`applySingleBy`) and the lookup in the model's table, its Add / Change
    walk sends a component with index groups through applyListItem and any other through
    applyNonListItem, its Delete walk descends only through existing containers — on ALL inputs. -/
theorem apply_table_matches_model :
    Generated.applyActions = applyRowsM ∧
    pairs Generated.applyActions = applyTable.map (fun p => (p.1.name, p.2.goName)) ∧
    Generated.applyActionsDefault = "nothing" ∧
    Generated.applyPrelude = applyPreludeM ∧ Generated.applyWalks = applyWalksM ∧
    Generated.applyNonListItemSteps = applyNonListItemStepsM ∧
    Generated.applyListItemSteps = applyListItemStepsM ∧
    (∀ kvs m, applySingle kvs m = applySingleBy Generated.applyActions kvs m) ∧
    (∀ kvs m, applySingle kvs m =
      match applyTable.lookup m.ty with
      | some a => a.run kvs m
      | none => kvs) ∧
    (∀ kvs c c2 rest v, applyAddSegs kvs (c :: c2 :: rest) v =
      match parseListComp c with
      | some (n, idxes) => applyListItemM kvs n idxes (fun sub => applyAddSegs sub (c2 :: rest) v)
      | none => applyNonListItemM kvs c (fun sub => applyAddSegs sub (c2 :: rest) v)) ∧
    (∀ kvs last v, applyAddSegs kvs [last] v = add kvs last (.leaf v)) ∧
    (∀ kvs c c2 rest, applyDelSegs kvs (c :: c2 :: rest) =
      match child kvs c with
      | some (.cont sub) => add kvs c (.cont (applyDelSegs sub (c2 :: rest)))
      | _ => kvs) ∧
    (∀ kvs last, applyDelSegs kvs [last] = remove kvs last) := by
  have h1 : Generated.applyActions = applyRowsM := by decide +kernel
  refine ⟨h1, by decide +kernel, by decide +kernel, by decide +kernel, by decide +kernel,
    by decide +kernel, by decide +kernel, ?_, applySingle_eq_table, applyAddSegs_step, applyAddSegs_last,
    applyDelSegs_step, applyDelSegs_last⟩
  intro kvs m
  rw [h1]
  exact applySingle_eq_rows kvs m

/-- the arms of a regenerated parent walk -/
def walkG (name : String) : List CondArm := (Generated.applyWalks.lookup name).getD []

/-- (ii) The rule of the property on the regenerated tables: the path is split on "."; an Add and a
    Change do the same thing — walk the parents creating what is missing (a component with index groups
    through applyListItem, any other through applyNonListItem) and store the modification's value as a
    leaf under the last component; a Delete walks the parents WITHOUT creating anything — an absent parent
    or one that is not a container ends it silently (deleting an absent path is a no-op) — and removes
    the last component; any other type does nothing.  applyNonListItem reuses a container and replaces
    anything else by a new one; applyListItem reuses a list and replaces anything else by a new one. -/
theorem apply_table_rule :
    Generated.applyPrelude = ["v0:=strings.Split(arg1.Path,\".\")", "v1:=arg0"] ∧
    lookupD Generated.applyActions "" "Add" = "walkAdd;v1.AddValue(v0[len(v0)-1],dom.LeafNode(arg1.Value))" ∧
    lookupD Generated.applyActions "" "Change" = lookupD Generated.applyActions "" "Add" ∧
    lookupD Generated.applyActions "" "Delete" = "walkDelete;v1.Remove(v0[len(v0)-1])" ∧
    Generated.applyActionsDefault = "nothing" ∧
    armSteps (walkG "walkAdd") "range" = some ["v0[0:len(v0)-1]"] ∧
    armSteps (walkG "walkAdd") "lead" = some ["v2,v3,v4:=utils.ParseListPathComponent(comp)"] ∧
    armSteps (walkG "walkAdd") "v4" = some ["v1=applyListItem(v1,v2,v3)"] ∧
    armSteps (walkG "walkAdd") "otherwise" = some ["v1=applyNonListItem(v1,comp)"] ∧
    armSteps (walkG "walkDelete") "range" = some ["v0[0:len(v0)-1]"] ∧
    armSteps (walkG "walkDelete") "lead" = some ["v2:=v1.Child(comp)"] ∧
    armSteps (walkG "walkDelete") "v2==nil" = some ["return"] ∧
    armSteps (walkG "walkDelete") "!v2.IsContainer()" = some ["return"] ∧
    armSteps (walkG "walkDelete") "otherwise" = some ["v1=v2.(dom.ContainerBuilder)"] ∧
    Generated.applyNonListItemSteps[1]? =
      some "if v0==nil||!v0.IsContainer(){arg0=arg0.AddContainer(arg1)}else{arg0=v0.(dom.ContainerBuilder)}" ∧
    Generated.applyListItemSteps[1]? =
      some "if v1==nil||!v1.IsList(){v0=arg0.AddList(arg1)}else{v0=v1.(dom.ListBuilder)}" ∧
    Generated.applyListItemSteps[2]? = some "arg0=applyList(v0,arg2)" ∧
    (∀ r ∈ Generated.applyActions, Generated.const? ("diff." ++ r.const) = some r.key) := by
  decide +kernel

/-- (iii) the tables are not empty and their keys are distinct: three modification types, two parent
    walks, every walk named in the action table exists -/
theorem nonvacuous_apply_tables :
    Generated.applyActions.length = 3 ∧ (keys Generated.applyActions).Nodup ∧
    Generated.applyWalks.map (·.1) = ["walkAdd", "walkDelete"] ∧
    (∀ r ∈ Generated.applyActions, ∃ w ∈ Generated.applyWalks, (w.1 ++ ";").isPrefixOf r.target = true) ∧
    (∀ w ∈ Generated.applyWalks, (conds w.2).Nodup ∧ w.2.getLast?.map (·.cond) = some "otherwise") := by
  decide +kernel

end DecisionTables2

/-- Applying an empty modification list changes nothing. -/
theorem apply_nil (d : AMap Node) : apply d [] = d := rfl

/-- Deleting an absent path is a no-op (on documents constructible through the API). -/
theorem apply_delete_absent (d : AMap Node) (hd : (Node.cont d).Valid) (p : String) (hp : p ≠ "")
    (v o : Scalar) (h : lookup d p = none) : apply d [⟨.delete, p, v, o⟩] = d := by
  simp only [lookup, if_neg hp] at h
  simp only [apply, List.foldl, applySingle]
  exact applyDelSegs_absent _ d hd h

/-- A single Add at a flatten-style path makes Lookup return that value — on ANY document
    (whatever was in the way is replaced). -/
theorem apply_add_lookup (d : AMap Node) (p : String) (hp : safeFlattenPath p = true) (v o : Scalar) :
    lookup (apply d [⟨.add, p, v, o⟩]) p = some (.leaf v) := by
  simp only [safeFlattenPath, Bool.and_eq_true, bne_iff_ne, ne_eq, List.all_eq_true] at hp
  simp only [lookup, if_neg hp.1, apply, List.foldl, applySingle]
  apply lookupSegs_applyAddSegs _ d v _ hp.2
  intro e
  have : (splitDot p.toList).map String.ofList = [] := e
  cases hs : splitDot p.toList with
  | nil =>
    -- splitDot never returns the empty list
    cases hl : p.toList with
    | nil => rw [hl] at hs; simp [splitDot] at hs
    | cons c cs =>
      rw [hl] at hs
      simp only [splitDot] at hs
      split at hs
      · cases hs
      · split at hs <;> cases hs
  | cons a b => rw [hs] at this; cases this

/-- The same for a Change. -/
theorem apply_change_lookup (d : AMap Node) (p : String) (hp : safeFlattenPath p = true) (v o : Scalar) :
    lookup (apply d [⟨.change, p, v, o⟩]) p = some (.leaf v) :=
  apply_add_lookup d p hp v o

/-- Every path of a flattened view (of a document constructible through the API over path-safe
    keys) is a flatten-style path: the hypothesis of `apply_add_lookup` holds for all of them. -/
theorem flatten_paths_safe (d : AMap Node) (hv : (Node.cont d).Valid) (hs : (Node.cont d).SafeKeys)
    (p : String) (v : Scalar) (h : (p, v) ∈ flatten d) : safeFlattenPath p = true :=
  safeFlattenPath_of_mem_flatten d hv hs p v h

/-- … hence: an Add (or Change) at any path taken from some document's flattened view makes
    Lookup return the value there, on ANY target document. -/
theorem apply_add_lookup_flatten (src : AMap Node) (hv : (Node.cont src).Valid) (hs : (Node.cont src).SafeKeys)
    (p : String) (w : Scalar) (h : (p, w) ∈ flatten src) (d : AMap Node) (v o : Scalar) :
    lookup (apply d [⟨.add, p, v, o⟩]) p = some (.leaf v) ∧
    lookup (apply d [⟨.change, p, v, o⟩]) p = some (.leaf v) :=
  ⟨apply_add_lookup d p (flatten_paths_safe src hv hs p w h) v o,
   apply_change_lookup d p (flatten_paths_safe src hv hs p w h) v o⟩

/-!
  ## The reconstruction clause

  Domain (DESIGN.md section 6, C08):
  * `Compat (.cont L) (.cont R)` (YtkProofs/ApplyDiff.lean) — wherever both documents define a
    keyed position the kinds agree, scalars are equal, containers are recursively compatible;
    lists are unconstrained (R is L with keyed subtrees deleted / added and lists replaced);
  * `(Node.cont L).ItemsHaveScalars` — every item of every list of L holds at least one scalar;
  * both documents constructible through the API (`Valid`) over path-safe keys (`SafeKeys`:
    non-empty, without `.`, `[`, `]`).
-/

/-- **Applying Diff(L, R) to R reconstructs L's flattened view** — at full strength: the ordered
    flattened view (hence also the Go map `Flatten()` returns). -/
theorem apply_diff_flatten (L R : AMap Node) (hL : (Node.cont L).Valid) (hR : (Node.cont R).Valid)
    (hsL : (Node.cont L).SafeKeys) (hsR : (Node.cont R).SafeKeys) (hc : Compat (.cont L) (.cont R))
    (hi : (Node.cont L).ItemsHaveScalars) : flatten (apply R (diff L R)) = flatten L :=
  apply_diff_flatten_core L R hL hR hsL hsR hc hi

/-- the same as the Go map -/
theorem apply_diff_flattenMap (L R : AMap Node) (hL : (Node.cont L).Valid) (hR : (Node.cont R).Valid)
    (hsL : (Node.cont L).SafeKeys) (hsR : (Node.cont R).SafeKeys) (hc : Compat (.cont L) (.cont R))
    (hi : (Node.cont L).ItemsHaveScalars) : flattenMap (apply R (diff L R)) = flattenMap L := by
  simp only [flattenMap, apply_diff_flatten L R hL hR hsL hsR hc hi]

/-- Sorting does not matter beyond "ordered by path": ANY path-sorted arrangement of the emitted
    modifications (stable or not) reconstructs L. -/
theorem apply_sorted_flatten (L R : AMap Node) (hL : (Node.cont L).Valid) (hR : (Node.cont R).Valid)
    (hsL : (Node.cont L).SafeKeys) (hsR : (Node.cont R).SafeKeys) (hc : Compat (.cont L) (.cont R))
    (hi : (Node.cont L).ItemsHaveScalars) (ms : List Mod) (hp : ms.Perm (emit L R))
    (hsorted : ms.Pairwise (fun a b => a.path ≤ b.path)) : flatten (apply R ms) = flatten L :=
  apply_sorted_perm_flatten L R hL hR hsL hsR hc hi ms hp hsorted

/-- Sorting is not even needed for reconstruction: applying the modifications in the order in
    which Diff emits them (before `sort.SliceStable`) reconstructs L as well. -/
theorem apply_emit_flatten (L R : AMap Node) (hL : (Node.cont L).Valid) (hR : (Node.cont R).Valid)
    (hsL : (Node.cont L).SafeKeys) (hsR : (Node.cont R).SafeKeys) (hc : Compat (.cont L) (.cont R))
    (hi : (Node.cont L).ItemsHaveScalars) : flatten (apply R (emit L R)) = flatten L :=
  apply_emit_flatten_core L R hL hR hsL hsR hc hi

/-- … in particular whatever order Go ranged over its maps in while diffing (`EmitRel`,
    YtkModel/Diff.lean): the sorted result reconstructs L. -/
theorem apply_diff_flatten_any_map_order (L R : AMap Node) (hL : (Node.cont L).Valid) (hR : (Node.cont R).Valid)
    (hsL : (Node.cont L).SafeKeys) (hsR : (Node.cont R).SafeKeys) (hc : Compat (.cont L) (.cont R))
    (hi : (Node.cont L).ItemsHaveScalars) (ms : List Mod) (h : EmitRel (.cont L) (.cont R) "" ms) :
    flatten (apply R (sortMods ms)) = flatten L :=
  apply_sorted_perm_flatten L R hL hR hsL hsR hc hi _ ((sortMods_perm ms).trans (emitRel_perm h)) (sortMods_sorted ms)

/-! ## non-vacuity -/

def i (n : Nat) : Scalar := ⟨"int", toString n⟩

/-- L has a list of a two-key container and a nested list; R has other lists, lacks `c`, has an extra `z` -/
def exL : AMap Node :=
  [("a", .list [.cont [("x", .leaf (i 1)), ("y", .leaf (i 2))], .list [.leaf (i 3), .leaf (i 4)]]),
   ("a-b", .leaf (i 5)),
   ("c", .cont [("d", .leaf (i 6))])]
def exR : AMap Node :=
  [("a", .list [.leaf (i 9)]), ("a-b", .leaf (i 5)), ("z", .cont [("q", .list [])])]

theorem nonvacuous_paths :
    safeFlattenPath "a[0][1].c" = true ∧ safeFlattenPath "a-b.k1[10].z_9[2][0]" = true ∧
    safeFlattenPath "x" = true ∧ safeFlattenPath "" = false := by decide +kernel

theorem nonvacuous_add_lookup :
    lookup (apply [("a", .list [.leaf (i 5)])] [⟨.add, "a[0][1].c", i 7, Scalar.null⟩]) "a[0][1].c"
      = some (.leaf (i 7)) := by decide +kernel

theorem nonvacuous_delete_absent :
    lookup exL "c.e" = none ∧ apply exL [Mod.mkDel "c.e"] = exL ∧
    lookup exL "a[0].q" = none ∧ apply exL [Mod.mkDel "a[0].q"] = exL := by decide +kernel

/-- the reconstruction clause on a concrete pair of the Compat domain (incl. the D8 shape) -/
theorem nonvacuous_reconstruct : diff exL exR ≠ [] ∧ flattenMap (apply exR (diff exL exR)) = flattenMap exL := by
  decide +kernel

/-- the concrete pair lies in the domain of `apply_diff_flatten` (checked by the sound Boolean
    checkers of YtkProofs/ApplyDiffB.lean and ValidB.lean) … -/
theorem nonvacuous_domain :
    (Node.cont exL).Valid ∧ (Node.cont exR).Valid ∧ (Node.cont exL).SafeKeys ∧ (Node.cont exR).SafeKeys ∧
    Compat (.cont exL) (.cont exR) ∧ (Node.cont exL).ItemsHaveScalars :=
  ⟨Node.validB_sound _ (by decide +kernel), Node.validB_sound _ (by decide +kernel),
   Node.safeKeysB_sound _ (by decide +kernel), Node.safeKeysB_sound _ (by decide +kernel),
   compatB_sound _ _ (by decide +kernel), Node.itemsB_sound _ (by decide +kernel)⟩

/-- … so the theorem applies to it (a non-empty diff with a list replacement, a deleted key and
    an added subtree), and both hypotheses matter: without `ItemsHaveScalars` (an empty container
    as a list item) resp. without `Compat` (kind mismatch) the clause fails. -/
theorem nonvacuous_apply_diff_flatten : flatten (apply exR (diff exL exR)) = flatten exL :=
  apply_diff_flatten exL exR nonvacuous_domain.1 nonvacuous_domain.2.1 nonvacuous_domain.2.2.1
    nonvacuous_domain.2.2.2.1 nonvacuous_domain.2.2.2.2.1 nonvacuous_domain.2.2.2.2.2

theorem nonvacuous_hypotheses_needed :
    (let L : AMap Node := [("a", .list [.cont [], .leaf (i 1)])]
     let R : AMap Node := [("a", .list [])]
     compatB (.cont L) (.cont R) = true ∧ flatten (apply R (diff L R)) ≠ flatten L) ∧
    (let L : AMap Node := [("k", .cont [("x", .leaf (i 1))])]
     let R : AMap Node := [("k", .leaf (i 5))]
     (Node.cont L).itemsB = true ∧ flatten (apply R (diff L R)) ≠ flatten L) := by
  decide +kernel

end Ytk.C08


/-! ## gap7a: `p ≠ ""` in `apply_delete_absent` is needed -/
namespace Ytk.C08

/-- Lookup("") is nil by definition, but a Delete with the empty path removes the member whose name
    is the empty string: "deleting an absent path is a no-op" needs `p ≠ ""` (as C03's
    `removeAt_absent_empty_path`). -/
theorem apply_delete_absent_empty_path :
    (Node.cont [("", Node.null)]).Valid ∧ lookup [("", Node.null)] "" = none ∧
    apply [("", Node.null)] [Mod.mkDel ""] = [] :=
  ⟨Node.validB_sound _ (by decide +kernel), by decide +kernel, by decide +kernel⟩
/-! ## Translated functions (YtkModel/Generated/Funcs.lean, regenerated from the Go source on every
    run by extract/translate.go): the translation EQUALS the hand-written model on the stated
    domain.  An edit of the Go function changes the regenerated definition and these stop checking. -/
end Ytk.C08

namespace Ytk.C08
open Ytk.Generated

/-- utils.ParseListPathComponent, as translated (regexp guard = `Go.reListProp`, scanning loop with
    fuel len(path)+1): on components whose bracket groups read the same under strconv.Atoi and the
    model's `atoiOr0` (`PlpcGroupsOk`) it is the model's `parseListComp`; where the model says
    `none` although the guard matched, the Go code panics on a slice bound. -/
theorem ParseListPathComponent_generated_eq_model (c : String)
    (hg : PlpcGroupsOk (c.toList.length + 1) c.toList) :
    Funcs.ParseListPathComponent c
      = (if hasIdxGroup c.toList then
           (match parseListComp c with
            | some (n, is) => .ok (n, is.map Int.ofNat, true)
            | none => .panic)
         else .ok ("", [], false)) := by
  unfold Funcs.ParseListPathComponent parseListComp
  simp only [Go.reListProp, Go.reListPropC_eq]
  by_cases hh : hasIdxGroup c.toList = true
  · obtain ⟨k, hk⟩ := indexOfChar_of_hasIdxGroup _ hh
    have hb1 : ("[" : String) = String.singleton '[' := by decide
    have hfuel : (Go.len c + 1).toNat = c.toList.length + 1 := by simp only [Go.len_eq]; omega
    have hloop := PLPC_loop1_eq c (k : Int) (c.toList.length + 1) c [] (Nat.le_refl _) hg
    have hs := Go.slice_nat c 0 k (by omega) (by have := indexOfChar_lt _ _ _ hk; omega)
    simp only [Int.natCast_zero, List.drop_zero, Nat.sub_zero] at hs
    simp only [List.map_nil] at hloop
    simp only [hh, Bool.not_true, Bool.false_eq_true, if_false, if_true, hb1, stringsIndex_char, hk, hfuel, hloop, hs,
      takeWhile_eq_take_of_indexOfChar _ _ _ hk]
    cases plpcLoop (c.toList.length + 1) c.toList [] <;> simp
  · simp [hh]

theorem nonvacuous_ParseListPathComponent :
    PlpcGroupsOk ("ab[12][3]".toList.length + 1) "ab[12][3]".toList
      ∧ Funcs.ParseListPathComponent "ab[12][3]" = .ok ("ab", [12, 3], true) := by
  refine ⟨?_, by decide⟩
  simp [PlpcGroupsOk, indexOfChar, Go.atoi, Go.atoiDigits, atoiOr0, Go.isDigit, Ytk.isDigit, Go.digitsVal, digitsToNat]

/-- outside `PlpcGroupsOk`: a signed group is read by strconv.Atoi (−2) but not by the model's
    `atoiOr0` (0) — the model's documented restriction ("signs and overflow are outside the
    modelled domain"); such components do not occur in flatten-style paths -/
theorem ParseListPathComponent_signed_group_counterexample :
    Funcs.ParseListPathComponent "a[1][-2]" = .ok ("a", [1, -2], true)
      ∧ parseListComp "a[1][-2]" = some ("a", [1, 0]) := by
  decide

end Ytk.C08

/-! ## `ParseListPathComponent_generated_eq_model` under a READABLE hypothesis -/
namespace Ytk.C08
open Ytk.Generated

/-- the domain predicate `PlpcGroupsOk` follows from the shape of flatten-style list path components:
    a bracket-free name followed by bracket groups of at most 18 ASCII digits each (18 digits are
    below 10^18 < 2^63: strconv.Atoi cannot overflow) -/
theorem plpcGroupsOk_of_digit_groups (c : List Char) (h : PlpcShape c) (fuel : Nat) : PlpcGroupsOk fuel c :=
  plpcGroupsOk_of_shape c h fuel

/-- utils.ParseListPathComponent, as translated, on every component `name[g₁]…[gₖ]` whose name is
    bracket-free and whose groups are strings of at most 18 digits (`PlpcShape`): it is the model's
    `parseListComp` (corollary of `ParseListPathComponent_generated_eq_model`) -/
theorem ParseListPathComponent_generated_eq_model_digits (c : String) (h : PlpcShape c.toList) :
    Funcs.ParseListPathComponent c
      = (if hasIdxGroup c.toList then
           (match parseListComp c with
            | some (n, is) => .ok (n, is.map Int.ofNat, true)
            | none => .panic)
         else .ok ("", [], false)) :=
  ParseListPathComponent_generated_eq_model c (plpcGroupsOk_of_shape _ h _)

theorem nonvacuous_ParseListPathComponent_digits :
    PlpcShape "ab[12][3]".toList ∧ PlpcShape "plain".toList ∧
    Funcs.ParseListPathComponent "ab[12][3]" = .ok ("ab", [12, 3], true) := by
  refine ⟨⟨"ab".toList, ["12".toList, "3".toList], by decide, by decide, by decide, by decide⟩,
    ⟨"plain".toList, [], by decide, by decide, by decide, by decide⟩, by decide⟩

/-- 18 is not arbitrary but the bound cannot be dropped: a 19-digit group above 2^63−1 is clamped by
    strconv.Atoi (error dropped by the code) while the model reads the digits -/
theorem ParseListPathComponent_overflow_group_counterexample :
    (Funcs.ParseListPathComponent "a[9999999999999999999]") = .ok ("a", [9223372036854775807], true)
      ∧ parseListComp "a[9999999999999999999]" = some ("a", [9999999999999999999]) := by
  decide

end Ytk.C08
