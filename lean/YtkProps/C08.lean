/-
  C08 — Applying a diff to the right document reconstructs the left one.
-/
import YtkModel.Diff

namespace Ytk.C08

/-- Applying an empty modification list changes nothing. -/
theorem apply_nil (d : AMap Node) : apply d [] = d := rfl

end Ytk.C08
