/-
  C08 — Applying a diff to the right document reconstructs the left one.

  `apply`, `diff`, `lookup`, `flatten` are the definitions the driver executes
  (YtkModel/Diff.lean, YtkModel/Dom.lean).
-/
import YtkProofs.Apply

namespace Ytk.C08

/-- Applying an empty modification list changes nothing. -/
theorem apply_nil (d : AMap Node) : apply d [] = d := rfl

/-- Deleting an absent path is a no-op (on documents constructible through the API). -/
theorem apply_delete_absent (d : AMap Node) (hd : (Node.cont d).Valid) (p : String) (hp : p ≠ "")
    (v o : Scalar) (h : lookup d p = none) : apply d [⟨.delete, p, v, o⟩] = d := by
  simp only [lookup, if_neg hp] at h
  simp only [apply, List.foldl, applySingle]
  exact applyDelSegs_absent _ d hd h

/-- A single Add at a flatten-style path makes Lookup return that value — on ANY document
    (whatever was in the way is replaced). -/
theorem apply_add_lookup (d : AMap Node) (p : String) (hp : safeFlattenPath p = true) (v o : Scalar) :
    lookup (apply d [⟨.add, p, v, o⟩]) p = some (.leaf v) := by
  simp only [safeFlattenPath, Bool.and_eq_true, bne_iff_ne, ne_eq, List.all_eq_true] at hp
  simp only [lookup, if_neg hp.1, apply, List.foldl, applySingle]
  apply lookupSegs_applyAddSegs _ d v _ hp.2
  intro e
  have : (splitDot p.toList).map String.ofList = [] := e
  cases hs : splitDot p.toList with
  | nil =>
    -- splitDot never returns the empty list
    cases hl : p.toList with
    | nil => rw [hl] at hs; simp [splitDot] at hs
    | cons c cs =>
      rw [hl] at hs
      simp only [splitDot] at hs
      split at hs
      · cases hs
      · split at hs <;> cases hs
  | cons a b => rw [hs] at this; cases this

/-- The same for a Change. -/
theorem apply_change_lookup (d : AMap Node) (p : String) (hp : safeFlattenPath p = true) (v o : Scalar) :
    lookup (apply d [⟨.change, p, v, o⟩]) p = some (.leaf v) :=
  apply_add_lookup d p hp v o

/-
  TODO (stated, not proved) — the reconstruction clause at full strength:

    theorem apply_diff_flatten (L R : AMap Node) (hL : (Node.cont L).Valid) (hR : (Node.cont R).Valid)
        (hsafe : SafeKeys L ∧ SafeKeys R) (hc : Compat L R) (hi : ItemsHaveScalars L) :
        flattenMap (apply R (diff L R)) = flattenMap L

  where `Compat` is: wherever both containers define a key the kinds agree, leaves are equal,
  containers are recursively compatible, lists are unconstrained.  Missing: the string-level
  facts `splitPath (toPath p k) = splitPath p ++ [k]`, `parseSeg/parseListComp (k ++ "[i]…")`
  for path-safe keys (being proved for C02/C03), the independence of modifications at
  non-prefix-related paths, and the list-rebuild invariant of DESIGN.md C02 (`rebuild_perm`).
  The clause is carried by the correspondence harness (direct predicate
  `apply-diff-reconstructs-left-flatten` on the Compat domain) and by `nonvacuous_reconstruct`
  below on concrete documents.
-/

/-! ## non-vacuity -/

def i (n : Nat) : Scalar := ⟨"int", toString n⟩

/-- L has a list of a two-key container and a nested list; R has other lists, lacks `c`, has an extra `z` -/
def exL : AMap Node :=
  [("a", .list [.cont [("x", .leaf (i 1)), ("y", .leaf (i 2))], .list [.leaf (i 3), .leaf (i 4)]]),
   ("a-b", .leaf (i 5)),
   ("c", .cont [("d", .leaf (i 6))])]
def exR : AMap Node :=
  [("a", .list [.leaf (i 9)]), ("a-b", .leaf (i 5)), ("z", .cont [("q", .list [])])]

theorem nonvacuous_paths :
    safeFlattenPath "a[0][1].c" = true ∧ safeFlattenPath "a-b.k1[10].z_9[2][0]" = true ∧
    safeFlattenPath "x" = true ∧ safeFlattenPath "" = false := by decide +kernel

theorem nonvacuous_add_lookup :
    lookup (apply [("a", .list [.leaf (i 5)])] [⟨.add, "a[0][1].c", i 7, Scalar.null⟩]) "a[0][1].c"
      = some (.leaf (i 7)) := by decide +kernel

theorem nonvacuous_delete_absent :
    lookup exL "c.e" = none ∧ apply exL [Mod.mkDel "c.e"] = exL ∧
    lookup exL "a[0].q" = none ∧ apply exL [Mod.mkDel "a[0].q"] = exL := by decide +kernel

/-- the reconstruction clause on a concrete pair of the Compat domain (incl. the D8 shape) -/
theorem nonvacuous_reconstruct : diff exL exR ≠ [] ∧ flattenMap (apply exR (diff exL exR)) = flattenMap exL := by
  decide +kernel

end Ytk.C08
