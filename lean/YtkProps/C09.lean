import YtkModel.Patch
namespace Ytk.C09
end Ytk.C09
