/-
  C09 — JSON Patch operations conform to RFC 6902 and fail cleanly.

  `patchDo` (YtkModel/Patch.lean) mirrors patch.Do / doAdd / doRemove / doReplace / moveOrCopy /
  doTest / insertListItem / removeListItem statement by statement; it returns the document
  *and* an outcome (`ok | err | panic`), so a half-applied operation and a panic are
  representable.  `rfc6902` is the reference written from the RFC text.  Both are what the
  driver executes.

  Domain (`OpOk`, `Node.Valid`): documents with sorted unique keys none of which ends in an index
  group (the API invariant, D26); operation objects whose `path` / `from`, where present, are
  non-root and consist of in-scope tokens (`safeTok`: non-empty over `[A-Za-z0-9_-]`, not "-",
  numerals canonical or negative); values are valid nodes.  Missing `path`/`from`/`value` and
  unknown operation names are inside the domain (they must fail).

  Copy independence: the model has value semantics, so "a later edit inside the copy never
  shows at the source" holds in it by construction; on the implementation it is established by
  the harness (probe edit after every successful copy + step-by-step agreement) — partial by tie —
  and, at POINTER level, by the heap theorems at the end of this file (`heap_copy_*`,
  `heap_move_same_node`, `heap_add_stores_value_node`, `heap_patch_failure_restores`, and the
  refinement `heap_patch_abs`: heap-level op = `patchDo` on the abstraction) over
  YtkModel/HeapPatch.lean, tied to the code by the sharing-map correspondence of
  harness/heap_share2.go (kind heap-patch).
-/
import YtkModel.Generated.Constants
import YtkProofs.Patch
import YtkProofs.GapPatch
import YtkModel.GapDiffPatch
import YtkProofs.HeapPatch
import YtkProofs.HeapPatchAbs
import YtkProofs.Decisions
import YtkProofs.Decisions2

namespace Ytk.C09

/-! ## decision tables regenerated from the source (extract/tables2.go) -/
section DecisionTables2
open Ytk.TableT Ytk.Ptr Ytk.Patch

/-- the leading guards the source gives a handler function (regenerated `patchRequires`, first batch) -/
def handlerGuardsG (handler : String) : List Guard := (Generated.patchRequires.lookup handler).getD []

/-- the fields the regenerated table gives the operation object built for a modification type -/
def opFieldsG (modType : String) : List (String × String) := (Generated.mod2opFields.lookup modType).getD []

/-- (i) The `switch mod.Type` of xform.DiffMod2PatchOp as regenerated from xform/diff2patch.go IS the
    conversion table of the model (`Xform.mod2op`, YtkModel/Decisions2.lean): same modification types,
    same patch operation for each, nil for anything else, the same fields of the operation object — Op,
    Path built from the modification's path, Value (the modification's value as a leaf) exactly where the
    model carries one, never From; the model's conversion equals the function RUN FROM the regenerated
    case table and field table (`mod2opBy`), for all modifications; and every operation object the
    model's conversion builds is dispatched by the model's patch.Do and passes the handler's leading
    checks. -/
theorem mod2op_table_matches_model :
    Generated.mod2opTable = Xform.mod2opRowsM ∧
    pairs Generated.mod2opTable = Xform.mod2opTableM ∧
    Generated.mod2opDefault = "nil" ∧
    Generated.mod2opFields = Xform.mod2opFieldsM ∧
    (∀ (ptr : String → Path) (m : Mod),
      Xform.mod2opBy Generated.mod2opTable Generated.mod2opFields ptr m = some (Xform.mod2op ptr m)) ∧
    (∀ (ptr : String → Path) (m : Mod),
      (Xform.mod2op ptr m).op = Xform.opOfMod m.ty ∧ (Xform.mod2op ptr m).path = some (ptr m.path) ∧
      (Xform.mod2op ptr m).frm = none ∧
      (Xform.mod2op ptr m).value = if Xform.carriesValue m.ty then some (.leaf m.value) else none) ∧
    (∀ (ptr : String → Path) (m : Mod),
      ∃ h, handlerOf (Xform.mod2op ptr m).op = some h ∧ (Xform.mod2op ptr m).path.isSome = true ∧
        (h.needsValue = true → (Xform.mod2op ptr m).value.isSome = true) ∧ h.needsFrom = false) := by
  have h1 : Generated.mod2opTable = Xform.mod2opRowsM := by decide +kernel
  have h2 : Generated.mod2opFields = Xform.mod2opFieldsM := by decide +kernel
  refine ⟨h1, by decide +kernel, by decide +kernel, h2, ?_, fun _ _ => ⟨rfl, rfl, rfl, rfl⟩,
    Xform.mod2op_wellformed⟩
  intro ptr m
  rw [h1, h2]
  exact Xform.mod2op_eq_table ptr m

/-- (ii) The rule on the regenerated tables (RFC 6902 section 4 + what a diff modification means): an
    Add becomes `add`, a Change `replace`, a Delete `remove`, anything else no operation; each of these
    is one of the operations patch.Do dispatches (regenerated `patchDispatch`); the object carries a
    `value` — the modification's value as a leaf — exactly when the handler it is dispatched to starts
    by requiring one (regenerated `patchRequires`), never needs and never sets `from`, always sets the
    path from the modification's path; and the constants written in the source have the values the
    constants table gives them. -/
theorem mod2op_table_rule :
    pairs Generated.mod2opTable = [("Add", "add"), ("Change", "replace"), ("Delete", "remove")] ∧
    Generated.mod2opDefault = "nil" ∧
    (∀ r ∈ Generated.mod2opTable,
      r.target ∈ keys Generated.patchDispatch ∧
      (("Value" ∈ (opFieldsG r.key).map (·.1)) ↔
        ⟨"arg0.Value", "ErrOoValueMissing"⟩ ∈ handlerGuardsG (lookupD Generated.patchDispatch "" r.target)) ∧
      (opFieldsG r.key).lookup "Value" ∈ [none, some "dom.LeafNode(arg0.Value)"] ∧
      ⟨"arg0.From", "ErrOoFromMissing"⟩ ∉ handlerGuardsG (lookupD Generated.patchDispatch "" r.target) ∧
      "From" ∉ (opFieldsG r.key).map (·.1) ∧
      (opFieldsG r.key).lookup "Path" = some "PointerFromPropPathString(arg0.Path)" ∧
      ((opFieldsG r.key).lookup "Op").bind Generated.const? = some r.target ∧
      Generated.const? r.const = some r.key) := by
  decide +kernel

/-- (iii) the tables are not empty and their keys are distinct: three modification types, three
    different operations, one field list per type -/
theorem nonvacuous_mod2op_tables :
    Generated.mod2opTable.length = 3 ∧ (keys Generated.mod2opTable).Nodup ∧
    (Generated.mod2opTable.map (·.target)).Nodup ∧
    Generated.mod2opFields.map (·.1) = keys Generated.mod2opTable ∧
    (∀ f ∈ Generated.mod2opFields, (f.2.map (·.1)).Nodup) := by
  decide +kernel

end DecisionTables2

open Ytk.Ptr Ytk.Patch

/-! ## decision tables regenerated from the source (extract/tables.go) -/
section DecisionTables
open Ytk.TableT

/-- the leading guards the source gives a handler function (regenerated `patchRequires`) -/
def guardsOfG (handler : String) : List Guard := (Generated.patchRequires.lookup handler).getD []

/-- (i) The `switch obj.Op` of patch.Do as regenerated from patch/patch.go IS the dispatch table of the
    model: same operation names, same handler for each, error when no case matches; and `patchDo`
    equals the function that looks the operation up in that table and runs the handler. -/
theorem patch_dispatch_table_matches_model :
    pairs Generated.patchDispatch = Patch.dispatchTable.map (fun p => (p.1, p.2.goName)) ∧
    Generated.patchDispatchDefault = "error" ∧
    (∀ o root, patchDo o root =
      match o.path with
      | none => (root, .err)
      | some path =>
        match Patch.dispatchTable.lookup o.op with
        | some h => h.run o path root
        | none => (root, .err)) :=
  ⟨by decide +kernel, by decide +kernel, patchDo_eq_table⟩

/-- (i) The validation of the operation object, regenerated: the guards before the dispatch (object,
    path, target — in this order) and the leading `value` / `from` guards of every handler are the ones
    the model has; and the model's handlers do fail, leaving the document alone, exactly there. -/
theorem patch_requires_table_matches_model :
    Generated.patchPreChecks = Patch.preChecks ∧
    Generated.patchRequires = Handler.all.map (fun h => (h.goName, h.guards)) ∧
    (∀ o root, o.path = none → patchDo o root = (root, .err)) ∧
    (∀ (h : Handler) o p r, h.needsValue = true → o.value = none → h.run o p r = (r, .err)) ∧
    (∀ (h : Handler) o p r, h.needsFrom = true → o.frm = none → h.run o p r = (r, .err)) :=
  ⟨by decide +kernel, by decide +kernel, patchDo_missing_path, run_missing_value, run_missing_from⟩

/-- (ii) RFC 6902 on the regenerated tables: exactly the six operations of section 4 are dispatched,
    each to its own handler; `add`, `replace`, `test` — and only they — start by requiring `value`;
    `move`, `copy` — and only they — start by requiring `from`; the path is required before anything is
    dispatched; an unknown operation is an error; every guard returns one of the package's (non-nil)
    error variables. -/
theorem patch_table_rule :
    keys Generated.patchDispatch = ["add", "copy", "move", "remove", "replace", "test"] ∧
    (∀ r ∈ Generated.patchDispatch,
      (⟨"arg0.Value", "ErrOoValueMissing"⟩ ∈ guardsOfG r.target ↔ r.key ∈ ["add", "replace", "test"]) ∧
      (⟨"arg0.From", "ErrOoFromMissing"⟩ ∈ guardsOfG r.target ↔ r.key ∈ ["move", "copy"])) ∧
    ⟨"arg0.Path", "ErrOoPathMissing"⟩ ∈ Generated.patchPreChecks ∧
    Generated.patchDispatchDefault = "error" ∧
    (∀ g ∈ Generated.patchPreChecks ++ (Generated.patchRequires.map (·.2)).flatten,
      g.result ∈ Generated.patchErrors.map (·.1)) ∧
    (∀ r ∈ Generated.patchDispatch, Generated.const? ("patch." ++ r.const) = some r.key) := by
  decide +kernel

/-- (iii) the tables are not empty and their keys are distinct: six cases, six different handlers, one
    guard list per handler -/
theorem nonvacuous_patch_tables :
    Generated.patchDispatch.length = 6 ∧ (keys Generated.patchDispatch).Nodup ∧
    (Generated.patchDispatch.map (·.target)).Nodup ∧
    Generated.patchRequires.map (·.1) = Generated.patchDispatch.map (·.target) ∧
    (Generated.patchErrors.map (·.1)).Nodup ∧ Generated.patchPreChecks.length = 3 := by
  decide +kernel

end DecisionTables

/-- Success/failure agree with the RFC, the resulting document is the RFC's, and on failure
    the document is exactly the old one. -/
theorem patch_refines (o : OpObj) (d : Node) (ho : OpOk o) (hd : d.Valid) :
    patchDo o d = match rfc6902 o d with
      | some d' => (d', .ok ())
      | none => (d, .err) := by
  rw [patchDo_refines ho hd]; cases rfc6902 o d <;> rfl

/-- No operation panics. -/
theorem patch_no_panic (o : OpObj) (d : Node) (ho : OpOk o) (hd : d.Valid) : (patchDo o d).2 ≠ .panic := by
  rw [patch_refines o d ho hd]; cases rfc6902 o d <;> simp

/-- When an error is returned the document is left exactly as it was. -/
theorem patch_error_unchanged (o : OpObj) (d : Node) (ho : OpOk o) (hd : d.Valid)
    (he : (patchDo o d).2 = .err) : (patchDo o d).1 = d := by
  rw [patch_refines o d ho hd] at he ⊢
  cases h : rfc6902 o d with
  | none => rfl
  | some d' => rw [h] at he; cases he

/-- An error is returned exactly when the RFC requires failure. -/
theorem patch_error_iff (o : OpObj) (d : Node) (ho : OpOk o) (hd : d.Valid) :
    (patchDo o d).2 = .err ↔ rfc6902 o d = none := by
  rw [patch_refines o d ho hd]; cases rfc6902 o d <;> simp

/-- The domain is closed under steps: the document after any step is valid again. -/
theorem patch_preserves_valid (o : OpObj) (d : Node) (ho : OpOk o) (hd : d.Valid) : (patchDo o d).1.Valid := by
  rw [patch_refines o d ho hd]
  cases h : rfc6902 o d with
  | none => exact hd
  | some d' => exact rfc6902_valid ho hd h

/-- All sequences of operations applied to one document: implementation model and reference
    agree step by step (outcomes) and on the resulting document — by induction over the
    sequence, no bound on its length. -/
theorem patch_seq (ops : List OpObj) (d : Node) (hd : d.Valid) (hops : ∀ o ∈ ops, OpOk o) :
    runPatch ops d = runRfc ops d :=
  runPatch_eq_runRfc ops d hd hops

/-- … in particular after every prefix of the sequence the two documents are the same
    ("step by step"). -/
theorem patch_seq_prefix (ops : List OpObj) (k : Nat) (d : Node) (hd : d.Valid) (hops : ∀ o ∈ ops, OpOk o) :
    (runPatch (ops.take k) d).1 = (runRfc (ops.take k) d).1 := by
  rw [patch_seq (ops.take k) d hd (fun o ho => hops o (List.mem_of_mem_take ho))]

/-! ## the reference is the RFC (sanity theorems about `rfc6902` itself) -/

/-- 4.4: a location cannot be moved into one of its children — for every document. -/
theorem rfc_move_into_descendant_fails (d : Node) (f r : Path) (hr : r ≠ []) (v : Option Node) :
    rfc6902 { op := "move", frm := some f, path := some (f ++ r), value := v } d = none := by
  have : isProperPrefix f (f ++ r) = true := (isProperPrefix_iff f (f ++ r)).mpr ⟨r, hr, rfl⟩
  simp only [rfc6902]
  cases getTok d f <;> simp [this]

/-- 4.1: adding at an array index inserts there; elements at or above the index shift right;
    the index may equal the length (append) but not exceed it. -/
theorem rfc_add_insert_shifts (d : Node) (p : Path) (xs : List Node) (i : Nat) (v : Node) (hp : p ≠ [])
    (htok : ∀ t ∈ p, tokOk t = true) (hpar : getTok d (parent p) = some (.list xs))
    (hi : canonIdx (lastSegment p) = some i) :
    (i ≤ xs.length →
      ∃ d' ys, rfc6902 { op := "add", frm := none, path := some p, value := some v } d = some d' ∧
        getTok d' (parent p) = some (.list ys) ∧ ys.length = xs.length + 1 ∧ ys[i]? = some v ∧
        (∀ j, j < i → ys[j]? = xs[j]?) ∧ (∀ j, i ≤ j → ys[j + 1]? = xs[j]?)) ∧
    (xs.length < i → rfc6902 { op := "add", frm := none, path := some p, value := some v } d = none) := by
  constructor
  · intro hle
    obtain ⟨h1, h2⟩ := rAdd_list v hp htok hpar hi hle
    refine ⟨_, insertAt xs i v, by simpa [rfc6902] using h1, h2, ?_, ?_, ?_, ?_⟩
    · rw [insertAt_eq_insertIdx hle, List.length_insertIdx_of_le_length hle]
    · rw [insertAt_eq_insertIdx hle, List.getElem?_insertIdx_self, if_pos hle]
    · intro j hj; rw [insertAt_eq_insertIdx hle, List.getElem?_insertIdx_of_lt hj]
    · intro j hj; rw [insertAt_eq_insertIdx hle, List.getElem?_insertIdx_of_gt (by omega)]; simp
  · intro hgt
    have : ¬ i ≤ xs.length := by omega
    simp [rfc6902, rAdd, modify_eq _ p d hp htok, hpar, addLast, hi, this]

/-- 4.2: removing an array element shifts the elements above it one position to the left;
    the index must exist. -/
theorem rfc_remove_shifts (d : Node) (p : Path) (xs : List Node) (i : Nat) (hp : p ≠ [])
    (htok : ∀ t ∈ p, tokOk t = true) (hpar : getTok d (parent p) = some (.list xs))
    (hi : canonIdx (lastSegment p) = some i) :
    (i < xs.length →
      ∃ d' ys, rfc6902 { op := "remove", frm := none, path := some p, value := none } d = some d' ∧
        getTok d' (parent p) = some (.list ys) ∧ ys.length + 1 = xs.length ∧
        (∀ j, j < i → ys[j]? = xs[j]?) ∧ (∀ j, i ≤ j → ys[j]? = xs[j + 1]?)) ∧
    (xs.length ≤ i → rfc6902 { op := "remove", frm := none, path := some p, value := none } d = none) := by
  constructor
  · intro hlt
    obtain ⟨h1, h2⟩ := rRemove_list hp htok hpar hi hlt
    refine ⟨_, xs.eraseIdx i, by simpa [rfc6902] using h1, h2, ?_, ?_, ?_⟩
    · rw [List.length_eraseIdx_of_lt hlt]; omega
    · intro j hj; exact List.getElem?_eraseIdx_of_lt hj
    · intro j hj; exact List.getElem?_eraseIdx_of_ge hj
  · intro hge
    have : ¬ i < xs.length := by omega
    simp [rfc6902, rRemove, modify_eq _ p d hp htok, hpar, removeLast, hi, this]

/-- 4.1 / 4.5: after a successful add (hence copy) the added value is what the location holds. -/
theorem rfc_add_then_get (d d' v : Node) (p : Path) (hp : p ≠ []) (htok : ∀ t ∈ p, tokOk t = true)
    (h : rfc6902 { op := "add", frm := none, path := some p, value := some v } d = some d') :
    getTok d' p = some v :=
  getTok_rAdd hp htok (by simpa [rfc6902] using h)

/-- 4.4: removing a value and adding it back at the same location restores the document
    (why `move` with from = path is a successful no-op). -/
theorem rfc_move_same_location (d n : Node) (p : Path) (hd : d.Valid) (hp : safePath p = true)
    (hg : getTok d p = some n) (v : Option Node) :
    rfc6902 { op := "move", frm := some p, path := some p, value := v } d = some d := by
  obtain ⟨d1, h1, h2⟩ := rRemove_rAdd_same hd.1 (safePath_ne_nil hp) (safePath_tokOk hp) hg
  simp [rfc6902, hg, isProperPrefix_irrefl, h1, h2]

/-- 4.6 and the "missing member" failures. -/
theorem rfc_test_iff (d v : Node) (p : Path) :
    rfc6902 { op := "test", frm := none, path := some p, value := some v } d = some d ↔ getTok d p = some v := by
  simp only [rfc6902]
  cases getTok d p with
  | none => simp
  | some n => by_cases h : n = v <;> simp [h]

theorem rfc_missing_member_fails (d : Node) (p f : Path) (v : Node) :
    rfc6902 { op := "add", frm := none, path := some p, value := none } d = none ∧
    rfc6902 { op := "replace", frm := none, path := some p, value := none } d = none ∧
    rfc6902 { op := "test", frm := none, path := some p, value := none } d = none ∧
    rfc6902 { op := "move", frm := none, path := some p, value := none } d = none ∧
    rfc6902 { op := "copy", frm := none, path := some p, value := none } d = none ∧
    rfc6902 { op := "add", frm := some f, path := none, value := some v } d = none := by
  simp [rfc6902]

/-! ## non-vacuity and the historical inputs (D9–D14), decided on the model -/

def l (n : String) : Node := .leaf ⟨"int", n⟩
def mk (op : String) (frm path : Option Path) (value : Option Node) : OpObj :=
  { op := op, frm := frm, path := path, value := value }

def exDoc : Node := .cont [("a", .list [l "1", l "2"]), ("b", .cont [("x", l "1"), ("y", l "2")]), ("c", l "3")]

theorem exDoc_valid : exDoc.Valid := by
  have hleaf : ∀ n, (l n).Valid := fun n => Node.Valid.leaf _
  have hb : (Node.cont [("x", l "1"), ("y", l "2")]).Valid := by
    have h0 : (Node.cont []).Valid := ⟨.cont .nil (by simp), .cont (by simp) (by simp)⟩
    have h1 := valid_insert h0 (hleaf "1") (k := "x") (by decide)
    exact valid_insert h1 (hleaf "2") (k := "y") (by decide)
  have ha : (Node.list [l "1", l "2"]).Valid := valid_list (by simp [hleaf])
  have h0 : (Node.cont []).Valid := ⟨.cont .nil (by simp), .cont (by simp) (by simp)⟩
  have h1 := valid_insert h0 ha (k := "a") (by decide)
  have h2 := valid_insert h1 hb (k := "b") (by decide)
  exact valid_insert h2 (hleaf "3") (k := "c") (by decide)

/-- in-scope operation objects exist, of every kind, succeeding and failing -/
theorem nonvacuous_ops :
    OpOk (mk "add" none (some ["a", "1"]) (some (l "9"))) ∧
    OpOk (mk "move" (some ["a", "0"]) (some ["b", "z"]) none) ∧
    OpOk (mk "remove" none (some ["a", "-1"]) none) ∧
    OpOk (mk "copy" (some ["b"]) (some ["a", "2"]) none) ∧
    OpOk (mk "test" none none none) ∧
    inScope (mk "add" none (some []) (some (l "9"))) = false ∧
    inScope (mk "add" none (some ["a", "01"]) (some (l "9"))) = false ∧
    inScope (mk "add" none (some ["a", "-"]) (some (l "9"))) = false := by
  refine ⟨⟨by decide, ?_⟩, ⟨by decide, ?_⟩, ⟨by decide, ?_⟩, ⟨by decide, ?_⟩, ⟨by decide, ?_⟩, by decide, by decide, by decide⟩
  · intro v hv; cases hv; exact Node.Valid.leaf _
  · intro v hv; cases hv
  · intro v hv; cases hv
  · intro v hv; cases hv
  · intro v hv; cases hv

/-- list insertion shifts; a move inside one list is resolved against the list with the source
    already removed; move into the own child fails and leaves the document alone -/
theorem nonvacuous_steps :
    patchDo (mk "add" none (some ["a", "1"]) (some (l "9"))) exDoc =
      (.cont [("a", .list [l "1", l "9", l "2"]), ("b", .cont [("x", l "1"), ("y", l "2")]), ("c", l "3")], .ok ()) ∧
    patchDo (mk "move" (some ["a", "0"]) (some ["a", "1"]) none) exDoc =
      (.cont [("a", .list [l "2", l "1"]), ("b", .cont [("x", l "1"), ("y", l "2")]), ("c", l "3")], .ok ()) ∧
    patchDo (mk "move" (some ["a", "0"]) (some ["a", "2"]) none) exDoc = (exDoc, .err) ∧
    patchDo (mk "move" (some ["b"]) (some ["b", "x", "k"]) none) exDoc = (exDoc, .err) ∧
    patchDo (mk "copy" (some ["b"]) (some ["b", "x"]) none) exDoc =
      (.cont [("a", .list [l "1", l "2"]),
              ("b", .cont [("x", .cont [("x", l "1"), ("y", l "2")]), ("y", l "2")]), ("c", l "3")], .ok ()) := by
  decide

/-- D9 (replace of a top-level member), D10 (add below a leaf / non-index under a list),
    D11 (index out of range, negative), D12 (move to a missing parent keeps the document),
    D14 (test against a proper subset) — errors or results now, never `panic` -/
theorem nonvacuous_historical :
    patchDo (mk "replace" none (some ["c"]) (some (l "0"))) exDoc =
      (.cont [("a", .list [l "1", l "2"]), ("b", .cont [("x", l "1"), ("y", l "2")]), ("c", l "0")], .ok ()) ∧
    patchDo (mk "add" none (some ["c", "k"]) (some (l "0"))) exDoc = (exDoc, .err) ∧
    patchDo (mk "add" none (some ["a", "x"]) (some (l "0"))) exDoc = (exDoc, .err) ∧
    patchDo (mk "remove" none (some ["a", "x"]) none) exDoc = (exDoc, .err) ∧
    patchDo (mk "add" none (some ["a", "3"]) (some (l "0"))) exDoc = (exDoc, .err) ∧
    patchDo (mk "add" none (some ["a", "-1"]) (some (l "0"))) exDoc = (exDoc, .err) ∧
    patchDo (mk "move" (some ["c"]) (some ["q", "r"]) none) exDoc = (exDoc, .err) ∧
    patchDo (mk "test" none (some ["b"]) (some (.cont [("x", l "1")]))) exDoc = (exDoc, .err) ∧
    patchDo (mk "test" none (some ["b"]) (some (.cont [("x", l "1"), ("y", l "2")]))) exDoc = (exDoc, .ok ()) := by
  decide

/-- Tie to the source text (regenerated on every run): the operation names. -/
theorem source_constants :
    Generated.const? "patch.OpAdd" = some "add" ∧ Generated.const? "patch.OpRemove" = some "remove" ∧
    Generated.const? "patch.OpReplace" = some "replace" ∧ Generated.const? "patch.OpMove" = some "move" ∧
    Generated.const? "patch.OpCopy" = some "copy" ∧ Generated.const? "patch.OpTest" = some "test" := by decide

/-! ## Pointer level: patch on the heap model (YtkModel/HeapPatch.lean)

  The document is a root ADDRESS in a heap of cells; `patchDoH` has the shape of `patchDo`, with
  `setAt` replaced by an in-place write of the ONE cell `Path.Eval` located.  Sharing facts read
  off patch/patch.go + utils.go: add / replace attach the caller's value node ITSELF; copy attaches
  a Clone (all cells new); move detaches and re-attaches THE SAME node (no allocation) and adds it
  back at `from` when the add at `path` fails; insertListItem / removeListItem rebuild the item
  slice of the one list cell from the old item nodes (no copies). -/

section heap
open Ytk.Heap

/-- ADD / REPLACE STORE THE VALUE NODE ITSELF.  A successful add (replace) evaluates the parent of
    `path`, writes that ONE cell and nothing else, allocates nothing, and afterwards the step from
    the parent by the last token leads to the caller's node `v` — pointer-identical, not a copy.
    (This is the documented sharing that made D30 possible one level up: pipeline.PatchOp used to
    pass its own value node here.) -/
theorem heap_add_stores_value_node (v : Addr) (path : Path) (h h' : Heap) (root : Addr) :
    (doAddH (some v) path h root = (h', .ok ()) →
      ∃ par, evalH h root (parent path) = some par ∧ stepH h' par (lastSegment path) = some v ∧
        h'.size = h.size ∧ ∀ b, b ≠ par → h'.get? b = h.get? b) ∧
    (doReplaceH (some v) path h root = (h', .ok ()) →
      ∃ par, evalH h root (parent path) = some par ∧ stepH h' par (lastSegment path) = some v ∧
        h'.size = h.size ∧ ∀ b, b ≠ par → h'.get? b = h.get? b) := by
  constructor
  · intro he
    rcases doAddH_cases (some v) path h root with h1 | ⟨v', par, cell', hv, hp, h1, hc⟩
    · rw [h1] at he; cases he
    · rw [h1] at he
      cases hv
      simp only [Prod.mk.injEq, and_true] at he
      subst he
      exact ⟨par, hp, stepH_write_self_add hc, Heap.size_write _ _ _,
        fun b hb => Heap.get?_write_ne h cell' hb⟩
  · intro he
    rcases doReplaceH_cases (some v) path h root with h1 | h1 | ⟨v', n, par, cell', hv, _, hp, h1, hc⟩
    · rw [h1] at he; cases he
    · rw [h1] at he; cases he
    · rw [h1] at he
      cases hv
      simp only [Prod.mk.injEq, and_true] at he
      subst he
      exact ⟨par, hp, stepH_write_self_repl hc, Heap.size_write _ _ _,
        fun b hb => Heap.get?_write_ne h cell' hb⟩

/-- COPY IS FRESH.  A successful copy clones the node at `from` (`h1`: the heap after the Clone),
    writes the ONE (old) parent cell of `path`, the step from that parent by the last token leads
    to the clone root `c`, and EVERY cell reachable from `c` afterwards — containers, lists,
    leaves — was allocated by this copy: the copied value shares no object with the source nor with
    anything else that existed. -/
theorem heap_copy_fresh (f path : Path) (h h' : Heap) (root : Addr) (hcl : h.Closed) (hroot : root < h.size)
    (he : moveOrCopyH (some f) path h root false = (h', .ok ())) :
    ∃ n h1 c par, evalH h root f = some n ∧ cloneF h.size h n = some (h1, c) ∧
      evalH h root (parent path) = some par ∧ par < h.size ∧
      stepH h' par (lastSegment path) = some c ∧ h'.size = h1.size ∧
      (∀ b, b < h.size → b ≠ par → h'.get? b = h.get? b) ∧
      ∀ b, Reach h' c b → h.size ≤ b ∧ b < h1.size := by
  obtain ⟨n, h1, c, par, cell', hn, hc, hp, hpar, hh, hcell⟩ := copy_shape hcl hroot he
  have hl := (cloneF_spec h.size h n h1 c hc).1
  refine ⟨n, h1, c, par, hn, hc, hp, hpar, ?_, ?_, ?_, copy_fresh hc hpar hh⟩
  · rw [hh]; exact stepH_write_self_add hcell
  · rw [hh]; exact Heap.size_write _ _ _
  · intro b hb hne
    rw [hh, Heap.get?_write_ne h1 cell' hne, Heap.get?_eq_of_le hl hb]

/-- COPY IS INDEPENDENT, both ways.  After a successful copy (clone root `c`, attached to the parent
    cell `par`):
    (i) any sequence of in-place writes to cells of the copy (or allocated later) — in particular
        any builder calls on nodes below the copy — leaves the abstraction of every old root that
        does not contain the destination unchanged: the SOURCE node, unless the copy was placed
        inside the source itself, and every other part of the document;
    (ii) any sequence of in-place writes to other cells (old ones — the source's —, or allocated
        later) leaves the abstraction of the copy unchanged. -/
theorem heap_copy_independent (f path : Path) (h h' h2 : Heap) (root : Addr) (hcl : h.Closed)
    (hroot : root < h.size) (he : moveOrCopyH (some f) path h root false = (h', .ok ())) :
    ∃ (n : Addr) (h1 : Heap) (c par : Addr), evalH h root f = some n ∧ cloneF h.size h n = some (h1, c) ∧
      h'.size = h1.size ∧
      evalH h root (parent path) = some par ∧ stepH h' par (lastSegment path) = some c ∧
      (Writes (fun _ b => h.size ≤ b) h' h2 →
        ∀ (g : Nat) (x : Addr) (nx : Node), absH g h x = some nx → ¬ Reach h x par →
          absH g h2 x = some nx) ∧
      (Writes (fun _ b => b < h.size ∨ h1.size ≤ b) h' h2 →
        ∀ (g : Nat) (m : Node), absH g h' c = some m → absH g h2 c = some m) := by
  obtain ⟨n, h1, c, par, cell', hn, hc, hp, hpar, hh, hcell⟩ := copy_shape hcl hroot he
  refine ⟨n, h1, c, par, hn, hc, by rw [hh]; exact Heap.size_write _ _ _, hp,
    by rw [hh]; exact stepH_write_self_add hcell, ?_, ?_⟩
  · intro hw g x nx hx hnr
    exact copy_independent_source hc hh hw hx hnr
  · intro hw g m hm
    exact copy_independent_copy hc hpar hh hw hm

/-- the same for literal builder histories (AddValue / AddContainer / AddList / Remove / Set /
    Append / Clear on cells of the copy, resp. on other cells) -/
theorem heap_copy_independent_ops (f path : Path) (h h' h2 : Heap) (root : Addr) (hcl : h.Closed)
    (hroot : root < h.size) (he : moveOrCopyH (some f) path h root false = (h', .ok ()))
    (ops : List Ytk.Heap.Op) (ha : applyOps h' ops = some h2) :
    ∃ (n : Addr) (h1 : Heap) (c par : Addr), evalH h root f = some n ∧ cloneF h.size h n = some (h1, c) ∧
      h'.size = h1.size ∧
      evalH h root (parent path) = some par ∧ stepH h' par (lastSegment path) = some c ∧
      ((∀ op ∈ ops, h.size ≤ op.target) →
        ∀ (g : Nat) (x : Addr) (nx : Node), absH g h x = some nx → ¬ Reach h x par →
          absH g h2 x = some nx) ∧
      ((∀ op ∈ ops, op.target < h.size ∨ h1.size ≤ op.target) →
        ∀ (g : Nat) (m : Node), absH g h' c = some m → absH g h2 c = some m) := by
  obtain ⟨n, h1, c, par, hn, hc, hsz, hp, hs, k1, k2⟩ := heap_copy_independent f path h h' h2 root hcl hroot he
  exact ⟨n, h1, c, par, hn, hc, hsz, hp, hs, fun hq => k1 (applyOps_writes hq ha),
    fun hq => k2 (applyOps_writes hq ha)⟩

/-- MOVE RE-ATTACHES THE VERY NODE.  A successful move to another location allocates NOTHING
    (`h'.size = h.size`), writes at most two cells — the parent of `from` (detach) and the parent of
    `path`, evaluated after the detach (attach) — and the step from that parent by the last token
    leads to the node `n` that `from` resolved to: the same object, not a copy. -/
theorem heap_move_same_node (f path : Path) (h h' : Heap) (root : Addr) (hne : f ≠ path)
    (he : moveOrCopyH (some f) path h root true = (h', .ok ())) :
    ∃ n pf par, evalH h root f = some n ∧ evalH h root (parent f) = some pf ∧
      stepH h' par (lastSegment path) = some n ∧ h'.size = h.size ∧
      ∀ b, b ≠ pf → b ≠ par → h'.get? b = h.get? b := by
  obtain ⟨n, pf, cellR, par, cell', hn, hpf, _, _, hc, hh⟩ := move_shape hne he
  refine ⟨n, pf, par, hn, hpf, ?_, ?_, ?_⟩
  · rw [hh]; exact stepH_write_self_add hc
  · rw [hh, Heap.size_write, Heap.size_write]
  · intro b h1 h2
    rw [hh, Heap.get?_write_ne _ _ h2, Heap.get?_write_ne _ _ h1]

/-- … and moving a node onto its own location is a successful no-op on the heap. -/
theorem heap_move_same_location (f : Path) (h : Heap) (root n : Addr) (hn : evalH h root f = some n) :
    moveOrCopyH (some f) f h root true = (h, .ok ()) := by
  unfold moveOrCopyH moveOrCopyWith
  simp [hn]

/-- FAILURE RESTORES.  On an acyclic heap whose children maps have unique keys (every heap the
    API builds), an operation that does not succeed (error or panic outcome) leaves EVERY existing
    cell exactly as it was — hence the abstraction of the document and of every other root —, and
    for every operation except copy the heap is literally the old one (a failing copy has allocated
    its Clone, which stays unattached; a failing move's rollback re-creates the parent cell of
    `from` cell-for-cell, `remove_add_back`). -/
theorem heap_patch_failure_restores (o : HOpObj) (h : Heap) (root : Addr) (rank : Addr → Nat)
    (hr : h.RankedBy rank) (hm : h.MapsOk) (hfail : (patchDoH o h root).2 ≠ .ok ()) :
    h ≤ (patchDoH o h root).1 ∧ (∀ b, b < h.size → (patchDoH o h root).1.get? b = h.get? b) ∧
    (∀ (g : Nat) (x : Addr) (n : Node), absH g h x = some n → absH g (patchDoH o h root).1 x = some n) ∧
    (o.op ≠ "copy" → (patchDoH o h root).1 = h) := by
  obtain ⟨hl, heq⟩ := patchDoH_failure hr hm hfail
  exact ⟨hl, fun b hb => Heap.get?_eq_of_le hl hb, fun g x n hn => absH_mono hl g x n hn, heq⟩

/-- THE LIST REBUILD WRITES ONE CELL.  `insertListItem` / `removeListItem` run
    `items := list.Items(); list.Clear(); list.Append(…)…`: executed statement by statement on the
    heap (`insertListItemStmts`, `removeListItemStmts`: every statement is a builder call on the one
    list cell, the item NODES are re-appended themselves) they produce exactly the single write of the
    final item list that `doAddH` / `doRemoveH` perform — no other cell is written, nothing is
    allocated, no item is copied. -/
theorem heap_list_rebuild_one_cell (h : Heap) (l : Addr) (xs : List Addr) (hg : h.get? l = some (.list xs))
    (i : Nat) (v : Addr) :
    insertListItemStmts h l i v = some (h.write l (.list (xs.take i ++ v :: xs.drop i))) ∧
    removeListItemStmts h l i = some (h.write l (.list (xs.take i ++ xs.drop (i + 1)))) :=
  ⟨insertListItemStmts_eq hg i v, removeListItemStmts_eq hg i⟩

/-! ### Non-vacuity and the pre-fix shape (D13)

  `pHeap`: 0 nilLeaf · 1 leaf 1 · 2 list [#1, nilLeaf] · 3 {x: #1} · 4 {a: #2, b: #3} (root). -/
def pHeap : Heap := ⟨[.leaf Scalar.null, .leaf ⟨"int", "1"⟩, .list [1, 0], .cont [("x", 1)],
  .cont [("a", 2), ("b", 3)]]⟩

/-- copy /a → /c succeeds, the copy is three new cells, the source list is untouched -/
theorem nonvacuous_heap_copy :
    (moveOrCopyH (some ["a"]) ["c"] pHeap 4 false).2 = .ok () ∧
    (moveOrCopyH (some ["a"]) ["c"] pHeap 4 false).1.size = 8 ∧
    evalH (moveOrCopyH (some ["a"]) ["c"] pHeap 4 false).1 4 ["c"] = some 7 ∧
    evalH (moveOrCopyH (some ["a"]) ["c"] pHeap 4 false).1 4 ["a"] = some 2 := by decide +kernel

/-- move /a → /b/y: no allocation, the node found at /b/y is the node that was at /a -/
theorem nonvacuous_heap_move :
    (moveOrCopyH (some ["a"]) ["b", "y"] pHeap 4 true).2 = .ok () ∧
    (moveOrCopyH (some ["a"]) ["b", "y"] pHeap 4 true).1.size = 5 ∧
    evalH (moveOrCopyH (some ["a"]) ["b", "y"] pHeap 4 true).1 4 ["b", "y"] = some 2 ∧
    evalH (moveOrCopyH (some ["a"]) ["b", "y"] pHeap 4 true).1 4 ["a"] = none := by decide +kernel

/-- a move whose add fails after the detach (target parent /q missing) restores the heap -/
theorem nonvacuous_heap_move_rollback :
    moveOrCopyH (some ["a"]) ["q", "z"] pHeap 4 true = (pHeap, .err) := by decide +kernel

/-- NEGATIVE (pre-fix shape of copy, D13): without the Clone the very node is attached twice — the
    "copy" at /c IS the source at /a, so an edit below one shows at the other. -/
theorem heap_copy_noClone_aliases :
    (copyNoClone (some ["a"]) ["c"] pHeap 4).2 = .ok () ∧
    evalH (copyNoClone (some ["a"]) ["c"] pHeap 4).1 4 ["c"] = some 2 ∧
    evalH (copyNoClone (some ["a"]) ["c"] pHeap 4).1 4 ["a"] = some 2 := by decide +kernel

end heap

/-! ### Refinement: the heap-level operation abstracts to the value-level one -/

section refine
open Ytk.Heap

/-- the value-level operation object: the same, with the value node replaced by its abstraction -/
def absOp (o : HOpObj) (nv : Option Node) : OpObj := ⟨o.op, o.frm, o.path, nv⟩

/-- REFINEMENT.  Let the document at `root` abstract to `d` (`abs`: fuel = heap size), the value
    node — if the operation object has one — to `nv`, all tokens be plain member names / indices,
    the location non-root, and let the parent cell of `path` be reached from the root along that
    path ONLY, not reach itself, and not be contained in the value (`Dest`: tree-shaped documents,
    a value that is not part of the document — when a container or list object occurs at two
    places of a document, a write through one place shows at the other, which no value-level tree
    operation expresses).  For `move` (two writes: detach at `from`, attach at `path`, and the
    rollback at `from`) the same is asked of the parent of `from`, and of both parents in the heap
    after the detach with the moved node as the value (`hmove`).  Then the heap-level operation has
    the outcome of the value-level `patchDo`, and the document afterwards abstracts (with some
    fuel) to the value-level result document.
    Together with `patch_refines` this is: pointer-level patch = RFC 6902 on the abstraction. -/
theorem heap_patch_abs (o : HOpObj) (h : Heap) (root : Addr) (d : Node) (nv : Option Node)
    (hm : h.MapsOk) (hcl : h.Closed) (hroot : root < h.size)
    (hd : abs h root = some d)
    (hval : (∀ v, o.value = some v → ∃ x, nv = some x ∧ abs h v = some x) ∧ (o.value = none → nv = none))
    (hpath : ∀ p, o.path = some p → Plain p ∧ p ≠ [] ∧ Dest h root (parent p) o.value.toList)
    (hfrm : ∀ f, o.frm = some f → Plain f)
    (hmove : o.op = "move" → ∀ f p, o.frm = some f → o.path = some p →
      Dest h root (parent f) [] ∧ ∀ n, evalH h root f = some n →
        Dest (doRemoveH f h root).1 root (parent p) [n] ∧ Dest (doRemoveH f h root).1 root (parent f) [n]) :
    ∃ G, absH G (patchDoH o h root).1 root = some (patchDo (absOp o nv) d).1 ∧
      (patchDoH o h root).2 = (patchDo (absOp o nv) d).2 := by
  have hm' : ∀ a kvs, Reach h root a → h.get? a = some (.cont kvs) → AMap.Sorted kvs :=
    fun a kvs _ hg => hm a kvs hg
  have hd0 : absH h.size h root = some d := hd
  unfold patchDoH patchDo absOp
  dsimp only
  cases hp : o.path with
  | none => exact ⟨h.size, hd0, rfl⟩
  | some path =>
    obtain ⟨hpl, hne, hdest⟩ := hpath path hp
    dsimp only
    have hdest0 : Dest h root (parent path) [] :=
      fun par he => ⟨(hdest par he).1, (hdest par he).2.1, fun v hv => by cases hv⟩
    by_cases h1 : o.op = "add"
    · rw [if_pos h1, if_pos h1]
      cases hv : o.value with
      | none =>
        rw [hval.2 hv]
        exact ⟨h.size, hd0, rfl⟩
      | some v =>
        obtain ⟨x, rfl, hx⟩ := hval.1 v hv
        rw [hv] at hdest
        have := doAddH_abs hm' hpl hne hd0 hx hdest
        exact ⟨_, this.1, this.2⟩
    · rw [if_neg h1, if_neg h1]
      by_cases h2 : o.op = "remove"
      · rw [if_pos h2, if_pos h2]
        have := doRemoveH_abs hm' hpl hne hd0 hdest0
        exact ⟨_, this.1, this.2⟩
      · rw [if_neg h2, if_neg h2]
        by_cases h3 : o.op = "replace"
        · rw [if_pos h3, if_pos h3]
          cases hv : o.value with
          | none =>
            rw [hval.2 hv]
            exact ⟨h.size, hd0, rfl⟩
          | some v =>
            obtain ⟨x, rfl, hx⟩ := hval.1 v hv
            rw [hv] at hdest
            have := doReplaceH_abs hm' hpl hne hd0 hx hdest
            exact ⟨_, this.1, this.2⟩
        · rw [if_neg h3, if_neg h3]
          by_cases h4 : o.op = "move"
          · rw [if_pos h4, if_pos h4]
            cases hf : o.frm with
            | none => exact ⟨h.size, hd0, rfl⟩
            | some f =>
              obtain ⟨m1, m2⟩ := hmove h4 f path hf hp
              exact moveH_abs hm (hfrm f hf) hpl hne hd0 m1 m2
          · rw [if_neg h4, if_neg h4]
            by_cases h5 : o.op = "copy"
            · rw [if_pos h5, if_pos h5]
              cases hf : o.frm with
              | none => exact ⟨h.size, hd0, rfl⟩
              | some f => exact copyH_abs hm hcl hroot (hfrm f hf) hpl hne hd hdest0
            · rw [if_neg h5, if_neg h5]
              by_cases h6 : o.op = "test"
              · rw [if_pos h6, if_pos h6]
                cases hv : o.value with
                | none =>
                  rw [hval.2 hv]
                  exact ⟨h.size, hd0, rfl⟩
                | some v =>
                  obtain ⟨x, rfl, hx⟩ := hval.1 v hv
                  obtain ⟨t1, t2, t3⟩ := doTestH_abs (path := path) hpl hd hx
                  exact ⟨h.size, by rw [t1, t3]; exact hd0, t2⟩
              · rw [if_neg h6, if_neg h6]
                exact ⟨h.size, hd0, rfl⟩

/-- non-vacuity: on `pHeap` (a tree as far as containers and lists go) the hypotheses hold for
    `add /b/y <leaf #1>`, and both sides give the same document -/
theorem nonvacuous_heap_patch_abs :
    (patchDoH ⟨"add", none, some ["b", "y"], some 1⟩ pHeap 4).2 = .ok () ∧
    abs (patchDoH ⟨"add", none, some ["b", "y"], some 1⟩ pHeap 4).1 4 =
      some (patchDo ⟨"add", none, some ["b", "y"], some (.leaf ⟨"int", "1"⟩)⟩
        (.cont [("a", .list [.leaf ⟨"int", "1"⟩, .leaf Scalar.null]), ("b", .cont [("x", .leaf ⟨"int", "1"⟩)])])).1 ∧
    abs pHeap 4 = some (.cont [("a", .list [.leaf ⟨"int", "1"⟩, .leaf Scalar.null]),
      ("b", .cont [("x", .leaf ⟨"int", "1"⟩)])]) := by decide +kernel

/-- a set of addresses that is closed under the child edge confines reachability (decidable check
    for concrete heaps) -/
theorem not_reach_of_closed {h : Heap} (S : List Addr)
    (hS : (S.all fun a => match h.get? a with
      | some c => c.kids.all (fun k => S.contains k)
      | none => true) = true)
    {x par : Addr} (hx : x ∈ S) (hp : par ∉ S) : ¬ Reach h x par := by
  intro hr
  refine hp (Reach.closed_set (fun a => a ∈ S) ?_ hr hx)
  intro a c ha hg k hk
  have h1 := List.all_eq_true.mp hS a ha
  simp only [hg] at h1
  have h2 := List.all_eq_true.mp h1 k hk
  simpa using h2

/-- … and the hypotheses of `heap_patch_abs` hold there: `Dest` for the parent /b of the
    location /b/y and the value node #1 -/
theorem nonvacuous_heap_patch_abs_hyps :
    pHeap.MapsOk ∧ pHeap.Closed ∧ Plain ["b", "y"] ∧ Dest pHeap 4 (parent ["b", "y"]) [1] := by
  refine ⟨mapsOk_of_all (by decide +kernel), closed_of_all (by decide +kernel), ?_, ?_⟩
  · intro t ht
    simp only [List.mem_cons, List.mem_nil_iff, or_false] at ht
    rcases ht with rfl | rfl <;> decide +kernel
  · intro par he
    have hpar : par = 3 := by
      have : evalH pHeap 4 (parent ["b", "y"]) = some 3 := by decide +kernel
      rw [this] at he; exact (Option.some.inj he).symm
    subst hpar
    have hleaf : ¬ Reach pHeap 1 3 := not_reach_of_closed [1] (by decide +kernel) (by decide) (by decide)
    refine ⟨?_, ?_, ?_⟩
    · show SolePath pHeap 4 ["b"] 3
      refine ⟨by decide, 3, by decide +kernel, rfl, ?_⟩
      show ∀ p ∈ [("a", 2), ("b", 3)], p.1 ≠ "b" → ¬ Reach pHeap p.2 3
      intro p hp hne
      simp only [List.mem_cons, List.mem_nil_iff, or_false] at hp
      rcases hp with rfl | rfl
      · exact not_reach_of_closed [2, 1, 0] (by decide +kernel) (by decide) (by decide)
      · exact absurd rfl hne
    · intro c hg k hk
      have : c = .cont [("x", 1)] := by
        have h3 : pHeap.get? 3 = some (.cont [("x", 1)]) := by decide +kernel
        rw [h3] at hg; exact (Option.some.inj hg).symm
      subst this
      simp only [Cell.kids, List.map_cons, List.map_nil, List.mem_singleton] at hk
      subst hk
      exact hleaf
    · intro v hv
      cases List.mem_singleton.mp hv
      exact hleaf

end refine

end Ytk.C09

/-! ## gap7a: the reference is the RFC — the remaining failure conditions and the derived operations -/
namespace Ytk.C09
open Ytk.Ptr Ytk.Patch

/-- 4.2 / 4.3 "the target location MUST exist": remove and replace of a location that does not resolve
    fail — for every document, whatever the reason (missing member, index out of range, missing parent,
    scalar in the way). -/
theorem rfc_missing_target_fails (d : Node) (p : Path) (v : Node) (hp : p ≠ []) (htok : ∀ t ∈ p, tokOk t = true)
    (h : getTok d p = none) :
    rfc6902 { op := "remove", frm := none, path := some p, value := none } d = none ∧
    rfc6902 { op := "replace", frm := none, path := some p, value := some v } d = none ∧
    rfc6902 { op := "test", frm := none, path := some p, value := some v } d = none ∧
    rfc6902 { op := "move", frm := some p, path := some p, value := none } d = none ∧
    rfc6902 { op := "copy", frm := some p, path := some p, value := none } d = none := by
  refine ⟨by simpa [rfc6902] using rRemove_missing hp htok h, by simpa [rfc6902] using rReplace_missing v hp htok h,
    by simp [rfc6902, h], by simp [rfc6902, h], by simp [rfc6902, h]⟩

/-- 4.1 "the object containing the target MUST exist": add below a parent that does not resolve fails. -/
theorem rfc_add_missing_parent_fails (d : Node) (p : Path) (v : Node) (hp : p ≠ []) (htok : ∀ t ∈ p, tokOk t = true)
    (h : getTok d (parent p) = none) :
    rfc6902 { op := "add", frm := none, path := some p, value := some v } d = none := by
  simpa [rfc6902] using rAdd_missing_parent v hp htok h

/-- 4.3: replace of an existing location succeeds and the location then holds the new value. -/
theorem rfc_replace_then_get (d n v : Node) (p : Path) (hp : p ≠ []) (htok : ∀ t ∈ p, tokOk t = true)
    (h : getTok d p = some n) :
    ∃ d', rfc6902 { op := "replace", frm := none, path := some p, value := some v } d = some d' ∧
      getTok d' p = some v := by
  obtain ⟨d', h1, h2⟩ := rReplace_present v hp htok h
  exact ⟨d', by simpa [rfc6902] using h1, h2⟩

/-- 4.2 on an object member: after a successful remove the location no longer resolves. -/
theorem rfc_remove_member_gone (d d' : Node) (p : Path) (kvs : AMap Node) (hd : d.Valid) (hp : p ≠ [])
    (htok : ∀ t ∈ p, tokOk t = true) (hpar : getTok d (parent p) = some (.cont kvs))
    (h : rfc6902 { op := "remove", frm := none, path := some p, value := none } d = some d') :
    getTok d' p = none :=
  rRemove_member_gone hd.1 hp htok hpar (by simpa [rfc6902] using h)

/-- 4.5: copy is "identical to an add at the target location using the value at from". -/
theorem rfc_copy_is_add (d : Node) (f p : Path) (v : Option Node) :
    rfc6902 { op := "copy", frm := some f, path := some p, value := v } d =
      match getTok d f with
      | some n => rfc6902 { op := "add", frm := none, path := some p, value := some n } d
      | none => none := by
  simp only [rfc6902]
  cases getTok d f <;> simp

/-- 4.4: move is "identical to a remove on from, followed immediately by an add at the target location
    with the value that was just removed" (when from is not a proper prefix of path). -/
theorem rfc_move_is_remove_then_add (d n : Node) (f p : Path) (v : Option Node) (hn : getTok d f = some n)
    (hpre : isProperPrefix f p = false) :
    rfc6902 { op := "move", frm := some f, path := some p, value := v } d =
      match rfc6902 { op := "remove", frm := none, path := some f, value := none } d with
      | some d1 => rfc6902 { op := "add", frm := none, path := some p, value := some n } d1
      | none => none := by
  simp only [rfc6902, hn, hpre]
  cases rRemove d f <;> simp

/-- non-vacuity on `exDoc`: a missing member, an index out of range, a location below a scalar -/
theorem nonvacuous_missing_target :
    getTok exDoc ["b", "z"] = none ∧ getTok exDoc ["a", "2"] = none ∧ getTok exDoc ["c", "k"] = none ∧
    getTok exDoc (parent ["q", "r"]) = none ∧ getTok exDoc ["b", "x"] = some (l "1") ∧
    (["b", "z", "a", "2", "c", "k", "q", "r", "x"].all tokOk) = true := by
  decide +kernel

end Ytk.C09

/-! ## gap7a: diff.Diff → xform.DiffMod2PatchOp → patch.Do, end to end (C07 / C08 × C09)

  `diffPatch L R` (YtkModel/GapDiffPatch.lean) converts every modification of `Diff(L, R)` with the
  model's `Xform.mod2op` and `PointerFromPropPathString`; `applyDiffPatch L R` runs the operations on R
  with successive `patch.Do` calls.  The tempting end-to-end statement "applying to R the RFC 6902
  patch obtained from Diff(L, R) yields a document whose flatten equals flatten L" (the analogue of
  C08's `apply_diff_flatten`) is FALSE, already on C08's domain: `diff.Apply` CREATES missing parents
  (and re-creates a list it has just deleted), RFC 6902 `add` REQUIRES the parent to exist. -/
namespace Ytk.C09
open Ytk.Patch

/-- (a) an added subtree two levels deep: Diff reports one Add per LEAF (`a.b`), the converted
    operation is `add /a/b`, whose parent `/a` does not exist in R — the patch fails and R stays as it
    was, while `diff.Apply` reconstructs L.  (b) a replaced list: Diff reports `Delete l` followed by
    `Add l[0]`; the converted patch removes `/l` and then fails to add `/l/0` below the member it has
    just removed — R ends up WITHOUT the list (a half-applied patch), while `diff.Apply` reconstructs L.
    Both pairs are in the domain of C08's reconstruction theorem. -/
theorem diff2patch_not_applicable_counterexample :
    (diff [("a", .cont [("b", l "1")])] [] = [Mod.mkAdd "a.b" ⟨"int", "1"⟩] ∧
     flatten (Ytk.apply [] (diff [("a", .cont [("b", l "1")])] [])) = flatten [("a", .cont [("b", l "1")])] ∧
     applyDiffPatch [("a", .cont [("b", l "1")])] [] = (.cont [], [.err])) ∧
    (diff [("l", .list [l "1"])] [("l", .list [l "2"])] = [Mod.mkDel "l", Mod.mkAdd "l[0]" ⟨"int", "1"⟩] ∧
     flatten (Ytk.apply [("l", .list [l "2"])] (diff [("l", .list [l "1"])] [("l", .list [l "2"])])) =
       flatten [("l", .list [l "1"])] ∧
     applyDiffPatch [("l", .list [l "1"])] [("l", .list [l "2"])] = (.cont [], [.ok (), .err])) := by
  decide +kernel

/-- where it does work: members added at an existing parent and deleted members — every converted
    operation succeeds and the patched R IS L.  (A differing scalar is reported as a Change whose `Value`
    is the RIGHT document's scalar — `diff_table_rule` of C07 —, so the converted `replace` writes R's own
    value back: it succeeds and changes nothing; such pairs are outside C08's `Compat` domain.) -/
theorem nonvacuous_diff2patch :
    applyDiffPatch [("a", l "1"), ("b", .cont [("c", l "2")])] [("b", .cont [("c", l "2")]), ("z", l "0")] =
      (.cont [("a", l "1"), ("b", .cont [("c", l "2")])], [.ok (), .ok ()]) ∧
    (diffPatch [("a", l "1"), ("b", .cont [("c", l "2")])] [("b", .cont [("c", l "3")]), ("z", l "0")]).map
      (fun o => (o.op, o.path, o.value)) =
        [("add", some ["a"], some (l "1")), ("replace", some ["b", "c"], some (l "3")), ("remove", some ["z"], none)] ∧
    applyDiffPatch [("a", l "1"), ("b", .cont [("c", l "2")])] [("b", .cont [("c", l "3")]), ("z", l "0")] =
      (.cont [("a", l "1"), ("b", .cont [("c", l "3")])], [.ok (), .ok (), .ok ()]) := by
  decide +kernel

end Ytk.C09
