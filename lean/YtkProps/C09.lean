/-
  C09 — JSON Patch operations conform to RFC 6902 and fail cleanly.

  `patchDo` (YtkModel/Patch.lean) mirrors patch.Do / doAdd / doRemove / doReplace / moveOrCopy /
  doTest / insertListItem / removeListItem statement by statement; it returns the document
  *and* an outcome (`ok | err | panic`), so a half-applied operation and a panic are
  representable.  `rfc6902` is the reference written from the RFC text.  Both are what the
  driver executes.

  Domain (`OpOk`, `Node.Valid`): documents with sorted unique keys none of which ends in an index
  group (the API invariant, D26); operation objects whose `path` / `from`, where present, are
  non-root and consist of in-scope tokens (`safeTok`: non-empty over `[A-Za-z0-9_-]`, not "-",
  numerals canonical or negative); values are valid nodes.  Missing `path`/`from`/`value` and
  unknown operation names are inside the domain (they must fail).

  Copy independence: the model has value semantics, so "a later edit inside the copy never
  shows at the source" holds in it by construction; on the implementation it is established by
  the harness (probe edit after every successful copy + step-by-step agreement) — partial by tie.
-/
import YtkModel.Generated.Constants
import YtkProofs.Patch
import YtkProofs.Decisions

namespace Ytk.C09
open Ytk.Ptr Ytk.Patch

/-! ## decision tables regenerated from the source (extract/tables.go) -/
section DecisionTables
open Ytk.TableT

/-- the leading guards the source gives a handler function (regenerated `patchRequires`) -/
def guardsOfG (handler : String) : List Guard := (Generated.patchRequires.lookup handler).getD []

/-- (i) The `switch obj.Op` of patch.Do as regenerated from patch/patch.go IS the dispatch table of the
    model: same operation names, same handler for each, error when no case matches; and `patchDo`
    equals the function that looks the operation up in that table and runs the handler. -/
theorem patch_dispatch_table_matches_model :
    pairs Generated.patchDispatch = Patch.dispatchTable.map (fun p => (p.1, p.2.goName)) ∧
    Generated.patchDispatchDefault = "error" ∧
    (∀ o root, patchDo o root =
      match o.path with
      | none => (root, .err)
      | some path =>
        match Patch.dispatchTable.lookup o.op with
        | some h => h.run o path root
        | none => (root, .err)) :=
  ⟨by decide +kernel, by decide +kernel, patchDo_eq_table⟩

/-- (i) The validation of the operation object, regenerated: the guards before the dispatch (object,
    path, target — in this order) and the leading `value` / `from` guards of every handler are the ones
    the model has; and the model's handlers do fail, leaving the document alone, exactly there. -/
theorem patch_requires_table_matches_model :
    Generated.patchPreChecks = Patch.preChecks ∧
    Generated.patchRequires = Handler.all.map (fun h => (h.goName, h.guards)) ∧
    (∀ o root, o.path = none → patchDo o root = (root, .err)) ∧
    (∀ (h : Handler) o p r, h.needsValue = true → o.value = none → h.run o p r = (r, .err)) ∧
    (∀ (h : Handler) o p r, h.needsFrom = true → o.frm = none → h.run o p r = (r, .err)) :=
  ⟨by decide +kernel, by decide +kernel, patchDo_missing_path, run_missing_value, run_missing_from⟩

/-- (ii) RFC 6902 on the regenerated tables: exactly the six operations of section 4 are dispatched,
    each to its own handler; `add`, `replace`, `test` — and only they — start by requiring `value`;
    `move`, `copy` — and only they — start by requiring `from`; the path is required before anything is
    dispatched; an unknown operation is an error; every guard returns one of the package's (non-nil)
    error variables. -/
theorem patch_table_rule :
    keys Generated.patchDispatch = ["add", "copy", "move", "remove", "replace", "test"] ∧
    (∀ r ∈ Generated.patchDispatch,
      (⟨"arg0.Value", "ErrOoValueMissing"⟩ ∈ guardsOfG r.target ↔ r.key ∈ ["add", "replace", "test"]) ∧
      (⟨"arg0.From", "ErrOoFromMissing"⟩ ∈ guardsOfG r.target ↔ r.key ∈ ["move", "copy"])) ∧
    ⟨"arg0.Path", "ErrOoPathMissing"⟩ ∈ Generated.patchPreChecks ∧
    Generated.patchDispatchDefault = "error" ∧
    (∀ g ∈ Generated.patchPreChecks ++ (Generated.patchRequires.map (·.2)).flatten,
      g.result ∈ Generated.patchErrors.map (·.1)) ∧
    (∀ r ∈ Generated.patchDispatch, Generated.const? ("patch." ++ r.const) = some r.key) := by
  decide +kernel

/-- (iii) the tables are not empty and their keys are distinct: six cases, six different handlers, one
    guard list per handler -/
theorem nonvacuous_patch_tables :
    Generated.patchDispatch.length = 6 ∧ (keys Generated.patchDispatch).Nodup ∧
    (Generated.patchDispatch.map (·.target)).Nodup ∧
    Generated.patchRequires.map (·.1) = Generated.patchDispatch.map (·.target) ∧
    (Generated.patchErrors.map (·.1)).Nodup ∧ Generated.patchPreChecks.length = 3 := by
  decide +kernel

end DecisionTables

/-- Success/failure agree with the RFC, the resulting document is the RFC's, and on failure
    the document is exactly the old one. -/
theorem patch_refines (o : OpObj) (d : Node) (ho : OpOk o) (hd : d.Valid) :
    patchDo o d = match rfc6902 o d with
      | some d' => (d', .ok ())
      | none => (d, .err) := by
  rw [patchDo_refines ho hd]; cases rfc6902 o d <;> rfl

/-- No operation panics. -/
theorem patch_no_panic (o : OpObj) (d : Node) (ho : OpOk o) (hd : d.Valid) : (patchDo o d).2 ≠ .panic := by
  rw [patch_refines o d ho hd]; cases rfc6902 o d <;> simp

/-- When an error is returned the document is left exactly as it was. -/
theorem patch_error_unchanged (o : OpObj) (d : Node) (ho : OpOk o) (hd : d.Valid)
    (he : (patchDo o d).2 = .err) : (patchDo o d).1 = d := by
  rw [patch_refines o d ho hd] at he ⊢
  cases h : rfc6902 o d with
  | none => rfl
  | some d' => rw [h] at he; cases he

/-- An error is returned exactly when the RFC requires failure. -/
theorem patch_error_iff (o : OpObj) (d : Node) (ho : OpOk o) (hd : d.Valid) :
    (patchDo o d).2 = .err ↔ rfc6902 o d = none := by
  rw [patch_refines o d ho hd]; cases rfc6902 o d <;> simp

/-- The domain is closed under steps: the document after any step is valid again. -/
theorem patch_preserves_valid (o : OpObj) (d : Node) (ho : OpOk o) (hd : d.Valid) : (patchDo o d).1.Valid := by
  rw [patch_refines o d ho hd]
  cases h : rfc6902 o d with
  | none => exact hd
  | some d' => exact rfc6902_valid ho hd h

/-- All sequences of operations applied to one document: implementation model and reference
    agree step by step (outcomes) and on the resulting document — by induction over the
    sequence, no bound on its length. -/
theorem patch_seq (ops : List OpObj) (d : Node) (hd : d.Valid) (hops : ∀ o ∈ ops, OpOk o) :
    runPatch ops d = runRfc ops d :=
  runPatch_eq_runRfc ops d hd hops

/-- … in particular after every prefix of the sequence the two documents are the same
    ("step by step"). -/
theorem patch_seq_prefix (ops : List OpObj) (k : Nat) (d : Node) (hd : d.Valid) (hops : ∀ o ∈ ops, OpOk o) :
    (runPatch (ops.take k) d).1 = (runRfc (ops.take k) d).1 := by
  rw [patch_seq (ops.take k) d hd (fun o ho => hops o (List.mem_of_mem_take ho))]

/-! ## the reference is the RFC (sanity theorems about `rfc6902` itself) -/

/-- 4.4: a location cannot be moved into one of its children — for every document. -/
theorem rfc_move_into_descendant_fails (d : Node) (f r : Path) (hr : r ≠ []) (v : Option Node) :
    rfc6902 { op := "move", frm := some f, path := some (f ++ r), value := v } d = none := by
  have : isProperPrefix f (f ++ r) = true := (isProperPrefix_iff f (f ++ r)).mpr ⟨r, hr, rfl⟩
  simp only [rfc6902]
  cases getTok d f <;> simp [this]

/-- 4.1: adding at an array index inserts there; elements at or above the index shift right;
    the index may equal the length (append) but not exceed it. -/
theorem rfc_add_insert_shifts (d : Node) (p : Path) (xs : List Node) (i : Nat) (v : Node) (hp : p ≠ [])
    (htok : ∀ t ∈ p, tokOk t = true) (hpar : getTok d (parent p) = some (.list xs))
    (hi : canonIdx (lastSegment p) = some i) :
    (i ≤ xs.length →
      ∃ d' ys, rfc6902 { op := "add", frm := none, path := some p, value := some v } d = some d' ∧
        getTok d' (parent p) = some (.list ys) ∧ ys.length = xs.length + 1 ∧ ys[i]? = some v ∧
        (∀ j, j < i → ys[j]? = xs[j]?) ∧ (∀ j, i ≤ j → ys[j + 1]? = xs[j]?)) ∧
    (xs.length < i → rfc6902 { op := "add", frm := none, path := some p, value := some v } d = none) := by
  constructor
  · intro hle
    obtain ⟨h1, h2⟩ := rAdd_list v hp htok hpar hi hle
    refine ⟨_, insertAt xs i v, by simpa [rfc6902] using h1, h2, ?_, ?_, ?_, ?_⟩
    · rw [insertAt_eq_insertIdx hle, List.length_insertIdx_of_le_length hle]
    · rw [insertAt_eq_insertIdx hle, List.getElem?_insertIdx_self, if_pos hle]
    · intro j hj; rw [insertAt_eq_insertIdx hle, List.getElem?_insertIdx_of_lt hj]
    · intro j hj; rw [insertAt_eq_insertIdx hle, List.getElem?_insertIdx_of_gt (by omega)]; simp
  · intro hgt
    have : ¬ i ≤ xs.length := by omega
    simp [rfc6902, rAdd, modify_eq _ p d hp htok, hpar, addLast, hi, this]

/-- 4.2: removing an array element shifts the elements above it one position to the left;
    the index must exist. -/
theorem rfc_remove_shifts (d : Node) (p : Path) (xs : List Node) (i : Nat) (hp : p ≠ [])
    (htok : ∀ t ∈ p, tokOk t = true) (hpar : getTok d (parent p) = some (.list xs))
    (hi : canonIdx (lastSegment p) = some i) :
    (i < xs.length →
      ∃ d' ys, rfc6902 { op := "remove", frm := none, path := some p, value := none } d = some d' ∧
        getTok d' (parent p) = some (.list ys) ∧ ys.length + 1 = xs.length ∧
        (∀ j, j < i → ys[j]? = xs[j]?) ∧ (∀ j, i ≤ j → ys[j]? = xs[j + 1]?)) ∧
    (xs.length ≤ i → rfc6902 { op := "remove", frm := none, path := some p, value := none } d = none) := by
  constructor
  · intro hlt
    obtain ⟨h1, h2⟩ := rRemove_list hp htok hpar hi hlt
    refine ⟨_, xs.eraseIdx i, by simpa [rfc6902] using h1, h2, ?_, ?_, ?_⟩
    · rw [List.length_eraseIdx_of_lt hlt]; omega
    · intro j hj; exact List.getElem?_eraseIdx_of_lt hj
    · intro j hj; exact List.getElem?_eraseIdx_of_ge hj
  · intro hge
    have : ¬ i < xs.length := by omega
    simp [rfc6902, rRemove, modify_eq _ p d hp htok, hpar, removeLast, hi, this]

/-- 4.1 / 4.5: after a successful add (hence copy) the added value is what the location holds. -/
theorem rfc_add_then_get (d d' v : Node) (p : Path) (hp : p ≠ []) (htok : ∀ t ∈ p, tokOk t = true)
    (h : rfc6902 { op := "add", frm := none, path := some p, value := some v } d = some d') :
    getTok d' p = some v :=
  getTok_rAdd hp htok (by simpa [rfc6902] using h)

/-- 4.4: removing a value and adding it back at the same location restores the document
    (why `move` with from = path is a successful no-op). -/
theorem rfc_move_same_location (d n : Node) (p : Path) (hd : d.Valid) (hp : safePath p = true)
    (hg : getTok d p = some n) (v : Option Node) :
    rfc6902 { op := "move", frm := some p, path := some p, value := v } d = some d := by
  obtain ⟨d1, h1, h2⟩ := rRemove_rAdd_same hd.1 (safePath_ne_nil hp) (safePath_tokOk hp) hg
  simp [rfc6902, hg, isProperPrefix_irrefl, h1, h2]

/-- 4.6 and the "missing member" failures. -/
theorem rfc_test_iff (d v : Node) (p : Path) :
    rfc6902 { op := "test", frm := none, path := some p, value := some v } d = some d ↔ getTok d p = some v := by
  simp only [rfc6902]
  cases getTok d p with
  | none => simp
  | some n => by_cases h : n = v <;> simp [h]

theorem rfc_missing_member_fails (d : Node) (p f : Path) (v : Node) :
    rfc6902 { op := "add", frm := none, path := some p, value := none } d = none ∧
    rfc6902 { op := "replace", frm := none, path := some p, value := none } d = none ∧
    rfc6902 { op := "test", frm := none, path := some p, value := none } d = none ∧
    rfc6902 { op := "move", frm := none, path := some p, value := none } d = none ∧
    rfc6902 { op := "copy", frm := none, path := some p, value := none } d = none ∧
    rfc6902 { op := "add", frm := some f, path := none, value := some v } d = none := by
  simp [rfc6902]

/-! ## non-vacuity and the historical inputs (D9–D14), decided on the model -/

def l (n : String) : Node := .leaf ⟨"int", n⟩
def mk (op : String) (frm path : Option Path) (value : Option Node) : OpObj :=
  { op := op, frm := frm, path := path, value := value }

def exDoc : Node := .cont [("a", .list [l "1", l "2"]), ("b", .cont [("x", l "1"), ("y", l "2")]), ("c", l "3")]

theorem exDoc_valid : exDoc.Valid := by
  have hleaf : ∀ n, (l n).Valid := fun n => Node.Valid.leaf _
  have hb : (Node.cont [("x", l "1"), ("y", l "2")]).Valid := by
    have h0 : (Node.cont []).Valid := ⟨.cont .nil (by simp), .cont (by simp) (by simp)⟩
    have h1 := valid_insert h0 (hleaf "1") (k := "x") (by decide)
    exact valid_insert h1 (hleaf "2") (k := "y") (by decide)
  have ha : (Node.list [l "1", l "2"]).Valid := valid_list (by simp [hleaf])
  have h0 : (Node.cont []).Valid := ⟨.cont .nil (by simp), .cont (by simp) (by simp)⟩
  have h1 := valid_insert h0 ha (k := "a") (by decide)
  have h2 := valid_insert h1 hb (k := "b") (by decide)
  exact valid_insert h2 (hleaf "3") (k := "c") (by decide)

/-- in-scope operation objects exist, of every kind, succeeding and failing -/
theorem nonvacuous_ops :
    OpOk (mk "add" none (some ["a", "1"]) (some (l "9"))) ∧
    OpOk (mk "move" (some ["a", "0"]) (some ["b", "z"]) none) ∧
    OpOk (mk "remove" none (some ["a", "-1"]) none) ∧
    OpOk (mk "copy" (some ["b"]) (some ["a", "2"]) none) ∧
    OpOk (mk "test" none none none) ∧
    inScope (mk "add" none (some []) (some (l "9"))) = false ∧
    inScope (mk "add" none (some ["a", "01"]) (some (l "9"))) = false ∧
    inScope (mk "add" none (some ["a", "-"]) (some (l "9"))) = false := by
  refine ⟨⟨by decide, ?_⟩, ⟨by decide, ?_⟩, ⟨by decide, ?_⟩, ⟨by decide, ?_⟩, ⟨by decide, ?_⟩, by decide, by decide, by decide⟩
  · intro v hv; cases hv; exact Node.Valid.leaf _
  · intro v hv; cases hv
  · intro v hv; cases hv
  · intro v hv; cases hv
  · intro v hv; cases hv

/-- list insertion shifts; a move inside one list is resolved against the list with the source
    already removed; move into the own child fails and leaves the document alone -/
theorem nonvacuous_steps :
    patchDo (mk "add" none (some ["a", "1"]) (some (l "9"))) exDoc =
      (.cont [("a", .list [l "1", l "9", l "2"]), ("b", .cont [("x", l "1"), ("y", l "2")]), ("c", l "3")], .ok ()) ∧
    patchDo (mk "move" (some ["a", "0"]) (some ["a", "1"]) none) exDoc =
      (.cont [("a", .list [l "2", l "1"]), ("b", .cont [("x", l "1"), ("y", l "2")]), ("c", l "3")], .ok ()) ∧
    patchDo (mk "move" (some ["a", "0"]) (some ["a", "2"]) none) exDoc = (exDoc, .err) ∧
    patchDo (mk "move" (some ["b"]) (some ["b", "x", "k"]) none) exDoc = (exDoc, .err) ∧
    patchDo (mk "copy" (some ["b"]) (some ["b", "x"]) none) exDoc =
      (.cont [("a", .list [l "1", l "2"]),
              ("b", .cont [("x", .cont [("x", l "1"), ("y", l "2")]), ("y", l "2")]), ("c", l "3")], .ok ()) := by
  decide

/-- D9 (replace of a top-level member), D10 (add below a leaf / non-index under a list),
    D11 (index out of range, negative), D12 (move to a missing parent keeps the document),
    D14 (test against a proper subset) — errors or results now, never `panic` -/
theorem nonvacuous_historical :
    patchDo (mk "replace" none (some ["c"]) (some (l "0"))) exDoc =
      (.cont [("a", .list [l "1", l "2"]), ("b", .cont [("x", l "1"), ("y", l "2")]), ("c", l "0")], .ok ()) ∧
    patchDo (mk "add" none (some ["c", "k"]) (some (l "0"))) exDoc = (exDoc, .err) ∧
    patchDo (mk "add" none (some ["a", "x"]) (some (l "0"))) exDoc = (exDoc, .err) ∧
    patchDo (mk "remove" none (some ["a", "x"]) none) exDoc = (exDoc, .err) ∧
    patchDo (mk "add" none (some ["a", "3"]) (some (l "0"))) exDoc = (exDoc, .err) ∧
    patchDo (mk "add" none (some ["a", "-1"]) (some (l "0"))) exDoc = (exDoc, .err) ∧
    patchDo (mk "move" (some ["c"]) (some ["q", "r"]) none) exDoc = (exDoc, .err) ∧
    patchDo (mk "test" none (some ["b"]) (some (.cont [("x", l "1")]))) exDoc = (exDoc, .err) ∧
    patchDo (mk "test" none (some ["b"]) (some (.cont [("x", l "1"), ("y", l "2")]))) exDoc = (exDoc, .ok ()) := by
  decide

/-- Tie to the source text (regenerated on every run): the operation names. -/
theorem source_constants :
    Generated.const? "patch.OpAdd" = some "add" ∧ Generated.const? "patch.OpRemove" = some "remove" ∧
    Generated.const? "patch.OpReplace" = some "replace" ∧ Generated.const? "patch.OpMove" = some "move" ∧
    Generated.const? "patch.OpCopy" = some "copy" ∧ Generated.const? "patch.OpTest" = some "test" := by decide

end Ytk.C09
