/-
  C18 — document sets select by tag, keep insertion order and honour the re-add policy.

  All statements are about `Ytk.DocSet` (lean/YtkModel/DocSet.lean), the definitions the
  driver executes, for an arbitrary document type `δ` and histories of any length.

  * `Spec` is what the property text describes: entries `(name, document, tags)` in
    first-insertion order (`specStep`: a new name is appended with the call's tags; a re-add
    with MustCreate fails and changes nothing, with MergeTags keeps the stored document and
    unions the tags, by default stores the new document with the call's tags).
  * `abs` reads a `State` as a `Spec`;  `Inv` is the representation invariant
    (names duplicate-free and exactly the keys of ctxMap, every context has a document and `*`).
-/
import YtkModel.Generated.Constants
import YtkProofs.DocSetFiles
import YtkProofs.DocSet
import YtkProofs.DecisionsDocSet
import YtkProofs.FuncsDomDocSet
import YtkProofs.FuncsLemmas

namespace Ytk.C18

/-! ## decision tables regenerated from the source (extract/tables2.go) -/
section DecisionTables2
open Ytk.TableT Ytk.DocSet

/-- (i) The re-add decision of documentSet.addContext as regenerated from analytics/document_set.go —
    the lookup and one arm per path through `if exists { if mergeFn != nil … else … } else …`, with the
    statements of each in order — IS the arm table of the model, applyOpts / newContext / defaultOpts
    and the three option constructors are the model's; `addContext` equals the function that picks
    the arm in that table and runs its statements, on ALL inputs; the options do to the context what the
    table says and are applied defaults first. -/
theorem docset_add_table_matches_model :
    Generated.docsetAddLookup = addLookupM ∧
    Generated.docsetAddCases = addArmsNamed ∧
    Generated.docsetApplyOpts = applyOptsStepsM ∧ Generated.docsetNewContext = newContextStepsM ∧
    Generated.docsetDefaultOpts = defaultOpts.map Opt.sig ∧
    Generated.docsetOptions = optionTable ∧
    (∀ (s : State Node) name doc newCtx, addContext s name doc newCtx = addContextT s name doc newCtx) ∧
    (∀ (ctx : Ctx Node),
      (∀ ts, applyOpt ctx (.withTags ts) = { ctx with tags := ctx.tags ++ ts }) ∧
      applyOpt ctx .mergeTags = { ctx with mergeFn := .mergeTags } ∧
      applyOpt ctx .mustCreate = { ctx with mergeFn := .mustCreate }) ∧
    (∀ opts, (applyOpts opts : Ctx Node) = (defaultOpts ++ opts).foldl applyOpt ⟨none, [], .none⟩) ∧
    (∀ (s : State Node) name doc newCtx ex ctor, AMap.get? s.ctxMap name = some ex →
      newCtx.mergeFn.ctor = some ctor →
      addContext s name doc newCtx = reAddBy Generated.docsetOptions s name newCtx ex ctor) := by
  have hopt : Generated.docsetOptions = optionTable := by decide +kernel
  refine ⟨by decide +kernel, by decide +kernel, by decide +kernel, by decide +kernel, by decide +kernel,
    hopt, addContext_eq_table, applyOpt_effects, applyOpts_order, ?_⟩
  intro s name doc newCtx ex ctor hx hc
  rw [hopt]
  exact addContext_reAdd_eq_table s name doc newCtx ex ctor hx hc

/-- the statements of a regenerated option constructor -/
def optionG (ctor : String) : List String := (Generated.docsetOptions.lookup ctor).getD []

/-- (ii) The re-add policy of the property on the regenerated tables.  Existing name with a merge
    function: the function runs on (existing context, new document) and its error is returned BEFORE
    anything is stored — so must-create, whose function only returns ErrLayerAlreadyExists, fails and
    changes nothing; merge-tags unions the tags of the call with the stored ones and keeps the stored
    document (it never reads the new one) unless there is none; the name is not appended again.
    Existing name without a merge function (the default): the newly added document is put into the new
    context — which carries the tags given on that call — and that context replaces the stored one; the
    name is not appended again.  New name: document set, context stored, name appended once.  Every
    context gets the tag `*` first (the value of analytics.wildcardTag), then the caller's options;
    WithTags only appends its tags. -/
theorem docset_table_rule :
    armSteps Generated.docsetAddCases "v1&&arg2.mergeFn!=nil" =
      some ["v2:=arg2.mergeFn(v0,arg1)", "if v2!=nil{return v2}", "recv.ctxMap[arg0]=arg2", "return nil"] ∧
    armSteps Generated.docsetAddCases "v1&&otherwise" =
      some ["arg2.doc=arg1", "recv.ctxMap[arg0]=arg2", "return nil"] ∧
    armSteps Generated.docsetAddCases "otherwise" =
      some ["arg2.doc=arg1", "recv.ctxMap[arg0]=arg2", "recv.names=append(recv.names,arg0)", "return nil"] ∧
    Generated.docsetAddLookup = "v0,v1:=recv.ctxMap[arg0]" ∧
    optionG "MustCreate" = ["own.mergeFn:return ErrLayerAlreadyExists"] ∧
    optionG "MergeTags" = ["own.mergeFn:own.tags=utils.Unique(append(own.tags,other.tags...))",
                           "own.mergeFn:if own.doc==nil{own.doc=other.doc}", "own.mergeFn:return nil"] ∧
    optionG "WithTags" = ["own.tags=append(own.tags,arg0...)"] ∧
    Generated.docsetDefaultOpts = [("WithTags", "*")] ∧
    Generated.const? "analytics.wildcardTag" = some "*" ∧
    Generated.docsetApplyOpts[0]? = some "for _,v0 in defaultOpts{v0(recv,arg0,arg1)}" ∧
    Generated.docsetApplyOpts[1]? = some "for _,v1 in arg2{v1(recv,arg0,arg1)}" ∧
    Generated.docsetNewContext = ["return recv.applyOpts(arg0,&docContext{},arg1...)"] := by
  decide +kernel

/-- (iii) the tables are not empty: three arms with distinct conditions ending in the catch-all, every
    arm ends by returning nil, the three option constructors are there -/
theorem nonvacuous_docset_tables :
    Generated.docsetAddCases.length = 3 ∧ (conds Generated.docsetAddCases).Nodup ∧
    Generated.docsetAddCases.getLast?.map (·.cond) = some "otherwise" ∧
    (∀ a ∈ Generated.docsetAddCases, a.steps.getLast? = some "return nil") ∧
    Generated.docsetOptions.map (·.1) = ["MergeTags", "MustCreate", "WithTags"] ∧
    (∀ o ∈ Generated.docsetOptions, o.2 ≠ []) := by
  decide +kernel

end DecisionTables2

open Ytk.DocSet
variable {δ : Type}

/-- every reachable state satisfies the invariant -/
theorem inv_run (ops : List (Op δ)) : Inv (run (init : State δ) ops) :=
  inv_run_from inv_init ops

/-- one step of the implementation is one step of the specification, error flag included -/
theorem refines (s : State δ) (hs : Inv s) (op : Op δ) :
    abs (step s op).1 = (specStep (abs s) op).1 ∧ (step s op).2 = (specStep (abs s) op).2 := by
  cases op with
  | add n d o =>
    have h := addDocument_refines hs n d o
    simp only at h
    simp only [step, specStep, abs]
    exact ⟨by rw [h.1, h.2.1]; rfl, h.2.2⟩
  | addUnnamed d o =>
    have hs' : Inv ({ s with unnamed := s.unnamed + 1 } : State δ) := ⟨hs.nodup, hs.mem_iff, hs.good⟩
    have h := addDocument_refines hs' (unnamedName (s.unnamed + 1)) d o
    simp only at h
    simp only [step, addUnnamed, specStep, abs]
    exact ⟨by rw [h.1, h.2.1]; rfl, h.2.2⟩
  | addFromReader n d o =>
    cases d with
    | none => exact ⟨rfl, rfl⟩
    | some d =>
      have h := addDocument_refines hs n d o
      simp only at h
      simp only [step, addFromReader, specStep, abs]
      exact ⟨by rw [h.1, h.2.1]; rfl, h.2.2⟩

/-- whole histories: the abstraction of the reached state is the specification's run -/
theorem refines_run (ops : List (Op δ)) :
    abs (run (init : State δ) ops) = ops.foldl (fun sp op => (specStep sp op).1) (abs (init : State δ)) := by
  suffices ∀ (s : State δ), Inv s →
      abs (run s ops) = ops.foldl (fun sp op => (specStep sp op).1) (abs s) from this _ inv_init
  induction ops with
  | nil => intro s _; rfl
  | cons op rest ih =>
    intro s hs
    simp only [run, List.foldl_cons] at ih ⊢
    rw [ih _ (inv_step hs op), (refines s hs op).1]

/-- an add that returns an error (MustCreate on an existing name, reader/decoder failure)
    leaves every registered name, document and tag set as it was -/
theorem mustCreate_noop_on_error (s : State δ) (hs : Inv s) (op : Op δ) (herr : (step s op).2 = true) :
    (abs (step s op).1).entries = (abs s).entries := by
  have h := refines s hs op
  rw [h.1]
  rw [h.2] at herr
  cases op with
  | add n d o =>
    simp only [specStep, specAdd] at herr ⊢
    split at herr
    · cases herr
    · split at herr <;> first | rfl | cases herr
  | addUnnamed d o =>
    simp only [specStep, specAdd] at herr ⊢
    split at herr
    · cases herr
    · split at herr <;> first | rfl | cases herr
  | addFromReader n d o =>
    cases d with
    | none => rfl
    | some d =>
      simp only [specStep, specAdd] at herr ⊢
      split at herr
      · cases herr
      · split at herr <;> first | rfl | cases herr

/-- …and for a named add the whole state is untouched -/
theorem mustCreate_state_unchanged (s : State δ) (n : String) (d : δ) (o : List Opt)
    (herr : (step s (.add n d o)).2 = true) : (step s (.add n d o)).1 = s := by
  simp only [step, addDocument, addContext] at herr ⊢
  split at herr
  · split at herr <;> first | rfl | cases herr
  · cases herr

/-- the specification's error condition: MustCreate on a name that is present, or bad input -/
theorem spec_error_iff (sp : Spec δ) (n : String) (d : δ) (o : List Opt) :
    (specStep sp (.add n d o)).2 = true ↔ ((specFind sp.entries n).isSome ∧ policy o = .mustCreate) := by
  simp only [specStep, specAdd]
  cases specFind sp.entries n with
  | none => simp
  | some e => cases policy o <;> simp

/-- TaggedSubset(ts): no panic; the layers are exactly the entries carrying one of the tags, in
    first-insertion order, each with the document registered under its name -/
theorem tagged_layers (s : State δ) (hs : Inv s) (ts : List String) :
    taggedSubset ts s =
      .ok (((abs s).entries.filter (fun e => containsAnyOf e.2.2 ts)).map (fun e => (e.1, e.2.1))) :=
  filteredAux_spec _ _ _ (inv_entryOf hs)

/-- layer names of a tagged subset = [n in first-insertion order | tags(n) ∩ ts ≠ ∅] -/
theorem tagged_names (s : State δ) (hs : Inv s) (ts : List String) :
    ∃ ov, taggedSubset ts s = .ok ov ∧
      layerNames ov = ((abs s).entries.filter (fun e => containsAnyOf e.2.2 ts)).map (·.1) := by
  refine ⟨_, tagged_layers s hs ts, ?_⟩
  simp only [layerNames, List.map_map]
  apply unique_of_nodup
  have hn : ((abs s).entries.map (·.1)).Nodup := by
    rw [show (abs s).entries = absEntries s.ctxMap s.names from rfl, names_absEntries hs]; exact hs.nodup
  exact (List.Sublist.map _ List.filter_sublist).nodup hn

/-- membership in a tagged subset is "carries at least one of the requested tags" -/
theorem containsAnyOf_iff (tags ts : List String) : containsAnyOf tags ts = true ↔ ∃ t, t ∈ tags ∧ t ∈ ts := by
  simp [containsAnyOf]

/-- AsOne() == TaggedSubset("*") -/
theorem asOne_eq_star (s : State δ) (hs : Inv s) : asOne s = taggedSubset [wildcardTag] s := by
  rw [tagged_layers s hs, asOne, filtered, filteredAux_spec _ _ _ (inv_entryOf hs)]
  congr 2
  apply List.filter_congr
  intro e he
  have := star_mem_absEntries hs e he
  simp [containsAnyOf, this]

/-- the full view holds every registered document, in first-insertion order -/
theorem asOne_all (s : State δ) (hs : Inv s) :
    asOne s = .ok ((abs s).entries.map (fun e => (e.1, e.2.1))) := by
  rw [asOne, filtered, filteredAux_spec _ _ _ (inv_entryOf hs)]
  congr 2
  exact List.filter_eq_self.mpr (fun _ _ => rfl)

/-- each layer's content is the document registered under that name -/
theorem layer_content (s : State δ) (hs : Inv s) (ts : List String) (ov : Overlay δ)
    (h : taggedSubset ts s = .ok ov) (n : String) (d : δ) (hm : (n, d) ∈ ov) :
    namedDocument s n = some d := by
  rw [tagged_layers s hs ts] at h
  cases h
  obtain ⟨e, he, heq⟩ := List.mem_map.mp hm
  cases heq
  have he' := (List.mem_filter.mp he).1
  change e ∈ absEntries s.ctxMap s.names at he'
  rw [absEntries_eq] at he'
  obtain ⟨n', _, hne⟩ := List.mem_filterMap.mp he'
  unfold entryOf at hne
  unfold namedDocument
  split at hne
  · rename_i c hc
    split at hne
    · rename_i d' hd'
      cases hne
      simp [hc, hd']
    · cases hne
  · cases hne

/-- for `δ = Node`: the layer an overlay document builds from a constructible document (sorted
    unique keys, none ending in an index group) is that document — `overlayLayer` is what the
    driver applies to every served layer -/
theorem layer_copy_exact (n : Node) (h : n.Valid) : overlayLayer n = n := overlayLayer_id h

/-- NamedDocument(n) == spec[n] or nil -/
theorem named_spec (s : State δ) (hs : Inv s) (n : String) :
    namedDocument s n = (specFind (abs s).entries n).map (·.2.1) := by
  unfold namedDocument
  cases hg : AMap.get? s.ctxMap n with
  | none =>
    have : n ∉ s.names := fun hm => by have := (hs.mem_iff n).mp hm; simp [hg] at this
    simp [abs, specFind_absEntries_notin _ _ _ this]
  | some c =>
    have hm : n ∈ s.names := (hs.mem_iff n).mpr (by simp [hg])
    obtain ⟨d, hd⟩ := Option.isSome_iff_exists.mp (hs.good n c hg).1
    have : entryOf s.ctxMap n = some (n, d, c.tags) := by simp [entryOf, hg, hd]
    simp [abs, specFind_absEntries_mem _ _ _ hm _ this, hd]

/-- unnamed documents receive pairwise distinct generated names, over any history -/
theorem unnamed_distinct (ops : List (Op δ)) : (genNames (init : State δ) ops).Nodup :=
  genNames_nodup _ ops

/-- no query panics in any reachable state (this is D24: before the fix `asOne` was `.panic`
    after a default re-add) -/
theorem query_no_panic (ops : List (Op δ)) (ts : List String) :
    taggedSubset ts (run (init : State δ) ops) ≠ .panic ∧ asOne (run (init : State δ) ops) ≠ .panic := by
  have hs := inv_run (δ := δ) ops
  rw [tagged_layers _ hs, asOne_all _ hs]
  exact ⟨by simp, by simp⟩

/-! ### the three re-add policies, read off the specification -/

theorem readd_default (es : List (Entry δ)) (n : String) (d : δ) (o : List Opt) (old : Entry δ)
    (h : specFind es n = some old) (hp : policy o = .none) :
    specAdd es n d o = (specReplace es n (n, d, callTags o), false) := by
  simp [specAdd, h, hp]

theorem readd_mergeTags (es : List (Entry δ)) (n : String) (d : δ) (o : List Opt) (old : Entry δ)
    (h : specFind es n = some old) (hp : policy o = .mergeTags) :
    specAdd es n d o = (specReplace es n (n, old.2.1, unique (callTags o ++ old.2.2)), false) := by
  simp [specAdd, h, hp]

theorem readd_mustCreate (es : List (Entry δ)) (n : String) (d : δ) (o : List Opt) (old : Entry δ)
    (h : specFind es n = some old) (hp : policy o = .mustCreate) :
    specAdd es n d o = (es, true) := by
  simp [specAdd, h, hp]

/-- merged tags are the union -/
theorem mergeTags_union (a b : List String) (t : String) : t ∈ unique (a ++ b) ↔ t ∈ a ∨ t ∈ b := by
  simp [mem_unique]

/-! ### non-vacuity -/

def exOps : List (Op Nat) :=
  [.add "a" 1 [.withTags ["t1"]], .add "b" 2 [.withTags ["t1"]], .add "a" 3 [.withTags ["t2"]],
   .add "a" 4 [.withTags ["t3"], .mergeTags], .add "b" 5 [.mustCreate], .addUnnamed 6 [], .addUnnamed 7 [],
   .addFromReader "c" none []]

/-- D24's history and more: the default re-add serves the new document with the call's tags,
    MergeTags keeps it and adds `t3`, MustCreate fails, unnamed adds get default__1/2. -/
theorem nonvacuous_history :
    asOne (run init exOps) = .ok [("a", 3), ("b", 2), ("default__1", 6), ("default__2", 7)] ∧
    taggedSubset ["t1"] (run init exOps) = .ok [("b", 2)] ∧
    taggedSubset ["t2", "t3"] (run init exOps) = .ok [("a", 3)] ∧
    namedDocument (run init exOps) "a" = some 3 ∧ namedDocument (run init exOps) "zz" = none ∧
    (step (run init (exOps.take 4)) (.add "b" 5 [.mustCreate])).2 = true ∧
    genNames init exOps = ["default__1", "default__2"] := by
  decide

/-- Tie to the source text (regenerated on every run): the implicit tag every document carries. -/
theorem source_constants : Generated.const? "analytics.wildcardTag" = some "*" := by decide

/-! ### round 8 (lean/CLAUSES_B.md, clause C18.9): from the history to the answer, in one statement -/

/-- the specification's run of a history: entries `(name, document, tags)` in first-insertion order -/
def specRun (ops : List (Op δ)) : Spec δ :=
  ops.foldl (fun sp op => (specStep sp op).1) (abs (init : State δ))

/-- For EVERY history of adds (any length, any names / tags / options, re-adds included) and every tag
    list: TaggedSubset does not panic and its layer names are exactly the names of the specification's
    entries carrying one of the tags, in first-insertion order; AsOne serves every entry; NamedDocument is
    the specification's lookup.  (Composition of `inv_run`, `refines_run`, `tagged_names`, `asOne_all`,
    `named_spec`: the per-state theorems above need `Inv s`, which no caller can check.) -/
theorem tagged_names_run (ops : List (Op δ)) (ts : List String) :
    (∃ ov, taggedSubset ts (run (init : State δ) ops) = .ok ov ∧
      layerNames ov = ((specRun ops).entries.filter (fun e => containsAnyOf e.2.2 ts)).map (·.1)) ∧
    asOne (run (init : State δ) ops) = .ok ((specRun ops).entries.map (fun e => (e.1, e.2.1))) ∧
    ∀ n, namedDocument (run (init : State δ) ops) n = (specFind (specRun ops).entries n).map (·.2.1) := by
  have hs := inv_run (δ := δ) ops
  have hr : abs (run (init : State δ) ops) = specRun ops := refines_run ops
  refine ⟨?_, ?_, ?_⟩
  · rw [← hr]; exact tagged_names _ hs ts
  · rw [← hr]; exact asOne_all _ hs
  · intro n; rw [← hr]; exact named_spec _ hs n

/-- on the history of `nonvacuous_history` the specification's run is what the property text says -/
theorem nonvacuous_specRun :
    (specRun exOps).entries.map (fun e => (e.1, e.2.1)) =
      [("a", 3), ("b", 2), ("default__1", 6), ("default__2", 7)] ∧
    ((specRun exOps).entries.filter (fun e => containsAnyOf e.2.2 ["t2", "t3"])).map (·.1) = ["a"] := by
  decide

end Ytk.C18

/-! ## Translated functions (YtkModel/Generated/Funcs.lean, regenerated from the Go source on every
    run): the translation EQUALS the hand-written model, for all inputs. -/
namespace Ytk.C18
open Ytk.Generated

theorem Unique_loop1_eq (xs acc : List String) : Funcs.Unique_loop1 xs acc = DocSet.uniqueAux acc xs := by
  induction xs generalizing acc with
  | nil => simp [Funcs.Unique_loop1, DocSet.uniqueAux]
  | cons x xs ih =>
    simp only [Funcs.Unique_loop1, DocSet.uniqueAux, Go.slicesContains, ih]
    cases acc.contains x <;> simp

/-- utils.Unique, as translated from the source, is the model's `DocSet.unique` (all lists) -/
theorem Unique_generated_eq_model (xs : List String) : Funcs.Unique xs = DocSet.unique xs := by
  simp [Funcs.Unique, DocSet.unique, Unique_loop1_eq]

end Ytk.C18

/-! ## xlate7d: the REGENERATED translation of `containsAnyOf` (the tag test of TaggedSubset) -/
namespace Ytk.C18
open Ytk.Generated

theorem containsAnyOf_generated_eq_model (col cs : List String) :
    FuncsAnalytics.containsAnyOf col cs = DocSet.containsAnyOf col cs :=
  FuncsDomDocSet.containsAnyOf_generated_eq_model col cs

theorem nonvacuous_containsAnyOf_generated :
    FuncsAnalytics.containsAnyOf ["x", "prod"] ["prod", "dev"] = true ∧ FuncsAnalytics.containsAnyOf ["x"] ["prod"] = false := by
  decide +kernel
/-! ## The file walkers of the document set (brief mext7c): AddDocumentFromFile, AddDocumentsFromDirectory,
    AddDocumentsFromManifest over the model of YtkModel/DocSetFiles.lean.  Each found file / manifest item is
    one `DocSet.step` of the model above. -/
end Ytk.C18

namespace Ytk.C18
open Ytk.DocSet Ytk.DocSetFiles

section files
variable {δ : Type}

/-- AddDocumentsFromDirectory when every listed file loads and no add fails: the resulting set is the fold of
    `DocSet.step` over the files IN THE ORDER filepath.Glob RETURNED THEM, each registered under its file name -/
theorem directory_eq_fold (glob : String → Option (List String)) (load : String → Outcome δ) (opts : List Opt)
    (s : State δ) (pattern : String) (docs : List (String × δ))
    (hg : glob pattern = some (docs.map (·.1)))
    (hl : ∀ p ∈ docs, load p.1 = .ok p.2)
    (hs : ∀ (s : State δ) (p : String × δ), p ∈ docs → (step s (.addFromReader p.1 (some p.2) opts)).2 = false) :
    addFromDirectory glob load opts s pattern = (run s (fileOps opts docs), .ok ()) := by
  simp only [addFromDirectory, hg]
  exact addFiles_all_ok load opts docs s hl hs

/-- FIRST FAILURE STOPS: the files before the failing one are in the set (in order), the error (or the panic of
    a nil decoder) is what the call ends with, and nothing after the failing file is looked at — `post` is arbitrary -/
theorem directory_first_failure_stops (load : String → Outcome δ) (opts : List Opt) (s : State δ)
    (pre : List (String × δ)) (f : String) (post : List String)
    (hl : ∀ p ∈ pre, load p.1 = .ok p.2)
    (hs : ∀ (s : State δ) (p : String × δ), p ∈ pre → (step s (.addFromReader p.1 (some p.2) opts)).2 = false) :
    (load f = .err → addFiles load opts s (pre.map (·.1) ++ f :: post) = (run s (fileOps opts pre), .err)) ∧
    (load f = .panic → addFiles load opts s (pre.map (·.1) ++ f :: post) = (run s (fileOps opts pre), .panic)) := by
  have h := addFiles_all_ok load opts pre s hl hs
  constructor <;> intro hf <;> rw [addFiles_append, h] <;> simp [addFiles, addFromFile, hf]

/-- a failing AddDocument (MustCreate on a name that is already there) stops the walk the same way -/
theorem directory_stops_on_failed_add (load : String → Outcome δ) (opts : List Opt) (s : State δ)
    (f : String) (d : δ) (post : List String) (hf : load f = .ok d)
    (he : (step s (.addFromReader f (some d) opts)).2 = true) :
    addFiles load opts s (f :: post) = ((step s (.addFromReader f (some d) opts)).1, .err) := by
  simp only [addFiles, addFromFile, hf]
  rcases hst : step s (.addFromReader f (some d) opts) with ⟨s', b⟩
  rw [hst] at he; simp only at he; subst he; rfl

/-- a bad pattern: the error is returned and the set is untouched -/
theorem directory_bad_pattern (glob : String → Option (List String)) (load : String → Outcome δ) (opts : List Opt)
    (s : State δ) (pattern : String) (hg : glob pattern = none) :
    addFromDirectory glob load opts s pattern = (s, .err) := by
  simp [addFromDirectory, hg]

/-- AddDocumentsFromManifest never returns an error once the manifest itself was loaded: whatever order List()
    yields the items in, an item that does not decode (or whose add fails) is silently skipped -/
theorem manifest_errors_are_dropped (loadManifest : String → Outcome K8s.Manifest) (decode : String → String → Outcome δ)
    (opts : List Opt) (visit : K8s.Manifest → List String) (s : State δ) (manifest : String) (m : K8s.Manifest)
    (hm : loadManifest manifest = .ok m) :
    (addFromManifestIn loadManifest decode opts visit s manifest).2 ≠ .err := by
  simp only [addFromManifestIn, hm]
  exact addItems_never_err decode opts manifest m (visit m) s

/-- an item that does not decode leaves the set as it is and the walk goes on with the next item -/
theorem manifest_skips_undecodable (decode : String → String → Outcome δ) (opts : List Opt) (manifest : String)
    (m : K8s.Manifest) (s : State δ) (item text : String) (rest : List String)
    (hg : K8s.strGet m item = some text) (hd : decode item text = .err) :
    addItems decode opts manifest m s (item :: rest) = addItems decode opts manifest m s rest := by
  simp [addItems, hg, hd]

end files

/-! ### non-vacuity, and what depends on the order -/

def exLoad : String → Outcome Nat
  | "a.yaml" => .ok 1
  | "b.yaml" => .ok 2
  | "c.txt" => .panic
  | "d.yaml" => .ok 4
  | _ => .err

/-- three files, the second broken: the first is in the set, the third was never opened -/
theorem nonvacuous_directory :
    (addFiles exLoad [] (init : State Nat) ["a.yaml", "b.yaml", "d.yaml"]).1.names = ["a.yaml", "b.yaml", "d.yaml"] ∧
    (addFiles exLoad [] (init : State Nat) ["a.yaml", "broken.yaml", "d.yaml"]).1.names = ["a.yaml"] ∧
    (addFiles exLoad [] (init : State Nat) ["a.yaml", "broken.yaml", "d.yaml"]).2 = .err ∧
    (addFiles exLoad [] (init : State Nat) ["a.yaml", "c.txt", "d.yaml"]).2 = .panic ∧
    (addFiles exLoad [.mustCreate] (init : State Nat) ["a.yaml", "a.yaml", "d.yaml"]).2 = .err := by
  decide

def exManifest : K8s.Manifest := { (default : K8s.Manifest) with str := [("x.yaml", "1"), ("y.yaml", "bad"), ("z.yaml", "3")] }
def exDecode : String → String → Outcome Nat := fun _ t => if t = "bad" then .err else .ok t.toList.length

/-- the undecodable item is skipped without an error; the names are `manifest/item` -/
theorem nonvacuous_manifest :
    (addItems exDecode [] "m" exManifest (init : State Nat) ["x.yaml", "y.yaml", "z.yaml"]).1.names = ["m/x.yaml", "m/z.yaml"] ∧
    (addItems exDecode [] "m" exManifest (init : State Nat) ["x.yaml", "y.yaml", "z.yaml"]).2 = .ok () := by
  decide

/-- the insertion order of the set — the layer order of every later view — is the order List() returned the items
    in: Go's map iteration order.  Two visiting orders of the SAME manifest give sets with different layer orders. -/
theorem manifest_layer_order_is_visit_order :
    (addItems exDecode [] "m" exManifest (init : State Nat) ["x.yaml", "z.yaml"]).1.names = ["m/x.yaml", "m/z.yaml"] ∧
    (addItems exDecode [] "m" exManifest (init : State Nat) ["z.yaml", "x.yaml"]).1.names = ["m/z.yaml", "m/x.yaml"] := by
  decide

end Ytk.C18
