/-
  C18 — document sets select by tag, keep insertion order and honour the re-add policy.
-/
import YtkModel.DocSet

namespace Ytk.C18

end Ytk.C18
