/-
  C19 — analytics reports are exact, sorted and independent of iteration order.

  Model: YtkModel/Analytics.lean.  Every theorem holds for ALL parameters: the placeholder
  matcher `mentions`, the key `filter`, the PlaceholderResolver's `hasPh` and the string
  resolver `resolve` (the driver instantiates them with the model of the code's own matchers
  and the C11 resolver), every merged key/value list `merged` and every list of overlay
  documents `docs = src :: refs` (each a list of named layers with their flattened entries).

  Specification-level notions used in the statements (independent of `search`):
    `anyValue p d`        some value in some layer of `d` satisfies `p`
    `mentioned … k`       some value of the source or a reference mentions `k`
    `mentionsOf … k`      the (layer, path) list of the mentioning values, source first
-/
import YtkProofs.Analytics
import YtkProofs.FuncsLemmas
import YtkProofs.GapAnalytics
import YtkProofs.GapAnalyticsResolve
import YtkProofs.GapAnalyticsNofix
import YtkProofs.FuncsDomAnalytics
import YtkProofs.FuncsDomMatcher

namespace Ytk.C19
open Ytk.Analytics

variable (mentions : String → Scalar → Bool) (filter : String → Bool)

/-- the keys the report is about: flattened keys of the merged source passing the filter -/
def keysOf (merged : Flat) : List String := (merged.map (·.1)).filter filter

/-- some value in the source or reference documents mentions `k` as a placeholder -/
def mentioned (docs : List Doc) (k : String) : Bool := docs.any fun d => anyValue (mentions k) d

/-- locations (layer, path) of the values mentioning `k`: documents in the order source,
    references; layers in insertion order; written without `search` -/
def mentionsOf (docs : List Doc) (k : String) : List Coord :=
  docs.flatMap fun d => d.flatMap fun l => (l.flat.filter fun kv => mentions k kv.2).map fun kv => ⟨l.name, kv.1⟩

/-- AllKeys == sorted(Flatten(Merged) keys passing the filter). -/
theorem allKeys_exact_sorted (merged : Flat) (docs : List Doc) :
    let r := dependencyReport mentions filter merged docs
    r.allKeys = sortStrings (keysOf filter merged) ∧ r.allKeys.Pairwise (· ≤ ·) ∧
      r.allKeys.Perm (keysOf filter merged) :=
  ⟨rfl, sortStrings_pairwise _, sortStrings_perm _⟩

/-- OrphanKeys == sorted(AllKeys \ mentioned). -/
theorem orphans_exact (merged : Flat) (docs : List Doc) :
    let r := dependencyReport mentions filter merged docs
    r.orphanKeys = sortStrings ((keysOf filter merged).filter fun k => !mentioned mentions docs k) ∧
      r.orphanKeys.Pairwise (· ≤ ·) := by
  refine ⟨?_, sortStrings_pairwise _⟩
  simp only [dependencyReport, subtract, keysOf]
  congr 1
  apply List.filter_congr
  intro k hk
  congr 1
  rw [Bool.eq_iff_iff, List.contains_iff_mem, mem_used]
  simp only [mentioned, hk, true_and]

/-- Map[k] == the (layer, path) list of the values mentioning k, over source then references,
    for exactly the keys with at least one mention. -/
theorem map_exact (merged : Flat) (docs : List Doc) (k : String) (c : List Coord) :
    (k, c) ∈ (dependencyReport mentions filter merged docs).map ↔
      k ∈ keysOf filter merged ∧ mentioned mentions docs k = true ∧ c = mentionsOf mentions docs k := by
  simp only [dependencyReport, List.mem_filterMap, keysOf]
  constructor
  · rintro ⟨k', hk', hif⟩
    split at hif
    · cases hif
    · rename_i hne
      simp only [Option.some.injEq, Prod.mk.injEq] at hif
      obtain ⟨rfl, rfl⟩ := hif
      refine ⟨hk', ?_, rfl⟩
      rw [hits_isEmpty] at hne
      simpa [mentioned] using hne
  · rintro ⟨hk, hm, rfl⟩
    refine ⟨k, hk, ?_⟩
    have : (hits mentions docs k).isEmpty = false := by
      rw [hits_isEmpty]; simp only [mentioned] at hm; rw [hm]; rfl
    rw [if_neg (by simp [this])]
    rfl

/-- keys(Map) = the mentioned keys, in visiting order (one entry per key occurrence) -/
theorem map_keys (merged : Flat) (docs : List Doc) :
    (dependencyReport mentions filter merged docs).map.map (·.1) =
      (keysOf filter merged).filter fun k => mentioned mentions docs k := by
  simp only [dependencyReport, keysOf, List.map_filterMap]
  generalize (merged.map (·.1)).filter filter = keys
  induction keys with
  | nil => rfl
  | cons k r ih =>
    simp only [List.filterMap_cons, List.filter_cons]
    have h := hits_isEmpty mentions docs k
    cases hm : mentioned mentions docs k with
    | true =>
      simp only [mentioned] at hm
      rw [hm] at h
      simp only [h, Bool.not_true, Bool.false_eq_true, if_false, Option.map_some, ih]
      simp [mentioned, hm]
    | false =>
      simp only [mentioned] at hm
      rw [hm] at h
      simp only [h, Bool.not_false, if_true, Option.map_none, ih]
      simp [mentioned, hm]

/-- AllKeys == OrphanKeys ⊎ keys(Map): a permutation, and the two parts are disjoint. -/
theorem partition (merged : Flat) (docs : List Doc) :
    let r := dependencyReport mentions filter merged docs
    r.allKeys.Perm (r.orphanKeys ++ r.map.map (·.1)) ∧ ∀ k, k ∈ r.orphanKeys → k ∉ r.map.map (·.1) := by
  intro r
  have ho := (orphans_exact mentions filter merged docs).1
  have hm := map_keys mentions filter merged docs
  have ha := (allKeys_exact_sorted mentions filter merged docs).1
  refine ⟨?_, ?_⟩
  · show r.allKeys.Perm (r.orphanKeys ++ r.map.map (·.1))
    rw [ha, ho, hm]
    refine (sortStrings_perm _).trans ?_
    refine List.Perm.trans ?_ ((sortStrings_perm _).symm.append (List.Perm.refl _))
    refine (List.filter_append_perm (fun k => !mentioned mentions docs k) _).symm.trans ?_
    refine List.Perm.append (List.Perm.refl _) ?_
    rw [List.filter_congr (q := fun k => mentioned mentions docs k) (by intro x _; simp)]
  · intro k hk hk'
    rw [ho, mem_sortStrings, List.mem_filter] at hk
    rw [hm, List.mem_filter] at hk'
    rw [hk'.2] at hk
    exact absurd hk.2 (by simp)

/-- FailedKeys == sorted{k | filter k, value(k) has a placeholder and Resolve(value) == value} — for EVERY
    merged key/value list, with no hypothesis (since the D32 repair, /repo f8018cb, the code tests
    `slices.Contains(failedKeys, k)` with the KEY): a key is reported iff one of its entries passes the
    filter, has a placeholder-bearing value and is left unchanged by resolution; the list is sorted and
    duplicate-free.  (Before the repair this needed the hypothesis that no key is the text of a
    placeholder-bearing value: `failedKeys_nofix_exact_sorted_partial`, `failedKeys_nofix_counterexample`.) -/
theorem failedKeys_exact_sorted (hasPh : String → Bool) (resolve : String → String) (merged : Flat) (doc : Doc) :
    let r := placeholderReport hasPh filter resolve merged doc
    (∀ k, k ∈ r.failedKeys ↔
        ∃ v, (k, v) ∈ merged ∧ filter k = true ∧ hasPh v.text = true ∧ v.text = resolve v.text) ∧
      r.failedKeys.Pairwise (· ≤ ·) ∧ r.failedKeys.Nodup := by
  refine ⟨?_, sortStrings_pairwise _, ?_⟩
  · intro k
    simp only [placeholderReport]
    rw [mem_sortStrings, phLoop_failedKeys_mem]
    simp only [List.not_mem_nil, false_or, Bool.and_eq_true, beq_iff_eq]
    constructor
    · rintro ⟨⟨k', v⟩, hm, rfl, ⟨h1, h2⟩, h3⟩
      exact ⟨v, hm, h1, h2, h3⟩
    · rintro ⟨v, hm, h1, h2, h3⟩
      exact ⟨(k, v), hm, rfl, ⟨h1, h2⟩, h3⟩
  · simp only [placeholderReport]
    exact (sortStrings_perm _).nodup_iff.mpr
      (phLoop_failedKeys_nodup hasPh filter resolve doc merged ⟨[], []⟩ List.nodup_nil)

/-- … as a list: for the flattening of a Go map (pairwise distinct keys) the failed keys are the sorted
    keys of the failing entries -/
theorem failedKeys_exact_list (hasPh : String → Bool) (resolve : String → String) (merged : Flat) (doc : Doc)
    (hnd : (merged.map (·.1)).Nodup) :
    (placeholderReport hasPh filter resolve merged doc).failedKeys = sortStrings ((merged.filter fun kv =>
        filter kv.1 && hasPh kv.2.text && (kv.2.text == resolve kv.2.text)).map (·.1)) := by
  simp only [placeholderReport]
  rw [phLoop_failedKeys_list hasPh filter resolve doc merged ⟨[], []⟩ hnd (by simp)]
  simp

/-- ImpactAnalysis result == {k ↦ mentions(k)} for the requested k with mentions; one entry per key. -/
theorem impact_exact (doc : Doc) (keys : List String) (k : String) (c : List Coord) :
    ((k, c) ∈ impact mentions doc keys ↔ k ∈ keys ∧ c = mentionsOf mentions [doc] k ∧ c ≠ []) ∧
      ((impact mentions doc keys).map (·.1)).Nodup := by
  refine ⟨?_, impact_keys_nodup mentions doc keys⟩
  rw [mem_impact]
  have : Analytics.search (mentions k) doc = mentionsOf mentions [doc] k := by
    simp only [mentionsOf, List.flatMap_cons, List.flatMap_nil, List.append_nil]
    rfl
  rw [this]

/-- Reports depend only on document content, not on map iteration order: for ANY order in
    which `Merged().Flatten()` is iterated (`merged'` a permutation of `merged`) and ANY order
    in which each layer's `Flatten()` is iterated inside `Search` (`docs'` layer-wise
    permutations of `docs`), AllKeys and OrphanKeys are equal and every Map entry has the same
    coordinates up to order. -/
theorem report_order_indep (merged merged' : Flat) (docs docs' : List Doc)
    (hm : merged'.Perm merged) (hd : Forall2 DocPerm docs' docs) :
    let r := dependencyReport mentions filter merged docs
    let r' := dependencyReport mentions filter merged' docs'
    r'.allKeys = r.allKeys ∧ r'.orphanKeys = r.orphanKeys ∧
      (∀ k c', (k, c') ∈ r'.map → ∃ c, (k, c) ∈ r.map ∧ c'.Perm c) ∧
      (∀ k c, (k, c) ∈ r.map → ∃ c', (k, c') ∈ r'.map ∧ c'.Perm c) := by
  intro r r'
  have hkeys : (keysOf filter merged').Perm (keysOf filter merged) := (hm.map _).filter _
  have hment : ∀ k, mentioned mentions docs' k = mentioned mentions docs k :=
    fun k => anyDocs_perm (mentions k) hd
  have hmo : ∀ k, (mentionsOf mentions docs' k).Perm (mentionsOf mentions docs k) := by
    intro k
    exact hits_perm mentions hd k
  refine ⟨?_, ?_, ?_, ?_⟩
  · show r'.allKeys = r.allKeys
    rw [(allKeys_exact_sorted mentions filter merged' docs').1, (allKeys_exact_sorted mentions filter merged docs).1]
    exact sortStrings_eq_of_perm hkeys
  · show r'.orphanKeys = r.orphanKeys
    rw [(orphans_exact mentions filter merged' docs').1, (orphans_exact mentions filter merged docs).1]
    apply sortStrings_eq_of_perm
    rw [List.filter_congr (q := fun k => !mentioned mentions docs k) (by intro x _; rw [hment])]
    exact hkeys.filter _
  · intro k c' h
    rw [map_exact] at h
    obtain ⟨hk, hmk, rfl⟩ := h
    refine ⟨mentionsOf mentions docs k, ?_, hmo k⟩
    rw [map_exact]
    exact ⟨hkeys.mem_iff.mp hk, by rw [← hment]; exact hmk, rfl⟩
  · intro k c h
    rw [map_exact] at h
    obtain ⟨hk, hmk, rfl⟩ := h
    refine ⟨mentionsOf mentions docs' k, ?_, hmo k⟩
    rw [map_exact]
    exact ⟨hkeys.mem_iff.mpr hk, by rw [hment]; exact hmk, rfl⟩

/-- … and the same for the placeholder report and impact analysis (FailedKeys is a sorted
    function of the key/value SET; the impact entry of a key is `Search` of the document). -/
theorem failedKeys_order_indep (hasPh : String → Bool) (resolve : String → String) (merged merged' : Flat)
    (doc doc' : Doc) (hm : merged'.Perm merged) :
    (placeholderReport hasPh filter resolve merged' doc').failedKeys =
      (placeholderReport hasPh filter resolve merged doc).failedKeys := by
  obtain ⟨m1, s1, n1⟩ := failedKeys_exact_sorted filter hasPh resolve merged' doc'
  obtain ⟨m2, s2, n2⟩ := failedKeys_exact_sorted filter hasPh resolve merged doc
  apply eq_of_sorted_nodup_mem s1 n1 s2 n2
  intro k
  rw [m1 k, m2 k]
  constructor
  · rintro ⟨v, h, r⟩; exact ⟨v, hm.mem_iff.mp h, r⟩
  · rintro ⟨v, h, r⟩; exact ⟨v, hm.mem_iff.mpr h, r⟩

theorem impact_order_indep (doc doc' : Doc) (hd : DocPerm doc' doc) (keys : List String) (k : String)
    (c' : List Coord) (h : (k, c') ∈ impact mentions doc' keys) :
    ∃ c, (k, c) ∈ impact mentions doc keys ∧ c'.Perm c := by
  rw [mem_impact] at h
  obtain ⟨hk, rfl, hne⟩ := h
  have hp := search_perm (mentions k) hd
  refine ⟨Analytics.search (mentions k) doc, ?_, hp⟩
  rw [mem_impact]
  exact ⟨hk, rfl, fun e => hne (by rw [e] at hp; exact hp.eq_nil)⟩

/-! ## The code's own matchers and non-vacuity -/

theorem nonvacuous_mentions :
    hasPlaceholder "a" ⟨"string", "x${a}y"⟩ = true ∧ hasPlaceholder "a" ⟨"string", "${a:d}"⟩ = true ∧
    hasPlaceholder "a" ⟨"string", "x${a:d}"⟩ = false ∧ hasPlaceholder "a" ⟨"int", "${a}"⟩ = false ∧
    possiblyContainsPlaceholder "x${a" = false ∧ possiblyContainsPlaceholder "}${a}" = true := by
  decide

def exMerged : Flat := [("a", ⟨"string", "${b}-${b}"⟩), ("b", ⟨"string", "${zz}"⟩), ("c", ⟨"int", "3"⟩)]
def exDocs : List Doc :=
  [[⟨"base", [("a", ⟨"string", "${b}-${b}"⟩), ("c", ⟨"int", "3"⟩)]⟩, ⟨"env", [("b", ⟨"string", "${zz}"⟩)]⟩],
   [⟨"r1", [("q", ⟨"string", "x${a}"⟩)]⟩]]

/-- a concrete two-layer source with one reference: a is mentioned by the reference, b by the
    source, c is an orphan; the hypotheses of the theorems above are met non-trivially -/
theorem nonvacuous_report :
    let r := dependencyReport hasPlaceholder (fun _ => true) exMerged exDocs
    r.allKeys = ["a", "b", "c"] ∧ r.orphanKeys = ["c"] ∧
      r.map = [("a", [⟨"r1", "q"⟩]), ("b", [⟨"base", "a"⟩])] := by
  refine ⟨?_, ?_, by decide⟩
  · rw [(allKeys_exact_sorted hasPlaceholder (fun _ => true) exMerged exDocs).1]
    rw [show keysOf (fun _ => true) exMerged = ["a", "b", "c"] by decide]
    exact sortStrings_of_sorted (by decide)
  · rw [(orphans_exact hasPlaceholder (fun _ => true) exMerged exDocs).1]
    rw [show ((keysOf (fun _ => true) exMerged).filter fun k => !mentioned hasPlaceholder exDocs k) = ["c"] by decide]
    exact sortStrings_of_sorted (by decide)

theorem nonvacuous_failed :
    (placeholderReport possiblyContainsPlaceholder (fun _ => true)
      (fun s => if s = "${zz}" then s else "resolved") exMerged (exDocs.headD [])).failedKeys = ["b"] ∧
    (∀ kv ∈ exMerged, ∀ v : Scalar, possiblyContainsPlaceholder v.text = true → kv.1 ≠ v.text) := by
  refine ⟨?_, ?_⟩
  · simp only [placeholderReport]
    rw [show (phLoop possiblyContainsPlaceholder (fun _ => true) (fun s => if s = "${zz}" then s else "resolved")
        (exDocs.headD []) exMerged ⟨[], []⟩).failedKeys = ["b"] by decide]
    exact sortStrings_of_sorted (by decide)
  intro kv hkv v hv he
  have : possiblyContainsPlaceholder kv.1 = true := he ▸ hv
  simp only [exMerged, List.mem_cons, List.not_mem_nil, or_false] at hkv
  rcases hkv with rfl | rfl | rfl <;> exact absurd this (by decide)

/-! ## Round 8: D32 — the PRE-FIX shape of the report loop (YtkModel/GapAnalyticsNofix.lean); the matchers
     characterised -/

/-- two merged entries, visited in this order: the KEY of the first is the VALUE text of the second -/
def cexMerged : Flat := [("${x}", ⟨"string", "${y}"⟩), ("k2", ⟨"string", "${x}"⟩)]

/-- D32 (found by this audit, confirmed on the real code, repaired by /repo f8018cb).  Before the repair
    `placeholderResolver.Resolve` tested `slices.Contains(failedKeys, ph)` with the VALUE text `ph`
    although `failedKeys` holds KEYS (`placeholderReportNofix`).  Witness (default matcher, filter = all,
    nothing resolves): the entry `"${x}" ↦ "${y}"` fails and puts the key `${x}` into failedKeys; the entry
    `k2 ↦ "${x}"` has a placeholder, is unchanged by resolution, but its value text `${x}` is now
    "contained", so `k2` is NOT reported: the pre-fix report is `["${x}"]` — and `["${x}", "k2"]` when
    Go's map iteration yields the entries in the other order (so the report depended on the iteration
    order: 61 / 139 of 200 runs of the real code).  The code at HEAD (`placeholderReport`) reports
    `["${x}", "k2"]` in both orders, as `failedKeys_exact_sorted` / `failedKeys_order_indep` say. -/
theorem failedKeys_nofix_counterexample :
    (placeholderReportNofix possiblyContainsPlaceholder (fun _ => true) id cexMerged []).failedKeys = ["${x}"] ∧
    (placeholderReportNofix possiblyContainsPlaceholder (fun _ => true) id cexMerged.reverse []).failedKeys =
      ["${x}", "k2"] ∧
    (placeholderReport possiblyContainsPlaceholder (fun _ => true) id cexMerged []).failedKeys = ["${x}", "k2"] ∧
    (placeholderReport possiblyContainsPlaceholder (fun _ => true) id cexMerged.reverse []).failedKeys =
      ["${x}", "k2"] ∧
    ¬ (∀ kv ∈ cexMerged, ∀ v : Scalar, possiblyContainsPlaceholder v.text = true → kv.1 ≠ v.text) := by
  refine ⟨?_, ?_, ?_, ?_, ?_⟩
  · show sortStrings _ = _
    rw [show (phLoopNofix possiblyContainsPlaceholder (fun _ => true) id [] cexMerged ⟨[], []⟩).failedKeys =
      ["${x}"] by decide]
    exact sortStrings_of_sorted (by decide)
  · show sortStrings _ = _
    rw [show (phLoopNofix possiblyContainsPlaceholder (fun _ => true) id [] cexMerged.reverse ⟨[], []⟩).failedKeys =
      ["k2", "${x}"] by decide]
    rw [sortStrings_eq_of_perm (List.Perm.swap "${x}" "k2" [])]
    exact sortStrings_of_sorted (by decide)
  · show sortStrings _ = _
    rw [show (phLoop possiblyContainsPlaceholder (fun _ => true) id [] cexMerged ⟨[], []⟩).failedKeys =
      ["${x}", "k2"] by decide]
    exact sortStrings_of_sorted (by decide)
  · show sortStrings _ = _
    rw [show (phLoop possiblyContainsPlaceholder (fun _ => true) id [] cexMerged.reverse ⟨[], []⟩).failedKeys =
      ["k2", "${x}"] by decide]
    rw [sortStrings_eq_of_perm (List.Perm.swap "${x}" "k2" [])]
    exact sortStrings_of_sorted (by decide)
  · intro h
    exact h ("${x}", ⟨"string", "${y}"⟩) (by decide) ⟨"string", "${x}"⟩ (by decide) rfl

/-- what WAS provable of the pre-fix shape: the clause under the hypothesis `hk` — no key of the merged
    document is itself the text of a placeholder-bearing value (the former `failedKeys_exact_sorted`) -/
theorem failedKeys_nofix_exact_sorted_partial (hasPh : String → Bool) (resolve : String → String) (merged : Flat)
    (doc : Doc) (hk : ∀ kv ∈ merged, ∀ v : Scalar, hasPh v.text = true → kv.1 ≠ v.text) :
    (placeholderReportNofix hasPh filter resolve merged doc).failedKeys = sortStrings ((merged.filter fun kv =>
        filter kv.1 && hasPh kv.2.text && (kv.2.text == resolve kv.2.text)).map (·.1)) := by
  simp only [placeholderReportNofix]
  rw [phLoopNofix_failedKeys hasPh filter resolve doc (merged.map (·.1))
    (by
      intro k hkm v hv
      obtain ⟨kv, hkv, rfl⟩ := List.mem_map.mp hkm
      exact hk kv hkv v hv)
    merged ⟨[], []⟩ (fun kv h => List.mem_map.mpr ⟨kv, h, rfl⟩) (by simp)]
  simp

/-- `hasPlaceholderFunc(k)(v)` characterised for ALL keys and values: `v` is a string that
    contains `${k}` somewhere, or starts with `${k:` and ends with `}` (core's infix `<:+:`,
    prefix `<+:`, suffix `<:+` on the character lists). -/
theorem hasPlaceholder_iff (k : String) (v : Scalar) :
    hasPlaceholder k v = true ↔
      v.ty = "string" ∧
        ((("${".toList ++ k.toList ++ "}".toList) <:+: v.text.toList) ∨
          ((("${".toList ++ k.toList ++ ":".toList) <+: v.text.toList) ∧ ("}".toList <:+ v.text.toList))) := by
  simp only [hasPlaceholder, Bool.and_eq_true, Bool.or_eq_true, beq_iff_eq, containsSub_iff, isPrefixOf_iff,
    isSuffixOf_iff]

/-- `possiblyContainsPlaceholder(s)` characterised for ALL strings: some occurrence of `${` is
    followed (anywhere behind it) by a `}`.  (The code looks behind the FIRST `${` only; that is
    the same, because the text behind a later occurrence is part of the text behind the first.) -/
theorem possiblyContainsPlaceholder_iff (s : String) :
    possiblyContainsPlaceholder s = true ↔ ∃ a b, s.toList = a ++ "${".toList ++ b ∧ '}' ∈ b :=
  Analytics.possiblyContainsPlaceholder_iff s

/-! ## Round 7b: composition with C11 — the report over the REAL resolver model

  `resolveOr merged` (YtkModel/GapAnalyticsResolve.lean) is what the driver passes for the
  `resolve` parameter: the C11 model `Resolver.resolveTop (relex d) 400` with the default
  delimiters `${ } :` over the lexed (key, value text) table of the merged document; a run that is
  circular or out of fuel leaves the text unchanged (the driver reports "panic" for such inputs
  before it builds the report). -/

/-- FailedKeys over the C11 resolver, key by key: `k` is reported iff the merged document has an
    entry `(k, v)` passing the filter whose text possibly contains a placeholder and which the C11
    model does NOT resolve to a different text — every token list the run ends with renders to the
    text itself (this includes runs that do not end: circular, out of fuel).  No hypothesis on the keys
    (D32 repaired; pre-fix shape: `failedKeys_nofix_resolver_counterexample`). -/
theorem placeholderReport_agrees_resolver (merged : Flat) (doc : Doc) (k : String) :
    k ∈ (placeholderReport possiblyContainsPlaceholder filter (resolveOr merged) merged doc).failedKeys ↔
      ∃ v, (k, v) ∈ merged ∧ filter k = true ∧ possiblyContainsPlaceholder v.text = true ∧
        ∀ t, Resolver.resolveTop (Resolver.relex defaultDelims) 400 (mergedTable merged)
            (Resolver.lex defaultDelims v.text.toList) = .ok t →
          Resolver.unlex defaultDelims t = v.text.toList := by
  rw [(failedKeys_exact_sorted filter possiblyContainsPlaceholder (resolveOr merged) merged doc).1 k]
  constructor
  · rintro ⟨v, hm, hf, hp, he⟩
    exact ⟨v, hm, hf, hp, (resolveOr_fix_iff merged v.text).mp (by simpa using he)⟩
  · rintro ⟨v, hm, hf, hp, hr⟩
    exact ⟨v, hm, hf, hp, by simpa using (resolveOr_fix_iff merged v.text).mpr hr⟩

/-- A value that is exactly ONE placeholder `${u}` whose key `u` is plain (no `$`, `}`, `:`) and
    is no key of the merged document IS a failed key (for every such document; by the C11 theorems
    `resolve_one`, `resolve_noPre`, `resolvePlaceholder_none` and `unlex_lex`: the placeholder is
    unresolvable and stays verbatim). -/
theorem unresolvable_placeholder_is_failed (merged : Flat) (doc : Doc)
    (k : String) (v : Scalar) (u : List Char) (hm : (k, v) ∈ merged) (hf : filter k = true)
    (hv : v.text.toList = "${".toList ++ u ++ "}".toList) (hu : PlainKey u)
    (hnk : ∀ kv ∈ merged, kv.1.toList ≠ u) :
    k ∈ (placeholderReport possiblyContainsPlaceholder filter (resolveOr merged) merged doc).failedKeys := by
  rw [placeholderReport_agrees_resolver filter merged doc]
  refine ⟨v, hm, hf, ?_, ?_⟩
  · rw [possiblyContainsPlaceholder_iff]
    exact ⟨[], u ++ "}".toList, by simpa using hv, by simp⟩
  · intro t ht
    rw [hv, resolveTop_single_unresolvable merged hu hnk 398] at ht
    cases ht
    rw [hv]
    exact Resolver.unlex_lex' _ _

/-- four merged entries: `a` resolvable through `b` (to a different text), `b` one unresolvable
    placeholder, `c` default-bearing, `d` no string -/
def rMerged : Flat :=
  [("a", ⟨"string", "x-${b}"⟩), ("b", ⟨"string", "${zz}"⟩), ("c", ⟨"string", "${zz:dflt}"⟩), ("d", ⟨"int", "3"⟩)]

/-- key-by-key agreement on a concrete document: `hk` holds, the C11 model resolves the four
    values as listed, and exactly `b` is reported; `b` also meets the hypotheses of
    `unresolvable_placeholder_is_failed` (`u = zz`). -/
theorem nonvacuous_agrees_resolver :
    (∀ kv ∈ rMerged, ∀ v : Scalar, possiblyContainsPlaceholder v.text = true → kv.1 ≠ v.text) ∧
    (rMerged.map fun kv => resolveOr rMerged kv.2.text) = ["x-${zz}", "${zz}", "dflt", "3"] ∧
    (placeholderReport possiblyContainsPlaceholder (fun _ => true) (resolveOr rMerged) rMerged []).failedKeys = ["b"] ∧
    (PlainKey "zz".toList ∧ (∀ kv ∈ rMerged, kv.1.toList ≠ "zz".toList) ∧
      "${zz}".toList = "${".toList ++ "zz".toList ++ "}".toList) := by
  refine ⟨?_, by decide +kernel, ?_, by decide +kernel, by decide +kernel, by decide +kernel⟩
  · intro kv hkv v hv he
    have : possiblyContainsPlaceholder kv.1 = true := he ▸ hv
    simp only [rMerged, List.mem_cons, List.not_mem_nil, or_false] at hkv
    rcases hkv with rfl | rfl | rfl | rfl <;> exact absurd this (by decide)
  · show sortStrings _ = _
    rw [show (phLoop possiblyContainsPlaceholder (fun _ => true) (resolveOr rMerged) [] rMerged ⟨[], []⟩).failedKeys =
      ["b"] by decide +kernel]
    exact sortStrings_of_sorted (by decide)

/-- `failedKeys_nofix_counterexample` with the REAL resolver model instead of `id`: neither `${y}` nor
    `${x}` resolves over `cexMerged`; the pre-fix report is `["${x}"]` (`k2` missing), the report of the
    code at HEAD `["${x}", "k2"]`. -/
theorem failedKeys_nofix_resolver_counterexample :
    (placeholderReportNofix possiblyContainsPlaceholder (fun _ => true) (resolveOr cexMerged) cexMerged []).failedKeys =
        ["${x}"] ∧
    (placeholderReport possiblyContainsPlaceholder (fun _ => true) (resolveOr cexMerged) cexMerged []).failedKeys =
        ["${x}", "k2"] ∧
      (cexMerged.map fun kv => resolveOr cexMerged kv.2.text) = ["${y}", "${x}"] := by
  refine ⟨?_, ?_, by decide +kernel⟩
  · show sortStrings _ = _
    rw [show (phLoopNofix possiblyContainsPlaceholder (fun _ => true) (resolveOr cexMerged) [] cexMerged ⟨[], []⟩).failedKeys =
      ["${x}"] by decide +kernel]
    exact sortStrings_of_sorted (by decide)
  · show sortStrings _ = _
    rw [show (phLoop possiblyContainsPlaceholder (fun _ => true) (resolveOr cexMerged) [] cexMerged ⟨[], []⟩).failedKeys =
      ["${x}", "k2"] by decide +kernel]
    exact sortStrings_of_sorted (by decide)

end Ytk.C19

/-! ## Translated functions (YtkModel/Generated/Funcs.lean, regenerated from the Go source on every
    run): the translation EQUALS the hand-written model, for all inputs. -/
namespace Ytk.C19
open Ytk.Generated

theorem Unique_loop1_eq (xs acc : List String) : Funcs.Unique_loop1 xs acc = Analytics.unique acc xs := by
  induction xs generalizing acc with
  | nil => simp [Funcs.Unique_loop1, Analytics.unique]
  | cons x xs ih =>
    simp only [Funcs.Unique_loop1, Analytics.unique, Go.slicesContains, ih]
    cases acc.contains x <;> simp

/-- utils.Unique, as translated from the source, is the model's `Analytics.unique []` (all lists) -/
theorem Unique_generated_eq_model (xs : List String) : Funcs.Unique xs = Analytics.unique [] xs := by
  simp [Funcs.Unique, Unique_loop1_eq]

end Ytk.C19

/-! ## xlate7d: the REGENERATED translation of the resolvers' pure helpers (Generated/FuncsAnalytics.lean) -/
namespace Ytk.C19
open Ytk.Generated

/-- `subtract(from, what)` (the orphan keys of the dependency report), for all lists -/
theorem subtract_generated_eq_model (frm what : List String) :
    FuncsAnalytics.subtract frm what = Analytics.subtract frm what :=
  FuncsDomAnalytics.subtract_generated_eq_model frm what

/-- `possiblyContainsPlaceholder(in)` (the default placeholder matcher of the placeholder resolver): `strings.Index`,
    `in[idx:]`, `strings.Index` again — the model's `${` … `}` scan, for all strings; never panics -/
theorem possiblyContainsPlaceholder_generated_eq_model (s : String) :
    FuncsAnalytics.possiblyContainsPlaceholder s = .ok (Analytics.possiblyContainsPlaceholder s) :=
  FuncsDomAnalytics.possiblyContainsPlaceholder_generated_eq_model s

theorem nonvacuous_analytics_generated :
    FuncsAnalytics.subtract ["a", "b", "c"] ["b"] = ["a", "c"] ∧
    FuncsAnalytics.possiblyContainsPlaceholder "x${y}z" = .ok true ∧ FuncsAnalytics.possiblyContainsPlaceholder "}x${y" = .ok false := by
  decide +kernel

/-- `hasPlaceholderFunc(ph)(val)` — the default placeholder matcher of the dependency resolver and of the impact
    analysis (a function returning a closure; translated uncurried): the value is a string containing `${ph}`, or
    starting with `${ph:` and ending with `}` — the model's `hasPlaceholder`, for all keys and all leaf values -/
theorem hasPlaceholderFunc_generated_eq_model (k : String) (v : Scalar) :
    FuncsDom.hasPlaceholderFunc k v = .ok (Analytics.hasPlaceholder k v) :=
  FuncsDomMatcher.hasPlaceholderFunc_generated_eq_model k v

theorem nonvacuous_hasPlaceholderFunc_generated :
    FuncsDom.hasPlaceholderFunc "a.b" ⟨"string", "x ${a.b} y"⟩ = .ok true ∧
    FuncsDom.hasPlaceholderFunc "a.b" ⟨"string", "${a.b:default}"⟩ = .ok true ∧
    FuncsDom.hasPlaceholderFunc "a.b" ⟨"string", "${a.bc}"⟩ = .ok false ∧
    FuncsDom.hasPlaceholderFunc "1" ⟨"int", "${1}"⟩ = .ok false := by
  decide +kernel

/-- `dom.SearchEqual(ph)(val)` (with which the placeholder resolver looks up the coordinates of an unresolved value):
    `cmp.Equal(val, ph)` — for a string `ph` the model's `searchEqualStr`, for all leaf values -/
theorem SearchEqual_generated_eq_model (ph : String) (v : Scalar) :
    FuncsDom.SearchEqual ⟨"string", ph⟩ v = .ok (Analytics.searchEqualStr ph v) :=
  FuncsDomMatcher.SearchEqual_generated_eq_model ph v

end Ytk.C19
