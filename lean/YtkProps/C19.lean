/-
  C19 — analytics reports (model: YtkModel/Analytics.lean).
-/
import YtkModel.Analytics

namespace Ytk.C19
open Ytk.Analytics

theorem nonvacuous_mentions :
    hasPlaceholder "a" ⟨"string", "x${a}y"⟩ = true ∧ hasPlaceholder "a" ⟨"string", "${a:d}"⟩ = true ∧
    hasPlaceholder "a" ⟨"string", "x${a:d}"⟩ = false ∧ hasPlaceholder "a" ⟨"int", "${a}"⟩ = false := by
  decide

end Ytk.C19
