/-
  C02 — One addressing scheme: flatten, lookup, search and JSON pointers agree.

  `Valid` = constructible through the API; `SafeKeys` = every key is non-empty and free of
  '.', '[' and ']' (the property's "no path metacharacters").

  Proved:
    * the flattened view has exactly one entry per scalar position and carries exactly the
      document's scalars, in traversal order (all documents);
    * lookup_flatten  : every flattened (path, leaf) is found by `lookup` under that path;
    * pointer_flatten : the JSON-pointer translation of the path evaluates to that leaf;
    * parsePath_steps : props.ParsePath has one segment per addressing step;
    * Search is the filter of the flattened view;
    * rebuilding from (path, leaf) pairs always yields a valid document, the pair inserted last
      resolves, and insertions at key-divergent paths do not disturb each other;
    * rebuild_perm : ItemsHaveScalars d → σ ~ flatten d → flatten (rebuild σ) = flatten d
      (equality of the flattened views AS LISTS, for every insertion order; proof in
      YtkProofs/Rebuild.lean: the document built so far is always `mask S d`, the restriction of
      `d` to the leaf paths inserted so far with null pads in list slots not yet reached);
    * rebuild_perm_exact : without empty lists / containers below the root, `rebuild σ = d`.
-/
import YtkModel.Generated.Constants
import YtkProofs.Addr
import YtkProofs.PointerPaths
import YtkProofs.RebuildB
import YtkProofs.GapDiffFlatten
import YtkProofs.GapPointer
import YtkProofs.ValidB
import YtkProofs.FuncsPtr
import YtkProofs.FuncsDomRead
import YtkProofs.FuncsDomChild

namespace Ytk.C02

/-- |Flatten(d)| = number of scalar positions -/
theorem flatten_length (d : AMap Node) : (flatten d).length = Node.scalarCount (.cont d) := by
  simpa [flatten, Node.scalarCount] using flattenKvs_length d ""

/-- the flattened values are exactly the document's scalars (nothing dropped, added or reordered) -/
theorem flatten_values (d : AMap Node) : (flatten d).map (·.2) = Node.leaves (.cont d) := by
  simpa [flatten, Node.leaves] using flattenKvs_values d ""

/-- Lookup of a flattened path resolves to that very leaf. -/
theorem lookup_flatten (d : AMap Node) (hv : (Node.cont d).Valid) (hs : (Node.cont d).SafeKeys)
    (p : String) (v : Scalar) (h : (p, v) ∈ flatten d) : lookup d p = some (.leaf v) :=
  lookup_flatten_aux d hv hs p v h

/-- The JSON-pointer translation of a flattened path evaluates to the same leaf. -/
theorem pointer_flatten (d : AMap Node) (hv : (Node.cont d).Valid) (hs : (Node.cont d).SafeKeys)
    (p : String) (v : Scalar) (h : (p, v) ∈ flatten d) :
    evalTokens (.cont d) (pointerTokens (propsParsePath p)) = some (.leaf v) :=
  pointer_flatten_aux d hv hs p v h

/-- props.ParsePath has one segment per addressing step of a flattened path. -/
theorem parsePath_steps (d : AMap Node) (hv : (Node.cont d).Valid) (hs : (Node.cont d).SafeKeys)
    (p : String) (v : Scalar) (h : (p, v) ∈ flatten d) : (propsParsePath p).length = stepCount p :=
  parsePath_steps_aux d hv hs p v h

/-- Search returns exactly the flattened paths whose value satisfies the predicate -/
theorem search_spec (f : Scalar → Bool) (d : AMap Node) :
    search f d = ((flattenMap d).filter (fun p => f p.2)).map (·.1) := rfl

/-- rebuilding from any list of (path, leaf) pairs gives a valid document -/
theorem rebuild_valid (pairs : List (String × Scalar)) : (Node.cont (rebuild pairs)).Valid :=
  rebuild_valid_aux pairs [] Node.Valid.empty

/-- the pair inserted last resolves under its path -/
theorem rebuild_last_partial (pairs : List (String × Scalar)) (p : String) (v : Scalar) (h : p ≠ "") :
    lookup (rebuild (pairs ++ [(p, v)])) p = some (.leaf v) := by
  rw [rebuild_snoc]; exact lookup_addValueAt_self _ p _ h

/-- an earlier pair stays resolvable when a later insertion diverges from it by key -/
theorem rebuild_frame_partial (d : AMap Node) (ps qs : List String) (v : Node) (h : Diverge ps qs) :
    lookupSegs (addAtSegs d ps v) qs = lookupSegs d qs := lookupSegs_addAtSegs_frame ps qs d v h

/-- **rebuild_perm**: inserting the flattened (path, leaf) pairs of a valid, path-safe document in
    ANY order with `AddValueAt` into an empty document gives a document with the same flattened
    view (equal as lists: same paths, same leaves, same traversal order) — provided every list
    item anywhere in the document holds at least one scalar (`ItemsHaveScalars`; an item without a
    scalar, e.g. `{}` or `[]` inside a list, has no flattened entry and would come back as a null
    pad or shift later items). -/
theorem rebuild_perm (d : AMap Node) (hv : (Node.cont d).Valid) (hs : (Node.cont d).SafeKeys)
    (hi : ItemsHaveScalars d) (σ : List (String × Scalar)) (h : σ.Perm (flatten d)) :
    flatten (rebuild σ) = flatten d :=
  rebuild_cover d hv hs hi σ (fun _ hx => h.mem_iff.mp hx) (fun _ hx => h.mem_iff.mpr hx)

/-- the same with repetitions: any list of pairs with exactly the flattened entries (each possibly
    several times, any order) rebuilds the flattened view -/
theorem rebuild_cover_dups (d : AMap Node) (hv : (Node.cont d).Valid) (hs : (Node.cont d).SafeKeys)
    (hi : ItemsHaveScalars d) (σ : List (String × Scalar))
    (h1 : ∀ x ∈ σ, x ∈ flatten d) (h2 : ∀ x ∈ flatten d, x ∈ σ) : flatten (rebuild σ) = flatten d :=
  rebuild_cover d hv hs hi σ h1 h2

/-- the flattened Go map is rebuilt as well -/
theorem rebuild_perm_flattenMap (d : AMap Node) (hv : (Node.cont d).Valid) (hs : (Node.cont d).SafeKeys)
    (hi : ItemsHaveScalars d) (σ : List (String × Scalar)) (h : σ.Perm (flatten d)) :
    flattenMap (rebuild σ) = flattenMap d := by
  unfold flattenMap
  rw [rebuild_perm d hv hs hi σ h]

/-- when additionally no list and no container below the root is empty, the rebuilt DOCUMENT is
    the original one (not only its flattened view), for every insertion order -/
theorem rebuild_perm_exact (d : AMap Node) (hv : (Node.cont d).Valid) (hs : (Node.cont d).SafeKeys)
    (hn : ∀ p ∈ d, p.2.NoEmpty) (σ : List (String × Scalar)) (h : σ.Perm (flatten d)) :
    rebuild σ = d :=
  rebuild_exact d hv hs hn σ (fun _ hx => h.mem_iff.mp hx) (fun _ hx => h.mem_iff.mpr hx)

def exDoc : AMap Node := [("a", .list [.list [.leaf ⟨"int", "1"⟩, .leaf Scalar.null], .cont [("x", .leaf ⟨"string", "s"⟩)]]), ("b", .cont [])]
theorem nonvacuous_flatten : (flatten exDoc).map (·.1) = ["a[0][0]", "a[0][1]", "a[1].x"] := by decide

/-- the hypotheses of `rebuild_perm` hold on a document with a list in a list, a container in a
    list, a null leaf and an empty keyed container; the rebuilt document is NOT the original (the
    empty container `b` has no flattened entry) but has the same flattened view -/
theorem nonvacuous_rebuild :
    (Node.cont exDoc).Valid ∧ (Node.cont exDoc).SafeKeys ∧ ItemsHaveScalars exDoc ∧
      rebuild (flatten exDoc).reverse ≠ exDoc ∧
      flatten (rebuild (flatten exDoc).reverse) = flatten exDoc := by
  have hv : (Node.cont exDoc).Valid := Node.validB_sound _ (by decide +kernel)
  have hs : (Node.cont exDoc).SafeKeys := Node.safeB_sound _ (by decide +kernel)
  have hi : ItemsHaveScalars exDoc := Node.itemsB_sound _ (by decide +kernel)
  refine ⟨hv, hs, hi, ?_, rebuild_perm exDoc hv hs hi _ (List.reverse_perm _)⟩
  intro e
  have h1 := congrArg List.length e
  have h2 : (rebuild (flatten exDoc).reverse).length = 1 := by decide +kernel
  rw [h2] at h1
  exact absurd h1 (by decide)

def exFull : AMap Node :=
  [("a", .list [.list [.leaf ⟨"int", "1"⟩, .leaf Scalar.null], .cont [("x", .leaf ⟨"string", "s"⟩)]]),
   ("b", .cont [("c", .leaf ⟨"bool", "true"⟩)])]

/-- the hypotheses of `rebuild_perm_exact` hold on a document with nested lists and containers;
    it is rebuilt exactly from its reversed flattened view -/
theorem nonvacuous_rebuild_exact :
    (Node.cont exFull).Valid ∧ (Node.cont exFull).SafeKeys ∧ (∀ p ∈ exFull, p.2.NoEmpty) ∧
      rebuild (flatten exFull).reverse = exFull := by
  have hv : (Node.cont exFull).Valid := Node.validB_sound _ (by decide +kernel)
  have hs : (Node.cont exFull).SafeKeys := Node.safeB_sound _ (by decide +kernel)
  have hn : ∀ p ∈ exFull, p.2.NoEmpty := noEmptyKvsB_sound _ (by decide +kernel)
  exact ⟨hv, hs, hn, rebuild_perm_exact exFull hv hs hn _ (List.reverse_perm _)⟩

/-- Tie to the source text (regenerated on every run): the two index-group patterns the model's
    hand-written scanners (`stripIdx`, `parseSeg`) were written for are the ones in the source. -/
theorem source_constants :
    Generated.const? "dom.listPathRe" = some "\\[\\d+]$" ∧
    Generated.const? "utils.listPropRe" = some ".*(\\[\\d+])+" := by decide

end Ytk.C02

/-! ## gap7a: need of `ItemsHaveScalars`; the flattened view determines the document (C02 × C07) -/
namespace Ytk.C02

/-- `ItemsHaveScalars` cannot be dropped from `rebuild_perm`: a list item without a scalar (`{}` in
    front of a leaf) has no flattened entry and comes back as a null pad, which Flatten then reports. -/
theorem rebuild_needs_items_counterexample :
    (Node.cont [("a", .list [.cont [], .leaf ⟨"int", "1"⟩])]).Valid ∧
    (Node.cont [("a", .list [.cont [], .leaf ⟨"int", "1"⟩])]).SafeKeys ∧
    flatten [("a", .list [.cont [], .leaf ⟨"int", "1"⟩])] = [("a[1]", ⟨"int", "1"⟩)] ∧
    flatten (rebuild (flatten [("a", .list [.cont [], .leaf ⟨"int", "1"⟩])])) =
      [("a[0]", Scalar.null), ("a[1]", ⟨"int", "1"⟩)] :=
  ⟨Node.validB_sound _ (by decide +kernel), Node.safeB_sound _ (by decide +kernel), by decide +kernel,
   by decide +kernel⟩

/-- The flattened view determines the document when no list / container below the root is empty:
    two such documents (valid, path-safe) with the same flattened view are the same document. -/
theorem flatten_injective (L R : AMap Node) (hL : (Node.cont L).Valid) (hR : (Node.cont R).Valid)
    (hsL : (Node.cont L).SafeKeys) (hsR : (Node.cont R).SafeKeys)
    (hnL : ∀ p ∈ L, p.2.NoEmpty) (hnR : ∀ p ∈ R, p.2.NoEmpty) (h : flatten L = flatten R) : L = R :=
  eq_of_flatten_eq L R hL hR hsL hsR hnL hnR h

/-- C07 × C02, end to end: on such documents `Diff(L, R) = [] ↔ Flatten(L) = Flatten(R)` (C07 claims
    and proves "→" for all valid documents; "←" fails in general: `C07.diff_nonempty_same_flatten_counterexample`).
    Exported here because YtkProps/C07.lean cannot import YtkProofs/FlattenPaths.lean (two declarations
    named `Ytk.Node.SafeKeys`). -/
theorem diff_nil_iff_flatten (L R : AMap Node) (hL : (Node.cont L).Valid) (hR : (Node.cont R).Valid)
    (hsL : (Node.cont L).SafeKeys) (hsR : (Node.cont R).SafeKeys)
    (hnL : ∀ p ∈ L, p.2.NoEmpty) (hnR : ∀ p ∈ R, p.2.NoEmpty) :
    diff L R = [] ↔ flatten L = flatten R :=
  diff_nil_iff_flatten_aux L R hL hR hsL hsR hnL hnR

/-- non-vacuity of the hypotheses (exFull above) and of both directions on a concrete pair -/
theorem nonvacuous_diff_nil_iff_flatten :
    (diff exFull exFull = [] ↔ flatten exFull = flatten exFull) ∧ diff exFull exFull = [] ∧
    diff exFull [("b", .cont [("c", .leaf ⟨"bool", "true"⟩)])] ≠ [] ∧
    flatten exFull ≠ flatten [("b", .cont [("c", .leaf ⟨"bool", "true"⟩)])] := by
  have h := nonvacuous_rebuild_exact
  exact ⟨diff_nil_iff_flatten exFull exFull h.1 h.1 h.2.1 h.2.1 h.2.2.1 h.2.2.1, by decide +kernel,
    by decide +kernel, by decide +kernel⟩

end Ytk.C02

/-! ## gap7a: `pointer_flatten` on the pointer model of C09 / C10 (`Ptr.eval`, `Ptr.propPath2Pointer`) -/
namespace Ytk.C02
open Ytk.Ptr

/-- `pointer_flatten` is stated on `evalTokens` (YtkModel/Addr.lean), a second, simpler model of
    `patch.Path.Eval`.  The same on the model C09 / C10 are about (`Ptr.eval`: `strconv.Atoi`-based list
    branch, trail): the translated pointer of a flattened path evaluates to that leaf, provided every
    all-digit token is below 2^63 (`SmallIdx`: what Atoi accepts; a Go slice index always is). -/
theorem pointer_flatten_eval (d : AMap Node) (hv : (Node.cont d).Valid) (hs : (Node.cont d).SafeKeys)
    (p : String) (v : Scalar) (h : (p, v) ∈ flatten d) (hsm : SmallIdx (pointerTokens (propsParsePath p))) :
    (eval (pointerTokens (propsParsePath p)) (.cont d)).2 = some (.leaf v) ∧
    (eval (pointerTokens (propsParsePath p)) (.cont d)).1.getLast? = some (.leaf v) := by
  have h1 := eval_of_evalTokens _ _ _ hsm (pointer_flatten d hv hs p v h)
  refine ⟨h1, ?_⟩
  cases hp : pointerTokens (propsParsePath p) with
  | nil => rw [hp] at h1; simpa [eval] using h1
  | cons t ts =>
    rw [hp] at h1
    rw [eval_snd] at h1
    exact evalLoop_last (t :: ts) _ _ (by simp) h1

/-- … and through the real shape of `xform.PropPath2Pointer` (`Ptr.propPath2Pointer`: the components are
    written UNESCAPED behind '/' and the text is parsed): when no key of the path contains '/' or '~'
    (`PtrSafeSegs`; the property's key alphabet — letters, digits, '_', '-' — has neither) the function
    returns exactly one token per segment and the pointer evaluates to the leaf. -/
theorem pointer_flatten_propPath2Pointer (d : AMap Node) (hv : (Node.cont d).Valid) (hs : (Node.cont d).SafeKeys)
    (p : String) (v : Scalar) (h : (p, v) ∈ flatten d) (hsm : SmallIdx (pointerTokens (propsParsePath p)))
    (hps : PtrSafeSegs (propsParsePath p)) :
    ∃ ptr, propPath2Pointer ((propsParsePath p).map PSeg.toPropSeg) = .ok ptr ∧
      (eval ptr (.cont d)).2 = some (.leaf v) :=
  ⟨_, propPath2Pointer_eq _ hps, (pointer_flatten_eval d hv hs p v h hsm).1⟩

/-- `PtrSafeSegs` cannot be dropped — and `pointer_flatten` above holds for such keys only because
    `pointerTokens` skips the text round trip: for the member name `a/b` (path-safe in the sense of
    `SafeKeys`: no '.', '[', ']'), the flattened path is `a/b`, C02's token list `["a/b"]` resolves, but
    `PropPath2Pointer` writes `/a/b` unescaped, which parses to the two tokens `a`, `b` and evaluates to
    nothing; a name `x~1y` comes back as `x/y`.  (Outside the property's key alphabet; the Go function
    `xform.PropPath2Pointer` has this behaviour: no RFC 6901 escaping of '~' and '/'.) -/
theorem pointer_flatten_slash_key_counterexample :
    (Node.cont [("a/b", .leaf ⟨"int", "1"⟩)]).Valid ∧ (Node.cont [("a/b", .leaf ⟨"int", "1"⟩)]).SafeKeys ∧
    flatten [("a/b", .leaf ⟨"int", "1"⟩)] = [("a/b", ⟨"int", "1"⟩)] ∧
    evalTokens (.cont [("a/b", .leaf ⟨"int", "1"⟩)]) (pointerTokens (propsParsePath "a/b")) = some (.leaf ⟨"int", "1"⟩) ∧
    propPath2Pointer ((propsParsePath "a/b").map PSeg.toPropSeg) = .ok ["a", "b"] ∧
    (eval ["a", "b"] (.cont [("a/b", .leaf ⟨"int", "1"⟩)])).2 = none ∧
    propPath2Pointer ((propsParsePath "x~1y").map PSeg.toPropSeg) = .ok ["x/y"] :=
  ⟨Node.validB_sound _ (by decide +kernel), Node.safeB_sound _ (by decide +kernel), by decide +kernel,
   by decide +kernel, by decide +kernel, by decide +kernel, by decide +kernel⟩

/-- non-vacuity: the hypotheses hold for every flattened path of `exDoc` -/
theorem nonvacuous_pointer_eval :
    (∀ p ∈ (flatten exDoc).map (·.1), (pointerTokens (propsParsePath p)).all (fun t =>
        match tokenIndex t with
        | some i => decide (i < int64Lim)
        | none => true) = true) ∧
    propPath2Pointer ((propsParsePath "a[1].x").map PSeg.toPropSeg) = .ok ["a", "1", "x"] ∧
    (eval ["a", "1", "x"] (.cont exDoc)).2 = some (.leaf ⟨"string", "s"⟩) := by
  decide +kernel
/-! ## Translated functions (YtkModel/Generated/Funcs.lean, regenerated from the Go source on every
    run by extract/translate.go): the translation EQUALS the hand-written model, for all inputs.
    An edit of the Go function changes the regenerated definition and these stop checking. -/
end Ytk.C02

namespace Ytk.C02
open Ytk.Generated

/-- utils.ToPath, as translated from the source, is the model's `toPath` (all strings) -/
theorem ToPath_generated_eq_model (path key : String) : Funcs.ToPath path key = toPath path key := by
  simp [Funcs.ToPath, toPath, Go.len_beq_zero, Go.fmtS, String.append_assoc]

/-- utils.ToListPath, as translated, is the model's `toListPath` — on non-negative indices (the
    model's index is a `Nat`; list positions are never negative) -/
theorem ToListPath_generated_eq_model (path : String) (i : Nat) :
    Funcs.ToListPath path (i : Int) = toListPath path i := by
  simp only [Funcs.ToListPath, toListPath, Go.len_beq_zero, Go.fmtD_nat]
  split
  · next h => simp at h; subst h; simp [String.append_assoc]
  · simp [String.append_assoc]

theorem nonvacuous_ToListPath : Funcs.ToListPath "a.b" (3 : Nat) = "a.b[3]" ∧ toListPath "a.b" 3 = "a.b[3]" := by
  decide

/-- props.PathSegment.String, as translated: the decimal index of a numeric segment, else the name -/
theorem PropSegString_generated_eq_model (s : Ptr.PropSeg) :
    Funcs.PropSegString (Ptr.segToGo s) = (if s.isNum then toString s.index else s.value) := by
  simp [Funcs.PropSegString, Ptr.segToGo, Go.fmtD_nat]

end Ytk.C02

/-! ## xlate7d: the REGENERATED translation of the read paths of dom/container.go (Generated/FuncsDom.lean)

  `flattenLeaf`, `flattenList`, `flattenContainer`, `(*containerImpl).Flatten`, `Search`, `Lookup` are rewritten from the
  Go source on every run; `Child` of ONE path component stays the DomPrelude primitive `GoDom.child` (= `child`).
  A Go `map[string]Leaf` is its association list, written with `m[k] = v` ↦ `AMap.insert`, ranged in key order. -/
namespace Ytk.C02
open Ytk.Generated

/-- flattenContainer(node, path, &ret): the pairs of the model's walker, written into the map in traversal order -/
theorem domFlattenContainer_generated_eq_model (c : AMap Node) (p : String) (ret : AMap Scalar) :
    FuncsDom.domFlattenContainer c p ret = .ok (FuncsDomRead.ins ret (flattenKvs c p)) :=
  FuncsDomRead.domFlattenContainer_generated_eq_model c p ret

theorem domFlattenList_generated_eq_model (l : List Node) (p : String) (ret : AMap Scalar) :
    FuncsDom.domFlattenList l p ret = .ok (FuncsDomRead.ins ret (Ytk.flattenList l p 0)) :=
  FuncsDomRead.domFlattenList_generated_eq_model l p ret

theorem domFlattenLeaf_generated_eq_model (s : Scalar) (p : String) (ret : AMap Scalar) :
    FuncsDom.domFlattenLeaf s p ret = .ok (AMap.insert ret p s) := rfl

/-- Container.Flatten() is the model's `flattenMap`, for ALL containers (no validity hypothesis) -/
theorem Flatten_generated_eq_model (c : AMap Node) : FuncsDom.containerFlatten c = .ok (flattenMap c) :=
  FuncsDomRead.containerFlatten_generated_eq_model c

/-- Container.Search(fn) for a total predicate -/
theorem Search_generated_eq_model (f : Scalar → Bool) (c : AMap Node) :
    FuncsDom.containerSearch c (fun v => .ok (f v)) = .ok (search f c) :=
  FuncsDomRead.containerSearch_generated_eq_model f c

/-- Container.Lookup(path) is the model's `lookup`, for ALL containers and ALL path strings -/
theorem Lookup_generated_eq_model (c : AMap Node) (path : String) :
    FuncsDom.containerLookup c path = .ok (lookup c path) :=
  FuncsDomRead.containerLookup_generated_eq_model c path

/-- the translated code RUN -/
theorem nonvacuous_read_generated :
    FuncsDom.containerFlatten [("a", .list [.leaf ⟨"int", "1"⟩, .cont [("x", .leaf ⟨"string", "s"⟩)]]), ("b", .leaf ⟨"int", "2"⟩)]
      = .ok [("a[0]", ⟨"int", "1"⟩), ("a[1].x", ⟨"string", "s"⟩), ("b", ⟨"int", "2"⟩)] ∧
    FuncsDom.containerLookup [("a", .cont [("b", .list [.leaf ⟨"int", "7"⟩])])] "a.b[0]" = .ok (some (.leaf ⟨"int", "7"⟩)) ∧
    FuncsDom.containerLookup [("a", .leaf ⟨"int", "7"⟩)] "a.b" = .ok none ∧
    FuncsDom.containerSearch [("a", .leaf ⟨"int", "1"⟩), ("b", .leaf ⟨"int", "2"⟩)] (fun v => .ok (v == ⟨"int", "2"⟩)) = .ok ["b"] := by
  decide +kernel

end Ytk.C02

/-! ## xlate7d: `(*containerImpl).Child` — the index-suffix handling -/
namespace Ytk.C02
open Ytk.Generated

/-- Container.Child(name), as translated (the regexp `\[\d+]$`, `FindStringIndex`, `strconv.Atoi`, the RECURSION on the
    name without its last group, `n.(List)`, the bounds test): the model's `child` (which strips all groups first and
    then descends), for every container and every name whose index groups are below 2^63 (`strconv.Atoi` saturates
    at the int64 bound; a list with 2^63 items does not exist) -/
theorem Child_generated_eq_model (c : AMap Node) (name : String)
    (hf : ∀ i ∈ (parseSeg name).2, i < 9223372036854775808) :
    FuncsDom.containerChild c name = .ok (child c name) :=
  FuncsDomChild.containerChild_generated_eq_model c name hf

/-- the translated code RUN: nested groups, an index out of bounds, a group on a non-list, a plain key, a missing key -/
theorem nonvacuous_Child_generated :
    FuncsDom.containerChild [("a", .list [.leaf ⟨"int", "1"⟩, .list [.leaf ⟨"int", "7"⟩]])] "a[1][0]" = .ok (some (.leaf ⟨"int", "7"⟩)) ∧
    FuncsDom.containerChild [("a", .list [.leaf ⟨"int", "1"⟩])] "a[1]" = .ok none ∧
    FuncsDom.containerChild [("a", .leaf ⟨"int", "1"⟩)] "a[0]" = .ok none ∧
    FuncsDom.containerChild [("a", .leaf ⟨"int", "1"⟩)] "a" = .ok (some (.leaf ⟨"int", "1"⟩)) ∧
    FuncsDom.containerChild [("a", .leaf ⟨"int", "1"⟩)] "b" = .ok none := by
  decide +kernel

end Ytk.C02
