/-
  C02 — One addressing scheme: flatten, lookup, search and JSON pointers agree.

  `Valid` = constructible through the API; `SafeKeys` = every key is non-empty and free of
  '.', '[' and ']' (the property's "no path metacharacters").

  Proved:
    * the flattened view has exactly one entry per scalar position and carries exactly the
      document's scalars, in traversal order (all documents);
    * lookup_flatten  : every flattened (path, leaf) is found by `lookup` under that path;
    * pointer_flatten : the JSON-pointer translation of the path evaluates to that leaf;
    * parsePath_steps : props.ParsePath has one segment per addressing step;
    * Search is the filter of the flattened view;
    * rebuilding from (path, leaf) pairs always yields a valid document, the pair inserted last
      resolves, and insertions at key-divergent paths do not disturb each other.
  Stated, NOT yet proved (kept visible; carried by the tie on every run — harness clause
  "rebuild(any order) gives the same flattened view", all permutations for <= 5 leaves):
    rebuild_perm : ItemsHaveScalars d → σ ~ flatten d → flatten (rebuild σ) ~ flatten d
-/
import YtkProofs.Addr
import YtkProofs.PointerPaths

namespace Ytk.C02

/-- |Flatten(d)| = number of scalar positions -/
theorem flatten_length (d : AMap Node) : (flatten d).length = Node.scalarCount (.cont d) := by
  simpa [flatten, Node.scalarCount] using flattenKvs_length d ""

/-- the flattened values are exactly the document's scalars (nothing dropped, added or reordered) -/
theorem flatten_values (d : AMap Node) : (flatten d).map (·.2) = Node.leaves (.cont d) := by
  simpa [flatten, Node.leaves] using flattenKvs_values d ""

/-- Lookup of a flattened path resolves to that very leaf. -/
theorem lookup_flatten (d : AMap Node) (hv : (Node.cont d).Valid) (hs : (Node.cont d).SafeKeys)
    (p : String) (v : Scalar) (h : (p, v) ∈ flatten d) : lookup d p = some (.leaf v) :=
  lookup_flatten_aux d hv hs p v h

/-- The JSON-pointer translation of a flattened path evaluates to the same leaf. -/
theorem pointer_flatten (d : AMap Node) (hv : (Node.cont d).Valid) (hs : (Node.cont d).SafeKeys)
    (p : String) (v : Scalar) (h : (p, v) ∈ flatten d) :
    evalTokens (.cont d) (pointerTokens (propsParsePath p)) = some (.leaf v) :=
  pointer_flatten_aux d hv hs p v h

/-- props.ParsePath has one segment per addressing step of a flattened path. -/
theorem parsePath_steps (d : AMap Node) (hv : (Node.cont d).Valid) (hs : (Node.cont d).SafeKeys)
    (p : String) (v : Scalar) (h : (p, v) ∈ flatten d) : (propsParsePath p).length = stepCount p :=
  parsePath_steps_aux d hv hs p v h

/-- Search returns exactly the flattened paths whose value satisfies the predicate -/
theorem search_spec (f : Scalar → Bool) (d : AMap Node) :
    search f d = ((flattenMap d).filter (fun p => f p.2)).map (·.1) := rfl

/-- rebuilding from any list of (path, leaf) pairs gives a valid document -/
theorem rebuild_valid (pairs : List (String × Scalar)) : (Node.cont (rebuild pairs)).Valid :=
  rebuild_valid_aux pairs [] Node.Valid.empty

/-- the pair inserted last resolves under its path -/
theorem rebuild_last_partial (pairs : List (String × Scalar)) (p : String) (v : Scalar) (h : p ≠ "") :
    lookup (rebuild (pairs ++ [(p, v)])) p = some (.leaf v) := by
  rw [rebuild_snoc]; exact lookup_addValueAt_self _ p _ h

/-- an earlier pair stays resolvable when a later insertion diverges from it by key -/
theorem rebuild_frame_partial (d : AMap Node) (ps qs : List String) (v : Node) (h : Diverge ps qs) :
    lookupSegs (addAtSegs d ps v) qs = lookupSegs d qs := lookupSegs_addAtSegs_frame ps qs d v h

def exDoc : AMap Node := [("a", .list [.list [.leaf ⟨"int", "1"⟩, .leaf Scalar.null], .cont [("x", .leaf ⟨"string", "s"⟩)]]), ("b", .cont [])]
theorem nonvacuous_flatten : (flatten exDoc).map (·.1) = ["a[0][0]", "a[0][1]", "a[1].x"] := by decide

end Ytk.C02
