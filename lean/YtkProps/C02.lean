/-
  C02 — One addressing scheme: flatten, lookup, search and JSON pointers agree.

  Proved here (all documents, no alphabet restriction needed):
    * the flattened view has exactly one entry per scalar position and carries exactly the
      document's scalars, in traversal order;
    * Search is the filter of the flattened view;
    * rebuilding from (path, leaf) pairs always yields a valid document and the pair inserted
      last is found by lookup under its path (the step lemma of the rebuild argument).
  Stated, NOT yet proved (kept visible; the tie carries them on every run — harness clauses
  "lookup(flattened path) is that very leaf", "pointer(…)", "props.ParsePath …", "rebuild(any order)…"):
    lookup_flatten  : d.Valid → SafeKeys d → (p, v) ∈ flatten d → lookup d p = some (.leaf v)
    pointer_flatten : … → evalTokens (.cont d) (pointerTokens (propsParsePath p)) = some (.leaf v)
    parsePath_steps : … → (propsParsePath p).length = stepCount p
    rebuild_perm    : ItemsHaveScalars d → σ ~ flatten d → flatten (rebuild σ) ~ flatten d
-/
import YtkProofs.Addr

namespace Ytk.C02

/-- |Flatten(d)| = number of scalar positions -/
theorem flatten_length (d : AMap Node) : (flatten d).length = Node.scalarCount (.cont d) := by
  simpa [flatten, Node.scalarCount] using flattenKvs_length d ""

/-- the flattened values are exactly the document's scalars (nothing dropped, added or reordered) -/
theorem flatten_values (d : AMap Node) : (flatten d).map (·.2) = Node.leaves (.cont d) := by
  simpa [flatten, Node.leaves] using flattenKvs_values d ""

/-- Search returns exactly the flattened paths whose value satisfies the predicate -/
theorem search_spec (f : Scalar → Bool) (d : AMap Node) :
    search f d = ((flattenMap d).filter (fun p => f p.2)).map (·.1) := rfl

/-- rebuilding from any list of (path, leaf) pairs gives a valid document -/
theorem rebuild_valid (pairs : List (String × Scalar)) : (Node.cont (rebuild pairs)).Valid :=
  rebuild_valid_aux pairs [] Node.Valid.empty

/-- the pair inserted last resolves under its path -/
theorem rebuild_last_partial (pairs : List (String × Scalar)) (p : String) (v : Scalar) (h : p ≠ "") :
    lookup (rebuild (pairs ++ [(p, v)])) p = some (.leaf v) := by
  rw [rebuild_snoc]; exact lookup_addValueAt_self _ p _ h

/-- an earlier pair stays resolvable when a later insertion diverges from it by key -/
theorem rebuild_frame_partial (d : AMap Node) (ps qs : List String) (v : Node) (h : Diverge ps qs) :
    lookupSegs (addAtSegs d ps v) qs = lookupSegs d qs := lookupSegs_addAtSegs_frame ps qs d v h

def exDoc : AMap Node := [("a", .list [.list [.leaf ⟨"int", "1"⟩, .leaf Scalar.null], .cont [("x", .leaf ⟨"string", "s"⟩)]]), ("b", .cont [])]
theorem nonvacuous_flatten : (flatten exDoc).map (·.1) = ["a[0][0]", "a[0][1]", "a[1].x"] := by decide

end Ytk.C02
