/-
  C17 — Kubernetes manifests: data and surrounding fields survive load/edit/save.

  All statements are about `Ytk.K8s` (lean/YtkModel/K8s.lean), the definitions the driver runs.
  The YAML text of the manifest body is external: the "file" is the `Val` handed to / returned
  by the YAML codec, i.e. every statement below is under the contract
  `yamlDecode (yamlEncode v) = v` for the written bodies (validated by the harness only).
  The embedded text codec is a parameter `Codec`; its round-trip contract is a hypothesis.

  `WFm m` = what `load` establishes and the facades keep: the three maps have unique sorted
  keys and (bk, tk) are the section names `kind` prescribes.
-/
import YtkModel.Generated.Constants
import YtkProofs.K8s
import YtkProofs.GapK8s
import YtkProofs.Props
import YtkProofs.RebuildB
import YtkProofs.ValidB
import YtkProofs.Decisions
import YtkProofs.Decisions2

namespace Ytk.C17

/-! ## decision tables regenerated from the source (extract/tables2.go) -/
section DecisionTables2
open Ytk.TableT Ytk.K8s

/-- a codec that is never run: only the constructor of `Mode` matters for `Mode.fns` -/
def noCodec : Codec := ⟨fun _ => none, fun _ => none⟩

/-- (i) The wiring of the Document constructors (k8s.YamlDoc / JsonDoc / Properties) as regenerated
    from k8s/embedded.go IS the model's: which decoder and encoder constructor, with which item and which
    text codec; every pair is the pair behind one of the model's two modes, and the model's
    `decodeWith` / `encodeWith` run the decoder and the encoder of ONE codec on ONE item.  The
    os.OpenFile calls (flags, mode) and the step list of doc.Save are the model's, and with the flags
    regenerated for doc.Save a file holds exactly what Save wrote, whatever it held before — which is
    how `docSave` represents the file. -/
theorem k8s_embedded_table_matches_model :
    Generated.k8sDocCtors = K8s.docCtorTable ∧
    (∀ w ∈ Generated.k8sDocCtors, (w.decFn, w.encFn) ∈ [(Mode.text noCodec "").fns, Mode.props.fns]) ∧
    (∀ (c : Codec) (item : String) (m : Manifest) (n : Node),
      decodeWith (.text c item) m = decodeEmbeddedDoc c item m ∧
      encodeWith (.text c item) m n = encodeEmbeddedDoc c item m n ∧
      decodeWith .props m = .ok (decodeEmbeddedProps m) ∧
      encodeWith .props m n = .ok (encodeEmbeddedProps m n)) ∧
    Generated.openCalls = K8s.openTable ∧
    Generated.k8sSaveSteps = saveStepsM ∧ Generated.k8sSaveLoop = saveLoopM ∧ Generated.k8sSaveFinal = saveFinalM ∧
    (∀ (old : Option (List UInt8)) (new : List UInt8),
      fileAfterOpenWrite (flagsOf Generated.openCalls "k8s.doc.Save") old new = some new) :=
  ⟨by decide +kernel, by decide +kernel, mode_wiring, by decide +kernel, by decide +kernel, by decide +kernel,
   by decide +kernel,
   fun old new => fileAfterOpenWrite_trunc _ old new (by decide +kernel) (by decide +kernel) (by decide +kernel)⟩

/-- (ii) The rule of the property on the regenerated tables ("once edited and saved, reopens equal to
    the edited document"): YamlDoc and JsonDoc decode and encode the SAME item of the manifest with the
    decoder and the encoder of the SAME format — the pair the file-suffix tables of common.go (first
    batch) give one suffix; Properties uses the properties pair; doc.Save opens read-write, creating and
    TRUNCATING (a shorter document leaves no stale tail), mode 0644; it encodes into the manifest first,
    then opens, then writes the manifest, stops at the first error, and closes the file last. -/
theorem k8s_embedded_table_rule :
    (∀ w ∈ Generated.k8sDocCtors, w.manifest = "arg0" ∧
      ((w.decFn = "DecodeEmbeddedDoc" ∧ w.encFn = "EncodeEmbeddedDoc" ∧
        w.decArgs[0]? = some "arg1" ∧ w.encArgs[0]? = some "arg1" ∧
        (∃ r ∈ Generated.fileDecoders, some r.target = w.decArgs[1]? ∧
          some (lookupD Generated.fileEncoders "nil" r.key) = w.encArgs[1]?) ∧
        (∃ f ∈ codecFamilies, some f.2.1 = w.decArgs[1]? ∧ some f.2.2 = w.encArgs[1]?)) ∨
       (w.decFn = "DecodeEmbeddedProps" ∧ w.encFn = "EncodeEmbeddedProps" ∧ w.decArgs = [] ∧ w.encArgs = []))) ∧
    Generated.k8sDocCtors.map (·.ctor) = ["JsonDoc", "Properties", "YamlDoc"] ∧
    flagsOf Generated.openCalls "k8s.doc.Save" = ["O_CREATE", "O_RDWR", "O_TRUNC"] ∧
    (Generated.openCalls.find? (·.site == "k8s.doc.Save")).map (·.mode) = some 0o644 ∧
    flagsOf Generated.openCalls "k8s.builderImpl.Create" = ["O_CREATE", "O_RDWR"] ∧
    Generated.k8sSaveSteps.length = 3 ∧
    ((["return recv.enc(", "v1,v0=os.OpenFile(", "_,v0=recv.m.WriteTo("].zip Generated.k8sSaveSteps).all
      fun p => p.1.isPrefixOf p.2) = true ∧
    Generated.k8sSaveLoop = ["if v0=step();v0!=nil{return v0}"] ∧
    Generated.k8sSaveFinal = "return v1.Close()" := by
  decide +kernel

/-- (iii) the tables are not empty: three constructors, three open calls at distinct sites, three steps -/
theorem nonvacuous_k8s_embedded_tables :
    Generated.k8sDocCtors.length = 3 ∧ (Generated.k8sDocCtors.map (·.ctor)).Nodup ∧
    Generated.openCalls.length = 3 ∧ (Generated.openCalls.map (·.site)).Nodup ∧
    (∀ c ∈ Generated.openCalls, c.flags.Nodup ∧ c.flags ≠ []) ∧ Generated.k8sSaveSteps.length = 3 ∧
    fileAfterOpenWrite (flagsOf Generated.openCalls "k8s.builderImpl.Create") (some [1, 2, 3]) [9] = some [9, 2, 3] := by
  decide +kernel

end DecisionTables2

open Ytk.K8s

/-! ## decision tables regenerated from the source (extract/tables.go) -/
section DecisionTables
open Ytk.TableT

/-- a manifest of the row's kind with one item `b` in the row's binary section and one item `t` in its
    text section, both holding the text `aGk=` (standard base64 of the bytes `hi`) -/
def sampleManifest (r : KindRow) : Val :=
  .obj (AMap.ofList [("kind", strVal r.kind), ("metadata", strVal "m"),
    (r.binKey, .obj [("b", strVal "aGk=")]), (r.textKey, .obj [("t", strVal "aGk=")])])

/-- the model's `load` / `writeTo` on the sample: the keys are the row's, the binary item is base64-DEcoded
    and written back ENcoded into the binary section, the text item is taken and written verbatim -/
def sampleBehaves (r : KindRow) : Bool :=
  match load (sampleManifest r) with
  | .ok m =>
    m.bk == r.binKey && m.tk == r.textKey &&
    m.bin == [("b", [104, 105])] && m.str == [("t", "aGk=")] &&
    (match (writeTo m).2 with
     | .obj doc => sectionOf doc r.binKey == some [("b", strVal "aGk=")] &&
                   sectionOf doc r.textKey == some [("t", strVal "aGk=")]
     | _ => false)
  | _ => false

/-- (i) The kind chain of ManifestFromBytes as regenerated from k8s/manifest.go IS the kind table of the
    model (same kinds, same binary / text section key for each, everything else an error), `kindKeys`
    equals the lookup in that table, and the model's `load` / `writeTo`, run on a manifest of every kind of
    the regenerated table, read and write the sections the table names. -/
theorem k8s_kinds_table_matches_model :
    Generated.k8sKinds.map (fun r => (r.kind, r.binKey, r.textKey)) = K8s.kindTable ∧
    Generated.k8sKindUnsupported = "error" ∧ Generated.k8sKindNonString = "error" ∧
    Generated.k8sKindMissing = "error" ∧
    (∀ doc, kindKeys doc =
      match AMap.get? doc "kind" with
      | some (.sc s) =>
        if s.ty = "string" then
          match K8s.kindTable.lookup s.text with
          | some p => .ok p
          | none => .err
        else .err
      | _ => .err) ∧
    (∀ r ∈ Generated.k8sKinds, sampleBehaves r = true) :=
  ⟨by decide +kernel, by decide +kernel, by decide +kernel, by decide +kernel, kindKeys_eq_table,
   by decide +kernel⟩

/-- (i) which section goes through base64: the regenerated table of dataHandler.afterLoad / beforeSave
    (function per key field, use of base64.StdEncoding in it) is the model's -/
theorem k8s_sections_table_matches_model : Generated.k8sSections = K8s.sectionTable := by decide +kernel

/-- (ii) the rule of the property on the regenerated tables: a Secret keeps binary items under `data` and
    text items under `stringData`, a ConfigMap binary items under `binaryData` and text items under
    `data`; the binary section — and only it — is base64-decoded on load and base64-encoded on save;
    exactly these two kinds are accepted; a missing, non-string or other kind is an error. -/
theorem k8s_table_rule :
    Generated.k8sKinds = [⟨"ConfigMap", "binaryData", "data"⟩, ⟨"Secret", "data", "stringData"⟩] ∧
    (∀ s ∈ Generated.k8sSections, (s.loadBase64 = true ↔ s.field = "bk") ∧ (s.saveBase64 = true ↔ s.field = "bk")) ∧
    Generated.k8sSections.map (·.field) = ["bk", "tk"] ∧
    Generated.k8sKindUnsupported = "error" ∧ Generated.k8sKindNonString = "error" ∧
    Generated.k8sKindMissing = "error" ∧
    (∀ r ∈ Generated.k8sKinds,
      r.binKey ∈ [Generated.const? "k8s.keyData", Generated.const? "k8s.keyBinaryData"].filterMap id ∧
      r.textKey ∈ [Generated.const? "k8s.keyData", Generated.const? "k8s.keyStringData"].filterMap id) := by
  decide +kernel

/-- (iii) the tables are not empty, the kinds are distinct, and no kind uses one section for both -/
theorem nonvacuous_k8s_tables :
    Generated.k8sKinds.length = 2 ∧ (Generated.k8sKinds.map (·.kind)).Nodup ∧
    (∀ r ∈ Generated.k8sKinds, r.binKey ≠ r.textKey) ∧ Generated.k8sSections.length = 2 := by
  decide +kernel

end DecisionTables

/-- base64: decoding an encoding gives the bytes back, for every byte string -/
theorem b64_roundtrip (bs : Bytes) : b64dec (b64enc bs) = some bs := b64dec_b64enc bs

/-- unsupported or malformed manifests yield errors (or a manifest), never a panic:
    for every decoded YAML value whatsoever -/
theorem load_no_panic (v : Val) : load v ≠ .panic := load_ne_panic v

/-- a loaded manifest is well formed -/
theorem load_wf (doc : AMap Val) (hd : AMap.Sorted doc) (m : Manifest) (h : load (.obj doc) = .ok m) : WFm m :=
  K8s.load_wf hd h

/-- the kind decides the sections: Secret ↦ (data, stringData), ConfigMap ↦ (binaryData, data);
    anything else is an error -/
theorem kind_dispatch (doc : AMap Val) (bk tk : String) (h : kindKeys doc = .ok (bk, tk)) :
    (AMap.get? doc "kind" = some (strVal "Secret") ∧ bk = "data" ∧ tk = "stringData") ∨
    (AMap.get? doc "kind" = some (strVal "ConfigMap") ∧ bk = "binaryData" ∧ tk = "data") := by
  unfold kindKeys at h
  split at h
  · cases h
  · rename_i s hs
    split at h
    · rename_i hty
      split at h
      · rename_i ht
        cases h
        refine Or.inl ⟨?_, rfl, rfl⟩
        rw [hs]; cases s; simp_all [strVal]
      · split at h
        · rename_i ht
          cases h
          refine Or.inr ⟨?_, rfl, rfl⟩
          rw [hs]; cases s; simp_all [strVal]
        · cases h
    · cases h
  · cases h

/-- reload(WriteTo(load m)) has the same item maps: text items as text, binary items
    byte-for-byte (through `b64_roundtrip`), in the sections the kind prescribes -/
theorem load_save_items (m : Manifest) (h : WFm m) :
    ∃ m', load (writeTo m).2 = .ok m' ∧ m'.str = m.str ∧ m'.bin = m.bin ∧ m'.bk = m.bk ∧ m'.tk = m.tk :=
  ⟨_, load_writeTo h, rfl, rfl, rfl, rfl⟩

/-- every field outside the two data sections is written back unchanged -/
theorem save_other_fields (m : Manifest) (h : WFm m) (k : String) (hb : k ≠ m.bk) (ht : k ≠ m.tk) :
    (match (writeTo m).2 with | .obj d => AMap.get? d k | _ => none) = AMap.get? m.doc k :=
  beforeSave_other h hb ht

/-- the written sections: absent when there is no item, else exactly the items
    (binary ones base64-encoded strings, text ones strings) -/
theorem save_sections (m : Manifest) (h : WFm m) :
    AMap.get? (beforeSave m).doc m.bk =
      (if m.bin.isEmpty then none else some (.obj (m.bin.map (fun p => (p.1, strVal (b64enc p.2)))))) ∧
    AMap.get? (beforeSave m).doc m.tk =
      (if m.str.isEmpty then none else some (.obj (m.str.map (fun p => (p.1, strVal p.2))))) := by
  obtain ⟨hne, _, _⟩ := kindKeys_ne h.keys
  have hs1 := sorted_beforeSaveBinary h.doc_sorted m.bin m.bk
  simp only [beforeSave]
  constructor
  · rw [get?_beforeSaveString hs1, if_neg hne, get?_beforeSaveBinary h.doc_sorted, if_pos rfl]
  · rw [get?_beforeSaveString hs1, if_pos rfl]

/-- Update / Remove on the two facades are map update / delete -/
theorem update_remove_spec (m : Manifest) (h : WFm m) (k k' v : String) (b : Bytes) :
    strGet (strUpdate m k v) k' = (if k' = k then some v else strGet m k') ∧
    strGet (strRemove m k) k' = (if k' = k then none else strGet m k') ∧
    binGet (binUpdate m k b) k' = (if k' = k then some b else binGet m k') ∧
    binGet (binRemove m k) k' = (if k' = k then none else binGet m k') ∧
    binGet (strUpdate m k v) k' = binGet m k' ∧ binGet (strRemove m k) k' = binGet m k' ∧
    strGet (binUpdate m k b) k' = strGet m k' ∧ strGet (binRemove m k) k' = strGet m k' :=
  ⟨get?_insert' _ _ _ _, get?_erase' h.str_sorted _ _, get?_insert' _ _ _ _, get?_erase' h.bin_sorted _ _,
   rfl, rfl, rfl, rfl⟩

/-- List() is the key set: a key is listed iff Get finds it -/
theorem list_iff_get (m : Manifest) (k : String) : k ∉ strList m → strGet m k = none :=
  get?_none_of_not_mem_keys

/-- item updates and removals made through the data interfaces are exactly what a reload observes -/
theorem reload_observes (m : Manifest) (h : WFm m) (es : List Edit) :
    ∃ m', load (writeTo (applyEdits m es)).2 = .ok m' ∧
      m'.str = (applyEdits m es).str ∧ m'.bin = (applyEdits m es).bin :=
  ⟨_, load_writeTo (wf_applyEdits h es), rfl, rfl⟩

/-- …and a second load/save cycle changes nothing any more -/
theorem save_load_save (m : Manifest) (h : WFm m) :
    ∃ m', load (writeTo m).2 = .ok m' ∧ WFm m' ∧ (writeTo m').1.str = m.str ∧ (writeTo m').1.bin = m.bin :=
  ⟨_, load_writeTo h, wf_beforeSave h, rfl, rfl⟩

/-- the codec contract for one document: what `enc` writes, `dec` reads back -/
def CodecRoundTrips (c : Codec) (cb : Node) : Prop :=
  ∃ t, c.enc cb = some t ∧ c.dec t = some cb

/-- an embedded YAML/JSON document, edited and saved, reopens equal to the edited document -/
theorem embedded_roundtrip (c : Codec) (item : String) (d : Doc) (h : WFm d.m)
    (hc : CodecRoundTrips c d.cb) :
    ∃ d2 file d3, docSave (.text c item) d = .ok (d2, file) ∧
      openDoc (.text c item) file = .ok d3 ∧ d3.cb = d.cb := by
  obtain ⟨t, he, hd⟩ := hc
  have hw : WFm (strUpdate d.m item t) :=
    ⟨h.doc_sorted, AMap.sorted_insert h.str_sorted _ _, h.bin_sorted, h.keys⟩
  have hsave : docSave (.text c item) d =
      .ok (⟨d.cb, (writeTo (strUpdate d.m item t)).1⟩, (writeTo (strUpdate d.m item t)).2) := by
    simp only [docSave, encodeWith, encodeEmbeddedDoc, he]
  refine ⟨_, _, ⟨d.cb, ⟨(beforeSave (strUpdate d.m item t)).doc, (strUpdate d.m item t).str,
    (strUpdate d.m item t).bin, (strUpdate d.m item t).bk, (strUpdate d.m item t).tk⟩⟩, hsave, ?_, rfl⟩
  rw [openDoc, load_writeTo hw]
  simp only [decodeWith, decodeEmbeddedDoc, strGet, strUpdate, AMap.get?_insert_self, hd]

/-- …with every other string item, every binary item and every non-data field untouched -/
theorem embedded_frame (c : Codec) (item : String) (d : Doc) (h : WFm d.m) (t : String)
    (he : c.enc d.cb = some t) :
    ∃ d2 file m', docSave (.text c item) d = .ok (d2, file) ∧ load file = .ok m' ∧
      (∀ k, k ≠ item → strGet m' k = strGet d.m k) ∧ strGet m' item = some t ∧ m'.bin = d.m.bin ∧
      (∀ k, k ≠ d.m.bk → k ≠ d.m.tk → AMap.get? m'.doc k = AMap.get? d.m.doc k) := by
  have hw : WFm (strUpdate d.m item t) :=
    ⟨h.doc_sorted, AMap.sorted_insert h.str_sorted _ _, h.bin_sorted, h.keys⟩
  have hsave : docSave (.text c item) d =
      .ok (⟨d.cb, (writeTo (strUpdate d.m item t)).1⟩, (writeTo (strUpdate d.m item t)).2) := by
    simp only [docSave, encodeWith, encodeEmbeddedDoc, he]
  refine ⟨_, _, _, hsave, load_writeTo hw, ?_, ?_, rfl, ?_⟩
  · intro k hk
    exact AMap.get?_insert_ne _ _ hk
  · exact AMap.get?_insert_self _ _ _
  · intro k hb ht
    exact beforeSave_other hw hb ht

/-- embedded properties: after Save the string-data section is exactly the flattened document
    (D23: keys removed from the document are removed from the manifest), binary items and
    non-data fields untouched, and a reload sees exactly that -/
theorem embedded_props_exact (d : Doc) (h : WFm d.m) (kvs : AMap Node) (hcb : d.cb = .cont kvs) :
    ∃ d2 file m', docSave .props d = .ok (d2, file) ∧ load file = .ok m' ∧
      m'.str = (flattenMap kvs).map (fun p => (p.1, p.2.text)) ∧ m'.bin = d.m.bin ∧
      (∀ k, k ≠ d.m.bk → k ≠ d.m.tk → AMap.get? m'.doc k = AMap.get? d.m.doc k) := by
  obtain ⟨e1, e2, e3, e4, e5⟩ := encodeEmbeddedProps_spec d.m h.str_sorted kvs
  have hw : WFm (encodeEmbeddedProps d.m (.cont kvs)) := by
    refine ⟨e3 ▸ h.doc_sorted, ?_, e2 ▸ h.bin_sorted, ?_⟩
    · rw [e1]; exact sorted_map_val _ (AMap.sorted_ofList _)
    · rw [e3, e4, e5]; exact h.keys
  have hsave : docSave .props d =
      .ok (⟨d.cb, (writeTo (encodeEmbeddedProps d.m (.cont kvs))).1⟩,
        (writeTo (encodeEmbeddedProps d.m (.cont kvs))).2) := by
    simp only [docSave, encodeWith, hcb]
  refine ⟨_, _, _, hsave, load_writeTo hw, e1, e2, ?_⟩
  · intro k hb ht
    have := beforeSave_other hw (k := k) (by rw [e4]; exact hb) (by rw [e5]; exact ht)
    rw [this, e3]

/-- a document representable as properties: valid, path-safe keys, every leaf a string, no empty
    list / container below the root -/
structure Representable (kvs : AMap Node) : Prop where
  valid : (Node.cont kvs).Valid
  safe : (Node.cont kvs).SafeKeys
  noEmpty : ∀ p ∈ kvs, p.2.NoEmpty
  strings : ∀ s ∈ Node.leaves (.cont kvs), s.ty = "string"

/-- embedded properties round trip: in properties mode, for a representable document,
    reopen(Save(doc)) is the document.  (Save writes the flattened Go map as string items —
    `embedded_props_exact`; reopening inserts them with AddValueAt in key order; that this
    rebuilds the document is C02's rebuild theorem, `rebuild_flattenMap_exact`.)
    A document holding an empty list / container is not representable: `l: [[], true]` flattens
    to `l[1]` only and reopens as `l: [null, true]`; non-string leaves reopen as strings. -/
theorem embedded_props_roundtrip (d : Doc) (h : WFm d.m) (kvs : AMap Node) (hcb : d.cb = .cont kvs)
    (hr : Representable kvs) :
    ∃ d2 file d3, docSave .props d = .ok (d2, file) ∧ openDoc .props file = .ok d3 ∧ d3.cb = d.cb := by
  obtain ⟨e1, e2, e3, e4, e5⟩ := encodeEmbeddedProps_spec d.m h.str_sorted kvs
  have hw : WFm (encodeEmbeddedProps d.m (.cont kvs)) := by
    refine ⟨e3 ▸ h.doc_sorted, ?_, e2 ▸ h.bin_sorted, ?_⟩
    · rw [e1]; exact sorted_map_val _ (AMap.sorted_ofList _)
    · rw [e3, e4, e5]; exact h.keys
  have hsave : docSave .props d =
      .ok (⟨d.cb, (writeTo (encodeEmbeddedProps d.m (.cont kvs))).1⟩,
        (writeTo (encodeEmbeddedProps d.m (.cont kvs))).2) := by
    simp only [docSave, encodeWith, hcb]
  refine ⟨_, _, ⟨decodeEmbeddedProps ⟨(beforeSave (encodeEmbeddedProps d.m (.cont kvs))).doc,
      (encodeEmbeddedProps d.m (.cont kvs)).str, (encodeEmbeddedProps d.m (.cont kvs)).bin,
      (encodeEmbeddedProps d.m (.cont kvs)).bk, (encodeEmbeddedProps d.m (.cont kvs)).tk⟩,
    ⟨(beforeSave (encodeEmbeddedProps d.m (.cont kvs))).doc,
      (encodeEmbeddedProps d.m (.cont kvs)).str, (encodeEmbeddedProps d.m (.cont kvs)).bin,
      (encodeEmbeddedProps d.m (.cont kvs)).bk, (encodeEmbeddedProps d.m (.cont kvs)).tk⟩⟩, hsave, ?_, ?_⟩
  · rw [openDoc, load_writeTo hw]
    simp only [decodeWith]
  · simp only [decodeEmbeddedProps]
    rw [hcb, e1]
    congr 1
    have hmap : ((flattenMap kvs).map (fun p => (p.1, p.2.text))).map
        (fun p => (p.1, (⟨"string", p.2⟩ : Scalar))) = flattenMap kvs := by
      rw [List.map_map]
      conv => rhs; rw [← List.map_id (flattenMap kvs)]
      apply List.map_congr_left
      intro p hp
      have hp' : p ∈ flatten kvs := (mem_flattenMap_iff kvs hr.valid hr.safe p).mp hp
      have hty : p.2.ty = "string" := by
        apply hr.strings
        have hfv : (flatten kvs).map (·.2) = Node.leaves (.cont kvs) := by
          simpa [flatten, Node.leaves] using flattenKvs_values kvs ""
        rw [← hfv]
        exact List.mem_map.mpr ⟨p, hp', rfl⟩
      obtain ⟨k, ⟨ty, text⟩⟩ := p
      simp only at hty
      simp [hty]
    have := rebuild_flattenMap_exact kvs hr.valid hr.safe hr.noEmpty
    rw [← hmap] at this
    simpa [rebuild, List.foldl_map] using this

/-
  Hypotheses, not proved here (validated by the correspondence harness only):

  * the YAML codec contract for the manifest body (`decode (encode v) = v` on written bodies)
    and the embedded text codecs' contract (`CodecRoundTrips`).
-/

/-! ### non-vacuity -/

def exSecret : Val := .obj [
  ("data", .obj [("bin", strVal "AAH/"), ("empty", strVal "")]),
  ("kind", strVal "Secret"),
  ("metadata", .obj [("name", strVal "x")]),
  ("stringData", .obj [("n", .sc ⟨"int", "1"⟩), ("t", strVal "line1\nline2")])]

def exProps : AMap Node :=
  [("db", .cont [("hosts", .list [.leaf ⟨"string", "h1"⟩, .leaf ⟨"string", "h2"⟩]),
                 ("opts", .list [.cont [("k", .leaf ⟨"string", "v"⟩)], .list [.leaf ⟨"string", ""⟩]])]),
   ("name", .leaf ⟨"string", "x"⟩)]

/-- a document with lists, a container and a list inside a list is representable -/
theorem nonvacuous_representable : Representable exProps :=
  ⟨Node.validB_sound _ (by decide +kernel), Node.safeB_sound _ (by decide +kernel),
   noEmptyKvsB_sound _ (by decide +kernel), by decide +kernel⟩

/-- a concrete Secret loads: binary items decoded byte-exactly (incl. an empty one), a
    numeric-looking text item read as text -/
theorem nonvacuous_load :
    (load exSecret).map (fun m => (m.bin, m.str, m.bk, m.tk)) =
      .ok ([("bin", [0, 1, 255]), ("empty", [])], [("n", "1"), ("t", "line1\nline2")], "data", "stringData") := by
  decide

/-- RFC 4648 test vectors ("f", "fo", "foo", "foob") and rejected inputs -/
theorem nonvacuous_b64 :
    b64encL [102] = ['Z', 'g', '=', '='] ∧ b64encL [102, 111] = ['Z', 'm', '8', '='] ∧
    b64encL [102, 111, 111] = ['Z', 'm', '9', 'v'] ∧
    b64encL [102, 111, 111, 98] = ['Z', 'm', '9', 'v', 'Y', 'g', '=', '='] ∧
    b64decL ['Z', 'm', '9', 'v', '\n', 'Y', 'g', '=', '='] = some [102, 111, 111, 98] ∧
    b64decL ['Z', 'g'] = none ∧ b64decL ['Z', 'g', '=', '=', 'A'] = none ∧ b64decL ['Z', '$', '=', '='] = none := by
  decide

/-- malformed manifests are errors: non-string kind, unsupported kind, missing kind,
    non-string binary value, bad base64, non-mapping root -/
theorem nonvacuous_errors :
    load (.obj [("kind", .sc ⟨"int", "1"⟩)]) = .err ∧
    load (.obj [("kind", strVal "Pod")]) = .err ∧
    load (.obj [("x", strVal "y")]) = .err ∧
    load (.obj [("data", .obj [("a", .sc ⟨"int", "1"⟩)]), ("kind", strVal "Secret")]) = .err ∧
    load (.obj [("data", .obj [("a", strVal "$$$")]), ("kind", strVal "Secret")]) = .err ∧
    load (.arr []) = .err := by
  decide

/-- Tie to the source text (regenerated on every run): the section keys the model uses. -/
theorem source_constants :
    Generated.const? "k8s.keyData" = some "data" ∧
    Generated.const? "k8s.keyStringData" = some "stringData" ∧
    Generated.const? "k8s.keyBinaryData" = some "binaryData" := by decide

/-! ### round 8 (lean/CLAUSES_B.md, clauses C17.1, C17.4, C17.5, C17.7) -/

/-- C17.1 end to end, from the RAW decoded manifest to the value handed back to the YAML encoder
    (`save_other_fields` / `load_save_items` speak about an arbitrary well-formed `Manifest`; that a LOADED
    manifest's document is the input was not stated): for every decoded manifest `doc` (a Go map) that
    loads, the written value is a mapping `out` such that every field outside the two data sections is
    the input's field, and loading `out` again gives the same item maps in the same sections. -/
theorem load_write_roundtrip (doc : AMap Val) (hd : AMap.Sorted doc) (m : Manifest)
    (h : load (.obj doc) = .ok m) :
    m.doc = doc ∧
    ∃ out m', (writeTo m).2 = .obj out ∧ load (.obj out) = .ok m' ∧
      m'.str = m.str ∧ m'.bin = m.bin ∧ m'.bk = m.bk ∧ m'.tk = m.tk ∧
      ∀ k, k ≠ m.bk → k ≠ m.tk → AMap.get? out k = AMap.get? doc k := by
  have hw := K8s.load_wf hd h
  have hdoc := load_doc h
  refine ⟨hdoc, (beforeSave m).doc, _, rfl, load_writeTo hw, rfl, rfl, rfl, rfl, ?_⟩
  intro k hb ht
  have := beforeSave_other hw hb ht
  simpa [writeTo, hdoc] using this

/-- C17.4: `List()` is exactly the key set — a key is listed IFF `Get` finds it, on both facades
    (`list_iff_get` above is one direction only) -/
theorem list_mem_iff_get (m : Manifest) (k : String) :
    (k ∈ strList m ↔ (strGet m k).isSome = true) ∧ (k ∈ binList m ↔ (binGet m k).isSome = true) :=
  ⟨mem_keys_iff_get? m.str k, mem_keys_iff_get? m.bin k⟩

/-- C17.7 beyond `load`: opening an embedded document and saving one never panic either — any mode, any
    codec (also one that rejects everything), any file content, any document -/
theorem openDoc_no_panic (mode : Mode) (file : Val) : openDoc mode file ≠ .panic := openDoc_ne_panic mode file

theorem docSave_no_panic (mode : Mode) (d : Doc) : docSave mode d ≠ .panic := docSave_ne_panic mode d

/-- C17.5: `Representable` cannot be dropped from `embedded_props_roundtrip` — the witness the comment
    there describes, now proved: the document `l: [[], true]` (an empty list at a non-last index) is saved
    as the single item `l[1]=true` and reopens as `l: [null, true]`. -/
theorem embedded_props_needs_representable_counterexample :
    let m : Manifest := ⟨[("kind", strVal "Secret")], [], [], "data", "stringData"⟩
    let cb : Node := .cont [("l", .list [.list [], .leaf ⟨"string", "true"⟩])]
    load (.obj [("kind", strVal "Secret")]) = .ok m ∧ WFm m ∧
    ∃ d2 file d3, docSave .props ⟨cb, m⟩ = .ok (d2, file) ∧ openDoc .props file = .ok d3 ∧
      d3.m.str = [("l[1]", "true")] ∧
      d3.cb = .cont [("l", .list [Node.null, .leaf ⟨"string", "true"⟩])] ∧ d3.cb ≠ cb := by
  intro m cb
  have hl : load (.obj [("kind", strVal "Secret")]) = .ok m := by decide +kernel
  refine ⟨hl, K8s.load_wf (.cons (by intro p hp; cases hp) .nil) hl, ?_⟩
  have key : (match docSave .props ⟨cb, m⟩ with
      | .ok (_, file) =>
        (match openDoc .props file with
          | .ok d3 => decide (d3.m.str = [("l[1]", "true")]) &&
              decide (d3.cb = .cont [("l", .list [Node.null, .leaf ⟨"string", "true"⟩])])
          | _ => false)
      | _ => false) = true := by decide +kernel
  cases hs : docSave .props ⟨cb, m⟩ with
  | ok p =>
    obtain ⟨d2, file⟩ := p
    rw [hs] at key
    cases ho : openDoc .props file with
    | ok d3 =>
      simp only [ho, Bool.and_eq_true, decide_eq_true_eq] at key
      refine ⟨d2, file, d3, rfl, ho, key.1, key.2, ?_⟩
      rw [key.2]
      decide
    | err => simp [ho] at key
    | panic => simp [ho] at key
  | err => simp [hs] at key
  | panic => simp [hs] at key

/-! ### round 8, cross-property: properties-mode reopen IS C16's FromProperties -/

/-- the string items of a manifest as a flat map of string scalars (what magiconair would hand to C16) -/
def strItems (m : Manifest) : AMap Scalar := m.str.map fun p => (p.1, (⟨"string", p.2⟩ : Scalar))

/-- `DecodeEmbeddedProps` (this property's model) is literally `FromProperties` (C16's model) on the
    string items: the same `AddValueAt` loop in key order -/
theorem decodeEmbeddedProps_eq_fromProperties (m : Manifest) :
    decodeEmbeddedProps m = .cont (Props.fromProperties (strItems m)) := by
  simp only [decodeEmbeddedProps, Props.fromProperties, Props.fromPropertiesList, strItems, List.foldl_map]

/-- hence C16's exactness theorem applies to what a k8s properties document reopens as: when no item
    key is a dotted prefix of another (and the keys are path-safe), the reopened document's flattened
    leaves are EXACTLY the string items — every item, as a string, nothing else.  (The converse round
    trip, document → items → document, is `embedded_props_roundtrip`.) -/
theorem embedded_props_open_flatten (m : Manifest) (h : WFm m)
    (hk : ∀ p ∈ strItems m, Props.KeyOk p.1) (hpf : Props.PrefixFree (strItems m)) :
    ∃ kvs, decodeEmbeddedProps m = .cont kvs ∧ flattenMap kvs = strItems m :=
  ⟨_, decodeEmbeddedProps_eq_fromProperties m,
    Props.flattenMap_fromProperties (sorted_map_val _ h.str_sorted) hpf
      (fun p hp s hs => (hk p hp s hs).1) (fun p hp s hs => (hk p hp s hs).2)⟩

/-- non-vacuity: items `a.b=1`, `a.c=x`, `k=` — path-safe, prefix-free; reopened as `{a: {b: 1, c: x}, k: ""}` -/
theorem nonvacuous_embedded_props_open :
    let m : Manifest := ⟨[("kind", strVal "Secret")], [("a.b", "1"), ("a.c", "x"), ("k", "")], [], "data", "stringData"⟩
    (∀ p ∈ strItems m, Props.KeyOk p.1) ∧ Props.PrefixFree (strItems m) ∧
    decodeEmbeddedProps m = .cont [("a", .cont [("b", .leaf ⟨"string", "1"⟩), ("c", .leaf ⟨"string", "x"⟩)]),
      ("k", .leaf ⟨"string", ""⟩)] := by
  intro m
  refine ⟨?_, ?_, by decide +kernel⟩
  · intro p hp s hs; revert s hs; revert p hp; decide +kernel
  · intro p hp q hq; revert q hq; revert p hp; decide +kernel

end Ytk.C17
