/-
  C17 — Kubernetes manifests: data and surrounding fields survive load/edit/save.
-/
import YtkModel.K8s

namespace Ytk.C17

end Ytk.C17
