/-
  C10 — JSON Pointer (RFC 6901): parse/serialise round trips, rejection, Parent/LastSegment,
  evaluation and its trail.

  All definitions are those of `YtkModel/Pointer.lean`, which the driver executes:
  `ptrParse`/`ptrString` on runes (`List Char`), `parseS`/`stringS` their `String` wrappers,
  `eval` = Path.Eval, `getTok`/`trailTok` = the reference walk (object member by exact name,
  array element by canonical index).  Every model function is total, which is the model-side
  content of "never panics"; on the implementation it is checked by the harness under recover.

  Evaluation is compared on pointers whose tokens satisfy `tokOk` (DESIGN.md, C10 domain):
  a numeral that `strconv.Atoi` accepts with a non-negative value must be the canonical
  decimal (`01`, `+1`, `-0` are accepted as indices by the implementation; the property does
  not speak about them), and no token ends in an index group `[n]` (D26 invariant).
-/
import YtkProofs.Pointer
import YtkProofs.FuncsPtr

namespace Ytk.C10
open Ytk.Ptr

/-- Any sequence of reference tokens, whatever characters they contain, survives
    serialise-then-parse unchanged (runes). -/
theorem parse_string (toks : List (List Char)) : ptrParse (ptrString toks) = some toks :=
  ptrParse_ptrString toks

/-- … the same for the `String` functions the driver runs. -/
theorem parse_string_S (toks : Path) : parseS (stringS toks) = some toks := by
  simp only [parseS, stringS, String.toList_ofList, ptrParse_ptrString, Option.map_some, List.map_map]
  congr 1
  induction toks with
  | nil => rfl
  | cons t ts ih => simp

/-- Every string of the RFC 6901 grammar survives parse-then-serialise unchanged. -/
theorem string_parse (s : List Char) (h : rfc6901 s = true) : (ptrParse s).map ptrString = some s :=
  ptrString_ptrParse h

theorem string_parse_S (s : String) (h : rfc6901 s.toList = true) : (parseS s).map stringS = some s := by
  have := ptrString_ptrParse h
  cases hp : ptrParse s.toList with
  | none => rw [hp] at this; cases this
  | some toks =>
    rw [hp] at this
    simp only [Option.map_some, Option.some.injEq] at this
    simp only [parseS, hp, Option.map_some, stringS, List.map_map, Option.some.injEq]
    have hm : List.map (String.toList ∘ String.ofList) toks = toks := by
      induction toks with
      | nil => rfl
      | cons t ts ih => simp
    rw [hm, this, String.ofList_toList]

/-- A non-empty string not starting with '/' is rejected … -/
theorem parse_reject (s : List Char) (h1 : s ≠ []) (h2 : s.head? ≠ some '/') : ptrParse s = none := by
  cases s with
  | nil => exact absurd rfl h1
  | cons c r =>
    have : c ≠ '/' := fun e => h2 (by simp [e])
    simp [ptrParse, this]

/-- … and nothing else is: the empty string and every string starting with '/' parse. -/
theorem parse_accept (s : List Char) (h : s = [] ∨ s.head? = some '/') : (ptrParse s).isSome = true := by
  cases s with
  | nil => rfl
  | cons c r =>
    rcases h with h | h
    · cases h
    · have : c = '/' := by simpa using h
      simp [ptrParse, this]

/-- MustParsePath panics exactly when ParsePath returns an error. -/
theorem mustParse_panic_iff (s : List Char) : mustParse s = .panic ↔ ptrParse s = none := by
  unfold mustParse
  cases ptrParse s <;> simp

/-- Parent is the token list without its last token (empty for at most one token). -/
theorem parent_spec (p : Path) : parent p = p.dropLast := parent_eq_dropLast p

/-- LastSegment is the last token ("" for the empty path). -/
theorem lastSegment_spec (p : Path) : lastSegment p = p.getLast?.getD "" := by
  unfold lastSegment
  cases p.getLast? <;> rfl

/-- a path is its parent followed by its last segment -/
theorem parent_lastSegment (p : Path) (h : p ≠ []) : parent p ++ [lastSegment p] = p := by
  rw [parent_spec, lastSegment_spec, List.getLast?_eq_some_getLast h]
  exact List.dropLast_concat_getLast h

/-- Eval's node is the reference evaluation: object members by name, array elements by
    canonical index, `none` if any step is missing. -/
theorem eval_spec (p : Path) (d : Node) (h : ∀ t ∈ p, tokOk t = true) : (eval p d).2 = getTok d p := by
  rw [eval_snd]; exact evalLoop_snd p d h

/-- When the pointer resolves, the last trail element is the addressed node. -/
theorem eval_trail (p : Path) (d n : Node) (h : (eval p d).2 = some n) : (eval p d).1.getLast? = some n := by
  cases p with
  | nil => simpa [eval] using h
  | cons t ts => exact evalLoop_last (t :: ts) d n (by simp) h

/-- The trail is the list of nodes visited (for a non-empty pointer): as long as the reference
    walk proceeds, and one node per token when the pointer resolves. -/
theorem eval_trail_spec (p : Path) (d : Node) (hp : p ≠ []) (h : ∀ t ∈ p, tokOk t = true) :
    (eval p d).1 = trailTok d p := by
  cases p with
  | nil => exact absurd rfl hp
  | cons t ts => exact evalLoop_fst (t :: ts) d h

theorem eval_trail_length (p : Path) (d n : Node) (hp : p ≠ []) (h : (eval p d).2 = some n) :
    (eval p d).1.length = p.length := by
  cases p with
  | nil => exact absurd rfl hp
  | cons t ts => exact evalLoop_length (t :: ts) d n h

/-- The empty pointer addresses the whole document. -/
theorem eval_root (d : Node) : eval [] d = ([d], some d) := rfl

/-! ## non-vacuity -/

def exDoc : Node :=
  .cont [("a", .list [.cont [("b", .leaf ⟨"int", "1"⟩)], .leaf ⟨"string", "s"⟩]), ("m~n", .leaf Scalar.null)]

/-- the escaping-order example of the RFC (`~01` is `~1`, not `/`), empty tokens, multi-byte runes -/
theorem nonvacuous_parse :
    parseS "/~01/a~1b//é𝄞/" = some ["~1", "a/b", "", "é𝄞", ""] ∧
    stringS ["~1", "a/b", "", "é𝄞", ""] = "/~01/a~1b//é𝄞/" ∧
    rfc6901 "/~01/a~1b//é𝄞/".toList = true ∧ rfc6901 "/~2".toList = false ∧ rfc6901 "a".toList = false := by
  decide

/-- D15's inputs: a non-index token on a list resolves to nothing (it was skipped), a negative
    index resolves to nothing (it panicked), and the tokens are in the compared domain. -/
theorem nonvacuous_eval :
    (eval ["a", "0", "b"] exDoc).2 = some (.leaf ⟨"int", "1"⟩) ∧
    (eval ["a", "x"] exDoc).2 = none ∧ (eval ["a", "x", "0", "b"] exDoc).2 = none ∧
    (eval ["a", "-1"] exDoc).2 = none ∧ (eval ["a", "2"] exDoc).2 = none ∧
    (["a", "0", "b", "x", "-1", "2", "m~n"].all tokOk) = true ∧
    tokOk "01" = false ∧ tokOk "-0" = false ∧ tokOk "+1" = false ∧ tokOk "k[0]" = false := by
  decide

end Ytk.C10

/-! ## gap7a: the hypotheses of `eval_spec` and `string_parse` are needed (proved counterexamples) -/
namespace Ytk.C10
open Ytk.Ptr

/-- `tokOk` cannot be dropped from `eval_spec`: (a) the non-canonical numeral `01` is accepted as index 1
    by `Path.Eval` (strconv.Atoi) while RFC 6901 has no such array index; (b) `+1` likewise; (c) under a
    container a token ending in an index group (`k[0]`) is read by `Child` as list access into member `k`,
    while the reference looks for a member literally named `k[0]`. -/
theorem eval_spec_needs_tokOk_counterexample :
    (eval ["01"] (.list [.leaf ⟨"int", "0"⟩, .leaf ⟨"int", "1"⟩])).2 = some (.leaf ⟨"int", "1"⟩) ∧
    getTok (.list [.leaf ⟨"int", "0"⟩, .leaf ⟨"int", "1"⟩]) ["01"] = none ∧
    (eval ["+1"] (.list [.leaf ⟨"int", "0"⟩, .leaf ⟨"int", "1"⟩])).2 = some (.leaf ⟨"int", "1"⟩) ∧
    getTok (.list [.leaf ⟨"int", "0"⟩, .leaf ⟨"int", "1"⟩]) ["+1"] = none ∧
    (eval ["k[0]"] (.cont [("k", .list [.leaf ⟨"int", "7"⟩])])).2 = some (.leaf ⟨"int", "7"⟩) ∧
    getTok (.cont [("k", .list [.leaf ⟨"int", "7"⟩])]) ["k[0]"] = none ∧
    tokOk "01" = false ∧ tokOk "+1" = false ∧ tokOk "k[0]" = false := by
  decide +kernel

/-- The grammar hypothesis of `string_parse` cannot be dropped: `/~2` and `/a~` parse (ParsePath keeps a
    `~` that is not followed by `0`/`1` literally, never an error) but serialise to a different string. -/
theorem string_parse_needs_grammar_counterexample :
    parseS "/~2" = some ["~2"] ∧ stringS ["~2"] = "/~02" ∧ rfc6901 "/~2".toList = false ∧
    parseS "/a~" = some ["a~"] ∧ stringS ["a~"] = "/a~0" ∧ rfc6901 "/a~".toList = false := by
  decide +kernel

/-- `eval_spec` and `eval_trail` together, as the statement reads: on in-scope tokens Eval returns the
    addressed node together with a trail whose last element is that node, or no node exactly when the
    reference walk finds a step missing. -/
theorem eval_node_and_trail (p : Path) (d : Node) (h : ∀ t ∈ p, tokOk t = true) :
    (∀ n, getTok d p = some n → (eval p d).2 = some n ∧ (eval p d).1.getLast? = some n) ∧
    (getTok d p = none → (eval p d).2 = none) := by
  refine ⟨fun n hn => ?_, fun hn => by rw [eval_spec p d h, hn]⟩
  have h2 : (eval p d).2 = some n := by rw [eval_spec p d h, hn]
  exact ⟨h2, eval_trail p d n h2⟩
/-! ## Translated functions (YtkModel/Generated/Funcs.lean, regenerated from the Go source on every
    run by extract/translate.go): the translation EQUALS the hand-written model, for all inputs.
    An edit of the Go function changes the regenerated definition and these stop checking. -/
end Ytk.C10

namespace Ytk.C10
open Ytk.Generated

theorem PropPath2Pointer_loop1_eq (p : List Ptr.PropSeg) (acc : String) :
    Funcs.PropPath2Pointer_loop1 (p.map Ptr.segToGo) acc
      = .ok (p.foldl (fun acc pc => acc ++ "/" ++ (if pc.isNum then toString pc.index else pc.value)) acc) := by
  induction p generalizing acc with
  | nil => simp [Funcs.PropPath2Pointer_loop1]
  | cons s r ih =>
    simp only [List.map_cons, Funcs.PropPath2Pointer_loop1, List.foldl_cons]
    cases h : s.isNum <;> simp [Ptr.segToGo, h, ih, Go.fmtD_nat, Go.fmtS, String.append_assoc]

/-- xform.PropPath2Pointer, as translated (its callee patch.MustParsePath is a parameter of the
    translation, instantiated with the model's parser): the model's `propPath2Pointer`, for all
    segment lists with non-negative indices (the model's index is a `Nat`). -/
theorem PropPath2Pointer_generated_eq_model (p : List Ptr.PropSeg) :
    Funcs.PropPath2Pointer Ptr.mustParseRes (p.map Ptr.segToGo)
      = (match Ptr.propPath2Pointer p with
         | .ok q => Go.Res.ok q
         | _ => Go.Res.panic) := by
  simp only [Funcs.PropPath2Pointer, PropPath2Pointer_loop1_eq, Go.Res.ok_bind, Ptr.propPath2Pointer, Ptr.mustParseRes]
  cases Ptr.parseS _ <;> simp

/-- patch.PathSegment.IsNumeric, as translated: (value, ok) is the model's `atoi` (all strings;
    strconv.Atoi is the GoPrelude primitive `Go.atoi`, proved equal to the model's `atoiC`) -/
theorem IsNumeric_generated_eq_model (t : String) :
    (if (Funcs.IsNumeric t).2 then some (Funcs.IsNumeric t).1 else none) = Ptr.atoi t := by
  rw [← Ptr.goAtoi_eq]
  simp [Funcs.IsNumeric]

/-- patch.Path.Parent, as translated: never panics and is the model's `parent` (all paths) -/
theorem PathParent_generated_eq_model (p : List String) : Funcs.PathParent p = .ok (Ptr.parent p) := by
  unfold Funcs.PathParent Ptr.parent
  by_cases h : p.length ≤ 1
  · have : Go.lenL p ≤ 1 := by simp only [Go.lenL]; omega
    simp [h, this]
  · have h1 : ¬ Go.lenL p ≤ 1 := by simp only [Go.lenL]; omega
    have h2 : Go.lenL p - 1 = ((p.length - 1 : Nat) : Int) := by simp only [Go.lenL]; omega
    simp [h, h1, h2, Go.sliceL_zero]

/-- patch.Path.LastSegment, as translated: never panics and is the model's `lastSegment` -/
theorem PathLastSegment_generated_eq_model (p : List String) :
    Funcs.PathLastSegment p = .ok (Ptr.lastSegment p) := by
  unfold Funcs.PathLastSegment Ptr.lastSegment
  rcases List.eq_nil_or_concat p with h | ⟨pre, c, h⟩
  · subst h; simp [Go.lenL_beq_zero]
  · subst h
    have h2 : Go.lenL (pre ++ [c]) - 1 = (pre.length : Int) := by simp [Go.lenL]
    simp [Go.lenL_beq_zero, h2, Go.index_append_length]

theorem PathString_loop2_eq (pre : List Char) : ∀ (suf : List Char) (sb : String) (fuel : Nat),
    suf.length + 1 ≤ fuel →
    Funcs.PathString_loop2 (pre ++ suf) fuel sb (pre.length : Int)
      = .ok (sb ++ String.ofList (Ptr.encTok suf), ((pre ++ suf).length : Int)) := by
  intro suf
  induction suf generalizing pre with
  | nil =>
    intro sb fuel hf
    cases fuel with
    | zero => omega
    | succ f => simp [Funcs.PathString_loop2, Go.lenL, Ptr.encTok]
  | cons c r ih =>
    intro sb fuel hf
    cases fuel with
    | zero => omega
    | succ f =>
      have hlt : (pre.length : Int) < Go.lenL (pre ++ c :: r) := by simp [Go.lenL]; omega
      have ih' := ih (pre ++ [c]) 
      simp only [List.append_assoc, List.singleton_append, List.length_append, List.length_singleton, Int.natCast_add, Int.natCast_one] at ih'
      simp only [Funcs.PathString_loop2, hlt, decide_true, if_true, Go.index_append_length, Go.Res.ok_bind]
      have hf' : r.length + 1 ≤ f := by simp at hf; omega
      by_cases h1 : c = '~'
      · subst h1
        simp [ih' _ f hf', Ptr.encTok, Ptr.encChar, String.append_assoc]
        apply String.toList_inj.mp; simp [String.toList_append]
      · by_cases h2 : c = '/'
        · subst h2
          simp [ih' _ f hf', Ptr.encTok, Ptr.encChar, String.append_assoc]
          apply String.toList_inj.mp; simp [String.toList_append]
        · simp [h1, h2, ih' _ f hf', Ptr.encTok, Ptr.encChar]
          apply String.toList_inj.mp; simp [String.toList_append]

theorem PathString_loop1_eq : ∀ (p : List String) (sb : String),
    Funcs.PathString_loop1 p sb = .ok (sb ++ String.ofList (Ptr.ptrString (p.map String.toList)))
  | [], sb => by simp [Funcs.PathString_loop1, Ptr.ptrString]
  | t :: ts, sb => by
    have h := PathString_loop2_eq [] t.toList (sb.push '/') (t.toList.length + 1) (Nat.le_refl _)
    simp only [List.nil_append, List.length_nil, Int.natCast_zero] at h
    have hl : (Go.lenL t.toList + 1).toNat = t.toList.length + 1 := by
      simp only [Go.lenL]; omega
    simp only [Funcs.PathString_loop1, Go.runes, hl, h, Go.Res.ok_bind, PathString_loop1_eq ts, List.map_cons, Ptr.ptrString]
    congr 1
    apply String.toList_inj.mp
    simp [String.toList_append, String.toList_push]

/-- patch.Path.String, as translated (range loop over the segments, index loop over the runes
    with fuel len(rps)+1): never panics, never runs out of fuel, and is the model's `stringS` -/
theorem PathString_generated_eq_model (p : List String) : Funcs.PathString p = .ok (Ptr.stringS p) := by
  unfold Funcs.PathString Ptr.stringS
  cases p with
  | nil => simp [Go.lenL_beq_zero, Ptr.ptrString]
  | cons t ts =>
    simp [Go.lenL_beq_zero, PathString_loop1_eq]

end Ytk.C10
