import YtkModel.Pointer
namespace Ytk.C10
end Ytk.C10
