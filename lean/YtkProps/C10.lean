/-
  C10 — JSON Pointer (RFC 6901): parse/serialise round trips, rejection, Parent/LastSegment,
  evaluation and its trail.

  All definitions are those of `YtkModel/Pointer.lean`, which the driver executes:
  `ptrParse`/`ptrString` on runes (`List Char`), `parseS`/`stringS` their `String` wrappers,
  `eval` = Path.Eval, `getTok`/`trailTok` = the reference walk (object member by exact name,
  array element by canonical index).  Every model function is total, which is the model-side
  content of "never panics"; on the implementation it is checked by the harness under recover.

  Evaluation is compared on pointers whose tokens satisfy `tokOk` (DESIGN.md, C10 domain):
  a numeral that `strconv.Atoi` accepts with a non-negative value must be the canonical
  decimal (`01`, `+1`, `-0` are accepted as indices by the implementation; the property does
  not speak about them), and no token ends in an index group `[n]` (D26 invariant).
-/
import YtkProofs.Pointer
import YtkProofs.FuncsPtr

namespace Ytk.C10
open Ytk.Ptr

/-- Any sequence of reference tokens, whatever characters they contain, survives
    serialise-then-parse unchanged (runes). -/
theorem parse_string (toks : List (List Char)) : ptrParse (ptrString toks) = some toks :=
  ptrParse_ptrString toks

/-- … the same for the `String` functions the driver runs. -/
theorem parse_string_S (toks : Path) : parseS (stringS toks) = some toks := by
  simp only [parseS, stringS, String.toList_ofList, ptrParse_ptrString, Option.map_some, List.map_map]
  congr 1
  induction toks with
  | nil => rfl
  | cons t ts ih => simp

/-- Every string of the RFC 6901 grammar survives parse-then-serialise unchanged. -/
theorem string_parse (s : List Char) (h : rfc6901 s = true) : (ptrParse s).map ptrString = some s :=
  ptrString_ptrParse h

theorem string_parse_S (s : String) (h : rfc6901 s.toList = true) : (parseS s).map stringS = some s := by
  have := ptrString_ptrParse h
  cases hp : ptrParse s.toList with
  | none => rw [hp] at this; cases this
  | some toks =>
    rw [hp] at this
    simp only [Option.map_some, Option.some.injEq] at this
    simp only [parseS, hp, Option.map_some, stringS, List.map_map, Option.some.injEq]
    have hm : List.map (String.toList ∘ String.ofList) toks = toks := by
      induction toks with
      | nil => rfl
      | cons t ts ih => simp
    rw [hm, this, String.ofList_toList]

/-- A non-empty string not starting with '/' is rejected … -/
theorem parse_reject (s : List Char) (h1 : s ≠ []) (h2 : s.head? ≠ some '/') : ptrParse s = none := by
  cases s with
  | nil => exact absurd rfl h1
  | cons c r =>
    have : c ≠ '/' := fun e => h2 (by simp [e])
    simp [ptrParse, this]

/-- … and nothing else is: the empty string and every string starting with '/' parse. -/
theorem parse_accept (s : List Char) (h : s = [] ∨ s.head? = some '/') : (ptrParse s).isSome = true := by
  cases s with
  | nil => rfl
  | cons c r =>
    rcases h with h | h
    · cases h
    · have : c = '/' := by simpa using h
      simp [ptrParse, this]

/-- MustParsePath panics exactly when ParsePath returns an error. -/
theorem mustParse_panic_iff (s : List Char) : mustParse s = .panic ↔ ptrParse s = none := by
  unfold mustParse
  cases ptrParse s <;> simp

/-- Parent is the token list without its last token (empty for at most one token). -/
theorem parent_spec (p : Path) : parent p = p.dropLast := parent_eq_dropLast p

/-- LastSegment is the last token ("" for the empty path). -/
theorem lastSegment_spec (p : Path) : lastSegment p = p.getLast?.getD "" := by
  unfold lastSegment
  cases p.getLast? <;> rfl

/-- a path is its parent followed by its last segment -/
theorem parent_lastSegment (p : Path) (h : p ≠ []) : parent p ++ [lastSegment p] = p := by
  rw [parent_spec, lastSegment_spec, List.getLast?_eq_some_getLast h]
  exact List.dropLast_concat_getLast h

/-- Eval's node is the reference evaluation: object members by name, array elements by
    canonical index, `none` if any step is missing. -/
theorem eval_spec (p : Path) (d : Node) (h : ∀ t ∈ p, tokOk t = true) : (eval p d).2 = getTok d p := by
  rw [eval_snd]; exact evalLoop_snd p d h

/-- When the pointer resolves, the last trail element is the addressed node. -/
theorem eval_trail (p : Path) (d n : Node) (h : (eval p d).2 = some n) : (eval p d).1.getLast? = some n := by
  cases p with
  | nil => simpa [eval] using h
  | cons t ts => exact evalLoop_last (t :: ts) d n (by simp) h

/-- The trail is the list of nodes visited (for a non-empty pointer): as long as the reference
    walk proceeds, and one node per token when the pointer resolves. -/
theorem eval_trail_spec (p : Path) (d : Node) (hp : p ≠ []) (h : ∀ t ∈ p, tokOk t = true) :
    (eval p d).1 = trailTok d p := by
  cases p with
  | nil => exact absurd rfl hp
  | cons t ts => exact evalLoop_fst (t :: ts) d h

theorem eval_trail_length (p : Path) (d n : Node) (hp : p ≠ []) (h : (eval p d).2 = some n) :
    (eval p d).1.length = p.length := by
  cases p with
  | nil => exact absurd rfl hp
  | cons t ts => exact evalLoop_length (t :: ts) d n h

/-- The empty pointer addresses the whole document. -/
theorem eval_root (d : Node) : eval [] d = ([d], some d) := rfl

/-! ## non-vacuity -/

def exDoc : Node :=
  .cont [("a", .list [.cont [("b", .leaf ⟨"int", "1"⟩)], .leaf ⟨"string", "s"⟩]), ("m~n", .leaf Scalar.null)]

/-- the escaping-order example of the RFC (`~01` is `~1`, not `/`), empty tokens, multi-byte runes -/
theorem nonvacuous_parse :
    parseS "/~01/a~1b//é𝄞/" = some ["~1", "a/b", "", "é𝄞", ""] ∧
    stringS ["~1", "a/b", "", "é𝄞", ""] = "/~01/a~1b//é𝄞/" ∧
    rfc6901 "/~01/a~1b//é𝄞/".toList = true ∧ rfc6901 "/~2".toList = false ∧ rfc6901 "a".toList = false := by
  decide

/-- D15's inputs: a non-index token on a list resolves to nothing (it was skipped), a negative
    index resolves to nothing (it panicked), and the tokens are in the compared domain. -/
theorem nonvacuous_eval :
    (eval ["a", "0", "b"] exDoc).2 = some (.leaf ⟨"int", "1"⟩) ∧
    (eval ["a", "x"] exDoc).2 = none ∧ (eval ["a", "x", "0", "b"] exDoc).2 = none ∧
    (eval ["a", "-1"] exDoc).2 = none ∧ (eval ["a", "2"] exDoc).2 = none ∧
    (["a", "0", "b", "x", "-1", "2", "m~n"].all tokOk) = true ∧
    tokOk "01" = false ∧ tokOk "-0" = false ∧ tokOk "+1" = false ∧ tokOk "k[0]" = false := by
  decide

end Ytk.C10

/-! ## gap7a: the hypotheses of `eval_spec` and `string_parse` are needed (proved counterexamples) -/
namespace Ytk.C10
open Ytk.Ptr

/-- `tokOk` cannot be dropped from `eval_spec`: (a) the non-canonical numeral `01` is accepted as index 1
    by `Path.Eval` (strconv.Atoi) while RFC 6901 has no such array index; (b) `+1` likewise; (c) under a
    container a token ending in an index group (`k[0]`) is read by `Child` as list access into member `k`,
    while the reference looks for a member literally named `k[0]`. -/
theorem eval_spec_needs_tokOk_counterexample :
    (eval ["01"] (.list [.leaf ⟨"int", "0"⟩, .leaf ⟨"int", "1"⟩])).2 = some (.leaf ⟨"int", "1"⟩) ∧
    getTok (.list [.leaf ⟨"int", "0"⟩, .leaf ⟨"int", "1"⟩]) ["01"] = none ∧
    (eval ["+1"] (.list [.leaf ⟨"int", "0"⟩, .leaf ⟨"int", "1"⟩])).2 = some (.leaf ⟨"int", "1"⟩) ∧
    getTok (.list [.leaf ⟨"int", "0"⟩, .leaf ⟨"int", "1"⟩]) ["+1"] = none ∧
    (eval ["k[0]"] (.cont [("k", .list [.leaf ⟨"int", "7"⟩])])).2 = some (.leaf ⟨"int", "7"⟩) ∧
    getTok (.cont [("k", .list [.leaf ⟨"int", "7"⟩])]) ["k[0]"] = none ∧
    tokOk "01" = false ∧ tokOk "+1" = false ∧ tokOk "k[0]" = false := by
  decide +kernel

/-- The grammar hypothesis of `string_parse` cannot be dropped: `/~2` and `/a~` parse (ParsePath keeps a
    `~` that is not followed by `0`/`1` literally, never an error) but serialise to a different string. -/
theorem string_parse_needs_grammar_counterexample :
    parseS "/~2" = some ["~2"] ∧ stringS ["~2"] = "/~02" ∧ rfc6901 "/~2".toList = false ∧
    parseS "/a~" = some ["a~"] ∧ stringS ["a~"] = "/a~0" ∧ rfc6901 "/a~".toList = false := by
  decide +kernel

/-- `eval_spec` and `eval_trail` together, as the statement reads: on in-scope tokens Eval returns the
    addressed node together with a trail whose last element is that node, or no node exactly when the
    reference walk finds a step missing. -/
theorem eval_node_and_trail (p : Path) (d : Node) (h : ∀ t ∈ p, tokOk t = true) :
    (∀ n, getTok d p = some n → (eval p d).2 = some n ∧ (eval p d).1.getLast? = some n) ∧
    (getTok d p = none → (eval p d).2 = none) := by
  refine ⟨fun n hn => ?_, fun hn => by rw [eval_spec p d h, hn]⟩
  have h2 : (eval p d).2 = some n := by rw [eval_spec p d h, hn]
  exact ⟨h2, eval_trail p d n h2⟩
/-! ## Translated functions (YtkModel/Generated/Funcs.lean, regenerated from the Go source on every
    run by extract/translate.go): the translation EQUALS the hand-written model, for all inputs.
    An edit of the Go function changes the regenerated definition and these stop checking. -/
end Ytk.C10

namespace Ytk.C10
open Ytk.Generated

theorem PropPath2Pointer_loop1_eq (p : List Ptr.PropSeg) (acc : String) :
    Funcs.PropPath2Pointer_loop1 (p.map Ptr.segToGo) acc
      = .ok (p.foldl (fun acc pc => acc ++ "/" ++ (if pc.isNum then toString pc.index else pc.value)) acc) := by
  induction p generalizing acc with
  | nil => simp [Funcs.PropPath2Pointer_loop1]
  | cons s r ih =>
    simp only [List.map_cons, Funcs.PropPath2Pointer_loop1, List.foldl_cons]
    cases h : s.isNum <;> simp [Ptr.segToGo, h, ih, Go.fmtD_nat, Go.fmtS, String.append_assoc]

/-- xform.PropPath2Pointer, as translated, with its callee patch.MustParsePath (a parameter of the
    translation) instantiated with the MODEL's parser — a lemma; the property theorem
    `PropPath2Pointer_generated_eq_model` at the end of this file instantiates the parameter with the
    TRANSLATED `MustParsePath`. -/
theorem PropPath2Pointer_param_eq_model (p : List Ptr.PropSeg) :
    Funcs.PropPath2Pointer Ptr.mustParseRes (p.map Ptr.segToGo)
      = (match Ptr.propPath2Pointer p with
         | .ok q => Go.Res.ok q
         | _ => Go.Res.panic) := by
  simp only [Funcs.PropPath2Pointer, PropPath2Pointer_loop1_eq, Go.Res.ok_bind, Ptr.propPath2Pointer, Ptr.mustParseRes]
  cases Ptr.parseS _ <;> simp

/-- patch.PathSegment.IsNumeric, as translated: (value, ok) is the model's `atoi` (all strings;
    strconv.Atoi is the GoPrelude primitive `Go.atoi`, proved equal to the model's `atoiC`) -/
theorem IsNumeric_generated_eq_model (t : String) :
    (if (Funcs.IsNumeric t).2 then some (Funcs.IsNumeric t).1 else none) = Ptr.atoi t := by
  rw [← Ptr.goAtoi_eq]
  simp [Funcs.IsNumeric]

/-- patch.Path.Parent, as translated: never panics and is the model's `parent` (all paths) -/
theorem PathParent_generated_eq_model (p : List String) : Funcs.PathParent p = .ok (Ptr.parent p) := by
  unfold Funcs.PathParent Ptr.parent
  by_cases h : p.length ≤ 1
  · have : Go.lenL p ≤ 1 := by simp only [Go.lenL]; omega
    simp [h, this]
  · have h1 : ¬ Go.lenL p ≤ 1 := by simp only [Go.lenL]; omega
    have h2 : Go.lenL p - 1 = ((p.length - 1 : Nat) : Int) := by simp only [Go.lenL]; omega
    simp [h, h1, h2, Go.sliceL_zero]

/-- patch.Path.LastSegment, as translated: never panics and is the model's `lastSegment` -/
theorem PathLastSegment_generated_eq_model (p : List String) :
    Funcs.PathLastSegment p = .ok (Ptr.lastSegment p) := by
  unfold Funcs.PathLastSegment Ptr.lastSegment
  rcases List.eq_nil_or_concat p with h | ⟨pre, c, h⟩
  · subst h; simp [Go.lenL_beq_zero]
  · subst h
    have h2 : Go.lenL (pre ++ [c]) - 1 = (pre.length : Int) := by simp [Go.lenL]
    simp [Go.lenL_beq_zero, h2, Go.index_append_length]

theorem PathString_loop2_eq (pre : List Char) : ∀ (suf : List Char) (sb : String) (fuel : Nat),
    suf.length + 1 ≤ fuel →
    Funcs.PathString_loop2 (pre ++ suf) fuel sb (pre.length : Int)
      = .ok (sb ++ String.ofList (Ptr.encTok suf), ((pre ++ suf).length : Int)) := by
  intro suf
  induction suf generalizing pre with
  | nil =>
    intro sb fuel hf
    cases fuel with
    | zero => omega
    | succ f => simp [Funcs.PathString_loop2, Go.lenL, Ptr.encTok]
  | cons c r ih =>
    intro sb fuel hf
    cases fuel with
    | zero => omega
    | succ f =>
      have hlt : (pre.length : Int) < Go.lenL (pre ++ c :: r) := by simp [Go.lenL]; omega
      have ih' := ih (pre ++ [c]) 
      simp only [List.append_assoc, List.singleton_append, List.length_append, List.length_singleton, Int.natCast_add, Int.natCast_one] at ih'
      simp only [Funcs.PathString_loop2, hlt, decide_true, if_true, Go.index_append_length, Go.Res.ok_bind]
      have hf' : r.length + 1 ≤ f := by simp at hf; omega
      by_cases h1 : c = '~'
      · subst h1
        simp [ih' _ f hf', Ptr.encTok, Ptr.encChar, String.append_assoc]
        apply String.toList_inj.mp; simp [String.toList_append]
      · by_cases h2 : c = '/'
        · subst h2
          simp [ih' _ f hf', Ptr.encTok, Ptr.encChar, String.append_assoc]
          apply String.toList_inj.mp; simp [String.toList_append]
        · simp [h1, h2, ih' _ f hf', Ptr.encTok, Ptr.encChar]
          apply String.toList_inj.mp; simp [String.toList_append]

theorem PathString_loop1_eq : ∀ (p : List String) (sb : String),
    Funcs.PathString_loop1 p sb = .ok (sb ++ String.ofList (Ptr.ptrString (p.map String.toList)))
  | [], sb => by simp [Funcs.PathString_loop1, Ptr.ptrString]
  | t :: ts, sb => by
    have h := PathString_loop2_eq [] t.toList (sb.push '/') (t.toList.length + 1) (Nat.le_refl _)
    simp only [List.nil_append, List.length_nil, Int.natCast_zero] at h
    have hl : (Go.lenL t.toList + 1).toNat = t.toList.length + 1 := by
      simp only [Go.lenL]; omega
    simp only [Funcs.PathString_loop1, Go.runes, hl, h, Go.Res.ok_bind, PathString_loop1_eq ts, List.map_cons, Ptr.ptrString]
    congr 1
    apply String.toList_inj.mp
    simp [String.toList_append, String.toList_push]

/-- patch.Path.String, as translated (range loop over the segments, index loop over the runes
    with fuel len(rps)+1): never panics, never runs out of fuel, and is the model's `stringS` -/
theorem PathString_generated_eq_model (p : List String) : Funcs.PathString p = .ok (Ptr.stringS p) := by
  unfold Funcs.PathString Ptr.stringS
  cases p with
  | nil => simp [Go.lenL_beq_zero, Ptr.ptrString]
  | cons t ts =>
    simp [Go.lenL_beq_zero, PathString_loop1_eq]

end Ytk.C10

/-! ## patch.ParsePath / patch.MustParsePath, as translated, against `Ptr.parseS` (all strings) -/
namespace Ytk.C10
open Ytk.Generated

/-- what `ParsePath` does behind its loop: the last segment is appended, no error -/
def ppFinish : (List String × String × Int) → Go.Res (List String × Go.Error)
  | (ps, cs, _) => .ok (ps ++ [cs], none)

theorem index_second (pre : List Char) (c n : Char) (r : List Char) :
    Go.index (pre ++ c :: n :: r) ((pre.length : Int) + 1) = .ok n := by
  have := Go.index_append_length (pre ++ [c]) n r
  simpa using this

/-- the rune loop of the translated `ParsePath` (the index variable is advanced inside the body for
    `~0` / `~1`) IS the model's `Ptr.scan`: no panic, fuel `len(rps)+1` suffices -/
theorem ParsePath_loop1_eq : ∀ (k : Nat) (suf : List Char), suf.length ≤ k →
    ∀ (pre : List Char) (ps : List String) (cs : String) (fuel : Nat), suf.length + 1 ≤ fuel →
    (Funcs.ParsePath_loop1 (pre ++ suf) fuel ps cs (pre.length : Int) >>= ppFinish)
      = .ok (ps ++ (Ptr.scan suf cs.toList).map String.ofList, none) := by
  intro k
  induction k with
  | zero =>
    intro suf hk pre ps cs fuel hf
    have : suf = [] := List.eq_nil_of_length_eq_zero (by omega)
    subst this
    cases fuel with
    | zero => omega
    | succ f => simp [Funcs.ParsePath_loop1, Go.lenL, Ptr.scan, ppFinish]
  | succ k ih =>
    intro suf hk pre ps cs fuel hf
    cases fuel with
    | zero => omega
    | succ f =>
      cases suf with
      | nil => simp [Funcs.ParsePath_loop1, Go.lenL, Ptr.scan, ppFinish]
      | cons c rest =>
        have hlt : (pre.length : Int) < Go.lenL (pre ++ c :: rest) := by simp [Go.lenL]; omega
        have e1 : (pre.length : Int) + 1 = ((pre ++ [c]).length : Int) := by simp
        have a1 : pre ++ c :: rest = (pre ++ [c]) ++ rest := by simp
        simp only [List.length_cons] at hk hf
        have ihA : ∀ (ps : List String) (cs : String), 
            (Funcs.ParsePath_loop1 (pre ++ c :: rest) f ps cs ((pre.length : Int) + 1) >>= ppFinish)
              = .ok (ps ++ (Ptr.scan rest cs.toList).map String.ofList, none) := by
          intro ps cs
          rw [e1, a1]
          exact ih rest (by omega) (pre ++ [c]) ps cs f (by omega)
        cases hb1 : (c == '~') with
        | true =>
          have h1 : c = '~' := by simpa using hb1
          cases rest with
          | nil =>
            have hnl : ¬ ((pre.length : Int) < Go.lenL (pre ++ [c]) - 1) := by simp [Go.lenL]
            simp only [Funcs.ParsePath_loop1, hlt, decide_true, if_true, Go.index_append_length, Go.Res.ok_bind, hnl,
              decide_false, Bool.false_eq_true, if_false, hb1]
            rw [ihA]
            simp [h1, Ptr.scan, String.toList_push]
          | cons n r =>
            have hl : ((pre.length : Int) < Go.lenL (pre ++ c :: n :: r) - 1) := by simp [Go.lenL]; omega
            have e2 : (pre.length : Int) + 1 + 1 = ((pre ++ [c, n]).length : Int) := by simp; omega
            have a2 : pre ++ c :: n :: r = (pre ++ [c, n]) ++ r := by simp
            have ihB : ∀ (ps : List String) (cs : String), 
                (Funcs.ParsePath_loop1 (pre ++ c :: n :: r) f ps cs ((pre.length : Int) + 1 + 1) >>= ppFinish)
                  = .ok (ps ++ (Ptr.scan r cs.toList).map String.ofList, none) := by
              intro ps cs
              rw [e2, a2]
              exact ih r (by simp at hk; omega) (pre ++ [c, n]) ps cs f (by simp at hf; omega)
            simp only [Funcs.ParsePath_loop1, hlt, decide_true, if_true, Go.index_append_length, Go.Res.ok_bind,
              hl, index_second, hb1]
            cases hb3 : (n == '1') with
            | true =>
              have h3 : n = '1' := by simpa using hb3
              simp only [if_true]
              rw [ihB]
              simp [h1, h3, Ptr.scan, String.toList_push]
            | false =>
              have h3 : n ≠ '1' := by simpa using hb3
              cases hb4 : (n == '0') with
              | true =>
                have h4 : n = '0' := by simpa using hb4
                simp only [if_true, Bool.false_eq_true, if_false]
                rw [ihB]
                simp [h1, h4, Ptr.scan, String.toList_push]
              | false =>
                have h4 : n ≠ '0' := by simpa using hb4
                simp only [Bool.false_eq_true, if_false]
                rw [ihA]
                simp [h1, h3, h4, Ptr.scan, String.toList_push]
        | false =>
          have h1 : c ≠ '~' := by simpa using hb1
          have hstep :
              Funcs.ParsePath_loop1 (pre ++ c :: rest) (f + 1) ps cs (pre.length : Int)
                = (if (c == '/') = true then Funcs.ParsePath_loop1 (pre ++ c :: rest) f (ps ++ [cs]) "" ((pre.length : Int) + 1)
                   else Funcs.ParsePath_loop1 (pre ++ c :: rest) f ps (cs.push c) ((pre.length : Int) + 1)) := by
            simp only [Funcs.ParsePath_loop1, hlt, decide_true, if_true, Go.index_append_length, Go.Res.ok_bind, hb1,
              Bool.false_eq_true, if_false]
          rw [hstep]
          cases hb2 : (c == '/') with
          | true =>
            have h2 : c = '/' := by simpa using hb2
            simp only [if_true]
            rw [ihA]
            cases rest with
            | nil => simp [h2, Ptr.scan]
            | cons n r => simp [h2, Ptr.scan]
          | false =>
            have h2 : c ≠ '/' := by simpa using hb2
            simp only [Bool.false_eq_true, if_false]
            rw [ihA]
            cases rest with
            | nil => simp [h1, h2, Ptr.scan, String.toList_push]
            | cons n r => simp [h1, h2, Ptr.scan, String.toList_push]

/-- patch.ParsePath, as translated, for ALL strings: never panics, never runs out of fuel, and
    `(path, err)` is the model's `Ptr.parseS` — error (with the nil path) exactly for a non-empty
    string that does not start with '/' -/
theorem ParsePath_generated_eq_model (s : String) :
    Funcs.ParsePath s = .ok (match Ptr.parseS s with
                             | some p => (p, none)
                             | none => ([], some ())) := by
  have hunf : ∀ (rps : List Char) (fuel : Nat),
      (do let (ps, cs, i) ← Funcs.ParsePath_loop1 rps fuel [] "" 0
          let ps := ps ++ [cs]
          let cs := ""
          pure (ps, (none : Go.Error)) : Go.Res (List String × Go.Error))
        = (Funcs.ParsePath_loop1 rps fuel [] "" 0 >>= ppFinish) := by
    intro rps fuel
    congr 1
  unfold Funcs.ParsePath Ptr.parseS Ptr.ptrParse
  cases hs : s.toList with
  | nil =>
    have : s = "" := by apply String.toList_inj.mp; simpa using hs
    subst this; simp
  | cons c r =>
    have hne : (s == "") = false := by
      rw [beq_eq_false_iff_ne]; intro e; subst e; simp at hs
    have hp : Go.hasPrefix s "/" = (c == '/') := by
      have hcm : ('/' == c) = (c == '/') := by
        by_cases hc : c = '/'
        · subst hc; rfl
        · have h' : ¬ '/' = c := fun e => hc e.symm
          rw [beq_eq_false_iff_ne.mpr hc, beq_eq_false_iff_ne.mpr h']
      simp [Go.hasPrefix, hs, List.isPrefixOf, hcm]
    have hsl : Go.slice s 1 (Go.len s) = .ok (String.ofList r) := by
      have := Go.slice_nat s 1 s.toList.length (by rw [hs]; simp) (Nat.le_refl _)
      rw [Go.len_eq]
      simp only [Int.natCast_one] at this
      rw [this, hs]; simp
    simp only [hne, Bool.false_eq_true, if_false, hp]
    by_cases hc : c = '/'
    · subst hc
      have hl := ParsePath_loop1_eq r.length r (Nat.le_refl _) [] [] "" (r.length + 1) (Nat.le_refl _)
      simp only [List.nil_append, List.length_nil, Int.natCast_zero, String.toList_empty] at hl
      have hf : (Go.lenL (Go.runes (String.ofList r)) + 1).toNat = r.length + 1 := by
        simp [Go.lenL, Go.runes]
      simp only [beq_self_eq_true, Bool.not_true, Bool.false_eq_true, if_false, hsl, Go.Res.ok_bind, hf]
      rw [hunf]
      simp [Go.runes, hl]
    · simp [hc]

/-- patch.MustParsePath, as translated, for ALL strings: the model's parser, panic ↔ error -/
theorem MustParsePath_generated_eq_model (s : String) :
    Funcs.MustParsePath s = (match Ptr.parseS s with
                             | some p => .ok p
                             | none => .panic) := by
  unfold Funcs.MustParsePath
  rw [ParsePath_generated_eq_model]
  cases Ptr.parseS s <;> simp

theorem nonvacuous_ParsePath :
    Funcs.ParsePath "/a~1b/~0/~" = .ok (["a/b", "~", "~"], none) ∧
    Funcs.ParsePath "a" = .ok ([], some ()) ∧ Funcs.MustParsePath "a" = .panic ∧
    Funcs.ParsePath "" = .ok ([], none) ∧ Funcs.ParsePath "/" = .ok ([""], none) := by
  decide

/-- xform.PropPath2Pointer, as translated, its callee patch.MustParsePath being the TRANSLATED
    `MustParsePath` (no model function is passed in any more): the model's `propPath2Pointer`, for
    all segment lists with non-negative indices (the model's index is a `Nat`). -/
theorem PropPath2Pointer_generated_eq_model (p : List Ptr.PropSeg) :
    Funcs.PropPath2Pointer Funcs.MustParsePath (p.map Ptr.segToGo)
      = (match Ptr.propPath2Pointer p with
         | .ok q => Go.Res.ok q
         | _ => Go.Res.panic) := by
  have : Funcs.MustParsePath = Ptr.mustParseRes := by
    funext s; rw [MustParsePath_generated_eq_model]; rfl
  rw [this]
  exact PropPath2Pointer_param_eq_model p

end Ytk.C10
