/-
  YtkProofs.ResolverEval — a recursive-descent reference evaluator over the template AST and the
  refinement `evalT ⊑ resolve` on the FLAT fragment of the grammar: placeholder keys are plain
  text (no nested placeholders inside a key); defaults are arbitrary templates of the fragment;
  table values are templates of the fragment; table keys are plain text.
-/
import YtkProofs.ResolverTerm
import YtkProofs.ResolverDiverge

namespace Ytk.Resolver

/-- plain text: character tokens only -/
def IsText (t : Toks) : Prop := ∀ x ∈ t, ∃ c, x = Tok.ch c

theorem IsText.not_pre {t : Toks} (h : IsText t) : Tok.pre ∉ t := fun hm => by
  obtain ⟨c, hc⟩ := h _ hm; cases hc
theorem IsText.not_suf {t : Toks} (h : IsText t) : Tok.suf ∉ t := fun hm => by
  obtain ⟨c, hc⟩ := h _ hm; cases hc
theorem IsText.not_sep {t : Toks} (h : IsText t) : Tok.sep ∉ t := fun hm => by
  obtain ⟨c, hc⟩ := h _ hm; cases hc
theorem IsText.tail {x : Tok} {t : Toks} (h : IsText (x :: t)) : IsText t :=
  fun y hy => h y (List.mem_cons_of_mem _ hy)

/-- templates of the flat fragment, as a sequence: end | text · rest | `${key}` · rest |
    `${key:default}` · rest -/
inductive Tmpl where
  | done
  | lit (t : Toks) (rest : Tmpl)
  | ph (key : Toks) (rest : Tmpl)
  | phd (key : Toks) (dflt : Tmpl) (rest : Tmpl)
  deriving Repr

def render : Tmpl → Toks
  | .done => []
  | .lit t rest => t ++ render rest
  | .ph key rest => Tok.pre :: (key ++ Tok.suf :: render rest)
  | .phd key d rest => Tok.pre :: ((key ++ Tok.sep :: render d) ++ Tok.suf :: render rest)

/-- grammar-generated: texts and keys are plain -/
def Tmpl.WF : Tmpl → Prop
  | .done => True
  | .lit t rest => IsText t ∧ rest.WF
  | .ph key rest => IsText key ∧ rest.WF
  | .phd key d rest => IsText key ∧ d.WF ∧ rest.WF

abbrev TTable := List (Toks × Tmpl)

def TTable.get : TTable → Toks → Option Tmpl
  | [], _ => none
  | (k, v) :: r, x => if x = k then some v else TTable.get r x

def TTable.WF (tt : TTable) : Prop := ∀ kv ∈ tt, IsText kv.1 ∧ kv.2.WF

/-- the string table the resolver sees -/
def toTable (tt : TTable) : Table := tt.map fun kv => (kv.1, render kv.2)

theorem toTable_get (tt : TTable) (x : Toks) : (toTable tt).get x = (tt.get x).map render := by
  induction tt with
  | nil => rfl
  | cons kv r ih =>
    obtain ⟨k, v⟩ := kv
    simp only [toTable, List.map_cons, Table.get, TTable.get]
    split
    · rfl
    · exact ih

theorem TTable.get_wf {tt : TTable} (h : tt.WF) {x : Toks} {v : Tmpl} (hg : tt.get x = some v) : v.WF := by
  induction tt with
  | nil => cases hg
  | cons kv r ih =>
    obtain ⟨k, v'⟩ := kv
    simp only [TTable.get] at hg
    split at hg
    · cases hg; exact (h _ (List.mem_cons_self ..)).2
    · exact ih (fun kv hkv => h kv (List.mem_cons_of_mem _ hkv)) hg

theorem toTable_get_sep {tt : TTable} (h : tt.WF) {x : Toks} (hx : Tok.sep ∈ x) :
    (toTable tt).get x = none := by
  induction tt with
  | nil => rfl
  | cons kv r ih =>
    obtain ⟨k, v⟩ := kv
    simp only [toTable, List.map_cons, Table.get]
    split
    · rename_i e
      exact absurd (e ▸ hx) (h _ (List.mem_cons_self ..)).1.not_sep
    · exact ih (fun kv hkv => h kv (List.mem_cons_of_mem _ hkv))

/-- the text of a placeholder as the resolver sees it -/
def rawD (key : Toks) (d : Tmpl) : Toks := key ++ Tok.sep :: render d

/-- The reference semantics (recursive descent over the AST; one unit of fuel per node).
    `${key}`: circular if `key` is being expanded; known key → its value, evaluated; else verbatim.
    `${key:default}`: circular if this very text is being expanded; the default is evaluated
    first (a circular reference inside it is reported even if the key is known — as in the Go
    code); known key → its value, evaluated; else the evaluated default. -/
def evalT (tt : TTable) : Nat → Tmpl → List Toks → Res
  | 0, _, _ => .outOfFuel
  | _ + 1, .done, _ => .ok []
  | n + 1, .lit t rest, st => (evalT tt n rest st).prepend t
  | n + 1, .ph key rest, st =>
    if st.contains key then .cycle key
    else
      match tt.get key with
      | some v =>
        match evalT tt n v (st ++ [key]) with
        | .ok v' => (evalT tt n rest st).prepend v'
        | e => e
      | none => (evalT tt n rest st).prepend (Tok.pre :: key ++ [Tok.suf])
  | n + 1, .phd key d rest, st =>
    if st.contains (rawD key d) then .cycle (rawD key d)
    else
      match evalT tt n d (st ++ [rawD key d]) with
      | .ok d' =>
        match tt.get key with
        | some v =>
          match evalT tt n v (st ++ [rawD key d]) with
          | .ok v' => (evalT tt n rest st).prepend v'
          | e => e
        | none => (evalT tt n rest st).prepend d'
      | e => e

/-! ## scanning rendered templates -/

theorem findEnd_text {t : Toks} (ht : IsText t) (d : Nat) (r : Toks) :
    findEnd d (t ++ r) = (findEnd d r).map fun p => (t ++ p.1, p.2) := by
  induction t with
  | nil => simp
  | cons x t ih =>
    obtain ⟨c, rfl⟩ := ht x (List.mem_cons_self ..)
    simp only [List.cons_append, findEnd, ih ht.tail, Option.map_map]
    cases findEnd d r <;> simp

theorem findEnd_render {t : Tmpl} (ht : t.WF) :
    ∀ (d : Nat) (r : Toks), findEnd d (render t ++ r) = (findEnd d r).map fun p => (render t ++ p.1, p.2) := by
  induction t with
  | done => intro d r; simp [render]
  | lit t rest ih =>
    intro d r
    obtain ⟨h1, h2⟩ := ht
    simp only [render, List.append_assoc, findEnd_text h1, ih h2, Option.map_map]
    cases findEnd d r <;> simp
  | ph key rest ih =>
    intro d r
    obtain ⟨h1, h2⟩ := ht
    simp only [render, List.cons_append, List.append_assoc, findEnd, findEnd_text h1, ih h2, Option.map_map]
    cases findEnd d r <;> simp
  | phd key dflt rest ihd ih =>
    intro d r
    obtain ⟨h1, h2, h3⟩ := ht
    simp only [render, List.cons_append, List.append_assoc, findEnd, findEnd_text h1, ihd h2, ih h3,
      Option.map_map]
    cases findEnd d r <;> simp

theorem firstPh_ph {key : Toks} (rest : Toks) (hk : IsText key) :
    firstPh (Tok.pre :: (key ++ Tok.suf :: rest)) = some ([], key, rest) :=
  firstPh_of (before := []) rfl (findEnd_flat rest hk.not_pre hk.not_suf)

theorem firstPh_phd {key : Toks} {d : Tmpl} (rest : Toks) (hk : IsText key) (hd : d.WF) :
    firstPh (Tok.pre :: ((key ++ Tok.sep :: render d) ++ Tok.suf :: rest)) = some ([], rawD key d, rest) := by
  refine firstPh_of (before := []) rfl ?_
  have e : (key ++ Tok.sep :: render d) ++ Tok.suf :: rest = key ++ (Tok.sep :: (render d ++ Tok.suf :: rest)) := by
    simp
  rw [e, findEnd_text hk]
  simp only [findEnd, findEnd_render hd, Option.map_some]
  simp [rawD]

/-! ## inert outputs: nothing left to resolve -/

/-- plain text and verbatim blocks `${u}` of unknown plain keys `u` that are not on the stack -/
inductive Inert (tbl : Table) (st : List Toks) : Toks → Prop
  | nil : Inert tbl st []
  | ch (c : Char) {t : Toks} : Inert tbl st t → Inert tbl st (Tok.ch c :: t)
  | blk {u t : Toks} : IsText u → tbl.get u = none → u ∉ st → Inert tbl st t →
      Inert tbl st (Tok.pre :: u ++ Tok.suf :: t)

theorem Inert.text_append {tbl : Table} {st : List Toks} {a t : Toks} (ha : IsText a)
    (h : Inert tbl st t) : Inert tbl st (a ++ t) := by
  induction a with
  | nil => exact h
  | cons x a ih =>
    obtain ⟨c, rfl⟩ := ha x (List.mem_cons_self ..)
    exact .ch c (ih ha.tail)

theorem Inert.append {tbl : Table} {st : List Toks} {a t : Toks} (ha : Inert tbl st a)
    (h : Inert tbl st t) : Inert tbl st (a ++ t) := by
  induction ha with
  | nil => exact h
  | ch c _ ih => exact .ch c ih
  | @blk u a hu hg hs _ ih =>
    have : Tok.pre :: u ++ Tok.suf :: a ++ t = Tok.pre :: u ++ Tok.suf :: (a ++ t) := by simp
    rw [this]
    exact .blk hu hg hs ih

theorem Inert.anti {tbl : Table} {st st' : List Toks} {t : Toks} (hs : ∀ x ∈ st', x ∈ st)
    (h : Inert tbl st t) : Inert tbl st' t := by
  induction h with
  | nil => exact .nil
  | ch c _ ih => exact .ch c ih
  | blk hu hg hn _ ih => exact .blk hu hg (fun hm => hn (hs _ hm)) ih

theorem resolvePlaceholder_text_none {tbl : Table} {u : Toks} (hu : IsText u) (hg : tbl.get u = none) :
    resolvePlaceholder tbl u = none := by
  simp [resolvePlaceholder, hg, findSep_none_of_not_mem hu.not_sep]

theorem resolves_text {tbl : Table} {u : Toks} (hu : IsText u) (st : List Toks) :
    Resolves id tbl u st (.ok u) :=
  ⟨1, resolve_noPre' id 0 tbl st hu.not_pre, by simp⟩

/-- an inert list resolves to itself: the second scan of an evaluated default changes nothing -/
theorem Inert.resolves {tbl : Table} {st : List Toks} {t : Toks} (h : Inert tbl st t) :
    Resolves id tbl t st (.ok t) := by
  induction h with
  | nil => exact Resolves.plain st rfl
  | @ch c t _ ih =>
    have := Resolves.text (t := [Tok.ch c]) (by simp) ih
    simpa [Res.prepend] using this
  | @blk u t hu hg hn _ ih =>
    have hf : firstPh (Tok.pre :: u ++ Tok.suf :: t) = some ([], u, t) := firstPh_ph t hu
    have := Resolves.verbatim hf hn (resolves_text hu _) (resolvePlaceholder_text_none hu hg) ih
    simpa [Res.prepend] using this

/-! ## the refinement -/

theorem subset_push (st : List Toks) (x : Toks) : ∀ y ∈ st, y ∈ st ++ [x] :=
  fun _ hy => List.mem_append_left _ hy

theorem rp_key_some {tt : TTable} {key : Toks} {v : Tmpl} (hg : tt.get key = some v) :
    resolvePlaceholder (toTable tt) (id key) = some (render v) := by
  simp [resolvePlaceholder, toTable_get, hg]

theorem rp_key_none {tt : TTable} {key : Toks} (hk : IsText key) (hg : tt.get key = none) :
    resolvePlaceholder (toTable tt) (id key) = none :=
  resolvePlaceholder_text_none hk (by simp [toTable_get, hg])

theorem rp_dflt_some {tt : TTable} (hT : tt.WF) {key d' : Toks} {v : Tmpl} (hk : IsText key)
    (hg : tt.get key = some v) :
    resolvePlaceholder (toTable tt) (id (key ++ Tok.sep :: d')) = some (render v) := by
  have h1 : (toTable tt).get (key ++ Tok.sep :: d') = none := toTable_get_sep hT (by simp)
  simp [resolvePlaceholder, h1, findSep_append_of_not_mem d' hk.not_sep, toTable_get, hg]

theorem rp_dflt_none {tt : TTable} (hT : tt.WF) {key d' : Toks} (hk : IsText key)
    (hg : tt.get key = none) :
    resolvePlaceholder (toTable tt) (id (key ++ Tok.sep :: d')) = some d' := by
  have h1 : (toTable tt).get (key ++ Tok.sep :: d') = none := toTable_get_sep hT (by simp)
  simp [resolvePlaceholder, h1, findSep_append_of_not_mem d' hk.not_sep, toTable_get, hg]

theorem resolves_rawD {tbl : Table} {key : Toks} {d : Tmpl} {st : List Toks} {r : Res} (hk : IsText key)
    (h : Resolves id tbl (render d) st r) :
    Resolves id tbl (rawD key d) st (r.prepend (key ++ [Tok.sep])) := by
  have hn : Tok.pre ∉ key ++ [Tok.sep] := by
    simp only [List.mem_append, List.mem_singleton, not_or]
    exact ⟨hk.not_pre, by simp⟩
  have := Resolves.text hn h
  have e : rawD key d = (key ++ [Tok.sep]) ++ render d := by simp [rawD]
  rw [e]; exact this

/-- `evalT ⊑ resolve`: whenever the reference evaluator ends (text or circular reference), the
    resolver model ends with the SAME result on the rendered template, for every stack; and the
    evaluated text is inert (contains nothing that a further scan would change). -/
theorem evalT_refines {tt : TTable} (hT : tt.WF) :
    ∀ (n : Nat) (t : Tmpl) (st : List Toks) (r : Res), t.WF → evalT tt n t st = r → r ≠ .outOfFuel →
      Resolves id (toTable tt) (render t) st r ∧ ∀ t', r = .ok t' → Inert (toTable tt) st t' := by
  intro n
  induction n with
  | zero => intro t st r _ h hne; exact absurd h.symm hne
  | succ n ih =>
    intro t st r hwf h hne
    cases t with
    | done =>
      simp only [evalT] at h; subst h
      exact ⟨Resolves.plain st rfl, fun t' e => by cases e; exact .nil⟩
    | lit a rest =>
      obtain ⟨ha, hrest⟩ := hwf
      simp only [evalT] at h; subst h
      obtain ⟨hr, hi⟩ := ih rest st _ hrest rfl (prepend_ne_outOfFuel.mp hne)
      refine ⟨Resolves.text ha.not_pre hr, fun t' e => ?_⟩
      obtain ⟨t0, e0, rfl⟩ := prepend_eq_ok e
      exact (hi t0 e0).text_append ha
    | ph key rest =>
      obtain ⟨hk, hrest⟩ := hwf
      have hf : firstPh (render (.ph key rest)) = some ([], key, render rest) := firstPh_ph _ hk
      simp only [evalT] at h
      by_cases hc : st.contains key = true
      · rw [if_pos hc] at h; subst h
        exact ⟨Resolves.here hf (by simpa using hc), fun t' e => by cases e⟩
      · rw [if_neg hc] at h
        have hn : key ∉ st := by simpa using hc
        cases hg : tt.get key with
        | none =>
          simp only [hg] at h; subst h
          obtain ⟨hr, hi⟩ := ih rest st _ hrest rfl (prepend_ne_outOfFuel.mp hne)
          have := Resolves.verbatim hf hn (resolves_text hk _) (rp_key_none hk hg) hr
          refine ⟨by simpa using this, fun t' e => ?_⟩
          obtain ⟨t0, e0, rfl⟩ := prepend_eq_ok e
          have e' : Tok.pre :: key ++ [Tok.suf] ++ t0 = Tok.pre :: key ++ Tok.suf :: t0 := by simp
          rw [e']
          exact .blk hk (by simp [toTable_get, hg]) hn (hi t0 e0)
        | some v =>
          simp only [hg] at h
          have hv : v.WF := TTable.get_wf hT hg
          cases e2 : evalT tt n v (st ++ [key]) with
          | outOfFuel => simp only [e2] at h; exact absurd h.symm hne
          | cycle o =>
            simp only [e2] at h; subst h
            obtain ⟨hr2, _⟩ := ih v _ _ hv e2 (by simp)
            exact ⟨Resolves.value_fail hf hn (resolves_text hk _) (rp_key_some hg) hr2, fun t' e => by cases e⟩
          | ok v' =>
            simp only [e2] at h; subst h
            obtain ⟨hr2, hi2⟩ := ih v _ _ hv e2 (by simp)
            obtain ⟨hr, hi⟩ := ih rest st _ hrest rfl (prepend_ne_outOfFuel.mp hne)
            have := Resolves.subst hf hn (resolves_text hk _) (rp_key_some hg) hr2 hr
            refine ⟨by simpa using this, fun t' e => ?_⟩
            obtain ⟨t0, e0, rfl⟩ := prepend_eq_ok e
            exact ((hi2 v' rfl).anti (subset_push st key)).append (hi t0 e0)
    | phd key d rest =>
      obtain ⟨hk, hd, hrest⟩ := hwf
      have hf : firstPh (render (.phd key d rest)) = some ([], rawD key d, render rest) :=
        firstPh_phd _ hk hd
      simp only [evalT] at h
      by_cases hc : st.contains (rawD key d) = true
      · rw [if_pos hc] at h; subst h
        exact ⟨Resolves.here hf (by simpa using hc), fun t' e => by cases e⟩
      · rw [if_neg hc] at h
        have hn : rawD key d ∉ st := by simpa using hc
        cases e1 : evalT tt n d (st ++ [rawD key d]) with
        | outOfFuel => simp only [e1] at h; exact absurd h.symm hne
        | cycle o =>
          simp only [e1] at h; subst h
          obtain ⟨hr1, _⟩ := ih d _ _ hd e1 (by simp)
          exact ⟨Resolves.key_fail hf hn (resolves_rawD hk hr1), fun t' e => by cases e⟩
        | ok d' =>
          simp only [e1] at h
          obtain ⟨hr1, hi1⟩ := ih d _ _ hd e1 (by simp)
          have h1 : Resolves id (toTable tt) (rawD key d) (st ++ [rawD key d]) (.ok (key ++ Tok.sep :: d')) := by
            have := resolves_rawD hk hr1
            simpa [Res.prepend] using this
          have hid : Inert (toTable tt) (st ++ [rawD key d]) d' := hi1 d' rfl
          cases hg : tt.get key with
          | none =>
            simp only [hg] at h; subst h
            obtain ⟨hr, hi⟩ := ih rest st _ hrest rfl (prepend_ne_outOfFuel.mp hne)
            have := Resolves.subst hf hn h1 (rp_dflt_none hT hk hg) hid.resolves hr
            refine ⟨by simpa using this, fun t' e => ?_⟩
            obtain ⟨t0, e0, rfl⟩ := prepend_eq_ok e
            exact (hid.anti (subset_push st _)).append (hi t0 e0)
          | some v =>
            simp only [hg] at h
            have hv : v.WF := TTable.get_wf hT hg
            cases e2 : evalT tt n v (st ++ [rawD key d]) with
            | outOfFuel => simp only [e2] at h; exact absurd h.symm hne
            | cycle o =>
              simp only [e2] at h; subst h
              obtain ⟨hr2, _⟩ := ih v _ _ hv e2 (by simp)
              exact ⟨Resolves.value_fail hf hn h1 (rp_dflt_some hT hk hg) hr2, fun t' e => by cases e⟩
            | ok v' =>
              simp only [e2] at h; subst h
              obtain ⟨hr2, hi2⟩ := ih v _ _ hv e2 (by simp)
              obtain ⟨hr, hi⟩ := ih rest st _ hrest rfl (prepend_ne_outOfFuel.mp hne)
              have := Resolves.subst hf hn h1 (rp_dflt_some hT hk hg) hr2 hr
              refine ⟨by simpa using this, fun t' e => ?_⟩
              obtain ⟨t0, e0, rfl⟩ := prepend_eq_ok e
              exact ((hi2 v' rfl).anti (subset_push st _)).append (hi t0 e0)

/-! ## fuel monotonicity of the evaluator -/

theorem evalT_fuel_succ (tt : TTable) :
    ∀ (n : Nat) (t : Tmpl) (st : List Toks), evalT tt n t st ≠ .outOfFuel →
      evalT tt (n + 1) t st = evalT tt n t st := by
  intro n
  induction n with
  | zero => intro t st h; exact absurd rfl h
  | succ n ih =>
    intro t st h
    cases t with
    | done => rfl
    | lit a rest =>
      simp only [evalT] at h ⊢
      rw [ih rest st (prepend_ne_outOfFuel.mp h)]
    | ph key rest =>
      simp only [evalT] at h ⊢
      by_cases hc : st.contains key = true
      · simp only [hc, if_true]
      · simp only [hc] at h ⊢
        cases hg : tt.get key with
        | none =>
          simp only [hg] at h ⊢
          rw [ih rest st (prepend_ne_outOfFuel.mp h)]
        | some v =>
          simp only [hg] at h ⊢
          cases e2 : evalT tt n v (st ++ [key]) with
          | outOfFuel => simp [e2] at h
          | cycle o => rw [ih v _ (by rw [e2]; simp), e2]
          | ok v' =>
            rw [ih v _ (by rw [e2]; simp), e2]
            simp only [e2] at h ⊢
            rw [ih rest st (prepend_ne_outOfFuel.mp h)]
    | phd key d rest =>
      simp only [evalT] at h ⊢
      by_cases hc : st.contains (rawD key d) = true
      · simp only [hc, if_true]
      · simp only [hc] at h ⊢
        cases e1 : evalT tt n d (st ++ [rawD key d]) with
        | outOfFuel => simp [e1] at h
        | cycle o => rw [ih d _ (by rw [e1]; simp), e1]
        | ok d' =>
          rw [ih d _ (by rw [e1]; simp), e1]
          simp only [e1] at h ⊢
          cases hg : tt.get key with
          | none =>
            simp only [hg] at h ⊢
            rw [ih rest st (prepend_ne_outOfFuel.mp h)]
          | some v =>
            simp only [hg] at h ⊢
            cases e2 : evalT tt n v (st ++ [rawD key d]) with
            | outOfFuel => simp [e2] at h
            | cycle o => rw [ih v _ (by rw [e2]; simp), e2]
            | ok v' =>
              rw [ih v _ (by rw [e2]; simp), e2]
              simp only [e2] at h ⊢
              rw [ih rest st (prepend_ne_outOfFuel.mp h)]

theorem evalT_fuel_mono (tt : TTable) {n m : Nat} (hnm : n ≤ m) (t : Tmpl) (st : List Toks)
    (h : evalT tt n t st ≠ .outOfFuel) : evalT tt m t st = evalT tt n t st := by
  induction hnm with
  | refl => rfl
  | step hle ih => rw [evalT_fuel_succ tt _ t st (by rw [ih]; exact h), ih]

/-! ## the converse: the evaluator ends whenever the resolver does -/

theorem evalT_ends {tt : TTable} (hT : tt.WF) :
    ∀ (n : Nat) (t : Tmpl) (st : List Toks), t.WF → Ends id (toTable tt) n (render t) st →
      ∃ m, evalT tt m t st ≠ .outOfFuel := by
  intro n
  induction n with
  | zero => intro t st _ h; exact absurd h not_ends_zero
  | succ n ih =>
    intro t
    induction t with
    | done => intro st _ _; exact ⟨1, by simp [evalT]⟩
    | lit a rest iht =>
      intro st hwf h
      obtain ⟨ha, hrest⟩ := hwf
      obtain ⟨m, hm⟩ := iht st hrest (Ends.text (t := a) h ha.not_pre)
      exact ⟨m + 1, by simp only [evalT]; exact prepend_ne_outOfFuel.mpr hm⟩
    | ph key rest _ =>
      intro st hwf h
      obtain ⟨hk, hrest⟩ := hwf
      have hf : firstPh (render (.ph key rest)) = some ([], key, render rest) := firstPh_ph _ hk
      by_cases hc : st.contains key = true
      · exact ⟨1, by simp only [evalT]; rw [if_pos hc]; simp⟩
      · have hn : key ∉ st := by simpa using hc
        have hc' : st.contains key = false := by simpa using hc
        cases hg : tt.get key with
        | none =>
          obtain ⟨m, hm⟩ := ih rest st hrest
            (h.rest_verbatim hf hn (resolves_text hk _) (rp_key_none hk hg))
          exact ⟨m + 1, by simp only [evalT, hc', Bool.false_eq_true, ↓reduceIte, hg]; exact prepend_ne_outOfFuel.mpr hm⟩
        | some v =>
          have hv : v.WF := TTable.get_wf hT hg
          obtain ⟨m₁, hm₁⟩ := ih v _ hv (h.value hf hn (resolves_text hk _) (rp_key_some hg))
          cases e2 : evalT tt m₁ v (st ++ [key]) with
          | outOfFuel => exact absurd e2 hm₁
          | cycle o => exact ⟨m₁ + 1, by simp only [evalT, hc', Bool.false_eq_true, ↓reduceIte, hg, e2]; simp⟩
          | ok v' =>
            obtain ⟨hr2, _⟩ := evalT_refines hT m₁ v _ _ hv e2 (by simp)
            obtain ⟨m₂, hm₂⟩ := ih rest st hrest
              (h.rest hf hn (resolves_text hk _) (rp_key_some hg) hr2)
            refine ⟨max m₁ m₂ + 1, ?_⟩
            have a1 := evalT_fuel_mono tt (Nat.le_max_left m₁ m₂) v _ hm₁
            have a2 := evalT_fuel_mono tt (Nat.le_max_right m₁ m₂) rest st hm₂
            simp only [evalT, hc', Bool.false_eq_true, ↓reduceIte, hg, a1, e2, a2]
            exact prepend_ne_outOfFuel.mpr hm₂
    | phd key d rest _ _ =>
      intro st hwf h
      obtain ⟨hk, hd, hrest⟩ := hwf
      have hf : firstPh (render (.phd key d rest)) = some ([], rawD key d, render rest) :=
        firstPh_phd _ hk hd
      by_cases hc : st.contains (rawD key d) = true
      · exact ⟨1, by simp only [evalT]; rw [if_pos hc]; simp⟩
      · have hn : rawD key d ∉ st := by simpa using hc
        have hc' : st.contains (rawD key d) = false := by simpa using hc
        have hkey := h.key hf hn
        have hpre : Tok.pre ∉ key ++ [Tok.sep] := by
          simp only [List.mem_append, List.mem_singleton, not_or]
          exact ⟨hk.not_pre, by simp⟩
        have e : rawD key d = (key ++ [Tok.sep]) ++ render d := by simp [rawD]
        have aux : ∀ S, Ends id (toTable tt) n (rawD key d) S → Ends id (toTable tt) n (render d) S := by
          intro S hS; rw [e] at hS; exact Ends.text hS hpre
        obtain ⟨m₁, hm₁⟩ := ih d _ hd (aux _ hkey)
        cases e1 : evalT tt m₁ d (st ++ [rawD key d]) with
        | outOfFuel => exact absurd e1 hm₁
        | cycle o => exact ⟨m₁ + 1, by simp only [evalT, hc', Bool.false_eq_true, ↓reduceIte, e1]; simp⟩
        | ok d' =>
          obtain ⟨hr1, hi1⟩ := evalT_refines hT m₁ d _ _ hd e1 (by simp)
          have h1 : Resolves id (toTable tt) (rawD key d) (st ++ [rawD key d]) (.ok (key ++ Tok.sep :: d')) := by
            have := resolves_rawD hk hr1
            simpa [Res.prepend] using this
          have hid : Inert (toTable tt) (st ++ [rawD key d]) d' := hi1 d' rfl
          cases hg : tt.get key with
          | none =>
            obtain ⟨m₂, hm₂⟩ := ih rest st hrest
              (h.rest hf hn h1 (rp_dflt_none hT hk hg) hid.resolves)
            refine ⟨max m₁ m₂ + 1, ?_⟩
            have a1 := evalT_fuel_mono tt (Nat.le_max_left m₁ m₂) d _ hm₁
            have a2 := evalT_fuel_mono tt (Nat.le_max_right m₁ m₂) rest st hm₂
            simp only [evalT, hc', Bool.false_eq_true, ↓reduceIte, hg, a1, e1, a2]
            exact prepend_ne_outOfFuel.mpr hm₂
          | some v =>
            have hv : v.WF := TTable.get_wf hT hg
            obtain ⟨m₂, hm₂⟩ := ih v _ hv (h.value hf hn h1 (rp_dflt_some hT hk hg))
            cases e2 : evalT tt m₂ v (st ++ [rawD key d]) with
            | outOfFuel => exact absurd e2 hm₂
            | cycle o =>
              refine ⟨max m₁ m₂ + 1, ?_⟩
              have a1 := evalT_fuel_mono tt (Nat.le_max_left m₁ m₂) d _ hm₁
              have a2 := evalT_fuel_mono tt (Nat.le_max_right m₁ m₂) v _ hm₂
              simp only [evalT, hc', Bool.false_eq_true, ↓reduceIte, hg, a1, e1, a2, e2]; simp
            | ok v' =>
              obtain ⟨hr2, _⟩ := evalT_refines hT m₂ v _ _ hv e2 (by simp)
              obtain ⟨m₃, hm₃⟩ := ih rest st hrest
                (h.rest hf hn h1 (rp_dflt_some hT hk hg) hr2)
              refine ⟨max m₁ (max m₂ m₃) + 1, ?_⟩
              have a1 := evalT_fuel_mono tt (Nat.le_max_left m₁ (max m₂ m₃)) d _ hm₁
              have a2 := evalT_fuel_mono tt (by omega : m₂ ≤ max m₁ (max m₂ m₃)) v _ hm₂
              have a3 := evalT_fuel_mono tt (by omega : m₃ ≤ max m₁ (max m₂ m₃)) rest st hm₃
              simp only [evalT, hc', Bool.false_eq_true, ↓reduceIte, hg, a1, e1, a2, e2, a3]
              exact prepend_ne_outOfFuel.mpr hm₃

/-- both directions: the resolver ends with `r` on the rendered template iff the reference
    evaluator ends with `r` -/
theorem resolves_iff_evalT {tt : TTable} (hT : tt.WF) (t : Tmpl) (st : List Toks) (ht : t.WF) (r : Res) :
    Resolves id (toTable tt) (render t) st r ↔ ∃ m, evalT tt m t st = r ∧ r ≠ .outOfFuel := by
  constructor
  · intro h
    obtain ⟨n, hn, hne⟩ := h
    obtain ⟨m, hm⟩ := evalT_ends hT n t st ht (by unfold Ends; rw [hn]; exact hne)
    have := (evalT_refines hT m t st _ ht rfl hm).1
    have e := this.unique ⟨n, hn, hne⟩
    exact ⟨m, e, hne⟩
  · rintro ⟨m, hm, hne⟩
    exact (evalT_refines hT m t st r ht hm hne).1

end Ytk.Resolver
