/- OverlayDocs: per layer name of either side, the diff of the two layers (missing = empty). -/
import YtkModel.Diff

namespace Ytk

theorem get?_foldl_insert {A B : Type} (g : String × A → B) :
    ∀ (xs : AMap A) (init : AMap B) (n : String), AMap.Sorted xs →
    AMap.get? (xs.foldl (fun acc p => AMap.insert acc p.1 (g p)) init) n =
      match AMap.get? xs n with
      | some a => some (g (n, a))
      | none => AMap.get? init n
  | [], init, n, _ => rfl
  | (k, a) :: xs, init, n, hs => by
    simp only [List.foldl]
    rw [get?_foldl_insert g xs _ n hs.tail]
    by_cases hn : n = k
    · subst hn
      rw [AMap.get?_of_allGt hs.head_lt]
      simp [AMap.get?, AMap.get?_insert_self]
    · simp only [AMap.get?, if_neg hn]
      cases AMap.get? xs n with
      | some _ => rfl
      | none => simp only; exact AMap.get?_insert_ne _ _ hn

theorem get?_overlayDocs (l r : AMap (AMap Node)) (hl : AMap.Sorted l) (hr : AMap.Sorted r) (n : String) :
    AMap.get? (overlayDocs l r) n =
      if (AMap.get? l n).isSome ∨ (AMap.get? r n).isSome
      then some (diff ((AMap.get? l n).getD []) ((AMap.get? r n).getD []))
      else none := by
  simp only [overlayDocs]
  rw [get?_foldl_insert (fun p => diff ((AMap.get? l p.1).getD []) p.2) r _ n hr,
    get?_foldl_insert (fun p => diff p.2 ((AMap.get? r p.1).getD [])) l _ n hl]
  cases hrn : AMap.get? r n <;> cases hln : AMap.get? l n <;> simp [hrn, hln]

end Ytk
