/-
  YtkProofs.FuncsDomEquals — the regenerated translation of `Equals` and `Clone` of dom/leaf.go,
  dom/list.go, dom/container.go TOGETHER WITH the dynamic dispatch of the interface calls
  `v.Equals(o)` / `v.Clone()` (extract/translate_dispatch.go; `Equals_rec`, `Clone_rec` in
  YtkModel/Generated/FuncsDom.lean) EQUALS the hand-written model of YtkModel/Equal.lean
  (`equals`, `clone`).  Restated in YtkProps/C05.lean.

  Fuel: the dispatcher and the method body each take one unit per level of nesting, so a node `x`
  needs `2 * x.size`; the translator instantiates `2 * x.size + 1`.
-/
import YtkModel.Generated.FuncsDom
import YtkProofs.FuncsLemmas
import YtkProofs.Equal
import YtkProofs.Props

set_option linter.unusedSimpArgs false

namespace Ytk.FuncsDomEquals
open Ytk Ytk.Generated

theorem size_pos : ∀ (x : Node), 1 ≤ x.size
  | .leaf _ => by simp [Node.size]
  | .list _ => by simp [Node.size]
  | .cont _ => by simp [Node.size]

theorem size_getElem_le (xs : List Node) (i : Nat) (h : i < xs.length) : xs[i].size ≤ Node.sizeList xs := by
  induction xs generalizing i with
  | nil => simp at h
  | cons x xs ih =>
    cases i with
    | zero => simp [Node.sizeList]
    | succ i =>
      have := ih i (by simpa using h)
      simp only [List.getElem_cons_succ, Node.sizeList]
      omega

theorem natCast_succ' (i : Nat) : ((i : Int) + 1) = ((i + 1 : Nat) : Int) := by omega

/-! ## Equals -/

theorem equals_leaf_leaf (a b : Scalar) : equals (.leaf a) (.leaf b) = (a == b) := by simp [equals]
theorem equals_list_list (xs ys : List Node) :
    equals (.list xs) (.list ys) = (xs.length == ys.length && equalsList xs ys) := by simp [equals]
theorem equals_cont_cont (xs ys : List (String × Node)) :
    equals (.cont xs) (.cont ys) = (xs.length == ys.length && equalsKvs xs ys) := by simp [equals]

theorem leafEquals_eq (s : Scalar) (y : Option Node) :
    FuncsDom.leafEquals s y = .ok (GoDom.equals (.leaf s) y) := by
  cases y with
  | none => simp [FuncsDom.leafEquals, GoDom.equals]
  | some n =>
    cases n with
    | leaf b =>
      simp [FuncsDom.leafEquals, GoDom.equals, GoDom.nonNil, Go.deref, GoDom.isLeaf, Node.isLeaf, GoDom.asLeaf,
        GoDom.cmpEqual, GoDom.value, equals_leaf_leaf]
    | list l => simp [FuncsDom.leafEquals, GoDom.equals, GoDom.nonNil, Go.deref, GoDom.isLeaf, Node.isLeaf, equals]
    | cont c => simp [FuncsDom.leafEquals, GoDom.equals, GoDom.nonNil, Go.deref, GoDom.isLeaf, Node.isLeaf, equals]

section loops
variable (rec : Node → Option Node → Go.Res Bool) (N : Nat)
  (hrec : ∀ x y, 2 * x.size ≤ N → rec x y = .ok (GoDom.equals x y))

include hrec in
/-- the index loop of listImpl.Equals from position `i` on -/
theorem listEquals_loop_eq (l o : List Node) (hlen : l.length = o.length) (hs : 2 * Node.sizeList l ≤ N) :
    ∀ (fuel i : Nat), i ≤ l.length → l.length - i < fuel →
    FuncsDom.listEquals_loop1 rec l o fuel (i : Int) =
      .ok (if equalsList (l.drop i) (o.drop i) then .next (l.length : Int) else .ret false) := by
  intro fuel
  induction fuel with
  | zero => intro i _ h; omega
  | succ fuel ih =>
    intro i hi hf
    simp only [FuncsDom.listEquals_loop1, GoDom.items, Go.lenL]
    by_cases h : i < l.length
    · have h' : ((i : Int) < (l.length : Int)) := by omega
      have ho : i < o.length := by omega
      have hsz : 2 * l[i].size ≤ N := by have := size_getElem_le l i h; omega
      simp only [h', decide_true, if_true, Go.index_nat l i h, Go.index_nat o i ho, Go.Res.ok_bind,
        hrec _ _ hsz, GoDom.equals, natCast_succ']
      rw [← List.getElem_cons_drop h, ← List.getElem_cons_drop ho]
      simp only [equalsList]
      rcases Bool.eq_false_or_eq_true (equals l[i] o[i]) with he | he
      · simp only [he, Bool.not_true, Bool.false_eq_true, if_false, Bool.true_and]
        exact ih (i + 1) (by omega) (by omega)
      · simp [he]
    · have h' : ¬ ((i : Int) < (l.length : Int)) := by omega
      have e : i = l.length := by omega
      have e1 : l.drop i = [] := by simp [e]
      simp [h', e1, equalsList, e]

include hrec in
/-- the map-range loop of containerImpl.Equals over the receiver's own children -/
theorem containerEquals_loop_eq (ys : List (String × Node)) : ∀ (kvs : List (String × Node)),
    2 * Node.sizeKvs kvs ≤ N →
    FuncsDom.containerEquals_loop1 rec (some (.cont ys)) kvs =
      .ok (if equalsKvs kvs ys then .next () else .ret false) := by
  intro kvs
  induction kvs with
  | nil => intro _; simp [FuncsDom.containerEquals_loop1, equalsKvs]
  | cons p rest ih =>
    intro hs
    obtain ⟨k, v⟩ := p
    have hsz : 2 * v.size ≤ N := by simp only [Node.sizeKvs] at hs; omega
    have hr : 2 * Node.sizeKvs rest ≤ N := by simp only [Node.sizeKvs] at hs; omega
    simp only [FuncsDom.containerEquals_loop1, GoDom.nonNil, Go.deref, GoDom.asContainer, Go.Res.ok_bind,
      GoDom.child, equalsKvs]
    by_cases hn : child ys k = none
    · simp [hn]
    · obtain ⟨o, ho⟩ := Option.ne_none_iff_exists'.mp hn
      simp only [ho, Option.isNone_some, Bool.false_eq_true, if_false, hrec _ _ hsz, GoDom.equals, Go.Res.ok_bind,
        Go.Res.pure_eq]
      rcases Bool.eq_false_or_eq_true (equals v o) with he | he
      · simp [he, ih hr]
      · simp [he]
end loops

theorem equals_rec_eq : ∀ (fuel : Nat),
    (∀ x y, 2 * x.size ≤ fuel → FuncsDom.Equals_rec fuel x y = .ok (GoDom.equals x y)) ∧
    (∀ c y, 2 * Node.sizeKvs c + 1 ≤ fuel → FuncsDom.containerEquals_rec fuel c y = .ok (GoDom.equals (.cont c) y)) ∧
    (∀ l y, 2 * Node.sizeList l + 1 ≤ fuel → FuncsDom.listEquals_rec fuel l y = .ok (GoDom.equals (.list l) y)) := by
  intro fuel
  induction fuel with
  | zero =>
    refine ⟨fun x _ h => ?_, fun _ _ h => by omega, fun _ _ h => by omega⟩
    have := size_pos x; omega
  | succ fuel ih =>
    refine ⟨fun x y h => ?_, fun c y h => ?_, fun l y h => ?_⟩
    · cases x with
      | leaf s => simp only [FuncsDom.Equals_rec]; exact leafEquals_eq s y
      | list l => simp only [FuncsDom.Equals_rec]; exact ih.2.2 l y (by simp only [Node.size] at h; omega)
      | cont c => simp only [FuncsDom.Equals_rec]; exact ih.2.1 c y (by simp only [Node.size] at h; omega)
    · cases y with
      | none => simp [FuncsDom.containerEquals_rec, GoDom.equals]
      | some n =>
        cases n with
        | leaf b =>
          simp [FuncsDom.containerEquals_rec, GoDom.equals, GoDom.nonNil, Go.deref, GoDom.isContainer, Node.isCont, equals]
        | list l =>
          simp [FuncsDom.containerEquals_rec, GoDom.equals, GoDom.nonNil, Go.deref, GoDom.isContainer, Node.isCont, equals]
        | cont ys =>
          simp only [FuncsDom.containerEquals_rec, GoDom.nonNil, Go.deref, GoDom.isContainer, Node.isCont,
            GoDom.asContainer, GoDom.mapLen, GoDom.children, GoDom.equals, equals_cont_cont, Option.isNone_some,
            Bool.false_eq_true, if_false, Go.Res.ok_bind, Go.Res.pure_eq, Bool.not_true,
            containerEquals_loop_eq _ fuel ih.1 ys c (by omega)]
          by_cases hl : c.length = ys.length
          · cases he : equalsKvs c ys <;> simp [hl, he]
          · have : ¬ ((c.length : Int) = (ys.length : Int)) := by omega
            simp [hl, this]
    · cases y with
      | none => simp [FuncsDom.listEquals_rec, GoDom.equals]
      | some n =>
        cases n with
        | leaf b =>
          simp [FuncsDom.listEquals_rec, GoDom.equals, GoDom.nonNil, Go.deref, GoDom.isList, Node.isList, equals]
        | cont c =>
          simp [FuncsDom.listEquals_rec, GoDom.equals, GoDom.nonNil, Go.deref, GoDom.isList, Node.isList, equals]
        | list o =>
          simp only [FuncsDom.listEquals_rec, GoDom.nonNil, Go.deref, GoDom.isList, Node.isList,
            GoDom.asList, GoDom.items, Go.lenL, GoDom.equals, equals_list_list, Option.isNone_some,
            Bool.false_eq_true, if_false, Go.Res.ok_bind, Go.Res.pure_eq, Bool.not_true]
          by_cases hl : l.length = o.length
          · have e : ((o.length : Int) != (l.length : Int)) = false := by simp [hl]
            have hz := listEquals_loop_eq _ fuel ih.1 l o hl (by omega) (l.length + 1) 0 (by omega) (by omega)
            have e2 : ((l.length : Int) + 1).toNat = l.length + 1 := by omega
            simp only [Int.natCast_zero, List.drop_zero] at hz
            simp only [e, Bool.false_eq_true, if_false, e2, hz, Go.Res.ok_bind]
            cases he : equalsList l o <;> simp [hl, he]
          · have : ((o.length : Int) != (l.length : Int)) = true := by
              simp only [bne_iff_ne, ne_eq]; omega
            simp [this, hl]

/-- the dispatcher `v.Equals(o)`, as generated, is the model's `equals` (`false` for a nil argument), for ALL nodes -/
theorem Equals_generated_eq_model (x : Node) (y : Option Node) :
    FuncsDom.Equals x y = .ok (GoDom.equals x y) :=
  (equals_rec_eq _).1 x y (by simp only [GoDom.sizeN]; omega)

theorem containerEquals_generated_eq_model (c : List (String × Node)) (y : Option Node) :
    FuncsDom.containerEquals c y = .ok (GoDom.equals (.cont c) y) :=
  (equals_rec_eq _).2.1 c y (by simp only [GoDom.sizeC]; omega)

theorem listEquals_generated_eq_model (l : List Node) (y : Option Node) :
    FuncsDom.listEquals l y = .ok (GoDom.equals (.list l) y) :=
  (equals_rec_eq _).2.2 l y (by simp only [GoDom.sizeL]; omega)

/-! ## Clone -/

section cloneLoops
variable (rec : Node → Go.Res Node) (N : Nat)
  (hrec : ∀ x, x.WF → 2 * x.size ≤ N → rec x = .ok (clone x))

include hrec in
theorem listClone_loop_eq : ∀ (xs l2 : List Node), (∀ x ∈ xs, x.WF) → 2 * Node.sizeList xs ≤ N →
    FuncsDom.listClone_loop1 rec xs l2 = .ok (l2 ++ cloneList xs) := by
  intro xs
  induction xs with
  | nil => intro l2 _ _; simp [FuncsDom.listClone_loop1, cloneList]
  | cons x rest ih =>
    intro l2 hw hs
    have hsz : 2 * x.size ≤ N := by simp only [Node.sizeList] at hs; omega
    have hr : 2 * Node.sizeList rest ≤ N := by simp only [Node.sizeList] at hs; omega
    simp only [FuncsDom.listClone_loop1, hrec x (hw x (List.mem_cons_self ..)) hsz, Go.Res.ok_bind, GoDom.setItems,
      GoDom.items, ih _ (fun y hy => hw y (List.mem_cons_of_mem _ hy)) hr, cloneList]
    simp [List.append_assoc]

include hrec in
theorem containerClone_loop_eq : ∀ (kvs : List (String × Node)) (c2 : AMap Node), (∀ p ∈ kvs, p.2.WF) →
    2 * Node.sizeKvs kvs ≤ N →
    FuncsDom.containerClone_loop1 rec kvs c2 = .ok ((cloneKvs kvs).foldl (fun m p => AMap.insert m p.1 p.2) c2) := by
  intro kvs
  induction kvs with
  | nil => intro c2 _ _; simp [FuncsDom.containerClone_loop1, cloneKvs]
  | cons p rest ih =>
    intro c2 hw hs
    obtain ⟨k, v⟩ := p
    have hsz : 2 * v.size ≤ N := by simp only [Node.sizeKvs] at hs; omega
    have hr : 2 * Node.sizeKvs rest ≤ N := by simp only [Node.sizeKvs] at hs; omega
    simp only [FuncsDom.containerClone_loop1, hrec v (hw (k, v) (List.mem_cons_self ..)) hsz, Go.Res.ok_bind,
      GoDom.setChildren, GoDom.children, GoDom.mapSet,
      ih _ (fun y hy => hw y (List.mem_cons_of_mem _ hy)) hr, cloneKvs, List.foldl_cons]
end cloneLoops

theorem clone_rec_eq : ∀ (fuel : Nat),
    (∀ x, x.WF → 2 * x.size ≤ fuel → FuncsDom.Clone_rec fuel x = .ok (clone x)) ∧
    (∀ c, (Node.cont c).WF → 2 * Node.sizeKvs c + 1 ≤ fuel → FuncsDom.containerClone_rec fuel c = .ok (clone (.cont c))) ∧
    (∀ l, (Node.list l).WF → 2 * Node.sizeList l + 1 ≤ fuel → FuncsDom.listClone_rec fuel l = .ok (clone (.list l))) := by
  intro fuel
  induction fuel with
  | zero =>
    refine ⟨fun x _ h => ?_, fun _ _ h => by omega, fun _ _ h => by omega⟩
    have := size_pos x; omega
  | succ fuel ih =>
    refine ⟨fun x hw h => ?_, fun c hw h => ?_, fun l hw h => ?_⟩
    · cases x with
      | leaf s => simp [FuncsDom.Clone_rec, FuncsDom.leafClone, GoDom.mkLeaf, GoDom.value, clone]
      | list l => simp only [FuncsDom.Clone_rec]; exact ih.2.2 l hw (by simp only [Node.size] at h; omega)
      | cont c => simp only [FuncsDom.Clone_rec]; exact ih.2.1 c hw (by simp only [Node.size] at h; omega)
    · have hv : ∀ p ∈ c, p.2.WF := by cases hw with | cont _ hall => exact hall
      have hs : AMap.Sorted c := hw.sorted
      simp only [FuncsDom.containerClone_rec, GoDom.newContainer, GoDom.ensureChildren, GoDom.children,
        containerClone_loop_eq _ fuel ih.1 c [] hv (by omega), Go.Res.ok_bind, Go.Res.pure_eq, clone]
      have e : List.foldl (fun m p => AMap.insert m p.1 p.2) [] c = c := Ytk.Props.ofList_sorted hs
      rw [cloneKvs_id, e]
    · have hv : ∀ x ∈ l, x.WF := by cases hw with | list hall => exact hall
      simp only [FuncsDom.listClone_rec, GoDom.newList, GoDom.items,
        listClone_loop_eq _ fuel ih.1 l [] hv (by omega), Go.Res.ok_bind, Go.Res.pure_eq, clone, List.nil_append]

/-- the dispatcher `v.Clone()`, as generated, is the model's `clone` on every node whose containers are in the
    model's representation (strictly sorted keys = a Go map) -/
theorem Clone_generated_eq_model (x : Node) (h : x.WF) : FuncsDom.Clone x = .ok (clone x) :=
  (clone_rec_eq _).1 x h (by simp only [GoDom.sizeN]; omega)

theorem containerClone_generated_eq_model (c : List (String × Node)) (h : (Node.cont c).WF) :
    FuncsDom.containerClone c = .ok (clone (.cont c)) :=
  (clone_rec_eq _).2.1 c h (by simp only [GoDom.sizeC]; omega)

theorem listClone_generated_eq_model (l : List Node) (h : (Node.list l).WF) :
    FuncsDom.listClone l = .ok (clone (.list l)) :=
  (clone_rec_eq _).2.2 l h (by simp only [GoDom.sizeL]; omega)

end Ytk.FuncsDomEquals
