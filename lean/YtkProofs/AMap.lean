/- Further lemmas on sorted association maps. -/
import YtkModel.Basic

namespace Ytk.AMap
variable {α : Type}

theorem insert_of_allGt {m : AMap α} {k : String} (a : α) (h : AllGt k m) : insert m k a = (k, a) :: m := by
  cases m with
  | nil => rfl
  | cons q m =>
    obtain ⟨k', v'⟩ := q
    have : k < k' := h (k', v') (List.mem_cons_self ..)
    simp [insert, this]

theorem lt_of_get?_tail {k k2 : String} {v2 a : α} {m : AMap α} (hs : Sorted ((k2, v2) :: m))
    (h : get? m k = some a) : k2 < k :=
  hs.head_lt (k, a) (mem_of_get? h)

theorem insert_erase_self {m : AMap α} (hs : Sorted m) {k : String} {a : α} (h : get? m k = some a) :
    insert (erase m k) k a = m := by
  induction m with
  | nil => cases h
  | cons q m ih =>
    obtain ⟨k2, v2⟩ := q
    simp only [get?] at h
    split at h
    · rename_i hk; subst hk; cases h
      simp only [erase, if_true]
      exact insert_of_allGt _ hs.head_lt
    · rename_i hk
      have hlt : k2 < k := lt_of_get?_tail hs h
      simp only [erase, if_neg hk, insert, if_neg (String.lt_asymm hlt), ih hs.tail h]

theorem length_erase {m : AMap α} {k : String} {a : α} (h : get? m k = some a) :
    (erase m k).length + 1 = m.length := by
  induction m with
  | nil => cases h
  | cons q m ih =>
    obtain ⟨k2, v2⟩ := q
    simp only [get?] at h
    split at h
    · rename_i hk; simp [erase, hk]
    · rename_i hk; simp [erase, hk, ih h]

/-- A sorted map all of whose entries occur in another sorted map of the same size is that map. -/
theorem eq_of_sub_of_length {xs ys : AMap α} (hx : Sorted xs) (hy : Sorted ys)
    (hsub : ∀ p ∈ xs, get? ys p.1 = some p.2) (hlen : xs.length = ys.length) : xs = ys := by
  induction xs generalizing ys with
  | nil =>
    cases ys with
    | nil => rfl
    | cons _ _ => simp at hlen
  | cons q xs ih =>
    obtain ⟨k, v⟩ := q
    have hk : get? ys k = some v := hsub (k, v) (List.mem_cons_self ..)
    have hlen' : xs.length = (erase ys k).length := by
      have := length_erase hk
      simp only [List.length_cons] at hlen
      omega
    have hsub' : ∀ p ∈ xs, get? (erase ys k) p.1 = some p.2 := by
      intro p hp
      have hne : p.1 ≠ k := fun e => String.ne_of_lt (hx.head_lt p hp) e.symm
      rw [get?_erase_ne _ hne]
      exact hsub p (List.mem_cons_of_mem _ hp)
    have := ih hx.tail (sorted_erase hy k) hsub' hlen'
    rw [← insert_erase_self hy hk, ← this, insert_of_allGt _ hx.head_lt]

theorem get?_self_of_sorted {m : AMap α} (hs : Sorted m) : ∀ p ∈ m, get? m p.1 = some p.2 :=
  fun p hp => get?_of_mem hs (show (p.1, p.2) ∈ m from hp)

end Ytk.AMap
