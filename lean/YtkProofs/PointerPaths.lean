/-
  The JSON-pointer translation of a flattened path evaluates to the same leaf, and
  props.ParsePath yields one segment per addressing step.
-/
import YtkProofs.FlattenPaths

namespace Ytk

/-- segments of a structured path: a key segment, then one index segment per index -/
def segsOf (cs : List Comp) : List PSeg := cs.flatMap (fun c => .key c.1 :: c.2.map .idx)

theorem segOfComp_compStr {c : Comp} (h : SafeKey c.1) :
    segOfComp (String.ofList (compStr c)) = .key c.1 :: c.2.map .idx := by
  unfold segOfComp
  rw [parseSeg_compStr h]
  obtain ⟨k, is⟩ := c
  cases is with
  | nil => simp [compStr, groups, String.ofList_toList]
  | cons i is => rfl

theorem dropWhile_head_ne {p : Char → Bool} : ∀ (l : List Char), (∀ c, l.head? = some c → p c = false) → l.dropWhile p = l
  | [], _ => rfl
  | c :: cs, h => by simp [List.dropWhile, h c rfl]

theorem trimDots_id (l : List Char) (hh : ∀ c, l.head? = some c → c ≠ '.') (hl : ∀ c, l.getLast? = some c → c ≠ '.') :
    trimDots l = l := by
  unfold trimDots
  rw [dropWhile_head_ne l (fun c hc => by simpa using hh c hc)]
  rw [dropWhile_head_ne l.reverse (fun c hc => by
    have : l.getLast? = some c := by rw [List.getLast?_eq_head?_reverse]; exact hc
    simpa using hl c this)]
  exact List.reverse_reverse l

theorem compStr_head {c : Comp} (h : SafeKey c.1) : ∀ x, (compStr c).head? = some x → x ≠ '.' := by
  intro x hx
  obtain ⟨k, is⟩ := c
  simp only [compStr] at hx
  cases hk : k.toList with
  | nil => exact absurd hk h.1
  | cons a as =>
    rw [hk] at hx
    simp only [List.cons_append, List.head?_cons, Option.some.injEq] at hx
    subst hx
    exact (h.2 a (by rw [hk]; exact List.mem_cons_self ..)).1

theorem compStr_last {c : Comp} (h : SafeKey c.1) : ∀ x, (compStr c).getLast? = some x → x ≠ '.' := by
  intro x hx
  have hm : x ∈ compStr c := List.mem_of_getLast? hx
  intro e
  subst e
  exact compStr_noDot h hm

theorem joined_head (c : Comp) (cs : List Comp) (hs : ∀ x ∈ c :: cs, SafeKey x.1) :
    ∀ x, (compStr c ++ cs.flatMap (fun c => '.' :: compStr c)).head? = some x → x ≠ '.' := by
  intro x hx
  have hne := compStr_ne_nil (hs c (List.mem_cons_self ..))
  cases hc : compStr c with
  | nil => exact absurd hc hne
  | cons a as =>
    rw [hc] at hx
    apply compStr_head (hs c (List.mem_cons_self ..)) x
    rw [hc]
    simpa using hx

theorem getLast?_append_ne_nil {α : Type} (l : List α) {l' : List α} (h : l' ≠ []) :
    (l ++ l').getLast? = l'.getLast? := by
  rw [List.getLast?_append]
  cases hl : l'.getLast? with
  | none =>
    have : l' = [] := by
      cases l' with
      | nil => rfl
      | cons a as => simp [List.getLast?_cons] at hl
    exact absurd this h
  | some x => simp

theorem getLast?_cons_ne_nil {α : Type} (a : α) {l : List α} (h : l ≠ []) : (a :: l).getLast? = l.getLast? := by
  cases l with
  | nil => exact absurd rfl h
  | cons b bs => exact List.getLast?_cons_cons

theorem joined_ne_nil (c : Comp) (cs : List Comp) (hs : ∀ x ∈ c :: cs, SafeKey x.1) :
    compStr c ++ cs.flatMap (fun c => '.' :: compStr c) ≠ [] := by
  intro e
  simp only [List.append_eq_nil_iff] at e
  exact compStr_ne_nil (hs c (List.mem_cons_self ..)) e.1

theorem joined_last : ∀ (c : Comp) (cs : List Comp), (∀ x ∈ c :: cs, SafeKey x.1) →
    ∀ x, (compStr c ++ cs.flatMap (fun c => '.' :: compStr c)).getLast? = some x → x ≠ '.'
  | c, [], hs => by
    intro x hx
    simp only [List.flatMap_nil, List.append_nil] at hx
    exact compStr_last (hs c (List.mem_cons_self ..)) x hx
  | c, d :: ds, hs => by
    intro x hx
    have hs' : ∀ y ∈ d :: ds, SafeKey y.1 := fun y hy => hs y (List.mem_cons_of_mem _ hy)
    have hne := joined_ne_nil d ds hs'
    have e : compStr c ++ (d :: ds).flatMap (fun c => '.' :: compStr c) =
        compStr c ++ ('.' :: (compStr d ++ ds.flatMap (fun c => '.' :: compStr c))) := by simp
    rw [e, getLast?_append_ne_nil _ (by simp), getLast?_cons_ne_nil _ hne] at hx
    exact joined_last d ds hs' x hx

/-- props.ParsePath of a rendered path: its segments -/
theorem propsParsePath_renderFrom (c : Comp) (cs : List Comp) (hs : ∀ x ∈ c :: cs, SafeKey x.1) :
    propsParsePath (renderFrom "" (c :: cs)) = segsOf (c :: cs) := by
  unfold propsParsePath
  rw [renderFrom_empty c cs hs, trimDots_id _ (joined_head c cs hs) (joined_last c cs hs), splitDot_joined c cs hs]
  simp only [segsOf, List.map_map, List.flatMap_map]
  have gen : ∀ (l : List Comp), (∀ x ∈ l, SafeKey x.1) →
      l.flatMap (fun x => segOfComp ((String.ofList ∘ compStr) x)) = l.flatMap (fun c => PSeg.key c.1 :: c.2.map PSeg.idx) := by
    intro l
    induction l with
    | nil => intro _; rfl
    | cons a as ih =>
      intro h
      simp only [List.flatMap_cons, Function.comp]
      rw [segOfComp_compStr (h a (List.mem_cons_self ..))]
      have := ih (fun x hx => h x (List.mem_cons_of_mem _ hx))
      simp only [Function.comp] at this
      rw [this]
  exact gen (c :: cs) hs

end Ytk

namespace Ytk

theorem tokenIndex_toString (i : Nat) : tokenIndex (toString i) = some i := by
  unfold tokenIndex
  have h1 := digits_ne_nil i
  have h2 : (toString i).toList.all isDigit = true := List.all_eq_true.mpr (digits_all i)
  simp only [h1, h2, ne_eq, not_false_eq_true, and_self, if_true, digitsToNat_toString]

/-- index tokens walk through lists exactly as `walkIdx` does -/
theorem evalTokens_idx : ∀ (is : List Nat) (x n : Node) (more : List String),
    walkIdx (some x) is = some n → evalTokens x (is.map toString ++ more) = evalTokens n more
  | [], x, n, more, h => by
    simp only [walkIdx, Option.some.injEq] at h; subst h; rfl
  | i :: is, x, n, more, h => by
    cases x with
    | leaf _ => simp [walkIdx] at h
    | cont _ => simp [walkIdx] at h
    | list xs =>
      simp only [walkIdx] at h
      cases hy : xs[i]? with
      | none => rw [hy, walkIdx_none] at h; cases h
      | some y =>
        rw [hy] at h
        simp only [List.map_cons, List.cons_append, evalTokens, tokenIndex_toString, hy]
        exact evalTokens_idx is y n more h

/-- reference tokens of a structured path -/
def tokensOf (cs : List Comp) : List String := pointerTokens (segsOf cs)

theorem tokensOf_cons (c : Comp) (cs : List Comp) : tokensOf (c :: cs) = c.1 :: (c.2.map toString ++ tokensOf cs) := by
  simp [tokensOf, pointerTokens, segsOf, List.map_map, Function.comp]

theorem safeKey_noSuffix {k : String} (h : SafeKey k) : hasIdxSuffix k = false := by
  unfold hasIdxSuffix
  have : stripIdx k.toList = none := stripIdx_none_of_last (fun c hc => (h.2 c (List.mem_of_getLast? hc)).2.2)
  simp [this]

/-- a structured path that resolves (through containers between components) is resolved
    identically by pointer evaluation of its tokens -/
theorem evalTokens_getC : ∀ (cs : List Comp) (kvs : AMap Node) (n : Node), (∀ x ∈ cs, SafeKey x.1) →
    getC kvs cs = some n → evalTokens (.cont kvs) (tokensOf cs) = some n
  | [], _, _, _, h => by simp [getC] at h
  | [c], kvs, n, hs, h => by
    simp only [getC] at h
    rw [tokensOf_cons]
    simp only [evalTokens, child_of_noSuffix kvs (safeKey_noSuffix (hs c (List.mem_cons_self ..)))]
    cases hg : AMap.get? kvs c.1 with
    | none => rw [hg, walkIdx_none] at h; cases h
    | some x =>
      rw [hg] at h
      simp only
      rw [evalTokens_idx c.2 x n _ h]
      simp [tokensOf, segsOf, pointerTokens, evalTokens]
  | c :: d :: ds, kvs, n, hs, h => by
    simp only [getC] at h
    rw [tokensOf_cons]
    simp only [evalTokens, child_of_noSuffix kvs (safeKey_noSuffix (hs c (List.mem_cons_self ..)))]
    cases hg : AMap.get? kvs c.1 with
    | none => rw [hg, walkIdx_none] at h; simp at h
    | some x =>
      rw [hg] at h
      simp only
      cases hw : walkIdx (some x) c.2 with
      | none => rw [hw] at h; simp at h
      | some m =>
        rw [hw] at h
        cases m with
        | leaf _ => simp at h
        | list _ => simp at h
        | cont sub =>
          simp only at h
          rw [evalTokens_idx c.2 x (.cont sub) _ hw]
          exact evalTokens_getC (d :: ds) sub n (fun y hy => hs y (List.mem_cons_of_mem _ hy)) h

/-- **pointer_flatten** -/
theorem pointer_flatten_aux (d : AMap Node) (hv : (Node.cont d).Valid) (hs : (Node.cont d).SafeKeys)
    (p : String) (v : Scalar) (h : (p, v) ∈ flatten d) :
    evalTokens (.cont d) (pointerTokens (propsParsePath p)) = some (.leaf v) := by
  rw [flatten_lp] at h
  simp only [List.mem_map] at h
  obtain ⟨q, hq, he⟩ := h
  have hpe : renderFrom "" q.1 = p := (Prod.mk.inj he).1
  have hve : q.2 = v := (Prod.mk.inj he).2
  obtain ⟨hsafe, hget, hne⟩ := lpKvs_spec d d hv hs (fun p hp => hp) q hq
  cases hq1 : q.1 with
  | nil => exact absurd hq1 hne
  | cons c cs =>
    rw [hq1] at hsafe hget hpe
    rw [← hpe, ← hve, propsParsePath_renderFrom c cs hsafe]
    exact evalTokens_getC (c :: cs) d _ hsafe hget

/-- **parsePath_steps**: props.ParsePath has one segment per addressing step -/
theorem parsePath_steps_aux (d : AMap Node) (hv : (Node.cont d).Valid) (hs : (Node.cont d).SafeKeys)
    (p : String) (v : Scalar) (h : (p, v) ∈ flatten d) : (propsParsePath p).length = stepCount p := by
  rw [flatten_lp] at h
  simp only [List.mem_map] at h
  obtain ⟨q, hq, he⟩ := h
  have hpe : renderFrom "" q.1 = p := (Prod.mk.inj he).1
  obtain ⟨hsafe, _, hne⟩ := lpKvs_spec d d hv hs (fun p hp => hp) q hq
  cases hq1 : q.1 with
  | nil => exact absurd hq1 hne
  | cons c cs =>
    rw [hq1] at hsafe hpe
    rw [← hpe, propsParsePath_renderFrom c cs hsafe]
    unfold stepCount
    rw [splitPath_renderFrom c cs hsafe]
    simp only [segsOf, List.map_map]
    have gen : ∀ (l : List Comp), (∀ x ∈ l, SafeKey x.1) →
        (l.flatMap (fun c => PSeg.key c.1 :: c.2.map PSeg.idx)).length =
          (l.map ((fun c => 1 + (parseSeg c).2.length) ∘ fun x => String.ofList (compStr x))).sum := by
      intro l
      induction l with
      | nil => intro _; rfl
      | cons a as ih =>
        intro hh
        simp only [List.flatMap_cons, List.length_append, List.length_cons, List.length_map, List.map_cons,
          List.sum_cons, Function.comp]
        rw [parseSeg_compStr (hh a (List.mem_cons_self ..))]
        have := ih (fun x hx => hh x (List.mem_cons_of_mem _ hx))
        simp only [Function.comp, List.length_flatMap] at this ⊢
        omega
    exact gen (c :: cs) hsafe

end Ytk
