/- Lemmas on the diff model: flatten, diff of a document with itself, empty diffs. -/
import YtkModel.Diff
import YtkProofs.Equal
import YtkProofs.DiffSort

namespace Ytk

/-! ## diff.go's flatten* emit one Add per entry of Container.Flatten -/

def addOf (q : String × Scalar) : Mod := Mod.mkAdd q.1 q.2

mutual
theorem flatNode_eq : ∀ (n : Node) (p : String), flatNode n p = (flattenNode n p).map addOf
  | .leaf v, p => by simp [flatNode, flattenNode, addOf]
  | .list xs, p => by simp only [flatNode, flattenNode]; exact flatList_eq xs p 0
  | .cont kvs, p => by simp only [flatNode, flattenNode]; exact flatKvs_eq kvs p
theorem flatList_eq : ∀ (xs : List Node) (p : String) (i : Nat),
    flatList xs p i = (flattenList xs p i).map addOf
  | [], _, _ => by simp [flatList, flattenList]
  | x :: xs, p, i => by
    simp only [flatList, flattenList, List.map_append]
    rw [flatNode_eq x _, flatList_eq xs p (i + 1)]
theorem flatKvs_eq : ∀ (xs : List (String × Node)) (p : String),
    flatKvs xs p = (flattenKvs xs p).map addOf
  | [], _ => by simp [flatKvs, flattenKvs]
  | (k, x) :: xs, p => by
    simp only [flatKvs, flattenKvs, List.map_append]
    rw [flatNode_eq x _, flatKvs_eq xs p]
end

theorem flatNode_eq_nil {n : Node} {p : String} (h : flatNode n p = []) : flattenNode n p = [] := by
  rw [flatNode_eq] at h
  exact List.map_eq_nil_iff.mp h

/-! ## Valid containers -/

theorem Node.Valid.tail {q : String × Node} {kvs : List (String × Node)}
    (h : (Node.cont (q :: kvs)).Valid) : (Node.cont kvs).Valid := by
  obtain ⟨hw, hk⟩ := h
  cases hw with
  | cont hs hw => cases hk with
    | cont hk1 hk2 =>
      exact ⟨.cont hs.tail (fun p hp => hw p (List.mem_cons_of_mem _ hp)),
        .cont (fun p hp => hk1 p (List.mem_cons_of_mem _ hp)) (fun p hp => hk2 p (List.mem_cons_of_mem _ hp))⟩

theorem Node.Valid.child_eq {kvs : List (String × Node)} (_h : (Node.cont kvs).Valid)
    (r : AMap Node) {q : String × Node} (hq : q ∈ kvs) (h : (Node.cont kvs).Valid := _h) :
    child r q.1 = AMap.get? r q.1 :=
  child_of_noSuffix r (h.of_cont_mem hq).2

theorem Node.Valid.of_get? {kvs : List (String × Node)} (h : (Node.cont kvs).Valid) {k : String} {n : Node}
    (hg : AMap.get? kvs k = some n) : n.Valid ∧ hasIdxSuffix k = false :=
  h.of_cont_mem (AMap.mem_of_get? hg)

/-! ## the two loops depend on the other side only through `child` -/

theorem emitLeft_congr : ∀ (xs : List (String × Node)) (r r' : AMap Node) (p : String),
    (∀ q ∈ xs, child r q.1 = child r' q.1) → emitLeft xs r p = emitLeft xs r' p
  | [], _, _, _, _ => by simp [emitLeft]
  | (k, n) :: rest, r, r', p, h => by
    simp only [emitLeft]
    rw [h (k, n) (List.mem_cons_self ..),
      emitLeft_congr rest r r' p (fun q hq => h q (List.mem_cons_of_mem _ hq))]

theorem emitRight_eq_nil : ∀ (xs : List (String × Node)) (l : AMap Node) (p : String),
    emitRight xs l p = [] ↔ ∀ q ∈ xs, (child l q.1).isSome = true
  | [], _, _ => by simp [emitRight]
  | (k, n) :: rest, l, p => by
    simp only [emitRight, List.append_eq_nil_iff, emitRight_eq_nil rest l p, List.mem_cons, forall_eq_or_imp]
    cases child l k <;> simp

/-! ## Diff(L, L) = [] -/

mutual
theorem emitNode_self : ∀ (x : Node) (p : String), x.Valid → emitNode x x p = []
  | .leaf a, p, _ => by simp [emitNode]
  | .list xs, p, h => by simp [emitNode, equals_refl _ h]
  | .cont kvs, p, h => by
    simp only [emitNode]
    rw [emitLeft_self kvs kvs p (fun q hq => ⟨h.of_cont_mem hq, AMap.get?_self_of_sorted h.sorted q hq⟩),
      (emitRight_eq_nil kvs kvs p).mpr (fun q hq => by
        rw [child_of_noSuffix kvs (h.of_cont_mem hq).2, AMap.get?_self_of_sorted h.sorted q hq]; rfl)]
    rfl
theorem emitLeft_self : ∀ (xs : List (String × Node)) (r : AMap Node) (p : String),
    (∀ q ∈ xs, (q.2.Valid ∧ hasIdxSuffix q.1 = false) ∧ AMap.get? r q.1 = some q.2) → emitLeft xs r p = []
  | [], _, _, _ => by simp [emitLeft]
  | (k, n) :: rest, r, p, h => by
    have h0 := h (k, n) (List.mem_cons_self ..)
    simp only [emitLeft, child_of_noSuffix r h0.1.2, h0.2]
    rw [emitNode_self n _ h0.1.1, emitLeft_self rest r p (fun q hq => h q (List.mem_cons_of_mem _ hq))]
    rfl
end

/-! ## Diff(L, R) = [] → Flatten(L) = Flatten(R) -/

mutual
theorem emitNode_nil_flatten : ∀ (x y : Node) (p : String), x.Valid → y.Valid →
    emitNode x y p = [] → flattenNode x p = flattenNode y p
  | .leaf a, .leaf b, p, _, _, h => by
    simp only [emitNode] at h
    split at h
    · rename_i e; rw [e]
    · cases h
  | .list xs, .list ys, p, hx, hy, h => by
    simp only [emitNode] at h
    split at h
    · rename_i he; rw [equals_sound _ _ hx hy he]
    · cases h
  | .cont l, .cont r, p, hx, hy, h => by
    simp only [emitNode, List.append_eq_nil_iff] at h
    simp only [flattenNode]
    exact emitKvs_nil_flatten l r p hx hy h.1 h.2
  | .leaf _, .list _, _, _, _, h => by simp [emitNode] at h
  | .leaf _, .cont _, _, _, _, h => by simp [emitNode] at h
  | .list _, .leaf _, _, _, _, h => by simp [emitNode] at h
  | .list _, .cont _, _, _, _, h => by simp [emitNode] at h
  | .cont _, .leaf _, _, _, _, h => by simp [emitNode] at h
  | .cont _, .list _, _, _, _, h => by simp [emitNode] at h
theorem emitKvs_nil_flatten : ∀ (l r : List (String × Node)) (p : String),
    (Node.cont l).Valid → (Node.cont r).Valid → emitLeft l r p = [] → emitRight r l p = [] →
    flattenKvs l p = flattenKvs r p
  | [], r, p, _, hr, _, h2 => by
    cases r with
    | nil => rfl
    | cons q r =>
      have := (emitRight_eq_nil _ _ p).mp h2 q (List.mem_cons_self ..)
      rw [child_of_noSuffix _ (hr.of_cont_mem (List.mem_cons_self ..)).2] at this
      simp at this
  | (k, v) :: l', r, p, hl, hr, h1, h2 => by
    have hkv := hl.of_cont_mem (List.mem_cons_self ..)
    have hk : hasIdxSuffix k = false := hkv.2
    have hgt : AMap.AllGt k l' := hl.sorted.head_lt
    simp only [emitLeft, child_of_noSuffix r hk, List.append_eq_nil_iff] at h1
    have h2' := (emitRight_eq_nil _ _ p).mp h2
    cases hg : AMap.get? r k with
    | none =>
      rw [hg] at h1
      have hv : flattenNode v (toPath p k) = [] := flatNode_eq_nil h1.1
      simp only [flattenKvs, hv, List.nil_append]
      apply emitKvs_nil_flatten l' r p hl.tail hr h1.2
      apply (emitRight_eq_nil _ _ p).mpr
      intro q hq
      have hq' := h2' q hq
      have hqs : hasIdxSuffix q.1 = false := (hr.of_cont_mem hq).2
      rw [child_of_noSuffix _ hqs] at hq' ⊢
      have hne : q.1 ≠ k := by
        intro e
        have := AMap.get?_self_of_sorted hr.sorted q hq
        rw [e, hg] at this; cases this
      simpa [AMap.get?, hne] using hq'
    | some v2 =>
      rw [hg] at h1
      -- r starts with k
      cases r with
      | nil => simp [AMap.get?] at hg
      | cons q2 r' =>
        obtain ⟨k2, w⟩ := q2
        have hk2s : hasIdxSuffix k2 = false := (hr.of_cont_mem (List.mem_cons_self ..)).2
        have hkk : k2 = k := by
          have hin := h2' (k2, w) (List.mem_cons_self ..)
          rw [child_of_noSuffix _ hk2s] at hin
          simp only [AMap.get?] at hin hg
          by_cases e : k2 = k
          · exact e
          · exfalso
            rw [if_neg e] at hin
            have hne : ¬ k = k2 := fun e' => e e'.symm
            rw [if_neg hne] at hg
            obtain ⟨a, ha⟩ := Option.isSome_iff_exists.mp hin
            have h1' : k < k2 := hgt (k2, a) (AMap.mem_of_get? ha)
            have h2'' : k2 < k := hr.sorted.head_lt (k, v2) (AMap.mem_of_get? hg)
            exact String.lt_asymm h1' h2''
        subst hkk
        have hw : w = v2 := by simpa [AMap.get?] using hg
        subst hw
        have hgt2 : AMap.AllGt k2 r' := hr.sorted.head_lt
        have hv2 : w.Valid := (hr.of_cont_mem (List.mem_cons_self ..)).1
        simp only [flattenKvs]
        rw [emitNode_nil_flatten v w (toPath p k2) hkv.1 hv2 h1.1]
        congr 1
        apply emitKvs_nil_flatten l' r' p hl.tail hr.tail
        · rw [← h1.2]
          apply emitLeft_congr
          intro q hq
          have hqs : hasIdxSuffix q.1 = false := (hl.of_cont_mem (List.mem_cons_of_mem _ hq)).2
          have hne : q.1 ≠ k2 := fun e => String.ne_of_lt (hgt q hq) e.symm
          rw [child_of_noSuffix _ hqs, child_of_noSuffix _ hqs]
          simp [AMap.get?, hne]
        · apply (emitRight_eq_nil _ _ p).mpr
          intro q hq
          have hq' := h2' q (List.mem_cons_of_mem _ hq)
          have hqs : hasIdxSuffix q.1 = false := (hr.of_cont_mem (List.mem_cons_of_mem _ hq)).2
          have hne : q.1 ≠ k2 := fun e => String.ne_of_lt (hgt2 q hq) e.symm
          rw [child_of_noSuffix _ hqs] at hq' ⊢
          simpa [AMap.get?, hne] using hq'
end

end Ytk
