/-
  YtkProofs.GapK8s — round 8 (lean/CLAUSES_B.md): lemmas behind the C17 additions.
-/
import YtkProofs.K8s

namespace Ytk.K8s

/-- a key is listed iff the lookup finds it (no sortedness needed: `get?` returns the first match) -/
theorem mem_keys_iff_get? {α : Type} : ∀ (m : AMap α) (k : String), k ∈ m.keys ↔ (AMap.get? m k).isSome = true
  | [], k => by simp [AMap.keys, AMap.get?]
  | (k', v) :: m, k => by
    have ih := mem_keys_iff_get? m k
    simp only [AMap.keys, List.map_cons, List.mem_cons, AMap.get?] at ih ⊢
    by_cases h : k = k'
    · simp [h]
    · simp only [h, false_or, if_false]
      exact ih

/-- `load` keeps the decoded document as the manifest's `doc` -/
theorem load_doc {doc : AMap Val} {m : Manifest} (h : load (.obj doc) = .ok m) : m.doc = doc := by
  simp only [load] at h
  split at h
  · rename_i bk tk _
    split at h
    · cases h; rfl
    · cases h
    · cases h
  · cases h
  · cases h

theorem decodeWith_ne_panic (mode : Mode) (m : Manifest) : decodeWith mode m ≠ .panic := by
  cases mode with
  | text c item =>
    simp only [decodeWith, decodeEmbeddedDoc]
    split
    · split <;> simp
    · simp
  | props => simp [decodeWith]

theorem encodeWith_ne_panic (mode : Mode) (m : Manifest) (n : Node) : encodeWith mode m n ≠ .panic := by
  cases mode with
  | text c item =>
    simp only [encodeWith, encodeEmbeddedDoc]
    split <;> simp
  | props => simp [encodeWith]

theorem openDoc_ne_panic (mode : Mode) (file : Val) : openDoc mode file ≠ .panic := by
  unfold openDoc
  have h1 := load_ne_panic file
  split
  · rename_i m _
    have h2 := decodeWith_ne_panic mode m
    split
    · simp
    · simp
    · rename_i hp; exact absurd hp h2
  · simp
  · rename_i hp; exact absurd hp h1

theorem docSave_ne_panic (mode : Mode) (d : Doc) : docSave mode d ≠ .panic := by
  unfold docSave
  have h2 := encodeWith_ne_panic mode d.m d.cb
  split
  · simp
  · simp
  · rename_i hp; exact absurd hp h2

end Ytk.K8s
