/-
  YtkProofs.Heap — lemmas about the heap-level model (YtkModel/Heap.lean).

  1. heaps: prefix order, alloc, write
  2. abstraction: monotone in the heap, depends only on the cells a root reaches (frame)
  3. Clone: prefix, freshness, abstraction, independence
  4. Merge: prefix, refinement of the value-level merge, sharing
-/
import YtkModel.Heap
import YtkProofs.Equal
import YtkProofs.Merge

namespace Ytk.Heap

/-! ## 1. Heaps -/

namespace Heap

theorem le_refl (h : Heap) : h ≤ h := ⟨[], by simp⟩

theorem le_trans {a b c : Heap} (h1 : a ≤ b) (h2 : b ≤ c) : a ≤ c := by
  obtain ⟨e1, h1⟩ := h1
  obtain ⟨e2, h2⟩ := h2
  exact ⟨e1 ++ e2, by rw [h2, h1, List.append_assoc]⟩

theorem le_alloc (h : Heap) (c : Cell) : h ≤ (h.alloc c).1 := ⟨[c], rfl⟩

theorem size_alloc (h : Heap) (c : Cell) : (h.alloc c).1.size = h.size + 1 := by
  simp [alloc, size]

theorem alloc_snd (h : Heap) (c : Cell) : (h.alloc c).2 = h.size := rfl

theorem get?_alloc_new (h : Heap) (c : Cell) : (h.alloc c).1.get? h.size = some c := by
  simp [alloc, get?, size]

theorem size_le_of_le {h h' : Heap} (hl : h ≤ h') : h.size ≤ h'.size := by
  obtain ⟨e, he⟩ := hl
  simp [size, he]

theorem get?_lt {h : Heap} {a : Addr} {c : Cell} (hg : h.get? a = some c) : a < h.size := by
  unfold get? at hg
  exact (List.getElem?_eq_some_iff.mp hg).1

theorem get?_of_le {h h' : Heap} (hl : h ≤ h') {a : Addr} {c : Cell} (hg : h.get? a = some c) :
    h'.get? a = some c := by
  obtain ⟨e, he⟩ := hl
  have hlt := get?_lt hg
  unfold get? at hg ⊢
  rw [he, List.getElem?_append_left hlt]
  exact hg

theorem get?_eq_of_le {h h' : Heap} (hl : h ≤ h') {a : Addr} (ha : a < h.size) :
    h'.get? a = h.get? a := by
  obtain ⟨e, he⟩ := hl
  unfold get?
  rw [he, List.getElem?_append_left ha]

theorem get?_alloc {h : Heap} {c : Cell} {a : Addr} {d : Cell} (hg : (h.alloc c).1.get? a = some d) :
    (a < h.size ∧ h.get? a = some d) ∨ (a = h.size ∧ d = c) := by
  by_cases ha : a < h.size
  · left
    refine ⟨ha, ?_⟩
    rw [← get?_eq_of_le (le_alloc h c) ha]; exact hg
  · right
    have hlt := get?_lt hg
    rw [size_alloc] at hlt
    have : a = h.size := Nat.le_antisymm (Nat.lt_succ_iff.mp hlt) (Nat.not_lt.mp ha)
    subst this
    rw [get?_alloc_new] at hg
    exact ⟨rfl, (Option.some.inj hg).symm⟩

theorem size_write (h : Heap) (a : Addr) (c : Cell) : (h.write a c).size = h.size := by
  simp [write, size]

theorem get?_write_ne (h : Heap) {a b : Addr} (c : Cell) (hne : b ≠ a) :
    (h.write a c).get? b = h.get? b := by
  simp only [write, get?]
  rw [List.getElem?_set_ne (Ne.symm hne)]

theorem get?_write_self (h : Heap) {a : Addr} (c : Cell) (ha : a < h.size) :
    (h.write a c).get? a = some c := by
  simp only [write, get?]
  rw [List.getElem?_set_self ha]

/-- a write above the size of `h0` keeps `h0` a prefix -/
theorem le_write {h0 h : Heap} (hl : h0 ≤ h) {a : Addr} (c : Cell) (ha : h0.size ≤ a) :
    h0 ≤ h.write a c := by
  obtain ⟨e, he⟩ := hl
  refine ⟨e.set (a - h0.size) c, ?_⟩
  simp only [write, he]
  rw [List.set_append_right _ _ (by simpa [size] using ha)]
  rfl

end Heap

open Heap

/-! ## Reachability -/

theorem Reach.trans {h : Heap} {a b c : Addr} (h1 : Reach h a b) (h2 : Reach h b c) : Reach h a c := by
  induction h1 with
  | refl _ => exact h2
  | step hg hk _ ih => exact .step hg hk (ih h2)

theorem Reach.child {h : Heap} {a k : Addr} {c : Cell} (hg : h.get? a = some c) (hk : k ∈ c.kids) :
    Reach h a k := .step hg hk (.refl k)

/-- everything reachable stays inside a set that contains the root and is closed under the
    child edge -/
theorem Reach.closed_set {h : Heap} (S : Addr → Prop)
    (hS : ∀ a c, S a → h.get? a = some c → ∀ k ∈ c.kids, S k) {a b : Addr}
    (hr : Reach h a b) (ha : S a) : S b := by
  induction hr with
  | refl _ => exact ha
  | step hg hk _ ih => exact ih (hS _ _ ha hg _ hk)

/-- the executable `reachF` only lists reachable addresses -/
theorem mem_reachF {h : Heap} : ∀ (f : Nat) (a b : Addr), b ∈ reachF f h a → Reach h a b
  | 0, a, b, hb => by
    simp only [reachF, List.mem_singleton] at hb
    subst hb; exact .refl _
  | f + 1, a, b, hb => by
    simp only [reachF, List.mem_cons] at hb
    rcases hb with rfl | hb
    · exact .refl _
    · cases hg : h.get? a with
      | none => simp [hg] at hb
      | some c =>
        simp only [hg, List.mem_flatMap] at hb
        obtain ⟨k, hk, hkb⟩ := hb
        exact .step hg hk (mem_reachF f k b hkb)

/-! ## 2. Abstraction -/

theorem optMapM_imp {g g' : Addr → Option Node} :
    ∀ {xs : List Addr} {ns : List Node}, (∀ x ∈ xs, ∀ n, g x = some n → g' x = some n) →
      optMapM g xs = some ns → optMapM g' xs = some ns
  | [], _, _, h => h
  | x :: xs, ns, himp, h => by
    simp only [optMapM] at h ⊢
    cases hx : g x with
    | none => simp [hx] at h
    | some n =>
      simp only [hx] at h
      rw [himp x (List.mem_cons_self ..) n hx]
      cases hxs : optMapM g xs with
      | none => simp [hxs] at h
      | some ms =>
        simp only [hxs] at h
        rw [optMapM_imp (fun y hy => himp y (List.mem_cons_of_mem _ hy)) hxs]
        exact h

theorem optMapKvs_imp {g g' : Addr → Option Node} :
    ∀ {xs : List (String × Addr)} {ns : List (String × Node)},
      (∀ p ∈ xs, ∀ n, g p.2 = some n → g' p.2 = some n) →
      optMapKvs g xs = some ns → optMapKvs g' xs = some ns
  | [], _, _, h => h
  | (k, x) :: xs, ns, himp, h => by
    simp only [optMapKvs] at h ⊢
    cases hx : g x with
    | none => simp [hx] at h
    | some n =>
      simp only [hx] at h
      rw [himp (k, x) (List.mem_cons_self ..) n hx]
      cases hxs : optMapKvs g xs with
      | none => simp [hxs] at h
      | some ms =>
        simp only [hxs] at h
        rw [optMapKvs_imp (fun y hy => himp y (List.mem_cons_of_mem _ hy)) hxs]
        exact h

theorem optMapM_congr {g g' : Addr → Option Node} :
    ∀ {xs : List Addr}, (∀ x ∈ xs, g x = g' x) → optMapM g xs = optMapM g' xs
  | [], _ => rfl
  | x :: xs, h => by
    simp only [optMapM]
    rw [h x (List.mem_cons_self ..), optMapM_congr (fun y hy => h y (List.mem_cons_of_mem _ hy))]

theorem optMapKvs_congr {g g' : Addr → Option Node} :
    ∀ {xs : List (String × Addr)}, (∀ p ∈ xs, g p.2 = g' p.2) → optMapKvs g xs = optMapKvs g' xs
  | [], _ => rfl
  | (k, x) :: xs, h => by
    simp only [optMapKvs]
    rw [h (k, x) (List.mem_cons_self ..), optMapKvs_congr (fun y hy => h y (List.mem_cons_of_mem _ hy))]

/-- the abstraction of a root only grows more defined as the heap is extended -/
theorem absH_mono {h h' : Heap} (hl : h ≤ h') :
    ∀ (f : Nat) (a : Addr) (n : Node), absH f h a = some n → absH f h' a = some n
  | 0, _, _, hn => by simp [absH] at hn
  | f + 1, a, n, hn => by
    simp only [absH] at hn ⊢
    cases hg : h.get? a with
    | none => simp [hg] at hn
    | some c =>
      rw [get?_of_le hl hg]
      simp only [hg] at hn
      cases c with
      | leaf s => exact hn
      | list xs =>
        simp only at hn ⊢
        cases hm : optMapM (absH f h) xs with
        | none => simp [hm] at hn
        | some ns =>
          rw [optMapM_imp (fun x _ m hx => absH_mono hl f x m hx) hm]
          simpa [hm] using hn
      | cont kvs =>
        simp only at hn ⊢
        cases hm : optMapKvs (absH f h) kvs with
        | none => simp [hm] at hn
        | some ns =>
          rw [optMapKvs_imp (fun p _ m hx => absH_mono hl f p.2 m hx) hm]
          simpa [hm] using hn

theorem optMapM_mono {h h' : Heap} (hl : h ≤ h') {f : Nat} {xs : List Addr} {ns : List Node}
    (hm : optMapM (absH f h) xs = some ns) : optMapM (absH f h') xs = some ns :=
  optMapM_imp (fun x _ m hx => absH_mono hl f x m hx) hm

theorem optMapKvs_mono {h h' : Heap} (hl : h ≤ h') {f : Nat} {xs : List (String × Addr)}
    {ns : List (String × Node)} (hm : optMapKvs (absH f h) xs = some ns) :
    optMapKvs (absH f h') xs = some ns :=
  optMapKvs_imp (fun p _ m hx => absH_mono hl f p.2 m hx) hm

/-- more fuel never changes a defined abstraction -/
theorem absH_fuel_succ {h : Heap} :
    ∀ (f : Nat) (a : Addr) (n : Node), absH f h a = some n → absH (f + 1) h a = some n
  | 0, _, _, hn => by simp [absH] at hn
  | f + 1, a, n, hn => by
    rw [absH] at hn
    rw [absH]
    cases hg : h.get? a with
    | none => simp [hg] at hn
    | some c =>
      simp only [hg] at hn ⊢
      cases c with
      | leaf s => exact hn
      | list xs =>
        simp only at hn ⊢
        cases hm : optMapM (absH f h) xs with
        | none => simp [hm] at hn
        | some ns =>
          rw [optMapM_imp (fun x _ m hx => absH_fuel_succ f x m hx) hm]
          simpa [hm] using hn
      | cont kvs =>
        simp only at hn ⊢
        cases hm : optMapKvs (absH f h) kvs with
        | none => simp [hm] at hn
        | some ns =>
          rw [optMapKvs_imp (fun p _ m hx => absH_fuel_succ f p.2 m hx) hm]
          simpa [hm] using hn

theorem absH_fuel_le {h : Heap} {f f' : Nat} (hle : f ≤ f') {a : Addr} {n : Node}
    (hn : absH f h a = some n) : absH f' h a = some n := by
  induction hle with
  | refl => exact hn
  | step _ ih => exact absH_fuel_succ _ _ _ ih

/-- FRAME: two heaps that agree on every cell reachable from `r` give `r` the same abstraction -/
theorem absH_agree {h h' : Heap} :
    ∀ (f : Nat) (r : Addr), (∀ b, Reach h r b → h'.get? b = h.get? b) → absH f h' r = absH f h r
  | 0, _, _ => rfl
  | f + 1, r, hag => by
    simp only [absH]
    rw [hag r (.refl r)]
    cases hg : h.get? r with
    | none => rfl
    | some c =>
      cases c with
      | leaf s => rfl
      | list xs =>
        simp only
        rw [optMapM_congr (g := absH f h') (g' := absH f h) (fun x hx =>
          absH_agree f x (fun b hb => hag b (.step hg (by simpa [Cell.kids] using hx) hb)))]
      | cont kvs =>
        simp only
        rw [optMapKvs_congr (g := absH f h') (g' := absH f h) (fun p hp =>
          absH_agree f p.2 (fun b hb => hag b (.step hg (by
            simp only [Cell.kids, List.mem_map]; exact ⟨p, hp, rfl⟩) hb)))]

/-- FRAME for one write: a write at `a` only changes the abstraction of roots that reach `a` -/
theorem absH_write_frame {h : Heap} {r a : Addr} (c : Cell) (hnr : ¬ Reach h r a) (f : Nat) :
    absH f (h.write a c) r = absH f h r :=
  absH_agree f r (fun b hb => get?_write_ne h c (fun e => hnr (e ▸ hb)))

/-- … and it does not change what such a root reaches -/
theorem reach_write_frame {h : Heap} {r a : Addr} (c : Cell) (hnr : ¬ Reach h r a) {b : Addr} :
    Reach (h.write a c) r b ↔ Reach h r b := by
  constructor
  · intro hr
    induction hr with
    | refl _ => exact .refl _
    | @step x k y d hg hk _ ih =>
      have hx : x ≠ a := fun e => hnr (e ▸ .refl _)
      rw [get?_write_ne h c hx] at hg
      exact .step hg hk (ih (fun hka => hnr (.step hg hk hka)))
  · intro hr
    induction hr with
    | refl _ => exact .refl _
    | @step x k y d hg hk _ ih =>
      have hx : x ≠ a := fun e => hnr (e ▸ .refl _)
      have hg' : (h.write a c).get? x = some d := by rw [get?_write_ne h c hx]; exact hg
      exact .step hg' hk (ih (fun hka => hnr (.step hg hk hka)))

/-- a root whose abstraction is defined reaches only cells in range -/
theorem reach_lt_of_absH {h : Heap} :
    ∀ (f : Nat) (r : Addr) (n : Node), absH f h r = some n → ∀ b, Reach h r b → b < h.size := by
  intro f
  induction f with
  | zero => intro r n hn; simp [absH] at hn
  | succ f ih =>
    intro r n hn b hb
    simp only [absH] at hn
    cases hg : h.get? r with
    | none => simp [hg] at hn
    | some c =>
      cases hb with
      | refl _ => exact get?_lt hg
      | @step _ k _ d hg' hk hkb =>
        rw [hg] at hg'
        cases Option.some.inj hg'
        simp only [hg] at hn
        cases c with
        | leaf s => simp [Cell.kids] at hk
        | list xs =>
          simp only at hn
          cases hm : optMapM (absH f h) xs with
          | none => simp [hm] at hn
          | some ns =>
            have : ∀ (xs : List Addr) (ns : List Node), optMapM (absH f h) xs = some ns →
                ∀ k ∈ xs, ∃ m, absH f h k = some m := by
              intro xs
              induction xs with
              | nil => intro _ _ k hk; cases hk
              | cons x xs ihx =>
                intro ns hns k hk
                simp only [optMapM] at hns
                cases hx : absH f h x with
                | none => simp [hx] at hns
                | some m =>
                  simp only [hx] at hns
                  cases hxs : optMapM (absH f h) xs with
                  | none => simp [hxs] at hns
                  | some ms =>
                    rcases List.mem_cons.mp hk with rfl | hk
                    · exact ⟨m, hx⟩
                    · exact ihx ms hxs k hk
            obtain ⟨m, hm'⟩ := this xs ns hm k (by simpa [Cell.kids] using hk)
            exact ih k m hm' b hkb
        | cont kvs =>
          simp only at hn
          cases hm : optMapKvs (absH f h) kvs with
          | none => simp [hm] at hn
          | some ns =>
            have : ∀ (xs : List (String × Addr)) (ns : List (String × Node)),
                optMapKvs (absH f h) xs = some ns → ∀ p ∈ xs, ∃ m, absH f h p.2 = some m := by
              intro xs
              induction xs with
              | nil => intro _ _ k hk; cases hk
              | cons x xs ihx =>
                obtain ⟨kx, x⟩ := x
                intro ns hns p hp
                simp only [optMapKvs] at hns
                cases hx : absH f h x with
                | none => simp [hx] at hns
                | some m =>
                  simp only [hx] at hns
                  cases hxs : optMapKvs (absH f h) xs with
                  | none => simp [hxs] at hns
                  | some ms =>
                    rcases List.mem_cons.mp hp with rfl | hp
                    · exact ⟨m, hx⟩
                    · exact ihx ms hxs p hp
            simp only [Cell.kids, List.mem_map] at hk
            obtain ⟨p, hp, rfl⟩ := hk
            obtain ⟨m, hm'⟩ := this kvs ns hm p hp
            exact ih p.2 m hm' b hkb

/-! ### inversion / totality helpers for `optMapM`, `optMapKvs` -/

theorem optMapM_cons_some {g : Addr → Option Node} {x : Addr} {xs : List Addr} {ns : List Node} :
    optMapM g (x :: xs) = some ns ↔ ∃ n ns', g x = some n ∧ optMapM g xs = some ns' ∧ ns = n :: ns' := by
  simp only [optMapM]
  cases hx : g x with
  | none => simp
  | some n =>
    cases hxs : optMapM g xs with
    | none => simp
    | some ms =>
      simp only [Option.some.injEq]
      constructor
      · intro h; exact ⟨n, ms, rfl, rfl, h.symm⟩
      · rintro ⟨n', ns', h1, h2, h3⟩; subst h1; subst h2; exact h3.symm

theorem optMapKvs_cons_some {g : Addr → Option Node} {k : String} {x : Addr}
    {xs : List (String × Addr)} {ns : List (String × Node)} :
    optMapKvs g ((k, x) :: xs) = some ns ↔
      ∃ n ns', g x = some n ∧ optMapKvs g xs = some ns' ∧ ns = (k, n) :: ns' := by
  simp only [optMapKvs]
  cases hx : g x with
  | none => simp
  | some n =>
    cases hxs : optMapKvs g xs with
    | none => simp
    | some ms =>
      simp only [Option.some.injEq]
      constructor
      · intro h; exact ⟨n, ms, rfl, rfl, h.symm⟩
      · rintro ⟨n', ns', h1, h2, h3⟩; subst h1; subst h2; exact h3.symm

theorem optMapM_total {g : Addr → Option Node} :
    ∀ {xs : List Addr}, (∀ x ∈ xs, ∃ n, g x = some n) → ∃ ns, optMapM g xs = some ns
  | [], _ => ⟨[], rfl⟩
  | x :: xs, h => by
    obtain ⟨n, hn⟩ := h x (List.mem_cons_self ..)
    obtain ⟨ns, hns⟩ := optMapM_total (fun y hy => h y (List.mem_cons_of_mem _ hy))
    exact ⟨n :: ns, optMapM_cons_some.mpr ⟨n, ns, hn, hns, rfl⟩⟩

theorem optMapKvs_total {g : Addr → Option Node} :
    ∀ {xs : List (String × Addr)}, (∀ p ∈ xs, ∃ n, g p.2 = some n) → ∃ ns, optMapKvs g xs = some ns
  | [], _ => ⟨[], rfl⟩
  | (k, x) :: xs, h => by
    obtain ⟨n, hn⟩ := h (k, x) (List.mem_cons_self ..)
    obtain ⟨ns, hns⟩ := optMapKvs_total (fun y hy => h y (List.mem_cons_of_mem _ hy))
    exact ⟨(k, n) :: ns, optMapKvs_cons_some.mpr ⟨n, ns, hn, hns, rfl⟩⟩

/-- on a closed heap with a rank function every in-range root has a defined abstraction, with
    fuel `rank + 1` -/
theorem absH_of_ranked {h : Heap} (hc : h.Closed) {rank : Addr → Nat} (hr : h.RankedBy rank) :
    ∀ (d : Nat) (a : Addr), rank a ≤ d → a < h.size → ∃ n, absH (d + 1) h a = some n := by
  intro d
  induction d with
  | zero =>
    intro a hd ha
    have hsome : ∃ c, h.get? a = some c := by
      unfold Heap.get?; exact ⟨_, List.getElem?_eq_getElem ha⟩
    obtain ⟨c, hg⟩ := hsome
    have hk : c.kids = [] := by
      cases hkk : c.kids with
      | nil => rfl
      | cons k ks =>
        have := hr a c hg k (by rw [hkk]; exact List.mem_cons_self ..)
        exact absurd this (by have : rank a = 0 := Nat.le_zero.mp hd; rw [this]; exact Nat.not_lt_zero _)
    cases c with
    | leaf s => exact ⟨.leaf s, by simp [absH, hg]⟩
    | list xs =>
      simp only [Cell.kids] at hk; subst hk
      exact ⟨.list [], by simp [absH, hg, optMapM]⟩
    | cont kvs =>
      simp only [Cell.kids, List.map_eq_nil_iff] at hk; subst hk
      exact ⟨.cont [], by simp [absH, hg, optMapKvs]⟩
  | succ d ih =>
    intro a hd ha
    have hsome : ∃ c, h.get? a = some c := by
      unfold Heap.get?; exact ⟨_, List.getElem?_eq_getElem ha⟩
    obtain ⟨c, hg⟩ := hsome
    have hkids : ∀ k ∈ c.kids, ∃ n, absH (d + 1) h k = some n := by
      intro k hk
      have h1 := hr a c hg k hk
      exact ih k (Nat.le_of_lt_succ (Nat.lt_of_lt_of_le h1 hd)) (hc a c hg k hk)
    cases c with
    | leaf s => exact ⟨.leaf s, by simp [absH, hg]⟩
    | list xs =>
      obtain ⟨ns, hns⟩ := optMapM_total (g := absH (d + 1) h) (xs := xs)
        (fun x hx => hkids x (by simpa [Cell.kids] using hx))
      exact ⟨.list ns, by rw [absH]; simp only [hg, hns]⟩
    | cont kvs =>
      obtain ⟨ns, hns⟩ := optMapKvs_total (g := absH (d + 1) h) (xs := kvs)
        (fun p hp => hkids p.2 (by simp only [Cell.kids, List.mem_map]; exact ⟨p, hp, rfl⟩))
      exact ⟨.cont ns, by rw [absH]; simp only [hg, hns]⟩

/-! ## 3. Clone -/

/-- every cell at an address ≥ n stores only (in-range) addresses ≥ n -/
def FreshClosed (n : Nat) (h : Heap) : Prop :=
  ∀ a c, n ≤ a → h.get? a = some c → ∀ k ∈ c.kids, n ≤ k ∧ k < h.size

theorem FreshClosed.alloc {n : Nat} {h : Heap} (hf : FreshClosed n h) {c : Cell}
    (hc : ∀ k ∈ c.kids, n ≤ k ∧ k < h.size) : FreshClosed n (h.alloc c).1 := by
  intro a d hna hg k hk
  rw [size_alloc]
  rcases get?_alloc hg with ⟨_, hg'⟩ | ⟨_, rfl⟩
  · exact ⟨(hf a d hna hg' k hk).1, Nat.lt_succ_of_lt (hf a d hna hg' k hk).2⟩
  · exact ⟨(hc k hk).1, Nat.lt_succ_of_lt (hc k hk).2⟩

theorem freshClosed_size (h : Heap) : FreshClosed h.size h := by
  intro a c hna hg
  exact absurd (get?_lt hg) (Nat.not_lt.mpr hna)

/-- what a transformer that returns a freshly allocated copy guarantees: the old heap is a
    prefix, the result address is new, and the new cells only point to new cells -/
def AllocSpec (g : Heap → Addr → Option (Heap × Addr)) : Prop :=
  ∀ h a h' r, g h a = some (h', r) →
    h ≤ h' ∧ h.size ≤ r ∧ r < h'.size ∧ ∀ n, n ≤ h.size → FreshClosed n h → FreshClosed n h'

theorem mapAddrs_spec {g : Heap → Addr → Option (Heap × Addr)} (hg : AllocSpec g) :
    ∀ (xs : List Addr) (h h' : Heap) (ys : List Addr), mapAddrs g h xs = some (h', ys) →
      h ≤ h' ∧ (∀ y ∈ ys, h.size ≤ y ∧ y < h'.size) ∧
        ∀ n, n ≤ h.size → FreshClosed n h → FreshClosed n h'
  | [], h, h', ys, hm => by
    simp only [mapAddrs, Option.some.injEq, Prod.mk.injEq] at hm
    obtain ⟨rfl, rfl⟩ := hm
    exact ⟨le_refl _, (fun y hy => by cases hy), fun _ _ hf => hf⟩
  | x :: xs, h, h', ys, hm => by
    simp only [mapAddrs] at hm
    cases hx : g h x with
    | none => simp [hx] at hm
    | some p =>
      obtain ⟨h1, y⟩ := p
      simp only [hx] at hm
      cases hxs : mapAddrs g h1 xs with
      | none => simp [hxs] at hm
      | some q =>
        obtain ⟨h2, ys'⟩ := q
        simp only [hxs, Option.some.injEq, Prod.mk.injEq] at hm
        obtain ⟨rfl, rfl⟩ := hm
        obtain ⟨l1, b1, b2, f1⟩ := hg h x h1 y hx
        obtain ⟨l2, b3, f2⟩ := mapAddrs_spec hg xs h1 h2 ys' hxs
        refine ⟨le_trans l1 l2, ?_, ?_⟩
        · intro z hz
          rcases List.mem_cons.mp hz with rfl | hz
          · exact ⟨b1, Nat.lt_of_lt_of_le b2 (size_le_of_le l2)⟩
          · exact ⟨Nat.le_trans (size_le_of_le l1) (b3 z hz).1, (b3 z hz).2⟩
        · intro n hn hf
          exact f2 n (Nat.le_trans hn (size_le_of_le l1)) (f1 n hn hf)

theorem mapKvs_spec {g : Heap → Addr → Option (Heap × Addr)} (hg : AllocSpec g) :
    ∀ (xs : List (String × Addr)) (h h' : Heap) (ys : List (String × Addr)),
      mapKvs g h xs = some (h', ys) →
      h ≤ h' ∧ (∀ p ∈ ys, h.size ≤ p.2 ∧ p.2 < h'.size) ∧
        ∀ n, n ≤ h.size → FreshClosed n h → FreshClosed n h'
  | [], h, h', ys, hm => by
    simp only [mapKvs, Option.some.injEq, Prod.mk.injEq] at hm
    obtain ⟨rfl, rfl⟩ := hm
    exact ⟨le_refl _, (fun y hy => by cases hy), fun _ _ hf => hf⟩
  | (k, x) :: xs, h, h', ys, hm => by
    simp only [mapKvs] at hm
    cases hx : g h x with
    | none => simp [hx] at hm
    | some p =>
      obtain ⟨h1, y⟩ := p
      simp only [hx] at hm
      cases hxs : mapKvs g h1 xs with
      | none => simp [hxs] at hm
      | some q =>
        obtain ⟨h2, ys'⟩ := q
        simp only [hxs, Option.some.injEq, Prod.mk.injEq] at hm
        obtain ⟨rfl, rfl⟩ := hm
        obtain ⟨l1, b1, b2, f1⟩ := hg h x h1 y hx
        obtain ⟨l2, b3, f2⟩ := mapKvs_spec hg xs h1 h2 ys' hxs
        refine ⟨le_trans l1 l2, ?_, ?_⟩
        · intro z hz
          rcases List.mem_cons.mp hz with rfl | hz
          · exact ⟨b1, Nat.lt_of_lt_of_le b2 (size_le_of_le l2)⟩
          · exact ⟨Nat.le_trans (size_le_of_le l1) (b3 z hz).1, (b3 z hz).2⟩
        · intro n hn hf
          exact f2 n (Nat.le_trans hn (size_le_of_le l1)) (f1 n hn hf)

/-- Clone allocates: nothing old is written, the clone root is new, new cells point to new cells -/
theorem cloneF_spec : ∀ (f : Nat), AllocSpec (cloneF f)
  | 0 => by intro h a h' r hc; simp [cloneF] at hc
  | f + 1 => by
    intro h a h' r hc
    simp only [cloneF] at hc
    cases hg : h.get? a with
    | none => simp [hg] at hc
    | some c =>
      simp only [hg] at hc
      cases c with
      | leaf s =>
        simp only [Option.some.injEq] at hc
        have e1 : h' = (h.alloc (.leaf s)).1 := (congrArg Prod.fst hc).symm
        have e2 : r = h.size := (congrArg Prod.snd hc).symm
        subst e1; subst e2
        refine ⟨le_alloc _ _, Nat.le_refl _, by rw [size_alloc]; exact Nat.lt_succ_self _, ?_⟩
        intro n _ hf
        exact hf.alloc (by intro k hk; simp [Cell.kids] at hk)
      | list xs =>
        simp only at hc
        cases hm : mapAddrs (cloneF f) h xs with
        | none => simp [hm] at hc
        | some q =>
          obtain ⟨h1, ys⟩ := q
          simp only [hm, Option.some.injEq] at hc
          have e1 : h' = (h1.alloc (.list ys)).1 := (congrArg Prod.fst hc).symm
          have e2 : r = h1.size := (congrArg Prod.snd hc).symm
          subst e1; subst e2
          obtain ⟨l1, b, f1⟩ := mapAddrs_spec (cloneF_spec f) xs h h1 ys hm
          refine ⟨le_trans l1 (le_alloc _ _), size_le_of_le l1, by rw [size_alloc]; exact Nat.lt_succ_self _, ?_⟩
          intro n hn hf
          exact (f1 n hn hf).alloc (fun k hk =>
            ⟨Nat.le_trans hn (b k (by simpa [Cell.kids] using hk)).1, (b k (by simpa [Cell.kids] using hk)).2⟩)
      | cont kvs =>
        simp only at hc
        cases hm : mapKvs (cloneF f) h kvs with
        | none => simp [hm] at hc
        | some q =>
          obtain ⟨h1, ys⟩ := q
          simp only [hm, Option.some.injEq] at hc
          have e1 : h' = (h1.alloc (.cont ys)).1 := (congrArg Prod.fst hc).symm
          have e2 : r = h1.size := (congrArg Prod.snd hc).symm
          subst e1; subst e2
          obtain ⟨l1, b, f1⟩ := mapKvs_spec (cloneF_spec f) kvs h h1 ys hm
          refine ⟨le_trans l1 (le_alloc _ _), size_le_of_le l1, by rw [size_alloc]; exact Nat.lt_succ_self _, ?_⟩
          intro n hn hf
          refine (f1 n hn hf).alloc (fun k hk => ?_)
          simp only [Cell.kids, List.mem_map] at hk
          obtain ⟨p, hp, rfl⟩ := hk
          exact ⟨Nat.le_trans hn (b p hp).1, (b p hp).2⟩

/-- everything reachable from a new address in a `FreshClosed` heap is new -/
theorem reach_fresh {n : Nat} {h : Heap} (hf : FreshClosed n h) {r b : Addr} (hr : Reach h r b)
    (hn : n ≤ r) : n ≤ b :=
  Reach.closed_set (fun a => n ≤ a) (fun a c ha hg k hk => (hf a c ha hg k hk).1) hr hn

theorem mapAddrs_abs {g : Heap → Addr → Option (Heap × Addr)} {f : Nat} (hs : AllocSpec g)
    (hg : ∀ h a n, absH f h a = some n → ∃ h' r, g h a = some (h', r) ∧ absH f h' r = some n) :
    ∀ (xs : List Addr) (h : Heap) (ns : List Node), optMapM (absH f h) xs = some ns →
      ∃ h' ys, mapAddrs g h xs = some (h', ys) ∧ optMapM (absH f h') ys = some ns
  | [], h, ns, hm => ⟨h, [], rfl, hm⟩
  | x :: xs, h, ns, hm => by
    obtain ⟨n, ns', hx, hxs, rfl⟩ := optMapM_cons_some.mp hm
    obtain ⟨h1, y, hgx, hy⟩ := hg h x n hx
    have l1 := (hs h x h1 y hgx).1
    obtain ⟨h2, ys, hmx, hys⟩ := mapAddrs_abs hs hg xs h1 ns' (optMapM_mono l1 hxs)
    have l2 := (mapAddrs_spec hs xs h1 h2 ys hmx).1
    refine ⟨h2, y :: ys, by simp [mapAddrs, hgx, hmx], ?_⟩
    exact optMapM_cons_some.mpr ⟨n, ns', absH_mono l2 f y n hy, hys, rfl⟩

theorem mapKvs_abs {g : Heap → Addr → Option (Heap × Addr)} {f : Nat} (hs : AllocSpec g)
    (hg : ∀ h a n, absH f h a = some n → ∃ h' r, g h a = some (h', r) ∧ absH f h' r = some n) :
    ∀ (xs : List (String × Addr)) (h : Heap) (ns : List (String × Node)),
      optMapKvs (absH f h) xs = some ns →
      ∃ h' ys, mapKvs g h xs = some (h', ys) ∧ optMapKvs (absH f h') ys = some ns
  | [], h, ns, hm => ⟨h, [], rfl, hm⟩
  | (k, x) :: xs, h, ns, hm => by
    obtain ⟨n, ns', hx, hxs, rfl⟩ := optMapKvs_cons_some.mp hm
    obtain ⟨h1, y, hgx, hy⟩ := hg h x n hx
    have l1 := (hs h x h1 y hgx).1
    obtain ⟨h2, ys, hmx, hys⟩ := mapKvs_abs hs hg xs h1 ns' (optMapKvs_mono l1 hxs)
    have l2 := (mapKvs_spec hs xs h1 h2 ys hmx).1
    refine ⟨h2, (k, y) :: ys, by simp [mapKvs, hgx, hmx], ?_⟩
    exact optMapKvs_cons_some.mpr ⟨n, ns', absH_mono l2 f y n hy, hys, rfl⟩

theorem absH_alloc_leaf (f : Nat) (h : Heap) (s : Scalar) :
    absH (f + 1) (h.alloc (.leaf s)).1 h.size = some (.leaf s) := by
  rw [absH, get?_alloc_new]

theorem absH_alloc_list {f : Nat} {h : Heap} {ys : List Addr} {ns : List Node}
    (hm : optMapM (absH f h) ys = some ns) :
    absH (f + 1) (h.alloc (.list ys)).1 h.size = some (.list ns) := by
  rw [absH, get?_alloc_new]
  simp only [optMapM_mono (le_alloc h (.list ys)) hm]

theorem absH_alloc_cont {f : Nat} {h : Heap} {ys : List (String × Addr)} {ns : List (String × Node)}
    (hm : optMapKvs (absH f h) ys = some ns) :
    absH (f + 1) (h.alloc (.cont ys)).1 h.size = some (.cont ns) := by
  rw [absH, get?_alloc_new]
  simp only [optMapKvs_mono (le_alloc h (.cont ys)) hm]

/-- Clone succeeds on every root with a defined abstraction, and the clone abstracts to the
    same document -/
theorem cloneF_abs : ∀ (f : Nat) (h : Heap) (a : Addr) (n : Node), absH f h a = some n →
    ∃ h' r, cloneF f h a = some (h', r) ∧ absH f h' r = some n
  | 0, _, _, _, hn => by simp [absH] at hn
  | f + 1, h, a, n, hn => by
    simp only [absH] at hn
    simp only [cloneF]
    cases hg : h.get? a with
    | none => simp [hg] at hn
    | some c =>
      simp only [hg] at hn ⊢
      cases c with
      | leaf s =>
        refine ⟨(h.alloc (.leaf s)).1, h.size, rfl, ?_⟩
        rw [absH_alloc_leaf]; exact hn
      | list xs =>
        simp only at hn ⊢
        cases hm : optMapM (absH f h) xs with
        | none => simp [hm] at hn
        | some ns =>
          obtain ⟨h1, ys, hc, hys⟩ := mapAddrs_abs (cloneF_spec f) (cloneF_abs f) xs h ns hm
          simp only [hc]
          refine ⟨(h1.alloc (.list ys)).1, h1.size, rfl, ?_⟩
          rw [absH_alloc_list hys]
          simpa [hm] using hn
      | cont kvs =>
        simp only at hn ⊢
        cases hm : optMapKvs (absH f h) kvs with
        | none => simp [hm] at hn
        | some ns =>
          obtain ⟨h1, ys, hc, hys⟩ := mapKvs_abs (cloneF_spec f) (cloneF_abs f) kvs h ns hm
          simp only [hc]
          refine ⟨(h1.alloc (.cont ys)).1, h1.size, rfl, ?_⟩
          rw [absH_alloc_cont hys]
          simpa [hm] using hn

/-! ### Sequences of in-place writes and allocations -/

/-- `Writes P h h'`: `h'` is obtained from `h` by a sequence of steps, each an allocation or an
    in-place write of an arbitrary cell content at an address `a` that satisfies `P` in the
    heap the write is applied to -/
inductive Writes (P : Heap → Addr → Prop) : Heap → Heap → Prop
  | refl (h : Heap) : Writes P h h
  | write {h h' : Heap} (a : Addr) (c : Cell) : P h a → Writes P (h.write a c) h' → Writes P h h'
  | alloc {h h' : Heap} (c : Cell) : Writes P (h.alloc c).1 h' → Writes P h h'

theorem Writes.trans {P : Heap → Addr → Prop} {a b c : Heap} (h1 : Writes P a b) (h2 : Writes P b c) :
    Writes P a c := by
  induction h1 with
  | refl _ => exact h2
  | write x d hp _ ih => exact .write x d hp (ih h2)
  | alloc d _ ih => exact .alloc d (ih h2)

/-- writes that avoid everything a root reaches leave its abstraction alone -/
theorem Writes.absH_frame {r : Addr} {h h' : Heap}
    (hw : Writes (fun g a => ¬ Reach g r a) h h') {f : Nat} {n : Node}
    (hn : absH f h r = some n) : absH f h' r = some n := by
  induction hw with
  | refl _ => exact hn
  | write a c hp _ ih => exact ih (by rw [absH_write_frame c hp]; exact hn)
  | alloc c _ ih => exact ih (absH_mono (le_alloc _ c) f r n hn)

/-- writes above `h0.size` (and allocations) keep `h0` a prefix -/
theorem Writes.le_of_fresh {h0 h h' : Heap} (hw : Writes (fun _ a => h0.size ≤ a) h h')
    (hl : h0 ≤ h) : h0 ≤ h' := by
  induction hw with
  | refl _ => exact hl
  | write a c hp _ ih => exact ih (le_write hl c hp)
  | alloc c _ ih => exact ih (le_trans hl (le_alloc _ c))

/-- a region `[n0, n1)` of cells that only point into the region -/
def Region (n0 n1 : Nat) (h : Heap) : Prop :=
  ∀ a c, n0 ≤ a → a < n1 → h.get? a = some c → ∀ k ∈ c.kids, n0 ≤ k ∧ k < n1

theorem Region.reach {n0 n1 : Nat} {h : Heap} (hr : Region n0 n1 h) {r b : Addr} (hrb : Reach h r b)
    (h0 : n0 ≤ r) (h1 : r < n1) : n0 ≤ b ∧ b < n1 :=
  Reach.closed_set (fun a => n0 ≤ a ∧ a < n1) (fun a c ha hg k hk => hr a c ha.1 ha.2 hg k hk) hrb ⟨h0, h1⟩

/-- writes outside a region keep it a region and keep the abstraction of every root inside it -/
theorem Writes.region_frame {n0 n1 : Nat} {h h' : Heap}
    (hw : Writes (fun _ a => a < n0 ∨ n1 ≤ a) h h') (hreg : Region n0 n1 h) (hsz : n1 ≤ h.size) :
    Region n0 n1 h' ∧ ∀ (f : Nat) (r : Addr) (n : Node), n0 ≤ r → r < n1 → absH f h r = some n →
      absH f h' r = some n := by
  induction hw with
  | refl _ => exact ⟨hreg, fun _ _ _ _ _ hn => hn⟩
  | @write g g' a c hp _ ih =>
    have hne : ∀ b, n0 ≤ b → b < n1 → b ≠ a := by
      intro b hb0 hb1 e
      subst e
      rcases hp with hp | hp
      · exact absurd hb0 (Nat.not_le.mpr hp)
      · exact absurd hb1 (Nat.not_lt.mpr hp)
    have hreg' : Region n0 n1 (g.write a c) := by
      intro b d hb0 hb1 hg
      rw [get?_write_ne g c (hne b hb0 hb1)] at hg
      exact hreg b d hb0 hb1 hg
    obtain ⟨ih1, ih2⟩ := ih hreg' (by rw [size_write]; exact hsz)
    refine ⟨ih1, fun f r n hr0 hr1 hn => ih2 f r n hr0 hr1 ?_⟩
    have hnr : ¬ Reach g r a := by
      intro hra
      have := hreg.reach hra hr0 hr1
      exact hne a this.1 this.2 rfl
    rw [absH_write_frame c hnr]; exact hn
  | @alloc g g' c _ ih =>
    have hl := le_alloc g c
    have hreg' : Region n0 n1 (g.alloc c).1 := by
      intro b d hb0 hb1 hg
      rw [get?_eq_of_le hl (Nat.lt_of_lt_of_le hb1 hsz)] at hg
      exact hreg b d hb0 hb1 hg
    obtain ⟨ih1, ih2⟩ := ih hreg' (Nat.le_trans hsz (size_le_of_le hl))
    exact ⟨ih1, fun f r n hr0 hr1 hn => ih2 f r n hr0 hr1 (absH_mono hl f r n hn)⟩

/-- after Clone the new cells form a region -/
theorem cloneF_region {f : Nat} {h h' : Heap} {a r : Addr} (hc : cloneF f h a = some (h', r)) :
    Region h.size h'.size h' := by
  obtain ⟨_, _, _, hf⟩ := cloneF_spec f h a h' r hc
  have hfc := hf h.size (Nat.le_refl _) (freshClosed_size h)
  intro b d hb0 _ hg k hk
  exact hfc b d hb0 hg k hk

/-! ### the builder mutators are such writes (to the one cell they are called on) -/

section mutators
variable {Q : Addr → Prop} {h h' : Heap}

theorem addValue_writes {c : Addr} {name : String} {v : Addr} (hq : Q c)
    (he : addValue h c name v = some h') : Writes (fun _ a => Q a) h h' := by
  unfold addValue at he
  split at he
  · cases he; exact .write c _ hq (.refl _)
  · cases he

theorem remove_writes {c : Addr} {name : String} (hq : Q c)
    (he : remove h c name = some h') : Writes (fun _ a => Q a) h h' := by
  unfold remove at he
  split at he
  · cases he; exact .write c _ hq (.refl _)
  · cases he

theorem addContainer_writes {c : Addr} {name : String} {b : Addr} (hq : Q c)
    (he : addContainer h c name = some (h', b)) : Writes (fun _ a => Q a) h h' := by
  unfold addContainer at he
  split at he
  · cases he; exact .alloc (.cont []) (.write c _ hq (.refl _))
  · cases he

theorem addList_writes {c : Addr} {name : String} {b : Addr} (hq : Q c)
    (he : addList h c name = some (h', b)) : Writes (fun _ a => Q a) h h' := by
  unfold addList at he
  split at he
  · cases he; exact .alloc (.list []) (.write c _ hq (.refl _))
  · cases he

theorem listSet_writes {l : Addr} {idx : Nat} {v : Addr} (hq : Q l)
    (he : listSet h l idx v = some h') : Writes (fun _ a => Q a) h h' := by
  unfold listSet at he
  split at he
  · cases he; exact .write l _ hq (.refl _)
  · cases he

theorem listAppend_writes {l : Addr} {v : Addr} (hq : Q l)
    (he : listAppend h l v = some h') : Writes (fun _ a => Q a) h h' := by
  unfold listAppend at he
  split at he
  · cases he; exact .write l _ hq (.refl _)
  · cases he

theorem listClear_writes {l : Addr} (hq : Q l)
    (he : listClear h l = some h') : Writes (fun _ a => Q a) h h' := by
  unfold listClear at he
  split at he
  · cases he; exact .write l _ hq (.refl _)
  · cases he

theorem newLeaf_writes (s : Scalar) : Writes (fun _ a => Q a) h (newLeaf h s).1 :=
  .alloc (.leaf s) (.refl _)

end mutators

/-! ### decidable sufficient checks for `Closed` / `RankedBy` (for concrete heaps) -/

theorem closed_of_all {h : Heap}
    (hall : (h.cells.all fun c => c.kids.all fun k => decide (k < h.size)) = true) : h.Closed := by
  intro a c hg k hk
  have hc : c ∈ h.cells := List.mem_of_getElem? hg
  have := List.all_eq_true.mp hall c hc
  exact of_decide_eq_true (List.all_eq_true.mp this k hk)

theorem rankedBy_of_all {h : Heap} {rank : Addr → Nat}
    (hall : ((List.range h.size).all fun a =>
      match h.get? a with
      | some c => c.kids.all fun k => decide (rank k < rank a)
      | none => true) = true) : h.RankedBy rank := by
  intro a c hg k hk
  have ha : a ∈ List.range h.size := List.mem_range.mpr (get?_lt hg)
  have := List.all_eq_true.mp hall a ha
  simp only [hg] at this
  exact of_decide_eq_true (List.all_eq_true.mp this k hk)

end Ytk.Heap
