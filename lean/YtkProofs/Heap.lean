/-
  YtkProofs.Heap — lemmas about the heap-level model (YtkModel/Heap.lean).

  1. heaps: prefix order, alloc, write
  2. abstraction: monotone in the heap, depends only on the cells a root reaches (frame)
  3. Clone: prefix, freshness, abstraction, independence
  4. Merge: prefix, refinement of the value-level merge, sharing
-/
import YtkModel.Heap
import YtkProofs.Equal
import YtkProofs.Merge

namespace Ytk.Heap

/-! ## 1. Heaps -/

namespace Heap

theorem le_refl (h : Heap) : h ≤ h := ⟨[], by simp⟩

theorem le_trans {a b c : Heap} (h1 : a ≤ b) (h2 : b ≤ c) : a ≤ c := by
  obtain ⟨e1, h1⟩ := h1
  obtain ⟨e2, h2⟩ := h2
  exact ⟨e1 ++ e2, by rw [h2, h1, List.append_assoc]⟩

theorem le_alloc (h : Heap) (c : Cell) : h ≤ (h.alloc c).1 := ⟨[c], rfl⟩

theorem size_alloc (h : Heap) (c : Cell) : (h.alloc c).1.size = h.size + 1 := by
  simp [alloc, size]

theorem alloc_snd (h : Heap) (c : Cell) : (h.alloc c).2 = h.size := rfl

theorem get?_alloc_new (h : Heap) (c : Cell) : (h.alloc c).1.get? h.size = some c := by
  simp [alloc, get?, size]

theorem size_le_of_le {h h' : Heap} (hl : h ≤ h') : h.size ≤ h'.size := by
  obtain ⟨e, he⟩ := hl
  simp [size, he]

theorem get?_lt {h : Heap} {a : Addr} {c : Cell} (hg : h.get? a = some c) : a < h.size := by
  unfold get? at hg
  exact (List.getElem?_eq_some_iff.mp hg).1

theorem get?_of_le {h h' : Heap} (hl : h ≤ h') {a : Addr} {c : Cell} (hg : h.get? a = some c) :
    h'.get? a = some c := by
  obtain ⟨e, he⟩ := hl
  have hlt := get?_lt hg
  unfold get? at hg ⊢
  rw [he, List.getElem?_append_left hlt]
  exact hg

theorem get?_eq_of_le {h h' : Heap} (hl : h ≤ h') {a : Addr} (ha : a < h.size) :
    h'.get? a = h.get? a := by
  obtain ⟨e, he⟩ := hl
  unfold get?
  rw [he, List.getElem?_append_left ha]

theorem get?_alloc {h : Heap} {c : Cell} {a : Addr} {d : Cell} (hg : (h.alloc c).1.get? a = some d) :
    (a < h.size ∧ h.get? a = some d) ∨ (a = h.size ∧ d = c) := by
  by_cases ha : a < h.size
  · left
    refine ⟨ha, ?_⟩
    rw [← get?_eq_of_le (le_alloc h c) ha]; exact hg
  · right
    have hlt := get?_lt hg
    rw [size_alloc] at hlt
    have : a = h.size := Nat.le_antisymm (Nat.lt_succ_iff.mp hlt) (Nat.not_lt.mp ha)
    subst this
    rw [get?_alloc_new] at hg
    exact ⟨rfl, (Option.some.inj hg).symm⟩

theorem size_write (h : Heap) (a : Addr) (c : Cell) : (h.write a c).size = h.size := by
  simp [write, size]

theorem get?_write_ne (h : Heap) {a b : Addr} (c : Cell) (hne : b ≠ a) :
    (h.write a c).get? b = h.get? b := by
  simp only [write, get?]
  rw [List.getElem?_set_ne (Ne.symm hne)]

theorem get?_write_self (h : Heap) {a : Addr} (c : Cell) (ha : a < h.size) :
    (h.write a c).get? a = some c := by
  simp only [write, get?]
  rw [List.getElem?_set_self ha]

/-- a write above the size of `h0` keeps `h0` a prefix -/
theorem le_write {h0 h : Heap} (hl : h0 ≤ h) {a : Addr} (c : Cell) (ha : h0.size ≤ a) :
    h0 ≤ h.write a c := by
  obtain ⟨e, he⟩ := hl
  refine ⟨e.set (a - h0.size) c, ?_⟩
  simp only [write, he]
  rw [List.set_append_right _ _ (by simpa [size] using ha)]
  rfl

end Heap

open Heap

/-! ## Reachability -/

theorem Reach.trans {h : Heap} {a b c : Addr} (h1 : Reach h a b) (h2 : Reach h b c) : Reach h a c := by
  induction h1 with
  | refl _ => exact h2
  | step hg hk _ ih => exact .step hg hk (ih h2)

theorem Reach.child {h : Heap} {a k : Addr} {c : Cell} (hg : h.get? a = some c) (hk : k ∈ c.kids) :
    Reach h a k := .step hg hk (.refl k)

/-- everything reachable stays inside a set that contains the root and is closed under the
    child edge -/
theorem Reach.closed_set {h : Heap} (S : Addr → Prop)
    (hS : ∀ a c, S a → h.get? a = some c → ∀ k ∈ c.kids, S k) {a b : Addr}
    (hr : Reach h a b) (ha : S a) : S b := by
  induction hr with
  | refl _ => exact ha
  | step hg hk _ ih => exact ih (hS _ _ ha hg _ hk)

/-- the executable `reachF` only lists reachable addresses -/
theorem mem_reachF {h : Heap} : ∀ (f : Nat) (a b : Addr), b ∈ reachF f h a → Reach h a b
  | 0, a, b, hb => by
    simp only [reachF, List.mem_singleton] at hb
    subst hb; exact .refl _
  | f + 1, a, b, hb => by
    simp only [reachF, List.mem_cons] at hb
    rcases hb with rfl | hb
    · exact .refl _
    · cases hg : h.get? a with
      | none => simp [hg] at hb
      | some c =>
        simp only [hg, List.mem_flatMap] at hb
        obtain ⟨k, hk, hkb⟩ := hb
        exact .step hg hk (mem_reachF f k b hkb)

/-! ## 2. Abstraction -/

theorem optMapM_imp {g g' : Addr → Option Node} :
    ∀ {xs : List Addr} {ns : List Node}, (∀ x ∈ xs, ∀ n, g x = some n → g' x = some n) →
      optMapM g xs = some ns → optMapM g' xs = some ns
  | [], _, _, h => h
  | x :: xs, ns, himp, h => by
    simp only [optMapM] at h ⊢
    cases hx : g x with
    | none => simp [hx] at h
    | some n =>
      simp only [hx] at h
      rw [himp x (List.mem_cons_self ..) n hx]
      cases hxs : optMapM g xs with
      | none => simp [hxs] at h
      | some ms =>
        simp only [hxs] at h
        rw [optMapM_imp (fun y hy => himp y (List.mem_cons_of_mem _ hy)) hxs]
        exact h

theorem optMapKvs_imp {g g' : Addr → Option Node} :
    ∀ {xs : List (String × Addr)} {ns : List (String × Node)},
      (∀ p ∈ xs, ∀ n, g p.2 = some n → g' p.2 = some n) →
      optMapKvs g xs = some ns → optMapKvs g' xs = some ns
  | [], _, _, h => h
  | (k, x) :: xs, ns, himp, h => by
    simp only [optMapKvs] at h ⊢
    cases hx : g x with
    | none => simp [hx] at h
    | some n =>
      simp only [hx] at h
      rw [himp (k, x) (List.mem_cons_self ..) n hx]
      cases hxs : optMapKvs g xs with
      | none => simp [hxs] at h
      | some ms =>
        simp only [hxs] at h
        rw [optMapKvs_imp (fun y hy => himp y (List.mem_cons_of_mem _ hy)) hxs]
        exact h

theorem optMapM_congr {g g' : Addr → Option Node} :
    ∀ {xs : List Addr}, (∀ x ∈ xs, g x = g' x) → optMapM g xs = optMapM g' xs
  | [], _ => rfl
  | x :: xs, h => by
    simp only [optMapM]
    rw [h x (List.mem_cons_self ..), optMapM_congr (fun y hy => h y (List.mem_cons_of_mem _ hy))]

theorem optMapKvs_congr {g g' : Addr → Option Node} :
    ∀ {xs : List (String × Addr)}, (∀ p ∈ xs, g p.2 = g' p.2) → optMapKvs g xs = optMapKvs g' xs
  | [], _ => rfl
  | (k, x) :: xs, h => by
    simp only [optMapKvs]
    rw [h (k, x) (List.mem_cons_self ..), optMapKvs_congr (fun y hy => h y (List.mem_cons_of_mem _ hy))]

/-- the abstraction of a root only grows more defined as the heap is extended -/
theorem absH_mono {h h' : Heap} (hl : h ≤ h') :
    ∀ (f : Nat) (a : Addr) (n : Node), absH f h a = some n → absH f h' a = some n
  | 0, _, _, hn => by simp [absH] at hn
  | f + 1, a, n, hn => by
    simp only [absH] at hn ⊢
    cases hg : h.get? a with
    | none => simp [hg] at hn
    | some c =>
      rw [get?_of_le hl hg]
      simp only [hg] at hn
      cases c with
      | leaf s => exact hn
      | list xs =>
        simp only at hn ⊢
        cases hm : optMapM (absH f h) xs with
        | none => simp [hm] at hn
        | some ns =>
          rw [optMapM_imp (fun x _ m hx => absH_mono hl f x m hx) hm]
          simpa [hm] using hn
      | cont kvs =>
        simp only at hn ⊢
        cases hm : optMapKvs (absH f h) kvs with
        | none => simp [hm] at hn
        | some ns =>
          rw [optMapKvs_imp (fun p _ m hx => absH_mono hl f p.2 m hx) hm]
          simpa [hm] using hn

theorem optMapM_mono {h h' : Heap} (hl : h ≤ h') {f : Nat} {xs : List Addr} {ns : List Node}
    (hm : optMapM (absH f h) xs = some ns) : optMapM (absH f h') xs = some ns :=
  optMapM_imp (fun x _ m hx => absH_mono hl f x m hx) hm

theorem optMapKvs_mono {h h' : Heap} (hl : h ≤ h') {f : Nat} {xs : List (String × Addr)}
    {ns : List (String × Node)} (hm : optMapKvs (absH f h) xs = some ns) :
    optMapKvs (absH f h') xs = some ns :=
  optMapKvs_imp (fun p _ m hx => absH_mono hl f p.2 m hx) hm

/-- more fuel never changes a defined abstraction -/
theorem absH_fuel_succ {h : Heap} :
    ∀ (f : Nat) (a : Addr) (n : Node), absH f h a = some n → absH (f + 1) h a = some n
  | 0, _, _, hn => by simp [absH] at hn
  | f + 1, a, n, hn => by
    rw [absH] at hn
    rw [absH]
    cases hg : h.get? a with
    | none => simp [hg] at hn
    | some c =>
      simp only [hg] at hn ⊢
      cases c with
      | leaf s => exact hn
      | list xs =>
        simp only at hn ⊢
        cases hm : optMapM (absH f h) xs with
        | none => simp [hm] at hn
        | some ns =>
          rw [optMapM_imp (fun x _ m hx => absH_fuel_succ f x m hx) hm]
          simpa [hm] using hn
      | cont kvs =>
        simp only at hn ⊢
        cases hm : optMapKvs (absH f h) kvs with
        | none => simp [hm] at hn
        | some ns =>
          rw [optMapKvs_imp (fun p _ m hx => absH_fuel_succ f p.2 m hx) hm]
          simpa [hm] using hn

theorem absH_fuel_le {h : Heap} {f f' : Nat} (hle : f ≤ f') {a : Addr} {n : Node}
    (hn : absH f h a = some n) : absH f' h a = some n := by
  induction hle with
  | refl => exact hn
  | step _ ih => exact absH_fuel_succ _ _ _ ih

/-- FRAME: two heaps that agree on every cell reachable from `r` give `r` the same abstraction -/
theorem absH_agree {h h' : Heap} :
    ∀ (f : Nat) (r : Addr), (∀ b, Reach h r b → h'.get? b = h.get? b) → absH f h' r = absH f h r
  | 0, _, _ => rfl
  | f + 1, r, hag => by
    simp only [absH]
    rw [hag r (.refl r)]
    cases hg : h.get? r with
    | none => rfl
    | some c =>
      cases c with
      | leaf s => rfl
      | list xs =>
        simp only
        rw [optMapM_congr (g := absH f h') (g' := absH f h) (fun x hx =>
          absH_agree f x (fun b hb => hag b (.step hg (by simpa [Cell.kids] using hx) hb)))]
      | cont kvs =>
        simp only
        rw [optMapKvs_congr (g := absH f h') (g' := absH f h) (fun p hp =>
          absH_agree f p.2 (fun b hb => hag b (.step hg (by
            simp only [Cell.kids, List.mem_map]; exact ⟨p, hp, rfl⟩) hb)))]

/-- FRAME for one write: a write at `a` only changes the abstraction of roots that reach `a` -/
theorem absH_write_frame {h : Heap} {r a : Addr} (c : Cell) (hnr : ¬ Reach h r a) (f : Nat) :
    absH f (h.write a c) r = absH f h r :=
  absH_agree f r (fun b hb => get?_write_ne h c (fun e => hnr (e ▸ hb)))

/-- … and it does not change what such a root reaches -/
theorem reach_write_frame {h : Heap} {r a : Addr} (c : Cell) (hnr : ¬ Reach h r a) {b : Addr} :
    Reach (h.write a c) r b ↔ Reach h r b := by
  constructor
  · intro hr
    induction hr with
    | refl _ => exact .refl _
    | @step x k y d hg hk _ ih =>
      have hx : x ≠ a := fun e => hnr (e ▸ .refl _)
      rw [get?_write_ne h c hx] at hg
      exact .step hg hk (ih (fun hka => hnr (.step hg hk hka)))
  · intro hr
    induction hr with
    | refl _ => exact .refl _
    | @step x k y d hg hk _ ih =>
      have hx : x ≠ a := fun e => hnr (e ▸ .refl _)
      have hg' : (h.write a c).get? x = some d := by rw [get?_write_ne h c hx]; exact hg
      exact .step hg' hk (ih (fun hka => hnr (.step hg hk hka)))

/-- a root whose abstraction is defined reaches only cells in range -/
theorem reach_lt_of_absH {h : Heap} :
    ∀ (f : Nat) (r : Addr) (n : Node), absH f h r = some n → ∀ b, Reach h r b → b < h.size := by
  intro f
  induction f with
  | zero => intro r n hn; simp [absH] at hn
  | succ f ih =>
    intro r n hn b hb
    simp only [absH] at hn
    cases hg : h.get? r with
    | none => simp [hg] at hn
    | some c =>
      cases hb with
      | refl _ => exact get?_lt hg
      | @step _ k _ d hg' hk hkb =>
        rw [hg] at hg'
        cases Option.some.inj hg'
        simp only [hg] at hn
        cases c with
        | leaf s => simp [Cell.kids] at hk
        | list xs =>
          simp only at hn
          cases hm : optMapM (absH f h) xs with
          | none => simp [hm] at hn
          | some ns =>
            have : ∀ (xs : List Addr) (ns : List Node), optMapM (absH f h) xs = some ns →
                ∀ k ∈ xs, ∃ m, absH f h k = some m := by
              intro xs
              induction xs with
              | nil => intro _ _ k hk; cases hk
              | cons x xs ihx =>
                intro ns hns k hk
                simp only [optMapM] at hns
                cases hx : absH f h x with
                | none => simp [hx] at hns
                | some m =>
                  simp only [hx] at hns
                  cases hxs : optMapM (absH f h) xs with
                  | none => simp [hxs] at hns
                  | some ms =>
                    rcases List.mem_cons.mp hk with rfl | hk
                    · exact ⟨m, hx⟩
                    · exact ihx ms hxs k hk
            obtain ⟨m, hm'⟩ := this xs ns hm k (by simpa [Cell.kids] using hk)
            exact ih k m hm' b hkb
        | cont kvs =>
          simp only at hn
          cases hm : optMapKvs (absH f h) kvs with
          | none => simp [hm] at hn
          | some ns =>
            have : ∀ (xs : List (String × Addr)) (ns : List (String × Node)),
                optMapKvs (absH f h) xs = some ns → ∀ p ∈ xs, ∃ m, absH f h p.2 = some m := by
              intro xs
              induction xs with
              | nil => intro _ _ k hk; cases hk
              | cons x xs ihx =>
                obtain ⟨kx, x⟩ := x
                intro ns hns p hp
                simp only [optMapKvs] at hns
                cases hx : absH f h x with
                | none => simp [hx] at hns
                | some m =>
                  simp only [hx] at hns
                  cases hxs : optMapKvs (absH f h) xs with
                  | none => simp [hxs] at hns
                  | some ms =>
                    rcases List.mem_cons.mp hp with rfl | hp
                    · exact ⟨m, hx⟩
                    · exact ihx ms hxs p hp
            simp only [Cell.kids, List.mem_map] at hk
            obtain ⟨p, hp, rfl⟩ := hk
            obtain ⟨m, hm'⟩ := this kvs ns hm p hp
            exact ih p.2 m hm' b hkb

/-! ### inversion / totality helpers for `optMapM`, `optMapKvs` -/

theorem optMapM_cons_some {g : Addr → Option Node} {x : Addr} {xs : List Addr} {ns : List Node} :
    optMapM g (x :: xs) = some ns ↔ ∃ n ns', g x = some n ∧ optMapM g xs = some ns' ∧ ns = n :: ns' := by
  simp only [optMapM]
  cases hx : g x with
  | none => simp
  | some n =>
    cases hxs : optMapM g xs with
    | none => simp
    | some ms =>
      simp only [Option.some.injEq]
      constructor
      · intro h; exact ⟨n, ms, rfl, rfl, h.symm⟩
      · rintro ⟨n', ns', h1, h2, h3⟩; subst h1; subst h2; exact h3.symm

theorem optMapKvs_cons_some {g : Addr → Option Node} {k : String} {x : Addr}
    {xs : List (String × Addr)} {ns : List (String × Node)} :
    optMapKvs g ((k, x) :: xs) = some ns ↔
      ∃ n ns', g x = some n ∧ optMapKvs g xs = some ns' ∧ ns = (k, n) :: ns' := by
  simp only [optMapKvs]
  cases hx : g x with
  | none => simp
  | some n =>
    cases hxs : optMapKvs g xs with
    | none => simp
    | some ms =>
      simp only [Option.some.injEq]
      constructor
      · intro h; exact ⟨n, ms, rfl, rfl, h.symm⟩
      · rintro ⟨n', ns', h1, h2, h3⟩; subst h1; subst h2; exact h3.symm

theorem optMapM_total {g : Addr → Option Node} :
    ∀ {xs : List Addr}, (∀ x ∈ xs, ∃ n, g x = some n) → ∃ ns, optMapM g xs = some ns
  | [], _ => ⟨[], rfl⟩
  | x :: xs, h => by
    obtain ⟨n, hn⟩ := h x (List.mem_cons_self ..)
    obtain ⟨ns, hns⟩ := optMapM_total (fun y hy => h y (List.mem_cons_of_mem _ hy))
    exact ⟨n :: ns, optMapM_cons_some.mpr ⟨n, ns, hn, hns, rfl⟩⟩

theorem optMapKvs_total {g : Addr → Option Node} :
    ∀ {xs : List (String × Addr)}, (∀ p ∈ xs, ∃ n, g p.2 = some n) → ∃ ns, optMapKvs g xs = some ns
  | [], _ => ⟨[], rfl⟩
  | (k, x) :: xs, h => by
    obtain ⟨n, hn⟩ := h (k, x) (List.mem_cons_self ..)
    obtain ⟨ns, hns⟩ := optMapKvs_total (fun y hy => h y (List.mem_cons_of_mem _ hy))
    exact ⟨(k, n) :: ns, optMapKvs_cons_some.mpr ⟨n, ns, hn, hns, rfl⟩⟩

/-- on a closed heap with a rank function every in-range root has a defined abstraction, with
    fuel `rank + 1` -/
theorem absH_of_ranked {h : Heap} (hc : h.Closed) {rank : Addr → Nat} (hr : h.RankedBy rank) :
    ∀ (d : Nat) (a : Addr), rank a ≤ d → a < h.size → ∃ n, absH (d + 1) h a = some n := by
  intro d
  induction d with
  | zero =>
    intro a hd ha
    have hsome : ∃ c, h.get? a = some c := by
      unfold Heap.get?; exact ⟨_, List.getElem?_eq_getElem ha⟩
    obtain ⟨c, hg⟩ := hsome
    have hk : c.kids = [] := by
      cases hkk : c.kids with
      | nil => rfl
      | cons k ks =>
        have := hr a c hg k (by rw [hkk]; exact List.mem_cons_self ..)
        exact absurd this (by have : rank a = 0 := Nat.le_zero.mp hd; rw [this]; exact Nat.not_lt_zero _)
    cases c with
    | leaf s => exact ⟨.leaf s, by simp [absH, hg]⟩
    | list xs =>
      simp only [Cell.kids] at hk; subst hk
      exact ⟨.list [], by simp [absH, hg, optMapM]⟩
    | cont kvs =>
      simp only [Cell.kids, List.map_eq_nil_iff] at hk; subst hk
      exact ⟨.cont [], by simp [absH, hg, optMapKvs]⟩
  | succ d ih =>
    intro a hd ha
    have hsome : ∃ c, h.get? a = some c := by
      unfold Heap.get?; exact ⟨_, List.getElem?_eq_getElem ha⟩
    obtain ⟨c, hg⟩ := hsome
    have hkids : ∀ k ∈ c.kids, ∃ n, absH (d + 1) h k = some n := by
      intro k hk
      have h1 := hr a c hg k hk
      exact ih k (Nat.le_of_lt_succ (Nat.lt_of_lt_of_le h1 hd)) (hc a c hg k hk)
    cases c with
    | leaf s => exact ⟨.leaf s, by simp [absH, hg]⟩
    | list xs =>
      obtain ⟨ns, hns⟩ := optMapM_total (g := absH (d + 1) h) (xs := xs)
        (fun x hx => hkids x (by simpa [Cell.kids] using hx))
      exact ⟨.list ns, by rw [absH]; simp only [hg, hns]⟩
    | cont kvs =>
      obtain ⟨ns, hns⟩ := optMapKvs_total (g := absH (d + 1) h) (xs := kvs)
        (fun p hp => hkids p.2 (by simp only [Cell.kids, List.mem_map]; exact ⟨p, hp, rfl⟩))
      exact ⟨.cont ns, by rw [absH]; simp only [hg, hns]⟩

/-! ## 3. Clone -/

/-- every cell at an address ≥ n stores only (in-range) addresses ≥ n -/
def FreshClosed (n : Nat) (h : Heap) : Prop :=
  ∀ a c, n ≤ a → h.get? a = some c → ∀ k ∈ c.kids, n ≤ k ∧ k < h.size

theorem FreshClosed.alloc {n : Nat} {h : Heap} (hf : FreshClosed n h) {c : Cell}
    (hc : ∀ k ∈ c.kids, n ≤ k ∧ k < h.size) : FreshClosed n (h.alloc c).1 := by
  intro a d hna hg k hk
  rw [size_alloc]
  rcases get?_alloc hg with ⟨_, hg'⟩ | ⟨_, rfl⟩
  · exact ⟨(hf a d hna hg' k hk).1, Nat.lt_succ_of_lt (hf a d hna hg' k hk).2⟩
  · exact ⟨(hc k hk).1, Nat.lt_succ_of_lt (hc k hk).2⟩

theorem freshClosed_size (h : Heap) : FreshClosed h.size h := by
  intro a c hna hg
  exact absurd (get?_lt hg) (Nat.not_lt.mpr hna)

/-- what a transformer that returns a freshly allocated copy guarantees: the old heap is a
    prefix, the result address is new, and the new cells only point to new cells -/
def AllocSpec (g : Heap → Addr → Option (Heap × Addr)) : Prop :=
  ∀ h a h' r, g h a = some (h', r) →
    h ≤ h' ∧ h.size ≤ r ∧ r < h'.size ∧ ∀ n, n ≤ h.size → FreshClosed n h → FreshClosed n h'

theorem mapAddrs_spec {g : Heap → Addr → Option (Heap × Addr)} (hg : AllocSpec g) :
    ∀ (xs : List Addr) (h h' : Heap) (ys : List Addr), mapAddrs g h xs = some (h', ys) →
      h ≤ h' ∧ (∀ y ∈ ys, h.size ≤ y ∧ y < h'.size) ∧
        ∀ n, n ≤ h.size → FreshClosed n h → FreshClosed n h'
  | [], h, h', ys, hm => by
    simp only [mapAddrs, Option.some.injEq, Prod.mk.injEq] at hm
    obtain ⟨rfl, rfl⟩ := hm
    exact ⟨le_refl _, (fun y hy => by cases hy), fun _ _ hf => hf⟩
  | x :: xs, h, h', ys, hm => by
    simp only [mapAddrs] at hm
    cases hx : g h x with
    | none => simp [hx] at hm
    | some p =>
      obtain ⟨h1, y⟩ := p
      simp only [hx] at hm
      cases hxs : mapAddrs g h1 xs with
      | none => simp [hxs] at hm
      | some q =>
        obtain ⟨h2, ys'⟩ := q
        simp only [hxs, Option.some.injEq, Prod.mk.injEq] at hm
        obtain ⟨rfl, rfl⟩ := hm
        obtain ⟨l1, b1, b2, f1⟩ := hg h x h1 y hx
        obtain ⟨l2, b3, f2⟩ := mapAddrs_spec hg xs h1 h2 ys' hxs
        refine ⟨le_trans l1 l2, ?_, ?_⟩
        · intro z hz
          rcases List.mem_cons.mp hz with rfl | hz
          · exact ⟨b1, Nat.lt_of_lt_of_le b2 (size_le_of_le l2)⟩
          · exact ⟨Nat.le_trans (size_le_of_le l1) (b3 z hz).1, (b3 z hz).2⟩
        · intro n hn hf
          exact f2 n (Nat.le_trans hn (size_le_of_le l1)) (f1 n hn hf)

theorem mapKvs_spec {g : Heap → Addr → Option (Heap × Addr)} (hg : AllocSpec g) :
    ∀ (xs : List (String × Addr)) (h h' : Heap) (ys : List (String × Addr)),
      mapKvs g h xs = some (h', ys) →
      h ≤ h' ∧ (∀ p ∈ ys, h.size ≤ p.2 ∧ p.2 < h'.size) ∧
        ∀ n, n ≤ h.size → FreshClosed n h → FreshClosed n h'
  | [], h, h', ys, hm => by
    simp only [mapKvs, Option.some.injEq, Prod.mk.injEq] at hm
    obtain ⟨rfl, rfl⟩ := hm
    exact ⟨le_refl _, (fun y hy => by cases hy), fun _ _ hf => hf⟩
  | (k, x) :: xs, h, h', ys, hm => by
    simp only [mapKvs] at hm
    cases hx : g h x with
    | none => simp [hx] at hm
    | some p =>
      obtain ⟨h1, y⟩ := p
      simp only [hx] at hm
      cases hxs : mapKvs g h1 xs with
      | none => simp [hxs] at hm
      | some q =>
        obtain ⟨h2, ys'⟩ := q
        simp only [hxs, Option.some.injEq, Prod.mk.injEq] at hm
        obtain ⟨rfl, rfl⟩ := hm
        obtain ⟨l1, b1, b2, f1⟩ := hg h x h1 y hx
        obtain ⟨l2, b3, f2⟩ := mapKvs_spec hg xs h1 h2 ys' hxs
        refine ⟨le_trans l1 l2, ?_, ?_⟩
        · intro z hz
          rcases List.mem_cons.mp hz with rfl | hz
          · exact ⟨b1, Nat.lt_of_lt_of_le b2 (size_le_of_le l2)⟩
          · exact ⟨Nat.le_trans (size_le_of_le l1) (b3 z hz).1, (b3 z hz).2⟩
        · intro n hn hf
          exact f2 n (Nat.le_trans hn (size_le_of_le l1)) (f1 n hn hf)

/-- Clone allocates: nothing old is written, the clone root is new, new cells point to new cells -/
theorem cloneF_spec : ∀ (f : Nat), AllocSpec (cloneF f)
  | 0 => by intro h a h' r hc; simp [cloneF] at hc
  | f + 1 => by
    intro h a h' r hc
    simp only [cloneF] at hc
    cases hg : h.get? a with
    | none => simp [hg] at hc
    | some c =>
      simp only [hg] at hc
      cases c with
      | leaf s =>
        simp only [Option.some.injEq] at hc
        have e1 : h' = (h.alloc (.leaf s)).1 := (congrArg Prod.fst hc).symm
        have e2 : r = h.size := (congrArg Prod.snd hc).symm
        subst e1; subst e2
        refine ⟨le_alloc _ _, Nat.le_refl _, by rw [size_alloc]; exact Nat.lt_succ_self _, ?_⟩
        intro n _ hf
        exact hf.alloc (by intro k hk; simp [Cell.kids] at hk)
      | list xs =>
        simp only at hc
        cases hm : mapAddrs (cloneF f) h xs with
        | none => simp [hm] at hc
        | some q =>
          obtain ⟨h1, ys⟩ := q
          simp only [hm, Option.some.injEq] at hc
          have e1 : h' = (h1.alloc (.list ys)).1 := (congrArg Prod.fst hc).symm
          have e2 : r = h1.size := (congrArg Prod.snd hc).symm
          subst e1; subst e2
          obtain ⟨l1, b, f1⟩ := mapAddrs_spec (cloneF_spec f) xs h h1 ys hm
          refine ⟨le_trans l1 (le_alloc _ _), size_le_of_le l1, by rw [size_alloc]; exact Nat.lt_succ_self _, ?_⟩
          intro n hn hf
          exact (f1 n hn hf).alloc (fun k hk =>
            ⟨Nat.le_trans hn (b k (by simpa [Cell.kids] using hk)).1, (b k (by simpa [Cell.kids] using hk)).2⟩)
      | cont kvs =>
        simp only at hc
        cases hm : mapKvs (cloneF f) h kvs with
        | none => simp [hm] at hc
        | some q =>
          obtain ⟨h1, ys⟩ := q
          simp only [hm, Option.some.injEq] at hc
          have e1 : h' = (h1.alloc (.cont ys)).1 := (congrArg Prod.fst hc).symm
          have e2 : r = h1.size := (congrArg Prod.snd hc).symm
          subst e1; subst e2
          obtain ⟨l1, b, f1⟩ := mapKvs_spec (cloneF_spec f) kvs h h1 ys hm
          refine ⟨le_trans l1 (le_alloc _ _), size_le_of_le l1, by rw [size_alloc]; exact Nat.lt_succ_self _, ?_⟩
          intro n hn hf
          refine (f1 n hn hf).alloc (fun k hk => ?_)
          simp only [Cell.kids, List.mem_map] at hk
          obtain ⟨p, hp, rfl⟩ := hk
          exact ⟨Nat.le_trans hn (b p hp).1, (b p hp).2⟩

/-- everything reachable from a new address in a `FreshClosed` heap is new -/
theorem reach_fresh {n : Nat} {h : Heap} (hf : FreshClosed n h) {r b : Addr} (hr : Reach h r b)
    (hn : n ≤ r) : n ≤ b :=
  Reach.closed_set (fun a => n ≤ a) (fun a c ha hg k hk => (hf a c ha hg k hk).1) hr hn

theorem mapAddrs_abs {g : Heap → Addr → Option (Heap × Addr)} {f : Nat} (hs : AllocSpec g)
    (hg : ∀ h a n, absH f h a = some n → ∃ h' r, g h a = some (h', r) ∧ absH f h' r = some n) :
    ∀ (xs : List Addr) (h : Heap) (ns : List Node), optMapM (absH f h) xs = some ns →
      ∃ h' ys, mapAddrs g h xs = some (h', ys) ∧ optMapM (absH f h') ys = some ns
  | [], h, ns, hm => ⟨h, [], rfl, hm⟩
  | x :: xs, h, ns, hm => by
    obtain ⟨n, ns', hx, hxs, rfl⟩ := optMapM_cons_some.mp hm
    obtain ⟨h1, y, hgx, hy⟩ := hg h x n hx
    have l1 := (hs h x h1 y hgx).1
    obtain ⟨h2, ys, hmx, hys⟩ := mapAddrs_abs hs hg xs h1 ns' (optMapM_mono l1 hxs)
    have l2 := (mapAddrs_spec hs xs h1 h2 ys hmx).1
    refine ⟨h2, y :: ys, by simp [mapAddrs, hgx, hmx], ?_⟩
    exact optMapM_cons_some.mpr ⟨n, ns', absH_mono l2 f y n hy, hys, rfl⟩

theorem mapKvs_abs {g : Heap → Addr → Option (Heap × Addr)} {f : Nat} (hs : AllocSpec g)
    (hg : ∀ h a n, absH f h a = some n → ∃ h' r, g h a = some (h', r) ∧ absH f h' r = some n) :
    ∀ (xs : List (String × Addr)) (h : Heap) (ns : List (String × Node)),
      optMapKvs (absH f h) xs = some ns →
      ∃ h' ys, mapKvs g h xs = some (h', ys) ∧ optMapKvs (absH f h') ys = some ns
  | [], h, ns, hm => ⟨h, [], rfl, hm⟩
  | (k, x) :: xs, h, ns, hm => by
    obtain ⟨n, ns', hx, hxs, rfl⟩ := optMapKvs_cons_some.mp hm
    obtain ⟨h1, y, hgx, hy⟩ := hg h x n hx
    have l1 := (hs h x h1 y hgx).1
    obtain ⟨h2, ys, hmx, hys⟩ := mapKvs_abs hs hg xs h1 ns' (optMapKvs_mono l1 hxs)
    have l2 := (mapKvs_spec hs xs h1 h2 ys hmx).1
    refine ⟨h2, (k, y) :: ys, by simp [mapKvs, hgx, hmx], ?_⟩
    exact optMapKvs_cons_some.mpr ⟨n, ns', absH_mono l2 f y n hy, hys, rfl⟩

theorem absH_alloc_leaf (f : Nat) (h : Heap) (s : Scalar) :
    absH (f + 1) (h.alloc (.leaf s)).1 h.size = some (.leaf s) := by
  rw [absH, get?_alloc_new]

theorem absH_alloc_list {f : Nat} {h : Heap} {ys : List Addr} {ns : List Node}
    (hm : optMapM (absH f h) ys = some ns) :
    absH (f + 1) (h.alloc (.list ys)).1 h.size = some (.list ns) := by
  rw [absH, get?_alloc_new]
  simp only [optMapM_mono (le_alloc h (.list ys)) hm]

theorem absH_alloc_cont {f : Nat} {h : Heap} {ys : List (String × Addr)} {ns : List (String × Node)}
    (hm : optMapKvs (absH f h) ys = some ns) :
    absH (f + 1) (h.alloc (.cont ys)).1 h.size = some (.cont ns) := by
  rw [absH, get?_alloc_new]
  simp only [optMapKvs_mono (le_alloc h (.cont ys)) hm]

/-- Clone succeeds on every root with a defined abstraction, and the clone abstracts to the
    same document -/
theorem cloneF_abs : ∀ (f : Nat) (h : Heap) (a : Addr) (n : Node), absH f h a = some n →
    ∃ h' r, cloneF f h a = some (h', r) ∧ absH f h' r = some n
  | 0, _, _, _, hn => by simp [absH] at hn
  | f + 1, h, a, n, hn => by
    simp only [absH] at hn
    simp only [cloneF]
    cases hg : h.get? a with
    | none => simp [hg] at hn
    | some c =>
      simp only [hg] at hn ⊢
      cases c with
      | leaf s =>
        refine ⟨(h.alloc (.leaf s)).1, h.size, rfl, ?_⟩
        rw [absH_alloc_leaf]; exact hn
      | list xs =>
        simp only at hn ⊢
        cases hm : optMapM (absH f h) xs with
        | none => simp [hm] at hn
        | some ns =>
          obtain ⟨h1, ys, hc, hys⟩ := mapAddrs_abs (cloneF_spec f) (cloneF_abs f) xs h ns hm
          simp only [hc]
          refine ⟨(h1.alloc (.list ys)).1, h1.size, rfl, ?_⟩
          rw [absH_alloc_list hys]
          simpa [hm] using hn
      | cont kvs =>
        simp only at hn ⊢
        cases hm : optMapKvs (absH f h) kvs with
        | none => simp [hm] at hn
        | some ns =>
          obtain ⟨h1, ys, hc, hys⟩ := mapKvs_abs (cloneF_spec f) (cloneF_abs f) kvs h ns hm
          simp only [hc]
          refine ⟨(h1.alloc (.cont ys)).1, h1.size, rfl, ?_⟩
          rw [absH_alloc_cont hys]
          simpa [hm] using hn

/-! ### Sequences of in-place writes and allocations -/

/-- `Writes P h h'`: `h'` is obtained from `h` by a sequence of steps, each an allocation or an
    in-place write of an arbitrary cell content at an address `a` that satisfies `P` in the
    heap the write is applied to -/
inductive Writes (P : Heap → Addr → Prop) : Heap → Heap → Prop
  | refl (h : Heap) : Writes P h h
  | write {h h' : Heap} (a : Addr) (c : Cell) : P h a → Writes P (h.write a c) h' → Writes P h h'
  | alloc {h h' : Heap} (c : Cell) : Writes P (h.alloc c).1 h' → Writes P h h'

theorem Writes.trans {P : Heap → Addr → Prop} {a b c : Heap} (h1 : Writes P a b) (h2 : Writes P b c) :
    Writes P a c := by
  induction h1 with
  | refl _ => exact h2
  | write x d hp _ ih => exact .write x d hp (ih h2)
  | alloc d _ ih => exact .alloc d (ih h2)

/-- writes that avoid everything a root reaches leave its abstraction alone -/
theorem Writes.absH_frame {r : Addr} {h h' : Heap}
    (hw : Writes (fun g a => ¬ Reach g r a) h h') {f : Nat} {n : Node}
    (hn : absH f h r = some n) : absH f h' r = some n := by
  induction hw with
  | refl _ => exact hn
  | write a c hp _ ih => exact ih (by rw [absH_write_frame c hp]; exact hn)
  | alloc c _ ih => exact ih (absH_mono (le_alloc _ c) f r n hn)

/-- writes above `h0.size` (and allocations) keep `h0` a prefix -/
theorem Writes.le_of_fresh {h0 h h' : Heap} (hw : Writes (fun _ a => h0.size ≤ a) h h')
    (hl : h0 ≤ h) : h0 ≤ h' := by
  induction hw with
  | refl _ => exact hl
  | write a c hp _ ih => exact ih (le_write hl c hp)
  | alloc c _ ih => exact ih (le_trans hl (le_alloc _ c))

/-- a region `[n0, n1)` of cells that only point into the region -/
def Region (n0 n1 : Nat) (h : Heap) : Prop :=
  ∀ a c, n0 ≤ a → a < n1 → h.get? a = some c → ∀ k ∈ c.kids, n0 ≤ k ∧ k < n1

theorem Region.reach {n0 n1 : Nat} {h : Heap} (hr : Region n0 n1 h) {r b : Addr} (hrb : Reach h r b)
    (h0 : n0 ≤ r) (h1 : r < n1) : n0 ≤ b ∧ b < n1 :=
  Reach.closed_set (fun a => n0 ≤ a ∧ a < n1) (fun a c ha hg k hk => hr a c ha.1 ha.2 hg k hk) hrb ⟨h0, h1⟩

/-- writes outside a region keep it a region and keep the abstraction of every root inside it -/
theorem Writes.region_frame {n0 n1 : Nat} {h h' : Heap}
    (hw : Writes (fun _ a => a < n0 ∨ n1 ≤ a) h h') (hreg : Region n0 n1 h) (hsz : n1 ≤ h.size) :
    Region n0 n1 h' ∧ ∀ (f : Nat) (r : Addr) (n : Node), n0 ≤ r → r < n1 → absH f h r = some n →
      absH f h' r = some n := by
  induction hw with
  | refl _ => exact ⟨hreg, fun _ _ _ _ _ hn => hn⟩
  | @write g g' a c hp _ ih =>
    have hne : ∀ b, n0 ≤ b → b < n1 → b ≠ a := by
      intro b hb0 hb1 e
      subst e
      rcases hp with hp | hp
      · exact absurd hb0 (Nat.not_le.mpr hp)
      · exact absurd hb1 (Nat.not_lt.mpr hp)
    have hreg' : Region n0 n1 (g.write a c) := by
      intro b d hb0 hb1 hg
      rw [get?_write_ne g c (hne b hb0 hb1)] at hg
      exact hreg b d hb0 hb1 hg
    obtain ⟨ih1, ih2⟩ := ih hreg' (by rw [size_write]; exact hsz)
    refine ⟨ih1, fun f r n hr0 hr1 hn => ih2 f r n hr0 hr1 ?_⟩
    have hnr : ¬ Reach g r a := by
      intro hra
      have := hreg.reach hra hr0 hr1
      exact hne a this.1 this.2 rfl
    rw [absH_write_frame c hnr]; exact hn
  | @alloc g g' c _ ih =>
    have hl := le_alloc g c
    have hreg' : Region n0 n1 (g.alloc c).1 := by
      intro b d hb0 hb1 hg
      rw [get?_eq_of_le hl (Nat.lt_of_lt_of_le hb1 hsz)] at hg
      exact hreg b d hb0 hb1 hg
    obtain ⟨ih1, ih2⟩ := ih hreg' (Nat.le_trans hsz (size_le_of_le hl))
    exact ⟨ih1, fun f r n hr0 hr1 hn => ih2 f r n hr0 hr1 (absH_mono hl f r n hn)⟩

/-- after Clone the new cells form a region -/
theorem cloneF_region {f : Nat} {h h' : Heap} {a r : Addr} (hc : cloneF f h a = some (h', r)) :
    Region h.size h'.size h' := by
  obtain ⟨_, _, _, hf⟩ := cloneF_spec f h a h' r hc
  have hfc := hf h.size (Nat.le_refl _) (freshClosed_size h)
  intro b d hb0 _ hg k hk
  exact hfc b d hb0 hg k hk

/-! ### the builder mutators are such writes (to the one cell they are called on) -/

section mutators
variable {Q : Addr → Prop} {h h' : Heap}

theorem addValue_writes {c : Addr} {name : String} {v : Addr} (hq : Q c)
    (he : addValue h c name v = some h') : Writes (fun _ a => Q a) h h' := by
  unfold addValue at he
  split at he
  · cases he; exact .write c _ hq (.refl _)
  · cases he

theorem remove_writes {c : Addr} {name : String} (hq : Q c)
    (he : remove h c name = some h') : Writes (fun _ a => Q a) h h' := by
  unfold remove at he
  split at he
  · cases he; exact .write c _ hq (.refl _)
  · cases he

theorem addContainer_writes {c : Addr} {name : String} {b : Addr} (hq : Q c)
    (he : addContainer h c name = some (h', b)) : Writes (fun _ a => Q a) h h' := by
  unfold addContainer at he
  split at he
  · cases he; exact .alloc (.cont []) (.write c _ hq (.refl _))
  · cases he

theorem addList_writes {c : Addr} {name : String} {b : Addr} (hq : Q c)
    (he : addList h c name = some (h', b)) : Writes (fun _ a => Q a) h h' := by
  unfold addList at he
  split at he
  · cases he; exact .alloc (.list []) (.write c _ hq (.refl _))
  · cases he

theorem listSet_writes {l : Addr} {idx : Nat} {v : Addr} (hq : Q l)
    (he : listSet h l idx v = some h') : Writes (fun _ a => Q a) h h' := by
  unfold listSet at he
  split at he
  · cases he; exact .write l _ hq (.refl _)
  · cases he

theorem listAppend_writes {l : Addr} {v : Addr} (hq : Q l)
    (he : listAppend h l v = some h') : Writes (fun _ a => Q a) h h' := by
  unfold listAppend at he
  split at he
  · cases he; exact .write l _ hq (.refl _)
  · cases he

theorem listClear_writes {l : Addr} (hq : Q l)
    (he : listClear h l = some h') : Writes (fun _ a => Q a) h h' := by
  unfold listClear at he
  split at he
  · cases he; exact .write l _ hq (.refl _)
  · cases he

theorem newLeaf_writes (s : Scalar) : Writes (fun _ a => Q a) h (newLeaf h s).1 :=
  .alloc (.leaf s) (.refl _)

theorem applyOp_writes {op : Op} (hq : Q op.target) (he : applyOp h op = some h') :
    Writes (fun _ a => Q a) h h' := by
  cases op with
  | addValue c name v => exact addValue_writes hq he
  | addLeaf c name s => exact (newLeaf_writes s).trans (addValue_writes hq he)
  | addContainer c name =>
    simp only [applyOp, Option.map_eq_some_iff] at he
    obtain ⟨⟨h1, b⟩, he, rfl⟩ := he
    exact addContainer_writes hq he
  | addList c name =>
    simp only [applyOp, Option.map_eq_some_iff] at he
    obtain ⟨⟨h1, b⟩, he, rfl⟩ := he
    exact addList_writes hq he
  | remove c name => exact remove_writes hq he
  | listSet l idx v => exact listSet_writes hq he
  | listSetLeaf l idx s => exact (newLeaf_writes s).trans (listSet_writes hq he)
  | listAppend l v => exact listAppend_writes hq he
  | listAppendLeaf l s => exact (newLeaf_writes s).trans (listAppend_writes hq he)
  | listClear l => exact listClear_writes hq he

theorem applyOps_writes : ∀ {ops : List Op} {h h' : Heap}, (∀ op ∈ ops, Q op.target) →
    applyOps h ops = some h' → Writes (fun _ a => Q a) h h'
  | [], h, h', _, he => by
    simp only [applyOps, Option.some.injEq] at he; subst he; exact .refl _
  | op :: ops, h, h', hq, he => by
    simp only [applyOps] at he
    cases h1 : applyOp h op with
    | none => simp [h1] at he
    | some g =>
      simp only [h1] at he
      exact (applyOp_writes (hq op (List.mem_cons_self ..)) h1).trans
        (applyOps_writes (fun o ho => hq o (List.mem_cons_of_mem _ ho)) he)

end mutators

/-! ### decidable sufficient checks for `Closed` / `RankedBy` (for concrete heaps) -/

theorem closed_of_all {h : Heap}
    (hall : (h.cells.all fun c => c.kids.all fun k => decide (k < h.size)) = true) : h.Closed := by
  intro a c hg k hk
  have hc : c ∈ h.cells := List.mem_of_getElem? hg
  have := List.all_eq_true.mp hall c hc
  exact of_decide_eq_true (List.all_eq_true.mp this k hk)

theorem rankedBy_of_all {h : Heap} {rank : Addr → Nat}
    (hall : ((List.range h.size).all fun a =>
      match h.get? a with
      | some c => c.kids.all fun k => decide (rank k < rank a)
      | none => true) = true) : h.RankedBy rank := by
  intro a c hg k hk
  have ha : a ∈ List.range h.size := List.mem_range.mpr (get?_lt hg)
  have := List.all_eq_true.mp hall a ha
  simp only [hg] at this
  exact of_decide_eq_true (List.all_eq_true.mp this k hk)

/-! ## 4. Merge -/

section mergeUnfold
variable {g : Heap → Addr → Addr → Option (Heap × Addr)} {h : Heap}

theorem foldKvs_cons_none {acc : AMap Addr} {k : String} {v : Addr} {rest : List (String × Addr)}
    (hk : AMap.get? acc k = none) :
    foldKvs g h acc ((k, v) :: rest) = foldKvs g h (AMap.insert acc k v) rest := by
  simp only [foldKvs, hk]

theorem foldKvs_cons_some {acc : AMap Addr} {k : String} {v n : Addr} {rest : List (String × Addr)}
    (hk : AMap.get? acc k = some n) :
    foldKvs g h acc ((k, v) :: rest) =
      (g h n v).bind fun p => foldKvs g p.1 (AMap.insert acc k p.2) rest := by
  simp only [foldKvs, hk]
  cases g h n v <;> rfl

theorem mergeNodeF_cont {o : ListStrategy} {f : Nat} {n v : Addr} {ka kb : AMap Addr}
    (hn : h.get? n = some (.cont ka)) (hv : h.get? v = some (.cont kb)) :
    mergeNodeF o (f + 1) h n v =
      (foldKvs (mergeNodeF o f) h ka kb).bind fun p => some (p.1.alloc (.cont p.2)) := by
  simp only [mergeNodeF, hn, hv]
  cases foldKvs (mergeNodeF o f) h ka kb <;> rfl

theorem mergeNodeF_list_append {f : Nat} {n v : Addr} {xs ys : List Addr}
    (hn : h.get? n = some (.list xs)) (hv : h.get? v = some (.list ys)) :
    mergeNodeF .append (f + 1) h n v = some (h.alloc (.list (xs ++ ys))) := by
  simp only [mergeNodeF, hn, hv]

theorem mergeNodeF_list_meld {f : Nat} {n v : Addr} {xs ys : List Addr}
    (hn : h.get? n = some (.list xs)) (hv : h.get? v = some (.list ys)) :
    mergeNodeF .meld (f + 1) h n v =
      (meldItems (mergeNodeF .meld f) h xs ys).bind fun p => some (p.1.alloc (.list p.2)) := by
  simp only [mergeNodeF, hn, hv]
  cases meldItems (mergeNodeF .meld f) h xs ys <;> rfl

theorem mergeNodeF_other {o : ListStrategy} {f : Nat} {n v : Addr} {cn cv : Cell}
    (hn : h.get? n = some cn) (hv : h.get? v = some cv)
    (h1 : ¬ (cn.isCont = true ∧ cv.isCont = true)) (h2 : ¬ (cn.isList = true ∧ cv.isList = true)) :
    mergeNodeF o (f + 1) h n v = some (h, coalesceH h n v) := by
  cases cn <;> cases cv <;> simp_all [mergeNodeF, Cell.isCont, Cell.isList]

theorem mergeNodeF_none {o : ListStrategy} {f : Nat} {n v : Addr}
    (hnv : h.get? n = none ∨ h.get? v = none) : mergeNodeF o (f + 1) h n v = none := by
  rcases hnv with hn | hv
  · simp only [mergeNodeF, hn]
  · cases hn : h.get? n <;> simp only [mergeNodeF, hn, hv]

end mergeUnfold

/-- the three ways two cells can meet -/
theorem cellPair_cases (cn cv : Cell) :
    (∃ ka kb, cn = .cont ka ∧ cv = .cont kb) ∨ (∃ xs ys, cn = .list xs ∧ cv = .list ys) ∨
    (¬ (cn.isCont = true ∧ cv.isCont = true) ∧ ¬ (cn.isList = true ∧ cv.isList = true)) := by
  cases cn <;> cases cv <;> simp [Cell.isCont, Cell.isList]

/-! ### 4a. Merge never writes an existing cell -/

def LeSpec2 (g : Heap → Addr → Addr → Option (Heap × Addr)) : Prop :=
  ∀ h n v h' r, g h n v = some (h', r) → h ≤ h'

theorem foldKvs_le {g : Heap → Addr → Addr → Option (Heap × Addr)} (hg : LeSpec2 g) :
    ∀ (kb : List (String × Addr)) (h : Heap) (acc : AMap Addr) (h' : Heap) (m : AMap Addr),
      foldKvs g h acc kb = some (h', m) → h ≤ h'
  | [], h, acc, h', m, hf => by
    simp only [foldKvs, Option.some.injEq, Prod.mk.injEq] at hf
    rw [← hf.1]; exact le_refl _
  | (k, v) :: rest, h, acc, h', m, hf => by
    cases hk : AMap.get? acc k with
    | none =>
      rw [foldKvs_cons_none hk] at hf
      exact foldKvs_le hg rest h _ h' m hf
    | some n =>
      rw [foldKvs_cons_some hk] at hf
      cases hgn : g h n v with
      | none => simp [hgn] at hf
      | some q =>
        obtain ⟨h1, r⟩ := q
        simp only [hgn, Option.bind_some] at hf
        exact le_trans (hg h n v h1 r hgn) (foldKvs_le hg rest h1 _ h' m hf)

theorem meldItems_le {g : Heap → Addr → Addr → Option (Heap × Addr)} (hg : LeSpec2 g) :
    ∀ (xs ys : List Addr) (h h' : Heap) (zs : List Addr),
      meldItems g h xs ys = some (h', zs) → h ≤ h'
  | xs, [], h, h', zs, hm => by
    simp only [meldItems, Option.some.injEq, Prod.mk.injEq] at hm
    rw [← hm.1]; exact le_refl _
  | [], y :: ys, h, h', zs, hm => by
    simp only [meldItems, Option.some.injEq, Prod.mk.injEq] at hm
    rw [← hm.1]; exact le_refl _
  | x :: xs, y :: ys, h, h', zs, hm => by
    simp only [meldItems] at hm
    cases hgn : g h x y with
    | none => simp [hgn] at hm
    | some q =>
      obtain ⟨h1, r⟩ := q
      simp only [hgn] at hm
      cases hrest : meldItems g h1 xs ys with
      | none => simp [hrest] at hm
      | some q2 =>
        obtain ⟨h2, rs⟩ := q2
        simp only [hrest, Option.some.injEq, Prod.mk.injEq] at hm
        rw [← hm.1]
        exact le_trans (hg h x y h1 r hgn) (meldItems_le hg xs ys h1 h2 rs hrest)

theorem mergeNodeF_le (o : ListStrategy) : ∀ (f : Nat), LeSpec2 (mergeNodeF o f)
  | 0 => by intro h n v h' r hm; simp [mergeNodeF] at hm
  | f + 1 => by
    intro h n v h' r hm
    cases hn : h.get? n with
    | none => rw [mergeNodeF_none (Or.inl hn)] at hm; cases hm
    | some cn =>
      cases hv : h.get? v with
      | none => rw [mergeNodeF_none (Or.inr hv)] at hm; cases hm
      | some cv =>
        rcases cellPair_cases cn cv with ⟨ka, kb, rfl, rfl⟩ | ⟨xs, ys, rfl, rfl⟩ | ⟨c1, c2⟩
        · rw [mergeNodeF_cont hn hv] at hm
          cases hf : foldKvs (mergeNodeF o f) h ka kb with
          | none => simp [hf] at hm
          | some q =>
            obtain ⟨h1, m⟩ := q
            simp only [hf, Option.bind_some, Option.some.injEq] at hm
            have e1 : h' = (h1.alloc (.cont m)).1 := (congrArg Prod.fst hm).symm
            rw [e1]
            exact le_trans (foldKvs_le (mergeNodeF_le o f) kb h ka h1 m hf) (le_alloc _ _)
        · cases o with
          | append =>
            rw [mergeNodeF_list_append hn hv] at hm
            simp only [Option.some.injEq] at hm
            have e1 : h' = (h.alloc (.list (xs ++ ys))).1 := (congrArg Prod.fst hm).symm
            rw [e1]; exact le_alloc _ _
          | meld =>
            rw [mergeNodeF_list_meld hn hv] at hm
            cases hf : meldItems (mergeNodeF .meld f) h xs ys with
            | none => simp [hf] at hm
            | some q =>
              obtain ⟨h1, zs⟩ := q
              simp only [hf, Option.bind_some, Option.some.injEq] at hm
              have e1 : h' = (h1.alloc (.list zs)).1 := (congrArg Prod.fst hm).symm
              rw [e1]
              exact le_trans (meldItems_le (mergeNodeF_le .meld f) xs ys h h1 zs hf) (le_alloc _ _)
        · rw [mergeNodeF_other hn hv c1 c2] at hm
          simp only [Option.some.injEq, Prod.mk.injEq] at hm
          rw [← hm.1]; exact le_refl _

theorem mergeContainersF_le {o : ListStrategy} {f : Nat} {h h' : Heap} {c1 c2 r : Addr}
    (hm : mergeContainersF o f h c1 c2 = some (h', r)) : h ≤ h' := by
  unfold mergeContainersF at hm
  split at hm
  · exact mergeNodeF_le o f h c1 c2 h' r hm
  · cases hm

theorem mergeAllF_le {o : ListStrategy} {f : Nat} :
    ∀ (ls : List Addr) (h h' : Heap) (acc r : Addr), mergeAllF o f h acc ls = some (h', r) → h ≤ h'
  | [], h, h', acc, r, hm => by
    simp only [mergeAllF, Option.some.injEq, Prod.mk.injEq] at hm
    rw [← hm.1]; exact le_refl _
  | l :: ls, h, h', acc, r, hm => by
    simp only [mergeAllF] at hm
    cases hc : mergeContainersF o f h acc l with
    | none => simp [hc] at hm
    | some q =>
      obtain ⟨h1, a1⟩ := q
      simp only [hc] at hm
      exact le_trans (mergeContainersF_le hc) (mergeAllF_le ls h1 h' a1 r hm)

/-! ### 4b. Sharing: what the result of a merge can point to

  `h0` is the input heap, `S` a set of input addresses (everything reachable from the inputs,
  and the nil leaf) that lies inside `h0` and is closed under the child edge.  `Good h a`:
  `a` is an input address in `S` or a cell allocated since.  `MInv h`: nothing old was written
  and every cell allocated since only points to `Good` addresses. -/

structure ShareCtx (h0 : Heap) (S : Addr → Prop) : Prop where
  lt : ∀ b, S b → b < h0.size
  closed : ∀ a c, S a → h0.get? a = some c → ∀ k ∈ c.kids, S k
  nil : S nilAddr

def Good (h0 : Heap) (S : Addr → Prop) (h : Heap) (a : Addr) : Prop :=
  S a ∨ (h0.size ≤ a ∧ a < h.size)

def MInv (h0 : Heap) (S : Addr → Prop) (h : Heap) : Prop :=
  h0 ≤ h ∧ ∀ a c, h0.size ≤ a → h.get? a = some c → ∀ k ∈ c.kids, Good h0 S h k

section share
variable {h0 : Heap} {S : Addr → Prop}

theorem Good.mono {h h' : Heap} (hl : h ≤ h') {a : Addr} (hg : Good h0 S h a) : Good h0 S h' a := by
  rcases hg with hs | ⟨h1, h2⟩
  · exact Or.inl hs
  · exact Or.inr ⟨h1, Nat.lt_of_lt_of_le h2 (size_le_of_le hl)⟩

theorem Good.kids (ctx : ShareCtx h0 S) {h : Heap} (hi : MInv h0 S h) {a : Addr} {c : Cell}
    (hg : Good h0 S h a) (hc : h.get? a = some c) : ∀ k ∈ c.kids, Good h0 S h k := by
  intro k hk
  rcases hg with hs | ⟨h1, _⟩
  · have hlt := ctx.lt a hs
    rw [get?_eq_of_le hi.1 hlt] at hc
    exact Or.inl (ctx.closed a c hs hc k hk)
  · exact hi.2 a c h1 hc k hk

theorem MInv.alloc {h : Heap} (hi : MInv h0 S h) {c : Cell} (hc : ∀ k ∈ c.kids, Good h0 S h k) :
    MInv h0 S (h.alloc c).1 := by
  refine ⟨le_trans hi.1 (le_alloc _ _), ?_⟩
  intro a d ha hg k hk
  rcases get?_alloc hg with ⟨_, hg'⟩ | ⟨_, rfl⟩
  · exact (hi.2 a d ha hg' k hk).mono (le_alloc _ _)
  · exact (hc k hk).mono (le_alloc _ _)

theorem Good.alloc_new {h : Heap} (hi : MInv h0 S h) (c : Cell) : Good h0 S (h.alloc c).1 h.size :=
  Or.inr ⟨size_le_of_le hi.1, by rw [size_alloc]; exact Nat.lt_succ_self _⟩

theorem MInv.init (h0 : Heap) (S : Addr → Prop) : MInv h0 S h0 :=
  ⟨le_refl _, fun a _ ha hg => absurd (get?_lt hg) (Nat.not_lt.mpr ha)⟩

/-- everything reachable from a `Good` address is `Good` -/
theorem Good.reach (ctx : ShareCtx h0 S) {h : Heap} (hi : MInv h0 S h) {r b : Addr}
    (hr : Reach h r b) (hg : Good h0 S h r) : Good h0 S h b :=
  Reach.closed_set (Good h0 S h) (fun _ _ ha hc k hk => Good.kids ctx hi ha hc k hk) hr hg

def ShareSpec2 (h0 : Heap) (S : Addr → Prop) (g : Heap → Addr → Addr → Option (Heap × Addr)) : Prop :=
  ∀ h n v h' r, MInv h0 S h → Good h0 S h n → Good h0 S h v → g h n v = some (h', r) →
    h ≤ h' ∧ MInv h0 S h' ∧ Good h0 S h' r

theorem foldKvs_share {g : Heap → Addr → Addr → Option (Heap × Addr)} (hg : ShareSpec2 h0 S g) :
    ∀ (kb : List (String × Addr)) (h : Heap) (acc : AMap Addr) (h' : Heap) (m : AMap Addr),
      MInv h0 S h → (∀ p ∈ acc, Good h0 S h p.2) → (∀ p ∈ kb, Good h0 S h p.2) →
      foldKvs g h acc kb = some (h', m) →
      h ≤ h' ∧ MInv h0 S h' ∧ ∀ p ∈ m, Good h0 S h' p.2
  | [], h, acc, h', m, hi, ha, _, hf => by
    simp only [foldKvs, Option.some.injEq, Prod.mk.injEq] at hf
    obtain ⟨rfl, rfl⟩ := hf
    exact ⟨le_refl _, hi, ha⟩
  | (k, v) :: rest, h, acc, h', m, hi, ha, hb, hf => by
    have hv : Good h0 S h v := hb (k, v) (List.mem_cons_self ..)
    have hrest : ∀ p ∈ rest, Good h0 S h p.2 := fun p hp => hb p (List.mem_cons_of_mem _ hp)
    cases hk : AMap.get? acc k with
    | none =>
      rw [foldKvs_cons_none hk] at hf
      refine foldKvs_share hg rest h _ h' m hi ?_ hrest hf
      intro p hp
      rcases Ytk.mem_insert hp with rfl | hp
      · exact hv
      · exact ha p hp
    | some n =>
      rw [foldKvs_cons_some hk] at hf
      have hn : Good h0 S h n := ha (k, n) (AMap.mem_of_get? hk)
      cases hgn : g h n v with
      | none => simp [hgn] at hf
      | some q =>
        obtain ⟨h1, r⟩ := q
        simp only [hgn, Option.bind_some] at hf
        obtain ⟨l1, i1, g1⟩ := hg h n v h1 r hi hn hv hgn
        obtain ⟨l2, i2, g2⟩ := foldKvs_share hg rest h1 _ h' m i1 (by
          intro p hp
          rcases Ytk.mem_insert hp with rfl | hp
          · exact g1
          · exact (ha p hp).mono l1) (fun p hp => (hrest p hp).mono l1) hf
        exact ⟨le_trans l1 l2, i2, g2⟩

theorem meldItems_share {g : Heap → Addr → Addr → Option (Heap × Addr)} (hg : ShareSpec2 h0 S g) :
    ∀ (xs ys : List Addr) (h h' : Heap) (zs : List Addr),
      MInv h0 S h → (∀ x ∈ xs, Good h0 S h x) → (∀ y ∈ ys, Good h0 S h y) →
      meldItems g h xs ys = some (h', zs) →
      h ≤ h' ∧ MInv h0 S h' ∧ ∀ z ∈ zs, Good h0 S h' z
  | xs, [], h, h', zs, hi, hx, _, hm => by
    simp only [meldItems, Option.some.injEq, Prod.mk.injEq] at hm
    obtain ⟨rfl, rfl⟩ := hm
    exact ⟨le_refl _, hi, hx⟩
  | [], y :: ys, h, h', zs, hi, _, hy, hm => by
    simp only [meldItems, Option.some.injEq, Prod.mk.injEq] at hm
    obtain ⟨rfl, rfl⟩ := hm
    exact ⟨le_refl _, hi, hy⟩
  | x :: xs, y :: ys, h, h', zs, hi, hx, hy, hm => by
    simp only [meldItems] at hm
    cases hgn : g h x y with
    | none => simp [hgn] at hm
    | some q =>
      obtain ⟨h1, r⟩ := q
      simp only [hgn] at hm
      cases hrest : meldItems g h1 xs ys with
      | none => simp [hrest] at hm
      | some q2 =>
        obtain ⟨h2, rs⟩ := q2
        simp only [hrest, Option.some.injEq, Prod.mk.injEq] at hm
        obtain ⟨rfl, rfl⟩ := hm
        obtain ⟨l1, i1, g1⟩ := hg h x y h1 r hi (hx x (List.mem_cons_self ..)) (hy y (List.mem_cons_self ..)) hgn
        obtain ⟨l2, i2, g2⟩ := meldItems_share hg xs ys h1 h2 rs i1
          (fun a ha => (hx a (List.mem_cons_of_mem _ ha)).mono l1)
          (fun a ha => (hy a (List.mem_cons_of_mem _ ha)).mono l1) hrest
        refine ⟨le_trans l1 l2, i2, ?_⟩
        intro z hz
        rcases List.mem_cons.mp hz with rfl | hz
        · exact g1.mono l2
        · exact g2 z hz

theorem good_coalesceH (ctx : ShareCtx h0 S) {h : Heap} {n v : Addr} (hn : Good h0 S h n)
    (hv : Good h0 S h v) : Good h0 S h (coalesceH h n v) := by
  unfold coalesceH
  split
  · exact hv
  · split
    · exact hn
    · exact Or.inl ctx.nil

theorem mem_kids_cont {kvs : AMap Addr} {k : Addr} (hk : k ∈ (Cell.cont kvs).kids) :
    ∃ p ∈ kvs, p.2 = k := by
  simp only [Cell.kids, List.mem_map] at hk
  exact hk

theorem mergeNodeF_share (ctx : ShareCtx h0 S) (o : ListStrategy) :
    ∀ (f : Nat), ShareSpec2 h0 S (mergeNodeF o f)
  | 0 => by intro h n v h' r _ _ _ hm; simp [mergeNodeF] at hm
  | f + 1 => by
    intro h n v h' r hi gn gv hm
    cases hn : h.get? n with
    | none => rw [mergeNodeF_none (Or.inl hn)] at hm; cases hm
    | some cn =>
      cases hv : h.get? v with
      | none => rw [mergeNodeF_none (Or.inr hv)] at hm; cases hm
      | some cv =>
        have kn := Good.kids ctx hi gn hn
        have kv := Good.kids ctx hi gv hv
        rcases cellPair_cases cn cv with ⟨ka, kb, rfl, rfl⟩ | ⟨xs, ys, rfl, rfl⟩ | ⟨c1, c2⟩
        · rw [mergeNodeF_cont hn hv] at hm
          cases hf : foldKvs (mergeNodeF o f) h ka kb with
          | none => simp [hf] at hm
          | some q =>
            obtain ⟨h1, m⟩ := q
            simp only [hf, Option.bind_some, Option.some.injEq] at hm
            have e1 : h' = (h1.alloc (.cont m)).1 := (congrArg Prod.fst hm).symm
            have e2 : r = h1.size := (congrArg Prod.snd hm).symm
            subst e1; subst e2
            obtain ⟨l1, i1, g1⟩ := foldKvs_share (mergeNodeF_share ctx o f) kb h ka h1 m hi
              (fun p hp => kn p.2 (by simp only [Cell.kids, List.mem_map]; exact ⟨p, hp, rfl⟩))
              (fun p hp => kv p.2 (by simp only [Cell.kids, List.mem_map]; exact ⟨p, hp, rfl⟩)) hf
            refine ⟨le_trans l1 (le_alloc _ _), i1.alloc ?_, Good.alloc_new i1 _⟩
            intro k hk
            obtain ⟨p, hp, rfl⟩ := mem_kids_cont hk
            exact g1 p hp
        · cases o with
          | append =>
            rw [mergeNodeF_list_append hn hv] at hm
            simp only [Option.some.injEq] at hm
            have e1 : h' = (h.alloc (.list (xs ++ ys))).1 := (congrArg Prod.fst hm).symm
            have e2 : r = h.size := (congrArg Prod.snd hm).symm
            subst e1; subst e2
            refine ⟨le_alloc _ _, hi.alloc ?_, Good.alloc_new hi _⟩
            intro k hk
            simp only [Cell.kids, List.mem_append] at hk
            rcases hk with hk | hk
            · exact kn k (by simpa [Cell.kids] using hk)
            · exact kv k (by simpa [Cell.kids] using hk)
          | meld =>
            rw [mergeNodeF_list_meld hn hv] at hm
            cases hf : meldItems (mergeNodeF .meld f) h xs ys with
            | none => simp [hf] at hm
            | some q =>
              obtain ⟨h1, zs⟩ := q
              simp only [hf, Option.bind_some, Option.some.injEq] at hm
              have e1 : h' = (h1.alloc (.list zs)).1 := (congrArg Prod.fst hm).symm
              have e2 : r = h1.size := (congrArg Prod.snd hm).symm
              subst e1; subst e2
              obtain ⟨l1, i1, g1⟩ := meldItems_share (mergeNodeF_share ctx .meld f) xs ys h h1 zs hi
                (fun x hx => kn x (by simpa [Cell.kids] using hx))
                (fun y hy => kv y (by simpa [Cell.kids] using hy)) hf
              refine ⟨le_trans l1 (le_alloc _ _), i1.alloc ?_, Good.alloc_new i1 _⟩
              intro k hk
              exact g1 k (by simpa [Cell.kids] using hk)
        · rw [mergeNodeF_other hn hv c1 c2] at hm
          simp only [Option.some.injEq, Prod.mk.injEq] at hm
          obtain ⟨rfl, rfl⟩ := hm
          exact ⟨le_refl _, hi, good_coalesceH ctx gn gv⟩

end share

/-- the canonical sharing context of two roots on a closed heap: everything reachable from
    either, and the nil leaf -/
theorem shareCtx_of_closed {h : Heap} (hc : h.Closed) (hnil : h.NilOk) {c1 c2 : Addr}
    (h1 : c1 < h.size) (h2 : c2 < h.size) :
    ShareCtx h (fun b => Reach h c1 b ∨ Reach h c2 b ∨ b = nilAddr) := by
  have hin : ∀ {r b : Addr}, r < h.size → Reach h r b → b < h.size := fun hr hrb =>
    Reach.closed_set (fun a => a < h.size) (fun a c _ hg k hk => hc a c hg k hk) hrb hr
  refine ⟨?_, ?_, Or.inr (Or.inr rfl)⟩
  · intro b hb
    rcases hb with hb | hb | rfl
    · exact hin h1 hb
    · exact hin h2 hb
    · exact get?_lt hnil
  · intro a c ha hg k hk
    rcases ha with ha | ha | rfl
    · exact Or.inl (ha.trans (Reach.child hg hk))
    · exact Or.inr (Or.inl (ha.trans (Reach.child hg hk)))
    · rw [hnil] at hg
      cases Option.some.inj hg
      simp [Cell.kids] at hk

/-- the result of merging two containers (two lists) is a newly allocated container (list):
    this holds for the root call and for every recursive call, i.e. at every node of the
    merged spine -/
theorem mergeNodeF_spine_fresh {o : ListStrategy} {f : Nat} {h h' : Heap} {n v r : Addr}
    (hm : mergeNodeF o f h n v = some (h', r)) {cn cv : Cell}
    (hn : h.get? n = some cn) (hv : h.get? v = some cv)
    (hk : (cn.isCont = true ∧ cv.isCont = true) ∨ (cn.isList = true ∧ cv.isList = true)) :
    h.size ≤ r ∧ r < h'.size ∧
      ∃ c, h'.get? r = some c ∧ c.isCont = cn.isCont ∧ c.isList = cn.isList := by
  cases f with
  | zero => simp [mergeNodeF] at hm
  | succ f =>
    rcases cellPair_cases cn cv with ⟨ka, kb, rfl, rfl⟩ | ⟨xs, ys, rfl, rfl⟩ | ⟨c1, c2⟩
    · rw [mergeNodeF_cont hn hv] at hm
      cases hf : foldKvs (mergeNodeF o f) h ka kb with
      | none => simp [hf] at hm
      | some q =>
        obtain ⟨h1, m⟩ := q
        simp only [hf, Option.bind_some, Option.some.injEq] at hm
        have e1 : h' = (h1.alloc (.cont m)).1 := (congrArg Prod.fst hm).symm
        have e2 : r = h1.size := (congrArg Prod.snd hm).symm
        subst e1; subst e2
        have l1 := foldKvs_le (mergeNodeF_le o f) kb h ka h1 m hf
        exact ⟨size_le_of_le l1, by rw [size_alloc]; exact Nat.lt_succ_self _,
          .cont m, get?_alloc_new _ _, rfl, rfl⟩
    · cases o with
      | append =>
        rw [mergeNodeF_list_append hn hv] at hm
        simp only [Option.some.injEq] at hm
        have e1 : h' = (h.alloc (.list (xs ++ ys))).1 := (congrArg Prod.fst hm).symm
        have e2 : r = h.size := (congrArg Prod.snd hm).symm
        subst e1; subst e2
        exact ⟨Nat.le_refl _, by rw [size_alloc]; exact Nat.lt_succ_self _,
          .list (xs ++ ys), get?_alloc_new _ _, rfl, rfl⟩
      | meld =>
        rw [mergeNodeF_list_meld hn hv] at hm
        cases hf : meldItems (mergeNodeF .meld f) h xs ys with
        | none => simp [hf] at hm
        | some q =>
          obtain ⟨h1, zs⟩ := q
          simp only [hf, Option.bind_some, Option.some.injEq] at hm
          have e1 : h' = (h1.alloc (.list zs)).1 := (congrArg Prod.fst hm).symm
          have e2 : r = h1.size := (congrArg Prod.snd hm).symm
          subst e1; subst e2
          have l1 := meldItems_le (mergeNodeF_le .meld f) xs ys h h1 zs hf
          exact ⟨size_le_of_le l1, by rw [size_alloc]; exact Nat.lt_succ_self _,
            .list zs, get?_alloc_new _ _, rfl, rfl⟩
    · rcases hk with hk | hk
      · exact absurd hk c1
      · exact absurd hk c2

/-! ### 4c. Refinement: the heap-level merge abstracts to the value-level merge -/

theorem nilOk_mono {h h' : Heap} (hn : h.NilOk) (hl : h ≤ h') : h'.NilOk := get?_of_le hl hn

theorem optMapKvs_get?_none {g : Addr → Option Node} :
    ∀ {m : List (String × Addr)} {mN : List (String × Node)} {k : String},
      optMapKvs g m = some mN → AMap.get? m k = none → AMap.get? mN k = none
  | [], mN, k, hm, _ => by
    simp only [optMapKvs, Option.some.injEq] at hm; subst hm; rfl
  | (k', a) :: m, mN, k, hm, hk => by
    obtain ⟨n, ns, _, hms, rfl⟩ := optMapKvs_cons_some.mp hm
    simp only [AMap.get?] at hk ⊢
    split at hk
    · cases hk
    · rename_i hne
      rw [if_neg hne]
      exact optMapKvs_get?_none hms hk

theorem optMapKvs_get?_some {g : Addr → Option Node} :
    ∀ {m : List (String × Addr)} {mN : List (String × Node)} {k : String} {a : Addr},
      optMapKvs g m = some mN → AMap.get? m k = some a →
      ∃ x, g a = some x ∧ AMap.get? mN k = some x
  | [], _, _, _, _, hk => by simp [AMap.get?] at hk
  | (k', a') :: m, mN, k, a, hm, hk => by
    obtain ⟨n, ns, hn, hms, rfl⟩ := optMapKvs_cons_some.mp hm
    simp only [AMap.get?] at hk ⊢
    split at hk
    · rename_i he
      cases hk
      exact ⟨n, hn, by rw [if_pos he]⟩
    · rename_i hne
      rw [if_neg hne]
      exact optMapKvs_get?_some hms hk

theorem optMapKvs_insert {g : Addr → Option Node} {k : String} {a : Addr} {x : Node} (ha : g a = some x) :
    ∀ {m : List (String × Addr)} {mN : List (String × Node)},
      optMapKvs g m = some mN → optMapKvs g (AMap.insert m k a) = some (AMap.insert mN k x)
  | [], mN, hm => by
    simp only [optMapKvs, Option.some.injEq] at hm; subst hm
    simp only [AMap.insert]
    exact optMapKvs_cons_some.mpr ⟨x, [], ha, rfl, rfl⟩
  | (k', a') :: m, mN, hm => by
    obtain ⟨n, ns, hn, hms, rfl⟩ := optMapKvs_cons_some.mp hm
    simp only [AMap.insert]
    split
    · exact optMapKvs_cons_some.mpr ⟨x, (k', n) :: ns, ha, hm, rfl⟩
    · split
      · exact optMapKvs_cons_some.mpr ⟨x, ns, ha, hms, rfl⟩
      · exact optMapKvs_cons_some.mpr ⟨n, _, hn, optMapKvs_insert ha hms, rfl⟩

theorem optMapM_append {g : Addr → Option Node} :
    ∀ {xs ys : List Addr} {xN yN : List Node}, optMapM g xs = some xN → optMapM g ys = some yN →
      optMapM g (xs ++ ys) = some (xN ++ yN)
  | [], ys, xN, yN, hx, hy => by
    simp only [optMapM, Option.some.injEq] at hx; subst hx; simpa using hy
  | x :: xs, ys, xN, yN, hx, hy => by
    obtain ⟨n, ns, hn, hxs, rfl⟩ := optMapM_cons_some.mp hx
    exact optMapM_cons_some.mpr ⟨n, ns ++ yN, hn, optMapM_append hxs hy, rfl⟩

/-- the cell under a root with a defined abstraction, and how the two relate -/
theorem absH_inv {f : Nat} {h : Heap} {a : Addr} {x : Node} (hx : absH f h a = some x) :
    ∃ f' c, f = f' + 1 ∧ h.get? a = some c ∧
      match c with
      | .leaf s => x = .leaf s
      | .list xs => ∃ ns, optMapM (absH f' h) xs = some ns ∧ x = .list ns
      | .cont kvs => ∃ m, optMapKvs (absH f' h) kvs = some m ∧ x = .cont m := by
  cases f with
  | zero => simp [absH] at hx
  | succ f' =>
    refine ⟨f', ?_⟩
    simp only [absH] at hx
    cases hg : h.get? a with
    | none => simp [hg] at hx
    | some c =>
      refine ⟨c, rfl, rfl, ?_⟩
      simp only [hg] at hx
      cases c with
      | leaf s => simpa using hx.symm
      | list xs =>
        simp only at hx ⊢
        cases hm : optMapM (absH f' h) xs with
        | none => simp [hm] at hx
        | some ns => exact ⟨ns, rfl, by simpa [hm] using hx.symm⟩
      | cont kvs =>
        simp only at hx ⊢
        cases hm : optMapKvs (absH f' h) kvs with
        | none => simp [hm] at hx
        | some ns => exact ⟨ns, rfl, by simpa [hm] using hx.symm⟩

theorem absH_kind {f : Nat} {h : Heap} {a : Addr} {x : Node} {c : Cell}
    (hx : absH f h a = some x) (hc : h.get? a = some c) :
    x.isCont = c.isCont ∧ x.isList = c.isList := by
  obtain ⟨f', c', _, hc', hm⟩ := absH_inv hx
  rw [hc] at hc'
  cases Option.some.inj hc'
  cases c with
  | leaf s => simp only at hm; subst hm; exact ⟨rfl, rfl⟩
  | list xs => obtain ⟨ns, _, rfl⟩ := hm; exact ⟨rfl, rfl⟩
  | cont kvs => obtain ⟨m, _, rfl⟩ := hm; exact ⟨rfl, rfl⟩

theorem absH_nil {f : Nat} {h : Heap} (hn : h.NilOk) : absH (f + 1) h nilAddr = some Node.null := by
  rw [absH, hn]; rfl

theorem hasValueH_eq {f : Nat} {h : Heap} {a : Addr} {x : Node} (hn : h.NilOk)
    (hx : absH f h a = some x) : hasValueH h a = hasValue x := by
  obtain ⟨f', c, rfl, hc, hm⟩ := absH_inv hx
  unfold hasValueH
  split
  · rename_i ha
    subst ha
    rw [hn] at hc
    cases Option.some.inj hc
    simp only at hm
    subst hm
    simp [hasValue]
  · cases c with
    | leaf s => simp only at hm; subst hm; simp [hc, hasValue]
    | list xs => obtain ⟨ns, _, rfl⟩ := hm; simp [hc, hasValue]
    | cont kvs => obtain ⟨m, _, rfl⟩ := hm; simp [hc, hasValue]

theorem absH_coalesceH {f : Nat} {h : Heap} {n v : Addr} {x y : Node} (hn : h.NilOk)
    (hx : absH f h n = some x) (hy : absH f h v = some y) :
    absH f h (coalesceH h n v) = some (coalesce x y) := by
  rw [coalesce_eq]
  unfold coalesceH
  rw [hasValueH_eq hn hx, hasValueH_eq hn hy]
  by_cases h1 : hasValue y = true
  · simp only [h1, if_true]; exact hy
  · by_cases h2 : hasValue x = true
    · simp only [h1, h2, if_true]; exact hx
    · obtain ⟨f', _, rfl, _, _⟩ := absH_inv hx
      simp only [h1, h2]
      exact absH_nil hn

def AbsSpec2 (o : ListStrategy) (f : Nat) (g : Heap → Addr → Addr → Option (Heap × Addr)) : Prop :=
  ∀ h n v x y, h.NilOk → absH f h n = some x → absH f h v = some y →
    ∃ h' r, g h n v = some (h', r) ∧ absH f h' r = some (mergeNode o x y)

theorem foldKvs_abs {o : ListStrategy} {f : Nat} {g : Heap → Addr → Addr → Option (Heap × Addr)}
    (hl : LeSpec2 g) (hg : AbsSpec2 o f g) :
    ∀ (kb : List (String × Addr)) (h : Heap) (acc : AMap Addr) (accN : AMap Node)
      (kbN : List (String × Node)), h.NilOk → optMapKvs (absH f h) acc = some accN →
      optMapKvs (absH f h) kb = some kbN →
      ∃ h' m, foldKvs g h acc kb = some (h', m) ∧
        optMapKvs (absH f h') m = some (mergeKvs o accN kbN)
  | [], h, acc, accN, kbN, _, ha, hb => by
    simp only [optMapKvs, Option.some.injEq] at hb; subst hb
    exact ⟨h, acc, rfl, by simpa [mergeKvs] using ha⟩
  | (k, v) :: rest, h, acc, accN, kbN, hn, ha, hb => by
    obtain ⟨y, restN, hy, hrest, rfl⟩ := optMapKvs_cons_some.mp hb
    cases hk : AMap.get? acc k with
    | none =>
      have hkN := optMapKvs_get?_none ha hk
      rw [foldKvs_cons_none hk]
      obtain ⟨h', m, hf, hm⟩ := foldKvs_abs hl hg rest h (AMap.insert acc k v) (AMap.insert accN k y)
        restN hn (optMapKvs_insert hy ha) hrest
      refine ⟨h', m, hf, ?_⟩
      rw [hm]; simp only [mergeKvs, hkN]
    | some n =>
      obtain ⟨x, hx, hkN⟩ := optMapKvs_get?_some ha hk
      rw [foldKvs_cons_some hk]
      obtain ⟨h1, r, hgn, hr⟩ := hg h n v x y hn hx hy
      have l1 := hl h n v h1 r hgn
      obtain ⟨h', m, hf, hm⟩ := foldKvs_abs hl hg rest h1 (AMap.insert acc k r)
        (AMap.insert accN k (mergeNode o x y)) restN (nilOk_mono hn l1)
        (optMapKvs_insert hr (optMapKvs_mono l1 ha)) (optMapKvs_mono l1 hrest)
      refine ⟨h', m, by simp only [hgn, Option.bind_some]; exact hf, ?_⟩
      rw [hm]; simp only [mergeKvs, hkN]

theorem meldItems_abs {o : ListStrategy} {f : Nat} {g : Heap → Addr → Addr → Option (Heap × Addr)}
    (hl : LeSpec2 g) (hg : AbsSpec2 o f g) :
    ∀ (xs ys : List Addr) (h : Heap) (xN yN : List Node), h.NilOk →
      optMapM (absH f h) xs = some xN → optMapM (absH f h) ys = some yN →
      ∃ h' zs, meldItems g h xs ys = some (h', zs) ∧
        optMapM (absH f h') zs = some (meldList o xN yN)
  | xs, [], h, xN, yN, _, hx, hy => by
    simp only [optMapM, Option.some.injEq] at hy; subst hy
    exact ⟨h, xs, by simp [meldItems], by rw [meldList_nil_right]; exact hx⟩
  | [], y :: ys, h, xN, yN, _, hx, hy => by
    simp only [optMapM, Option.some.injEq] at hx; subst hx
    exact ⟨h, y :: ys, by simp [meldItems], by rw [meldList_nil_left]; exact hy⟩
  | x :: xs, y :: ys, h, xN, yN, hn, hx, hy => by
    obtain ⟨a, as, ha, has, rfl⟩ := optMapM_cons_some.mp hx
    obtain ⟨b, bs, hb, hbs, rfl⟩ := optMapM_cons_some.mp hy
    obtain ⟨h1, r, hgn, hr⟩ := hg h x y a b hn ha hb
    have l1 := hl h x y h1 r hgn
    obtain ⟨h2, rs, hm, hrs⟩ := meldItems_abs hl hg xs ys h1 as bs (nilOk_mono hn l1)
      (optMapM_mono l1 has) (optMapM_mono l1 hbs)
    have l2 := meldItems_le hl xs ys h1 h2 rs hm
    refine ⟨h2, r :: rs, by simp [meldItems, hgn, hm], ?_⟩
    simp only [meldList]
    exact optMapM_cons_some.mpr ⟨_, _, absH_mono l2 f r _ hr, hrs, rfl⟩

theorem mergeNodeF_abs (o : ListStrategy) : ∀ (f : Nat), AbsSpec2 o f (mergeNodeF o f)
  | 0 => by intro h n v x y _ hx _; simp [absH] at hx
  | f + 1 => by
    intro h n v x y hnil hx hy
    obtain ⟨f1, cn, e1, hn, mx⟩ := absH_inv hx
    obtain ⟨f2, cv, e2, hv, my⟩ := absH_inv hy
    cases Nat.succ.inj e1
    cases Nat.succ.inj e2
    have kx := absH_kind hx hn
    have ky := absH_kind hy hv
    rcases cellPair_cases cn cv with ⟨ka, kb, rfl, rfl⟩ | ⟨xs, ys, rfl, rfl⟩ | ⟨c1, c2⟩
    · obtain ⟨kaN, hka, rfl⟩ := mx
      obtain ⟨kbN, hkb, rfl⟩ := my
      obtain ⟨h1, m, hf, hm⟩ := foldKvs_abs (mergeNodeF_le o f) (mergeNodeF_abs o f) kb h ka kaN kbN
        hnil hka hkb
      refine ⟨(h1.alloc (.cont m)).1, h1.size, ?_, ?_⟩
      · rw [mergeNodeF_cont hn hv, hf]; rfl
      · rw [absH_alloc_cont hm, mergeNode_cont_cont]
    · obtain ⟨xN, hxs, rfl⟩ := mx
      obtain ⟨yN, hys, rfl⟩ := my
      rw [mergeNode_list_list]
      cases o with
      | append =>
        refine ⟨(h.alloc (.list (xs ++ ys))).1, h.size, mergeNodeF_list_append hn hv, ?_⟩
        rw [absH_alloc_list (optMapM_append hxs hys)]; rfl
      | meld =>
        obtain ⟨h1, zs, hf, hz⟩ := meldItems_abs (mergeNodeF_le .meld f) (mergeNodeF_abs .meld f)
          xs ys h xN yN hnil hxs hys
        refine ⟨(h1.alloc (.list zs)).1, h1.size, ?_, ?_⟩
        · rw [mergeNodeF_list_meld hn hv, hf]; rfl
        · rw [absH_alloc_list hz]; rfl
    · refine ⟨h, coalesceH h n v, mergeNodeF_other hn hv c1 c2, ?_⟩
      rw [mergeNode_other o x y (by rw [kx.1, ky.1]; exact c1) (by rw [kx.2, ky.2]; exact c2)]
      exact absH_coalesceH hnil hx hy

/-! ### mergeContainers = mergeNode on two container cells -/

theorem get?_cont_of_absH {f : Nat} {h : Heap} {a : Addr} {m : List (String × Node)}
    (hx : absH f h a = some (.cont m)) : ∃ kvs, h.get? a = some (.cont kvs) := by
  obtain ⟨_, c, _, hc, hm⟩ := absH_inv hx
  cases c with
  | leaf s => simp only at hm; cases hm
  | list xs => obtain ⟨_, _, hm⟩ := hm; cases hm
  | cont kvs => exact ⟨kvs, hc⟩

theorem mergeContainersF_eq {o : ListStrategy} {f : Nat} {h : Heap} {c1 c2 : Addr} {ka kb : AMap Addr}
    (h1 : h.get? c1 = some (.cont ka)) (h2 : h.get? c2 = some (.cont kb)) :
    mergeContainersF o f h c1 c2 = mergeNodeF o f h c1 c2 := by
  simp only [mergeContainersF, h1, h2]

theorem mergeContainersF_inv {o : ListStrategy} {f : Nat} {h h' : Heap} {c1 c2 r : Addr}
    (hm : mergeContainersF o f h c1 c2 = some (h', r)) :
    ∃ ka kb, h.get? c1 = some (.cont ka) ∧ h.get? c2 = some (.cont kb) ∧
      mergeNodeF o f h c1 c2 = some (h', r) := by
  unfold mergeContainersF at hm
  split at hm
  · rename_i ka kb h1 h2
    exact ⟨ka, kb, h1, h2, hm⟩
  · cases hm

/-! ### fuel = heap size is enough on a closed acyclic heap

  Any rank function can be compressed to one below the heap size: the number of in-range
  addresses of strictly smaller rank.  Hence `abs`, `clone`, `mergeContainers` (which run with
  fuel `h.size`) are defined on every closed acyclic heap. -/

theorem countP_lt_of_imp {α : Type} {p q : α → Bool} :
    ∀ {l : List α}, (∀ x ∈ l, p x = true → q x = true) → (∃ x ∈ l, q x = true ∧ p x = false) →
      l.countP p < l.countP q
  | [], _, ⟨x, hx, _⟩ => by cases hx
  | y :: l, himp, ⟨x, hx, hq, hp⟩ => by
    have himp' : ∀ z ∈ l, p z = true → q z = true := fun z hz => himp z (List.mem_cons_of_mem _ hz)
    have hmono := List.countP_mono_left himp'
    rcases List.mem_cons.mp hx with rfl | hx
    · rw [List.countP_cons_of_pos hq, List.countP_cons_of_neg (by simp [hp])]
      exact Nat.lt_succ_of_le hmono
    · have ih := countP_lt_of_imp himp' ⟨x, hx, hq, hp⟩
      by_cases hpy : p y = true
      · rw [List.countP_cons_of_pos hpy, List.countP_cons_of_pos (himp y (List.mem_cons_self ..) hpy)]
        exact Nat.succ_lt_succ ih
      · rw [List.countP_cons_of_neg hpy]
        by_cases hqy : q y = true
        · rw [List.countP_cons_of_pos hqy]; exact Nat.lt_succ_of_lt ih
        · rw [List.countP_cons_of_neg hqy]; exact ih

/-- the compressed rank: how many in-range addresses have a strictly smaller rank -/
def crank (h : Heap) (rank : Addr → Nat) (a : Addr) : Nat :=
  (List.range h.size).countP (fun b => decide (rank b < rank a))

theorem crank_lt_size {h : Heap} (rank : Addr → Nat) {a : Addr} (ha : a < h.size) :
    crank h rank a < h.size := by
  have : (List.range h.size).countP (fun b => decide (rank b < rank a)) <
      (List.range h.size).countP (fun _ => true) :=
    countP_lt_of_imp (fun _ _ _ => rfl) ⟨a, List.mem_range.mpr ha, rfl, by simp⟩
  have hlen : (List.range h.size).countP (fun _ => true) ≤ (List.range h.size).length :=
    List.countP_le_length
  rw [List.length_range] at hlen
  exact Nat.lt_of_lt_of_le this hlen

theorem rankedBy_crank {h : Heap} (hc : h.Closed) {rank : Addr → Nat} (hr : h.RankedBy rank) :
    h.RankedBy (crank h rank) := by
  intro a c hg k hk
  have hlt := hr a c hg k hk
  have hkin := hc a c hg k hk
  refine countP_lt_of_imp ?_ ⟨k, List.mem_range.mpr hkin, ?_, ?_⟩
  · intro b _ hb
    exact decide_eq_true (Nat.lt_trans (of_decide_eq_true hb) hlt)
  · exact decide_eq_true hlt
  · exact decide_eq_false (Nat.lt_irrefl _)

/-- on a closed acyclic heap every in-range root has a defined abstraction with fuel `h.size` -/
theorem abs_defined {h : Heap} (hc : h.Closed) (ha : h.Acyclic) {a : Addr} (hlt : a < h.size) :
    ∃ n, abs h a = some n := by
  obtain ⟨rank, hr⟩ := ha
  have hpos : 0 < h.size := Nat.lt_of_le_of_lt (Nat.zero_le _) hlt
  obtain ⟨d, hd⟩ : ∃ d, h.size = d + 1 := ⟨h.size - 1, by omega⟩
  have := absH_of_ranked hc (rankedBy_crank hc hr) d a
    (Nat.le_of_lt_succ (by have := crank_lt_size (h := h) rank hlt; rw [hd] at this; exact this)) hlt
  unfold abs
  rw [hd]; exact this

/-! ### OverlayDocument.Merged: the fold of mergeContainers over the layers -/

theorem mergeAllF_share {h0 : Heap} {S : Addr → Prop} (ctx : ShareCtx h0 S) (o : ListStrategy) (f : Nat) :
    ∀ (ls : List Addr) (h h' : Heap) (acc r : Addr), MInv h0 S h → Good h0 S h acc → h0.size ≤ acc →
      (∀ l ∈ ls, Good h0 S h l) → mergeAllF o f h acc ls = some (h', r) →
      h ≤ h' ∧ MInv h0 S h' ∧ Good h0 S h' r ∧ h0.size ≤ r
  | [], h, h', acc, r, hi, ha, hacc, _, hm => by
    simp only [mergeAllF, Option.some.injEq, Prod.mk.injEq] at hm
    obtain ⟨rfl, rfl⟩ := hm
    exact ⟨le_refl _, hi, ha, hacc⟩
  | l :: ls, h, h', acc, r, hi, ha, _, hl, hm => by
    simp only [mergeAllF] at hm
    cases hc : mergeContainersF o f h acc l with
    | none => simp [hc] at hm
    | some q =>
      obtain ⟨h1, a1⟩ := q
      simp only [hc] at hm
      obtain ⟨ka, kb, g1, g2, hm'⟩ := mergeContainersF_inv hc
      obtain ⟨l1, i1, ga1⟩ := mergeNodeF_share ctx o f h acc l h1 a1 hi ha (hl l (List.mem_cons_self ..)) hm'
      have hfresh := (mergeNodeF_spine_fresh hm' g1 g2 (Or.inl ⟨rfl, rfl⟩)).1
      obtain ⟨l2, i2, gr, hr⟩ := mergeAllF_share ctx o f ls h1 h' a1 r i1 ga1
        (Nat.le_trans (size_le_of_le hi.1) hfresh)
        (fun x hx => (hl x (List.mem_cons_of_mem _ hx)).mono l1) hm
      exact ⟨le_trans l1 l2, i2, gr, hr⟩

/-- the sharing context of a list of layer roots on a closed heap -/
theorem shareCtx_of_layers {h : Heap} (hc : h.Closed) (hnil : h.NilOk) {layers : List Addr}
    (hl : ∀ l ∈ layers, l < h.size) :
    ShareCtx h (fun b => (∃ l ∈ layers, Reach h l b) ∨ b = nilAddr) := by
  have hin : ∀ {r b : Addr}, r < h.size → Reach h r b → b < h.size := fun hr hrb =>
    Reach.closed_set (fun a => a < h.size) (fun a c _ hg k hk => hc a c hg k hk) hrb hr
  refine ⟨?_, ?_, Or.inr rfl⟩
  · intro b hb
    rcases hb with ⟨l, hl', hb⟩ | rfl
    · exact hin (hl l hl') hb
    · exact get?_lt hnil
  · intro a c ha hg k hk
    rcases ha with ⟨l, hl', ha⟩ | rfl
    · exact Or.inl ⟨l, hl', ha.trans (Reach.child hg hk)⟩
    · rw [hnil] at hg
      cases Option.some.inj hg
      simp [Cell.kids] at hk

theorem mergeAllF_abs (o : ListStrategy) (f : Nat) :
    ∀ (ls : List Addr) (h : Heap) (acc : Addr) (accN : AMap Node) (lsN : List (AMap Node)),
      h.NilOk → absH f h acc = some (.cont accN) →
      optMapM (absH f h) ls = some (lsN.map Node.cont) →
      ∃ h' r, mergeAllF o f h acc ls = some (h', r) ∧
        absH f h' r = some (.cont (lsN.foldl (mergeKvs o) accN))
  | [], h, acc, accN, lsN, _, ha, hl => by
    simp only [optMapM, Option.some.injEq] at hl
    have : lsN = [] := by cases lsN with | nil => rfl | cons _ _ => simp at hl
    subst this
    exact ⟨h, acc, rfl, ha⟩
  | l :: ls, h, acc, accN, lsN, hnil, ha, hl => by
    obtain ⟨n, ns, hn, hns, e⟩ := optMapM_cons_some.mp hl
    cases lsN with
    | nil => simp at e
    | cons b lsN' =>
      simp only [List.map_cons, List.cons.injEq] at e
      obtain ⟨rfl, rfl⟩ := e
      obtain ⟨ka, g1⟩ := get?_cont_of_absH ha
      obtain ⟨kb, g2⟩ := get?_cont_of_absH hn
      obtain ⟨h1, a1, hm, hr⟩ := mergeNodeF_abs o f h acc l _ _ hnil ha hn
      have l1 := mergeNodeF_le o f h acc l h1 a1 hm
      rw [mergeNode_cont_cont] at hr
      obtain ⟨h', r, hrest, hres⟩ := mergeAllF_abs o f ls h1 a1 (mergeKvs o accN b) lsN'
        (nilOk_mono hnil l1) hr (optMapM_mono l1 hns)
      refine ⟨h', r, ?_, hres⟩
      simp only [mergeAllF, mergeContainersF_eq g1 g2, hm]
      exact hrest

/-! ### the merged spine, path by path -/

theorem lookupKeys_mono {h h' : Heap} (hl : h ≤ h') :
    ∀ (ks : List String) (a z : Addr), lookupKeys h a ks = some z → lookupKeys h' a ks = some z
  | [], _, _, hz => hz
  | k :: ks, a, z, hz => by
    simp only [lookupKeys] at hz ⊢
    cases hg : h.get? a with
    | none => simp [hg] at hz
    | some c =>
      rw [get?_of_le hl hg]
      simp only [hg] at hz
      cases c with
      | leaf s => simp at hz
      | list xs => simp at hz
      | cont kvs =>
        simp only at hz ⊢
        cases hk : AMap.get? kvs k with
        | none => simp [hk] at hz
        | some c' =>
          simp only [hk] at hz ⊢
          exact lookupKeys_mono hl ks c' z hz

theorem lookupKeys_cons_inv {h : Heap} {a z : Addr} {k : String} {ks : List String}
    (hz : lookupKeys h a (k :: ks) = some z) :
    ∃ kvs c, h.get? a = some (.cont kvs) ∧ AMap.get? kvs k = some c ∧ lookupKeys h c ks = some z := by
  simp only [lookupKeys] at hz
  cases hg : h.get? a with
  | none => simp [hg] at hz
  | some cell =>
    simp only [hg] at hz
    cases cell with
    | leaf s => simp at hz
    | list xs => simp at hz
    | cont kvs =>
      simp only at hz
      cases hk : AMap.get? kvs k with
      | none => simp [hk] at hz
      | some c => simp only [hk] at hz; exact ⟨kvs, c, rfl, hk, hz⟩

theorem foldKvs_get_notin {g : Heap → Addr → Addr → Option (Heap × Addr)} :
    ∀ (kb : List (String × Addr)) (h : Heap) (acc : AMap Addr) (h' : Heap) (m : AMap Addr) (k : String),
      k ∉ kb.map (·.1) → foldKvs g h acc kb = some (h', m) → AMap.get? m k = AMap.get? acc k
  | [], h, acc, h', m, k, _, hf => by
    simp only [foldKvs, Option.some.injEq, Prod.mk.injEq] at hf
    rw [hf.2]
  | (k0, v0) :: rest, h, acc, h', m, k, hk, hf => by
    simp only [List.map_cons, List.mem_cons, not_or] at hk
    obtain ⟨hne, hrest⟩ := hk
    cases hk0 : AMap.get? acc k0 with
    | none =>
      rw [foldKvs_cons_none hk0] at hf
      rw [foldKvs_get_notin rest h _ h' m k hrest hf, AMap.get?_insert_ne acc v0 hne]
    | some n =>
      rw [foldKvs_cons_some hk0] at hf
      cases hgn : g h n v0 with
      | none => simp [hgn] at hf
      | some q =>
        obtain ⟨h1, r⟩ := q
        simp only [hgn, Option.bind_some] at hf
        rw [foldKvs_get_notin rest h1 _ h' m k hrest hf, AMap.get?_insert_ne acc r hne]

/-- a key present on both sides holds, after the fold, the result of ONE call of `g` on the two
    members, made at some intermediate heap -/
theorem foldKvs_get_both {g : Heap → Addr → Addr → Option (Heap × Addr)} (hl : LeSpec2 g) :
    ∀ (kb : List (String × Addr)) (h : Heap) (acc : AMap Addr) (h' : Heap) (m : AMap Addr)
      (k : String) (cn cv : Addr), (kb.map (·.1)).Nodup → (k, cv) ∈ kb → AMap.get? acc k = some cn →
      foldKvs g h acc kb = some (h', m) →
      ∃ hi hi' z, h ≤ hi ∧ g hi cn cv = some (hi', z) ∧ hi' ≤ h' ∧ AMap.get? m k = some z
  | [], _, _, _, _, _, _, _, _, hmem, _, _ => by cases hmem
  | (k0, v0) :: rest, h, acc, h', m, k, cn, cv, hnd, hmem, hacc, hf => by
    simp only [List.map_cons, List.nodup_cons] at hnd
    obtain ⟨hk0, hndr⟩ := hnd
    rcases List.mem_cons.mp hmem with heq | hmem'
    · have e1 : k0 = k := (Prod.mk.inj heq).1.symm
      have e2 : v0 = cv := (Prod.mk.inj heq).2.symm
      subst e1; subst e2
      rw [foldKvs_cons_some hacc] at hf
      cases hgn : g h cn v0 with
      | none => simp [hgn] at hf
      | some q =>
        obtain ⟨h1, z⟩ := q
        simp only [hgn, Option.bind_some] at hf
        refine ⟨h, h1, z, le_refl _, hgn, foldKvs_le hl rest h1 _ h' m hf, ?_⟩
        rw [foldKvs_get_notin rest h1 _ h' m k0 hk0 hf, AMap.get?_insert_self]
    · have hne : k ≠ k0 := by
        intro e
        exact hk0 (List.mem_map.mpr ⟨(k, cv), hmem', e⟩)
      cases hk0' : AMap.get? acc k0 with
      | none =>
        rw [foldKvs_cons_none hk0'] at hf
        exact foldKvs_get_both hl rest h _ h' m k cn cv hndr hmem'
          (by rw [AMap.get?_insert_ne acc v0 hne]; exact hacc) hf
      | some n =>
        rw [foldKvs_cons_some hk0'] at hf
        cases hgn : g h n v0 with
        | none => simp [hgn] at hf
        | some q =>
          obtain ⟨h1, r⟩ := q
          simp only [hgn, Option.bind_some] at hf
          obtain ⟨hi, hi', z, l1, hg, l2, hz⟩ := foldKvs_get_both hl rest h1 _ h' m k cn cv hndr hmem'
            (by rw [AMap.get?_insert_ne acc r hne]; exact hacc) hf
          exact ⟨hi, hi', z, le_trans (hl h n v0 h1 r hgn) l1, hg, l2, hz⟩

/-- SPINE, path by path: for every path of member names that leads to a container in both
    inputs, the result has a NEWLY ALLOCATED container at that path -/
theorem mergeNodeF_spine_path (o : ListStrategy) {h0 : Heap} (hc : h0.Closed) (hs : h0.MapsOk) :
    ∀ (ks : List String) (f : Nat) (h : Heap) (n v : Addr) (h' : Heap) (r x y : Addr),
      h0 ≤ h → n < h0.size → v < h0.size → mergeNodeF o f h n v = some (h', r) →
      lookupKeys h0 n ks = some x → lookupKeys h0 v ks = some y →
      (∃ kx, h0.get? x = some (.cont kx)) → (∃ ky, h0.get? y = some (.cont ky)) →
      ∃ z m, lookupKeys h' r ks = some z ∧ h.size ≤ z ∧ z < h'.size ∧ h'.get? z = some (.cont m)
  | [], f, h, n, v, h', r, x, y, hl, hn, hv, hm, hx, hy, ⟨kx, cx⟩, ⟨ky, cy⟩ => by
    simp only [lookupKeys, Option.some.injEq] at hx hy
    subst hx; subst hy
    have gx : h.get? n = some (.cont kx) := get?_of_le hl cx
    have gy : h.get? v = some (.cont ky) := get?_of_le hl cy
    obtain ⟨b1, b2, c, hc', k1, _⟩ := mergeNodeF_spine_fresh hm gx gy (Or.inl ⟨rfl, rfl⟩)
    cases c with
    | leaf s => simp [Cell.isCont] at k1
    | list xs => simp [Cell.isCont] at k1
    | cont m => exact ⟨r, m, rfl, b1, b2, hc'⟩
  | k :: ks, f, h, n, v, h', r, x, y, hl, _, _, hm, hx, hy, cx, cy => by
    obtain ⟨ka, cn, gn0, hka, hxn⟩ := lookupKeys_cons_inv hx
    obtain ⟨kb, cv, gv0, hkb, hyv⟩ := lookupKeys_cons_inv hy
    have gn : h.get? n = some (.cont ka) := get?_of_le hl gn0
    have gv : h.get? v = some (.cont kb) := get?_of_le hl gv0
    cases f with
    | zero => simp [mergeNodeF] at hm
    | succ f =>
      rw [mergeNodeF_cont gn gv] at hm
      cases hf : foldKvs (mergeNodeF o f) h ka kb with
      | none => simp [hf] at hm
      | some q =>
        obtain ⟨h1, m⟩ := q
        simp only [hf, Option.bind_some, Option.some.injEq] at hm
        have e1 : h' = (h1.alloc (.cont m)).1 := (congrArg Prod.fst hm).symm
        have e2 : r = h1.size := (congrArg Prod.snd hm).symm
        subst e1; subst e2
        obtain ⟨hi, hi', z', l1, hg, l2, hz'⟩ := foldKvs_get_both (mergeNodeF_le o f) kb h ka h1 m k cn cv
          (Ytk.keys_nodup_of_sorted (hs v kb gv0)) (AMap.mem_of_get? hkb) hka hf
        have hcn : cn < h0.size := hc n _ gn0 cn (by
          simp only [Cell.kids, List.mem_map]; exact ⟨(k, cn), AMap.mem_of_get? hka, rfl⟩)
        have hcv : cv < h0.size := hc v _ gv0 cv (by
          simp only [Cell.kids, List.mem_map]; exact ⟨(k, cv), AMap.mem_of_get? hkb, rfl⟩)
        obtain ⟨z, mz, hz, b1, b2, gz⟩ := mergeNodeF_spine_path o hc hs ks f hi cn cv hi' z' x y
          (le_trans hl l1) hcn hcv hg hxn hyv cx cy
        have l3 : hi' ≤ (h1.alloc (.cont m)).1 := le_trans l2 (le_alloc _ _)
        refine ⟨z, mz, ?_, Nat.le_trans (size_le_of_le l1) b1,
          Nat.lt_of_lt_of_le b2 (size_le_of_le l3), get?_of_le l3 gz⟩
        simp only [lookupKeys, get?_alloc_new, hz']
        exact lookupKeys_mono l3 ks z' z hz

theorem mapsOk_of_all {h : Heap}
    (hall : (h.cells.all fun c => match c with | .cont kvs => Ytk.sortedb kvs | _ => true) = true) :
    h.MapsOk := by
  intro a kvs hg
  have hc : Cell.cont kvs ∈ h.cells := List.mem_of_getElem? hg
  have := List.all_eq_true.mp hall _ hc
  exact Ytk.sorted_of_sortedb kvs this

/-! ### the tail of a melded list is `firstValidListItem` -/

theorem firstValidListItemH_two (i : Nat) (xs ys : List Addr) :
    firstValidListItemH i [xs, ys] =
      if i < xs.length then xs.getD i nilAddr else if i < ys.length then ys.getD i nilAddr else nilAddr := by
  unfold firstValidListItemH
  by_cases h1 : i < xs.length
  · simp [List.find?, h1]
  · by_cases h2 : i < ys.length
    · simp [List.find?, h1, h2]
    · simp [List.find?, h1, h2]

/-- beyond the common prefix the melded list holds exactly what `firstValidListItem(i, l1, l2)`
    returns: the existing item of the longer list (no allocation, no copy) -/
theorem meldItems_tail {g : Heap → Addr → Addr → Option (Heap × Addr)} :
    ∀ (xs ys : List Addr) (h h' : Heap) (zs : List Addr), meldItems g h xs ys = some (h', zs) →
      ∀ i, min xs.length ys.length ≤ i → zs.getD i nilAddr = firstValidListItemH i [xs, ys]
  | xs, [], h, h', zs, hm, i, _ => by
    simp only [meldItems, Option.some.injEq, Prod.mk.injEq] at hm
    rw [← hm.2, firstValidListItemH_two]
    by_cases h1 : i < xs.length
    · rw [if_pos h1]
    · rw [if_neg h1, if_neg (by simp), List.getD_eq_getElem?_getD,
        List.getElem?_eq_none (Nat.le_of_not_lt h1)]; rfl
  | [], y :: ys, h, h', zs, hm, i, _ => by
    simp only [meldItems, Option.some.injEq, Prod.mk.injEq] at hm
    rw [← hm.2, firstValidListItemH_two]
    have hnil : ¬ i < ([] : List Addr).length := by simp
    rw [if_neg hnil]
    by_cases h2 : i < (y :: ys).length
    · rw [if_pos h2]
    · rw [if_neg h2, List.getD_eq_getElem?_getD, List.getElem?_eq_none (Nat.le_of_not_lt h2)]; rfl
  | x :: xs, y :: ys, h, h', zs, hm, i, hi => by
    simp only [meldItems] at hm
    cases hgn : g h x y with
    | none => simp [hgn] at hm
    | some q =>
      obtain ⟨h1, r⟩ := q
      simp only [hgn] at hm
      cases hrest : meldItems g h1 xs ys with
      | none => simp [hrest] at hm
      | some q2 =>
        obtain ⟨h2, rs⟩ := q2
        simp only [hrest, Option.some.injEq, Prod.mk.injEq] at hm
        rw [← hm.2]
        cases i with
        | zero => simp at hi
        | succ j =>
          have hj : min xs.length ys.length ≤ j := by
            simp only [List.length_cons] at hi; omega
          have ih := meldItems_tail xs ys h1 h2 rs hrest j hj
          rw [firstValidListItemH_two] at ih ⊢
          simp only [List.getD_cons_succ, List.length_cons, Nat.add_lt_add_iff_right]
          exact ih

end Ytk.Heap
