/- Lemmas on the merge model (dom/merge.go). -/
import YtkModel.Merge
import YtkProofs.AMap

namespace Ytk

/-! ## coalesce / hasValue -/

theorem coalesce_eq (x y : Node) :
    coalesce x y = if hasValue y then y else if hasValue x then x else Node.null := by
  unfold coalesce coalesceList
  by_cases hy : hasValue y <;> by_cases hx : hasValue x <;> simp [List.find?, hy, hx]

theorem hasValue_false_iff (x : Node) : hasValue x = false ↔ x = Node.null := by
  cases x with
  | leaf s => simp [hasValue, Node.null]
  | list xs => simp [hasValue, Node.null]
  | cont kvs => simp [hasValue, Node.null]

theorem coalesce_self (x : Node) : coalesce x x = x := by
  rw [coalesce_eq]
  by_cases h : hasValue x
  · simp [h]
  · have : x = Node.null := (hasValue_false_iff x).mp (by simpa using h)
    simp [this]

theorem coalesce_cases (x y : Node) : coalesce x y = y ∨ coalesce x y = x ∨ coalesce x y = Node.null := by
  rw [coalesce_eq]
  by_cases hy : hasValue y <;> by_cases hx : hasValue x <;> simp [hy, hx]

/-! ## mergeNode: the three-way dispatch -/

theorem mergeNode_cont_cont (o : ListStrategy) (a b : List (String × Node)) :
    mergeNode o (.cont a) (.cont b) = .cont (mergeKvs o a b) := by
  simp [mergeNode]

theorem mergeNode_list_list (o : ListStrategy) (xs ys : List Node) :
    mergeNode o (.list xs) (.list ys) = .list (mergeList o xs ys) := by
  cases o <;> simp [mergeNode, mergeList]

/-- any other combination of kinds: coalesce -/
theorem mergeNode_other (o : ListStrategy) (x y : Node)
    (h : ¬ (x.isCont = true ∧ y.isCont = true)) (h' : ¬ (x.isList = true ∧ y.isList = true)) :
    mergeNode o x y = coalesce x y := by
  cases x <;> cases y <;> simp_all [mergeNode, Node.isCont, Node.isList]

/-! ## the per-key (per-index) case table -/

/-- what one key (one list position) holds after the merge, from what the two sides hold -/
def mergeEntry (o : ListStrategy) : Option Node → Option Node → Option Node
  | some x, some y => some (mergeNode o x y)
  | some x, none => some x
  | none, some y => some y
  | none, none => none

theorem get?_of_not_mem_keys {α : Type} {m : AMap α} {k : String} (h : k ∉ m.map (·.1)) : AMap.get? m k = none := by
  induction m with
  | nil => rfl
  | cons q m ih =>
    obtain ⟨k', v'⟩ := q
    simp only [List.map_cons, List.mem_cons, not_or] at h
    simp only [AMap.get?, if_neg h.1]
    exact ih h.2

theorem mem_keys_iff {α : Type} (m : AMap α) (k : String) : k ∈ m.map (·.1) ↔ (AMap.get? m k).isSome = true := by
  induction m with
  | nil => simp
  | cons q m ih =>
    obtain ⟨k', v'⟩ := q
    by_cases h : k = k'
    · simp [AMap.get?, h]
    · simp [AMap.get?, h, ih]

theorem keys_nodup_of_sorted {α : Type} {m : AMap α} (h : AMap.Sorted m) : (m.map (·.1)).Nodup := by
  induction m with
  | nil => simp
  | cons q m ih =>
    obtain ⟨k, v⟩ := q
    simp only [List.map_cons, List.nodup_cons]
    refine ⟨?_, ih h.tail⟩
    intro hk
    obtain ⟨p, hp, hpk⟩ := List.mem_map.mp hk
    have := h.head_lt p hp
    rw [hpk] at this
    exact String.lt_irrefl _ this

theorem get?_mergeKvs (o : ListStrategy) (a : AMap Node) (b : List (String × Node))
    (hb : (b.map (·.1)).Nodup) (k : String) :
    AMap.get? (mergeKvs o a b) k = mergeEntry o (AMap.get? a k) (AMap.get? b k) := by
  induction b generalizing a with
  | nil => cases h : AMap.get? a k <;> simp [mergeKvs, mergeEntry, h]
  | cons q rest ih =>
    obtain ⟨k', v⟩ := q
    simp only [List.map_cons, List.nodup_cons] at hb
    simp only [mergeKvs]
    rw [ih _ hb.2]
    by_cases hk : k = k'
    · subst hk
      rw [AMap.get?_insert_self, get?_of_not_mem_keys hb.1]
      cases h : AMap.get? a k <;> simp [mergeEntry, AMap.get?]
    · rw [AMap.get?_insert_ne _ _ hk]
      simp [AMap.get?, hk]

theorem isSome_mergeEntry (o : ListStrategy) (x y : Option Node) :
    (mergeEntry o x y).isSome = (x.isSome || y.isSome) := by
  cases x <;> cases y <;> simp [mergeEntry]

/-- key union, no assumption on `b` -/
theorem isSome_get?_mergeKvs (o : ListStrategy) (a : AMap Node) (b : List (String × Node)) (k : String) :
    (AMap.get? (mergeKvs o a b) k).isSome = ((AMap.get? a k).isSome || (AMap.get? b k).isSome) := by
  induction b generalizing a with
  | nil => simp [mergeKvs]
  | cons q rest ih =>
    obtain ⟨k', v⟩ := q
    simp only [mergeKvs]
    rw [ih]
    by_cases hk : k = k'
    · subst hk
      simp [AMap.get?_insert_self, AMap.get?]
    · rw [AMap.get?_insert_ne _ _ hk]
      simp [AMap.get?, hk]

theorem sorted_mergeKvs (o : ListStrategy) {a : AMap Node} (b : List (String × Node)) (ha : AMap.Sorted a) :
    AMap.Sorted (mergeKvs o a b) := by
  induction b generalizing a with
  | nil => exact ha
  | cons q rest ih =>
    obtain ⟨k', v⟩ := q
    simp only [mergeKvs]
    exact ih (AMap.sorted_insert ha _ _)

theorem mergeKvs_nil_left (o : ListStrategy) {b : AMap Node} (hb : AMap.Sorted b) : mergeKvs o [] b = b := by
  apply AMap.ext_of_sorted (sorted_mergeKvs o b .nil) hb
  intro k
  rw [get?_mergeKvs o [] b (keys_nodup_of_sorted hb)]
  cases h : AMap.get? b k <;> simp [mergeEntry]

/-! ## lists -/

theorem meldList_nil_right (o : ListStrategy) (xs : List Node) : meldList o xs [] = xs := by
  cases xs <;> simp [meldList]

theorem meldList_nil_left (o : ListStrategy) (ys : List Node) : meldList o [] ys = ys := by
  cases ys <;> simp [meldList]

theorem length_meldList (o : ListStrategy) (xs ys : List Node) :
    (meldList o xs ys).length = max xs.length ys.length := by
  induction ys generalizing xs with
  | nil => simp [meldList_nil_right]
  | cons y ys ih =>
    cases xs with
    | nil => simp [meldList]
    | cons x xs => simp [meldList, ih]

theorem getElem?_meldList (o : ListStrategy) (xs ys : List Node) (i : Nat) :
    (meldList o xs ys)[i]? = mergeEntry o xs[i]? ys[i]? := by
  induction ys generalizing xs i with
  | nil => rw [meldList_nil_right]; cases h : xs[i]? <;> simp [mergeEntry]
  | cons y ys ih =>
    cases xs with
    | nil => rw [meldList_nil_left]; cases h : (y :: ys)[i]? <;> simp [mergeEntry]
    | cons x xs =>
      simp only [meldList]
      cases i with
      | zero => simp [mergeEntry]
      | succ i => simpa using ih xs i

theorem firstValid_two (i : Nat) (xs ys : List Node) :
    firstValidListItem i [xs, ys] =
      if i < xs.length then xs.getD i Node.null else if i < ys.length then ys.getD i Node.null else Node.null := by
  unfold firstValidListItem
  by_cases h1 : i < xs.length <;> by_cases h2 : i < ys.length <;> simp [List.find?, h1, h2]

/-- beyond the common prefix the melded list holds firstValidListItem(i, l1, l2) -/
theorem getElem?_meldList_tail (o : ListStrategy) (xs ys : List Node) (i : Nat)
    (hmin : min xs.length ys.length ≤ i) (hmax : i < max xs.length ys.length) :
    (meldList o xs ys)[i]? = some (firstValidListItem i [xs, ys]) := by
  rw [getElem?_meldList, firstValid_two]
  by_cases h1 : i < xs.length
  · have h2 : ¬ i < ys.length := by omega
    have e2 : ys[i]? = none := by simp; omega
    simp [h1, e2, mergeEntry, List.getD]
  · have h2 : i < ys.length := by omega
    have e1 : xs[i]? = none := by simp; omega
    simp [h1, h2, mergeEntry, List.getD]

/-! ## self-merge under the meld strategy -/

theorem mergeKvs_self_of_values (o : ListStrategy) {a : AMap Node} (ha : AMap.Sorted a)
    (h : ∀ p ∈ a, mergeNode o p.2 p.2 = p.2) : mergeKvs o a a = a := by
  apply AMap.ext_of_sorted (sorted_mergeKvs o a ha) ha
  intro k
  rw [get?_mergeKvs o a a (keys_nodup_of_sorted ha)]
  cases hg : AMap.get? a k with
  | none => simp [mergeEntry]
  | some x =>
    have := h (k, x) (AMap.mem_of_get? hg)
    simp only [mergeEntry]
    exact congrArg some this

mutual
theorem mergeNode_self : ∀ (x : Node), x.WF → mergeNode .meld x x = x
  | .leaf s, _ => by simp [mergeNode, coalesce_self]
  | .list xs, h => by
    rw [mergeNode_list_list]
    simp only [mergeList]
    rw [meldList_self xs (fun x hx => h.of_list_mem hx)]
  | .cont kvs, h => by
    rw [mergeNode_cont_cont]
    have hv := mergeKvs_self_values kvs (by cases h with | cont _ hall => exact hall)
    rw [mergeKvs_self_of_values .meld h.sorted hv]
theorem meldList_self : ∀ (xs : List Node), (∀ x ∈ xs, x.WF) → meldList .meld xs xs = xs
  | [], _ => by simp [meldList]
  | x :: xs, h => by
    simp only [meldList]
    rw [mergeNode_self x (h x (List.mem_cons_self ..)), meldList_self xs (fun y hy => h y (List.mem_cons_of_mem _ hy))]
theorem mergeKvs_self_values : ∀ (kvs : List (String × Node)), (∀ p ∈ kvs, p.2.WF) →
    ∀ p ∈ kvs, mergeNode .meld p.2 p.2 = p.2
  | [], _ => by intro p hp; cases hp
  | (k, x) :: rest, h => by
    intro p hp
    simp only [List.mem_cons] at hp
    rcases hp with rfl | hp
    · exact mergeNode_self x (h (k, x) (List.mem_cons_self ..))
    · exact mergeKvs_self_values rest (fun q hq => h q (List.mem_cons_of_mem _ hq)) p hp
end

/-! ## well-formedness of the result -/

theorem mem_insert {α : Type} {m : AMap α} {k : String} {a : α} {p : String × α}
    (h : p ∈ AMap.insert m k a) : p = (k, a) ∨ p ∈ m := by
  induction m with
  | nil => simp [AMap.insert] at h; exact Or.inl h
  | cons q m ih =>
    obtain ⟨k', v'⟩ := q
    simp only [AMap.insert] at h
    split at h
    · simp only [List.mem_cons] at h ⊢
      rcases h with h | h | h
      · exact Or.inl h
      · exact Or.inr (Or.inl h)
      · exact Or.inr (Or.inr h)
    · split at h
      · rename_i hk
        simp only [List.mem_cons] at h ⊢
        rcases h with h | h
        · left; rw [h, hk]
        · exact Or.inr (Or.inr h)
      · simp only [List.mem_cons] at h ⊢
        rcases h with h | h
        · exact Or.inr (Or.inl h)
        · rcases ih h with h | h
          · exact Or.inl h
          · exact Or.inr (Or.inr h)

theorem wf_coalesce {x y : Node} (hx : x.WF) (hy : y.WF) : (coalesce x y).WF := by
  rcases coalesce_cases x y with h | h | h <;> rw [h]
  · exact hy
  · exact hx
  · exact .leaf _

mutual
theorem wf_mergeNode (o : ListStrategy) : ∀ (x y : Node), x.WF → y.WF → (mergeNode o x y).WF
  | x, .leaf s, hx, hy => by
    have : mergeNode o x (.leaf s) = coalesce x (.leaf s) := by cases x <;> simp [mergeNode]
    rw [this]; exact wf_coalesce hx hy
  | x, .list ys, hx, hy => by
    cases x with
    | leaf s => simp only [mergeNode]; exact wf_coalesce hx hy
    | cont kvs => simp only [mergeNode]; exact wf_coalesce hx hy
    | list xs =>
      rw [mergeNode_list_list]
      refine .list ?_
      cases o with
      | append =>
        intro z hz
        simp only [mergeList, appendList, List.mem_append] at hz
        rcases hz with hz | hz
        · exact hx.of_list_mem hz
        · exact hy.of_list_mem hz
      | meld =>
        simp only [mergeList]
        exact wf_meldList .meld xs ys (fun z hz => hx.of_list_mem hz) (fun z hz => hy.of_list_mem hz)
  | x, .cont kb, hx, hy => by
    cases x with
    | leaf s => simp only [mergeNode]; exact wf_coalesce hx hy
    | list xs => simp only [mergeNode]; exact wf_coalesce hx hy
    | cont ka =>
      rw [mergeNode_cont_cont]
      have hb : ∀ p ∈ kb, p.2.WF := by cases hy with | cont _ hall => exact hall
      have ha : ∀ p ∈ ka, p.2.WF := by cases hx with | cont _ hall => exact hall
      exact .cont (sorted_mergeKvs o kb hx.sorted) (wf_mergeKvs o ka kb ha hb)
theorem wf_meldList (o : ListStrategy) : ∀ (xs ys : List Node), (∀ x ∈ xs, x.WF) → (∀ y ∈ ys, y.WF) →
    ∀ z ∈ meldList o xs ys, z.WF
  | xs, [], hx, _ => by rw [meldList_nil_right]; exact hx
  | [], y :: ys, _, hy => by rw [meldList_nil_left]; exact hy
  | x :: xs, y :: ys, hx, hy => by
    intro z hz
    simp only [meldList, List.mem_cons] at hz
    rcases hz with rfl | hz
    · exact wf_mergeNode o x y (hx x (List.mem_cons_self ..)) (hy y (List.mem_cons_self ..))
    · exact wf_meldList o xs ys (fun a ha => hx a (List.mem_cons_of_mem _ ha))
        (fun a ha => hy a (List.mem_cons_of_mem _ ha)) z hz
theorem wf_mergeKvs (o : ListStrategy) : ∀ (a : AMap Node) (b : List (String × Node)),
    (∀ p ∈ a, p.2.WF) → (∀ p ∈ b, p.2.WF) → ∀ p ∈ mergeKvs o a b, p.2.WF
  | a, [], ha, _ => by simpa [mergeKvs] using ha
  | a, (k, v) :: rest, ha, hb => by
    simp only [mergeKvs]
    apply wf_mergeKvs o _ rest _ (fun q hq => hb q (List.mem_cons_of_mem _ hq))
    intro p hp
    rcases mem_insert hp with rfl | hp
    · have hv : v.WF := hb (k, v) (List.mem_cons_self ..)
      cases hg : AMap.get? a k with
      | none => simpa using hv
      | some n =>
        have hn : n.WF := ha (k, n) (AMap.mem_of_get? hg)
        simpa using wf_mergeNode o n v hn hv
    · exact ha p hp
end

/-! ## the API invariant "no key ends in an index group" is preserved as well -/

theorem keysOk_coalesce {x y : Node} (hx : x.KeysOk) (hy : y.KeysOk) : (coalesce x y).KeysOk := by
  rcases coalesce_cases x y with h | h | h <;> rw [h]
  · exact hy
  · exact hx
  · exact .leaf _

theorem Node.KeysOk.of_list_mem {xs : List Node} (h : (Node.list xs).KeysOk) {x : Node} (hx : x ∈ xs) : x.KeysOk := by
  cases h with
  | list hall => exact hall x hx

theorem Node.KeysOk.of_cont {kvs : List (String × Node)} (h : (Node.cont kvs).KeysOk) :
    ∀ p ∈ kvs, hasIdxSuffix p.1 = false ∧ p.2.KeysOk := by
  cases h with
  | cont h1 h2 => exact fun p hp => ⟨h1 p hp, h2 p hp⟩

mutual
theorem keysOk_mergeNode (o : ListStrategy) : ∀ (x y : Node), x.KeysOk → y.KeysOk → (mergeNode o x y).KeysOk
  | x, .leaf s, hx, hy => by
    have : mergeNode o x (.leaf s) = coalesce x (.leaf s) := by cases x <;> simp [mergeNode]
    rw [this]; exact keysOk_coalesce hx hy
  | x, .list ys, hx, hy => by
    cases x with
    | leaf s => simp only [mergeNode]; exact keysOk_coalesce hx hy
    | cont kvs => simp only [mergeNode]; exact keysOk_coalesce hx hy
    | list xs =>
      rw [mergeNode_list_list]
      refine .list ?_
      cases o with
      | append =>
        intro z hz
        simp only [mergeList, appendList, List.mem_append] at hz
        rcases hz with hz | hz
        · exact hx.of_list_mem hz
        · exact hy.of_list_mem hz
      | meld =>
        simp only [mergeList]
        exact keysOk_meldList .meld xs ys (fun z hz => hx.of_list_mem hz) (fun z hz => hy.of_list_mem hz)
  | x, .cont kb, hx, hy => by
    cases x with
    | leaf s => simp only [mergeNode]; exact keysOk_coalesce hx hy
    | list xs => simp only [mergeNode]; exact keysOk_coalesce hx hy
    | cont ka =>
      rw [mergeNode_cont_cont]
      have := keysOk_mergeKvs o ka kb hx.of_cont hy.of_cont
      exact .cont (fun p hp => (this p hp).1) (fun p hp => (this p hp).2)
theorem keysOk_meldList (o : ListStrategy) : ∀ (xs ys : List Node), (∀ x ∈ xs, x.KeysOk) → (∀ y ∈ ys, y.KeysOk) →
    ∀ z ∈ meldList o xs ys, z.KeysOk
  | xs, [], hx, _ => by rw [meldList_nil_right]; exact hx
  | [], y :: ys, _, hy => by rw [meldList_nil_left]; exact hy
  | x :: xs, y :: ys, hx, hy => by
    intro z hz
    simp only [meldList, List.mem_cons] at hz
    rcases hz with rfl | hz
    · exact keysOk_mergeNode o x y (hx x (List.mem_cons_self ..)) (hy y (List.mem_cons_self ..))
    · exact keysOk_meldList o xs ys (fun a ha => hx a (List.mem_cons_of_mem _ ha))
        (fun a ha => hy a (List.mem_cons_of_mem _ ha)) z hz
theorem keysOk_mergeKvs (o : ListStrategy) : ∀ (a : AMap Node) (b : List (String × Node)),
    (∀ p ∈ a, hasIdxSuffix p.1 = false ∧ p.2.KeysOk) → (∀ p ∈ b, hasIdxSuffix p.1 = false ∧ p.2.KeysOk) →
    ∀ p ∈ mergeKvs o a b, hasIdxSuffix p.1 = false ∧ p.2.KeysOk
  | a, [], ha, _ => by simpa [mergeKvs] using ha
  | a, (k, v) :: rest, ha, hb => by
    simp only [mergeKvs]
    apply keysOk_mergeKvs o _ rest _ (fun q hq => hb q (List.mem_cons_of_mem _ hq))
    intro p hp
    rcases mem_insert hp with rfl | hp
    · have hv := hb (k, v) (List.mem_cons_self ..)
      refine ⟨hv.1, ?_⟩
      cases hg : AMap.get? a k with
      | none => simpa using hv.2
      | some n =>
        have hn := (ha (k, n) (AMap.mem_of_get? hg)).2
        simpa using keysOk_mergeNode o n v hn hv.2
    · exact ha p hp
end

/-! ## independence of the order in which c2's children are visited (Go map iteration) -/

theorem get?_of_mem_nodup {α : Type} {m : AMap α} (hn : (m.map (·.1)).Nodup) {k : String} {a : α}
    (h : (k, a) ∈ m) : AMap.get? m k = some a := by
  induction m with
  | nil => cases h
  | cons q m ih =>
    obtain ⟨k', v'⟩ := q
    simp only [List.map_cons, List.nodup_cons] at hn
    simp only [List.mem_cons] at h
    rcases h with h | h
    · cases h; simp [AMap.get?]
    · have hne : k ≠ k' := by
        intro e; subst e
        exact hn.1 (List.mem_map.mpr ⟨(k, a), h, rfl⟩)
      simp only [AMap.get?, if_neg hne]
      exact ih hn.2 h

theorem get?_perm {α : Type} {b b' : AMap α} (hp : b.Perm b') (hn : (b.map (·.1)).Nodup) (k : String) :
    AMap.get? b k = AMap.get? b' k := by
  have hn' : (b'.map (·.1)).Nodup := (hp.map _).nodup_iff.mp hn
  cases h : AMap.get? b k with
  | some a =>
    exact (get?_of_mem_nodup hn' (hp.mem_iff.mp (AMap.mem_of_get? h))).symm
  | none =>
    cases h' : AMap.get? b' k with
    | none => rfl
    | some a =>
      have := get?_of_mem_nodup hn (hp.mem_iff.mpr (AMap.mem_of_get? h'))
      rw [h] at this; cases this

/-- whatever order the children of the second container are visited in, the result is the same -/
theorem mergeKvs_perm (o : ListStrategy) {a : AMap Node} (ha : AMap.Sorted a) {b b' : List (String × Node)}
    (hp : b.Perm b') (hn : (b.map (·.1)).Nodup) : mergeKvs o a b = mergeKvs o a b' := by
  have hn' : (b'.map (·.1)).Nodup := (hp.map _).nodup_iff.mp hn
  apply AMap.ext_of_sorted (sorted_mergeKvs o b ha) (sorted_mergeKvs o b' ha)
  intro k
  rw [get?_mergeKvs o a b hn, get?_mergeKvs o a b' hn', get?_perm hp hn]

/-! ## a boolean well-formedness checker (for concrete examples) -/

def sortedb {α : Type} : AMap α → Bool
  | [] => true
  | [_] => true
  | (k, _) :: (k', v') :: m => decide (k < k') && sortedb ((k', v') :: m)

theorem sorted_of_sortedb {α : Type} : ∀ (m : AMap α), sortedb m = true → AMap.Sorted m
  | [], _ => .nil
  | [(k, v)], _ => .cons (fun _ hp => by cases hp) .nil
  | (k, v) :: (k', v') :: m, h => by
    simp only [sortedb, Bool.and_eq_true, decide_eq_true_eq] at h
    have ih := sorted_of_sortedb ((k', v') :: m) h.2
    refine .cons ?_ ih
    intro p hp
    simp only [List.mem_cons] at hp
    rcases hp with rfl | hp
    · exact h.1
    · exact String.lt_trans h.1 (ih.head_lt p hp)

mutual
def wfb : Node → Bool
  | .leaf _ => true
  | .list xs => wfbList xs
  | .cont kvs => sortedb kvs && wfbKvs kvs
def wfbList : List Node → Bool
  | [] => true
  | x :: xs => wfb x && wfbList xs
def wfbKvs : List (String × Node) → Bool
  | [] => true
  | (_, x) :: xs => wfb x && wfbKvs xs
end

mutual
theorem wf_of_wfb : ∀ (n : Node), wfb n = true → n.WF
  | .leaf v, _ => .leaf v
  | .list xs, h => .list (wf_of_wfbList xs (by simpa [wfb] using h))
  | .cont kvs, h => by
    simp only [wfb, Bool.and_eq_true] at h
    exact .cont (sorted_of_sortedb kvs h.1) (wf_of_wfbKvs kvs h.2)
theorem wf_of_wfbList : ∀ (xs : List Node), wfbList xs = true → ∀ x ∈ xs, x.WF
  | [], _ => by intro x hx; cases hx
  | y :: ys, h => by
    simp only [wfbList, Bool.and_eq_true] at h
    intro x hx
    simp only [List.mem_cons] at hx
    rcases hx with rfl | hx
    · exact wf_of_wfb x h.1
    · exact wf_of_wfbList ys h.2 x hx
theorem wf_of_wfbKvs : ∀ (kvs : List (String × Node)), wfbKvs kvs = true → ∀ p ∈ kvs, p.2.WF
  | [], _ => by intro x hx; cases hx
  | (k, y) :: ys, h => by
    simp only [wfbKvs, Bool.and_eq_true] at h
    intro x hx
    simp only [List.mem_cons] at hx
    rcases hx with rfl | hx
    · exact wf_of_wfb y h.1
    · exact wf_of_wfbKvs ys h.2 x hx
end

end Ytk
