/-
  YtkProofs.Decisions — the model's decision functions equal their table-driven variants
  (YtkModel/Decisions.lean) on ALL inputs.  With these, "the regenerated table equals the model's
  table" (kernel `decide`, in YtkProps/Cxx.lean) ties the model's case analysis to the Go source.
-/
import YtkModel.Decisions
import YtkModel.Generated.Tables

namespace Ytk.Patch
open Ytk.Ptr

theorem patchDo_eq_table (o : OpObj) (root : Node) : patchDo o root = patchDoT o root := by
  unfold patchDo patchDoT
  cases o.path with
  | none => rfl
  | some p =>
    simp only [handlerOf, dispatchTable, List.lookup]
    by_cases h1 : o.op = "add"
    · simp [h1, Handler.run]
    by_cases h2 : o.op = "remove"
    · simp [h2, Handler.run]
    by_cases h3 : o.op = "replace"
    · simp [h3, Handler.run]
    by_cases h4 : o.op = "move"
    · simp [h4, Handler.run]
    by_cases h5 : o.op = "copy"
    · simp [h5, Handler.run]
    by_cases h6 : o.op = "test"
    · simp [h6, Handler.run]
    simp [beq_eq_false_iff_ne.mpr h1, beq_eq_false_iff_ne.mpr h2, beq_eq_false_iff_ne.mpr h3, beq_eq_false_iff_ne.mpr h4, beq_eq_false_iff_ne.mpr h5, beq_eq_false_iff_ne.mpr h6, h1, h2, h3, h4, h5, h6]

/-- a handler that needs `value` fails, leaving the document alone, when it is missing -/
theorem run_missing_value (h : Handler) (o : OpObj) (p : Path) (r : Node)
    (hn : h.needsValue = true) (hv : o.value = none) : h.run o p r = (r, .err) := by
  cases h <;> simp [Handler.needsValue] at hn <;> simp [Handler.run, doAdd, doReplace, doTest, hv]

/-- a handler that needs `from` fails, leaving the document alone, when it is missing -/
theorem run_missing_from (h : Handler) (o : OpObj) (p : Path) (r : Node)
    (hn : h.needsFrom = true) (hv : o.frm = none) : h.run o p r = (r, .err) := by
  cases h <;> simp [Handler.needsFrom] at hn <;> simp [Handler.run, moveOrCopy, hv]

/-- a missing path fails before anything is dispatched -/
theorem patchDo_missing_path (o : OpObj) (root : Node) (hp : o.path = none) : patchDo o root = (root, .err) := by
  simp [patchDo, hp]

end Ytk.Patch

namespace Ytk.K8s

theorem kindKeys_eq_table (doc : AMap Val) : kindKeys doc = kindKeysT doc := by
  unfold kindKeys kindKeysT
  cases AMap.get? doc "kind" with
  | none => rfl
  | some v =>
    cases v with
    | sc s =>
      simp only [kindTable, List.lookup]
      by_cases ht : s.ty = "string"
      · by_cases h1 : s.text = "Secret"
        · simp [ht, h1]
        by_cases h2 : s.text = "ConfigMap"
        · simp [ht, h2]
        simp [ht, beq_eq_false_iff_ne.mpr h1, beq_eq_false_iff_ne.mpr h2, h1, h2]
      · simp [ht]
    | arr _ => rfl
    | obj _ => rfl

end Ytk.K8s

namespace Ytk.PD

theorem toValue_eq_table (cd : Codecs) (mode : String) (content : List Nat) :
    toValue cd mode content = toValueT cd mode content := by
  unfold toValue toValueT
  simp only [modeTable, List.lookup, defaultMode]
  generalize (if mode = "" then "text" else mode) = m
  by_cases h1 : m = "binary"
  · simp [h1, ModeClass.apply]
  by_cases h2 : m = "text"
  · simp [h2, ModeClass.apply]
  by_cases h3 : m = "yaml"
  · simp [h3, ModeClass.apply]
  by_cases h4 : m = "json"
  · simp [h4, ModeClass.apply]
  by_cases h5 : m = "properties"
  · simp [h5, ModeClass.apply]
  simp [beq_eq_false_iff_ne.mpr h1, beq_eq_false_iff_ne.mpr h2, beq_eq_false_iff_ne.mpr h3, beq_eq_false_iff_ne.mpr h4, beq_eq_false_iff_ne.mpr h5, h1, h2, h3, h4, h5]

theorem Format.ofString_eq_table (s : String) : Format.ofString s = Format.ofStringT s := by
  unfold Format.ofString Format.ofStringT
  simp only [formatTable, List.lookup]
  by_cases h1 : s = "yaml"
  · simp [h1]
  by_cases h2 : s = "json"
  · simp [h2]
  by_cases h3 : s = "properties"
  · simp [h3]
  by_cases h4 : s = "text"
  · simp [h4]
  simp [beq_eq_false_iff_ne.mpr h1, beq_eq_false_iff_ne.mpr h2, beq_eq_false_iff_ne.mpr h3, beq_eq_false_iff_ne.mpr h4, h1, h2, h3, h4]

theorem setOp_eq_table (mergeC : AMap Node → AMap Node → AMap Node) (data : AMap Node)
    (payload : Option (AMap Node)) (path : String) (strategy : Option String) :
    setOp mergeC data payload path strategy = setOpT mergeC data payload path strategy := by
  unfold setOp setOpT
  cases payload with
  | none => rfl
  | some other =>
    simp only [strategyTable, List.lookup, defaultStrategy]
    generalize strategy.getD "merge" = s
    by_cases h1 : s = "merge"
    · simp [h1, SetClass.apply]
    by_cases h2 : s = "replace"
    · simp [h2, SetClass.apply]
    simp [beq_eq_false_iff_ne.mpr h1, beq_eq_false_iff_ne.mpr h2, h1, h2]

theorem templateOp_eq_table (render : String → Option String) (lenient : String → String)
    (trimFn : String → String) (yamlParse : String → Option (Option YNode)) (t : TemplateSpec)
    (data : AMap Node) :
    templateOp render lenient trimFn yamlParse t data = templateOpT render lenient trimFn yamlParse t data := by
  unfold templateOp templateOpT
  by_cases ht : t.template = ""
  · simp [ht]
  by_cases hp : t.path = ""
  · simp [ht, hp]
  simp only [ht, hp, if_false, parseAsTable, List.lookup, defaultParseAs]
  generalize t.parseAs.getD "none" = m
  by_cases h1 : m = "yaml"
  · simp [h1]
    generalize yamlParse _ = y
    cases y <;> rfl
  by_cases h2 : m = "none"
  · simp [h2]
  simp [beq_eq_false_iff_ne.mpr h1, beq_eq_false_iff_ne.mpr h2, h1, h2]

end Ytk.PD

namespace Ytk

/-- the decoder builds a container for a map, a list for a slice / array, a leaf for a scalar -/
theorem decodeNode_shape (v : Val) : (decodeNode v).shape = v.shape := by
  cases v <;> simp [decodeNode, Node.shape, Val.shape]

/-- `mergeNode` does what the ordered case table says: recurse for two containers, the list
    strategy for two lists, `coalesce` otherwise -/
theorem mergeNode_decision (o : ListStrategy) (n v : Node) :
    match mergeDecision n.shape v.shape with
    | .recurse => ∃ ka kb, n = .cont ka ∧ v = .cont kb ∧ mergeNode o n v = .cont (mergeKvs o ka kb)
    | .lists => ∃ xa yb, n = .list xa ∧ v = .list yb ∧ mergeNode o n v = .list (mergeList o xa yb)
    | .coalesce => mergeNode o n v = coalesce n v := by
  cases n <;> cases v <;>
    simp [mergeDecision, mergeDecisionIn, mergeCases, shapeMatches, Node.shape, mergeNode, mergeList]
  all_goals (cases o <;> rfl)

end Ytk
