/- Boolean checkers, sound, for the C08 domain predicates (`SafeKeys`, `ItemsHaveScalars`,
   `Compat`), so that concrete documents can be shown to lie in the domain by kernel evaluation. -/
import YtkProofs.ApplyDiff
import YtkProofs.RebuildB

namespace Ytk

mutual
def Node.safeKeysB : Node → Bool
  | .leaf _ => true
  | .list xs => safeKeysListB xs
  | .cont kvs => safeKeysKvsB kvs
def safeKeysListB : List Node → Bool
  | [] => true
  | x :: xs => x.safeKeysB && safeKeysListB xs
def safeKeysKvsB : List (String × Node) → Bool
  | [] => true
  | (k, x) :: r => safeKeyB k && x.safeKeysB && safeKeysKvsB r
end

mutual
theorem Node.safeKeysB_sound : ∀ (n : Node), n.safeKeysB = true → n.SafeKeys
  | .leaf v, _ => .leaf v
  | .list xs, h => by
    simp only [Node.safeKeysB] at h
    exact .list (safeKeysListB_sound xs h)
  | .cont kvs, h => by
    simp only [Node.safeKeysB] at h
    exact .cont (fun p hp => (safeKeysKvsB_sound kvs h p hp).1) (fun p hp => (safeKeysKvsB_sound kvs h p hp).2)
theorem safeKeysListB_sound : ∀ (xs : List Node), safeKeysListB xs = true → ∀ x ∈ xs, x.SafeKeys
  | [], _, _, hx => by cases hx
  | y :: ys, h, x, hx => by
    simp only [safeKeysListB, Bool.and_eq_true] at h
    rcases List.mem_cons.mp hx with e | hx
    · rw [e]; exact Node.safeKeysB_sound y h.1
    · exact safeKeysListB_sound ys h.2 x hx
theorem safeKeysKvsB_sound : ∀ (kvs : List (String × Node)), safeKeysKvsB kvs = true →
    ∀ p ∈ kvs, SafeKey p.1 ∧ p.2.SafeKeys
  | [], _, _, hp => by cases hp
  | (k, y) :: r, h, p, hp => by
    simp only [safeKeysKvsB, Bool.and_eq_true] at h
    rcases List.mem_cons.mp hp with e | hp
    · rw [e]; exact ⟨safeKeyB_sound h.1.1, Node.safeKeysB_sound y h.1.2⟩
    · exact safeKeysKvsB_sound r h.2 p hp
end

mutual
def compatB : Node → Node → Bool
  | .leaf a, y => match y with
    | .leaf b => decide (a = b)
    | _ => false
  | .list _, y => match y with
    | .list _ => true
    | _ => false
  | .cont l, y => match y with
    | .cont r => compatKvsB l r
    | _ => false
def compatKvsB : List (String × Node) → AMap Node → Bool
  | [], _ => true
  | (k, x) :: rest, r =>
    (match AMap.get? r k with
     | some y => compatB x y
     | none => true) && compatKvsB rest r
end

mutual
theorem compatB_sound : ∀ (x y : Node), compatB x y = true → Compat x y
  | .leaf a, y, h => by
    cases y with
    | leaf b => simp only [compatB, decide_eq_true_eq] at h; subst h; exact .leaf a
    | list _ => simp [compatB] at h
    | cont _ => simp [compatB] at h
  | .list xs, y, h => by
    cases y with
    | list ys => exact .list xs ys
    | leaf _ => simp [compatB] at h
    | cont _ => simp [compatB] at h
  | .cont l, y, h => by
    cases y with
    | cont r =>
      simp only [compatB] at h
      exact .cont (fun k x y hx hy => compatKvsB_sound l r h (k, x) (AMap.mem_of_get? hx) y hy)
    | leaf _ => simp [compatB] at h
    | list _ => simp [compatB] at h
theorem compatKvsB_sound : ∀ (xs : List (String × Node)) (r : AMap Node), compatKvsB xs r = true →
    ∀ e ∈ xs, ∀ y, AMap.get? r e.1 = some y → Compat e.2 y
  | [], _, _, _, he, _, _ => by cases he
  | (k, x) :: rest, r, h, e, he, y, hy => by
    simp only [compatKvsB, Bool.and_eq_true] at h
    rcases List.mem_cons.mp he with e' | he
    · rw [e'] at hy ⊢
      simp only at hy
      rw [hy] at h
      exact compatB_sound x y h.1
    · exact compatKvsB_sound rest r h.2 e he y hy
end

end Ytk
