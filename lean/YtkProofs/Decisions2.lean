/-
  YtkProofs.Decisions2 — the model's decision functions equal their table-driven variants
  (YtkModel/Decisions2.lean) on ALL inputs.  With these, "the regenerated table equals the model's
  table" (kernel `decide`, in YtkProps/Cxx.lean) ties the model's case analysis and step order to the
  Go source.
-/
import YtkModel.Decisions2
import YtkProofs.DecisionsDocSet
import YtkModel.Generated.Tables2

set_option linter.unusedSimpArgs false

namespace Ytk

/-! ## diff -/

/-- `emitNode` (diff.handleExisting) does what the ordered case table says: two containers recurse, two
    lists go through diffList (Delete + the LEFT list's leaves when they differ), two leaves are compared
    (one Change with value = right, old = left when they differ), every other combination of kinds is one
    Delete followed by the leaves of the RIGHT node -/
theorem emitNode_decision (l r : Node) (p : String) :
    match diffDecision l.shape r.shape with
    | .recurse => ∃ a b, l = .cont a ∧ r = .cont b ∧ emitNode l r p = emitLeft a b p ++ emitRight b a p
    | .lists => ∃ xs ys, l = .list xs ∧ r = .list ys ∧
        emitNode l r p = if equals (.list xs) (.list ys) then [] else Mod.mkDel p :: flatList xs p 0
    | .compare => ∃ a b, l = .leaf a ∧ r = .leaf b ∧ emitNode l r p = if a = b then [] else [Mod.mkChange p b a]
    | .replace => emitNode l r p = Mod.mkDel p :: flatNode r p := by
  cases l <;> cases r <;>
    simp [diffDecision, diffDecisionIn, diffCases, shapeMatches, Node.shape, emitNode]

/-- the two loops of diff(): a left key the right side has goes through handleExisting, one it lacks is
    flattened; a right key the left side lacks is one Delete, a common one nothing -/
theorem emitLeft_step (k : String) (n : Node) (rest : List (String × Node)) (r : AMap Node) (p : String) :
    emitLeft ((k, n) :: rest) r p =
      (match child r k with
       | some n2 => emitNode n n2 (toPath p k)
       | none => flatNode n (toPath p k)) ++ emitLeft rest r p := by
  simp [emitLeft]
  cases child r k <;> rfl

theorem emitRight_step (k : String) (n : Node) (rest : List (String × Node)) (l : AMap Node) (p : String) :
    emitRight ((k, n) :: rest) l p =
      (match child l k with
       | some _ => []
       | none => [Mod.mkDel (toPath p k)]) ++ emitRight rest l p := by
  simp [emitRight]
  cases child l k <;> rfl

/-- flattenLeaf: one Add with the leaf's value and no old value -/
theorem flatNode_leaf (v : Scalar) (p : String) : flatNode (.leaf v) p = [⟨.add, p, v, Scalar.null⟩] := by
  simp [flatNode, Mod.mkAdd]

/-! ## apply -/

theorem applySingle_eq_table (kvs : AMap Node) (m : Mod) : applySingle kvs m = applySingleT kvs m := by
  unfold applySingle applySingleT
  cases m.ty <;> rfl

theorem applySingle_eq_rows (kvs : AMap Node) (m : Mod) : applySingle kvs m = applySingleBy applyRowsM kvs m := by
  cases m with
  | mk ty path value old => cases ty <;> rfl

/-- the Add / Change walk: a component with index groups goes through applyListItem, any other through
    applyNonListItem; both create what is missing -/
theorem applyAddSegs_step (kvs : AMap Node) (c c2 : String) (rest : List String) (v : Scalar) :
    applyAddSegs kvs (c :: c2 :: rest) v =
      match parseListComp c with
      | some (n, idxes) => applyListItemM kvs n idxes (fun sub => applyAddSegs sub (c2 :: rest) v)
      | none => applyNonListItemM kvs c (fun sub => applyAddSegs sub (c2 :: rest) v) := by
  rw [applyAddSegs]
  cases parseListComp c with
  | none => rfl
  | some q => cases q; rfl

theorem applyAddSegs_last (kvs : AMap Node) (last : String) (v : Scalar) :
    applyAddSegs kvs [last] v = add kvs last (.leaf v) := by
  simp [applyAddSegs]

/-- the Delete walk: descends only through existing containers; anything else ends the walk and leaves
    the document alone -/
theorem applyDelSegs_step (kvs : AMap Node) (c c2 : String) (rest : List String) :
    applyDelSegs kvs (c :: c2 :: rest) =
      match child kvs c with
      | some (.cont sub) => add kvs c (.cont (applyDelSegs sub (c2 :: rest)))
      | _ => kvs := by
  rw [applyDelSegs]
  cases child kvs c with
  | none => rfl
  | some x => cases x <;> rfl

theorem applyDelSegs_last (kvs : AMap Node) (last : String) : applyDelSegs kvs [last] = remove kvs last := by
  simp [applyDelSegs]

end Ytk

/-! ## xform -/
namespace Ytk.Xform
open Ytk.Patch

/-- every operation object DiffMod2PatchOp builds is dispatched by patch.Do and passes the handler's
    leading checks: the path is set, the value is set when the handler requires it, `from` is never
    required -/
theorem mod2op_wellformed (ptr : String → Ptr.Path) (m : Mod) :
    ∃ h, handlerOf (mod2op ptr m).op = some h ∧ (mod2op ptr m).path.isSome = true ∧
      (h.needsValue = true → (mod2op ptr m).value.isSome = true) ∧ h.needsFrom = false := by
  cases m with
  | mk ty path value old =>
    cases ty
    · refine ⟨.doAdd, ?_, rfl, fun _ => rfl, rfl⟩
      simp [mod2op, opOfMod, handlerOf, dispatchTable, List.lookup]
    · refine ⟨.doReplace, ?_, rfl, fun _ => rfl, rfl⟩
      simp [mod2op, opOfMod, handlerOf, dispatchTable, List.lookup]
    · refine ⟨.doRemove, ?_, rfl, ?_, rfl⟩
      · simp [mod2op, opOfMod, handlerOf, dispatchTable, List.lookup]
      · simp [Handler.needsValue]

/-- the model's conversion is the one the case table and the field table describe -/
theorem mod2op_eq_table (ptr : String → Ptr.Path) (m : Mod) :
    mod2opBy mod2opRowsM mod2opFieldsM ptr m = some (mod2op ptr m) := by
  cases m with
  | mk ty path value old => cases ty <;> rfl

end Ytk.Xform

/-! ## k8s -/
namespace Ytk.K8s

/-- the model pairs the decoder and the encoder of ONE codec and ONE item -/
theorem mode_wiring (c : Codec) (item : String) (m : Manifest) (n : Node) :
    decodeWith (.text c item) m = decodeEmbeddedDoc c item m ∧
    encodeWith (.text c item) m n = encodeEmbeddedDoc c item m n ∧
    decodeWith .props m = .ok (decodeEmbeddedProps m) ∧
    encodeWith .props m n = .ok (encodeEmbeddedProps m n) :=
  ⟨rfl, rfl, rfl, rfl⟩

/-- with a write mode, O_CREATE and O_TRUNC the file holds exactly what was written, whatever it held
    before and whether or not it existed — the model's "a file is what was last written to it" -/
theorem fileAfterOpenWrite_trunc {α : Type} (flags : List String) (old : Option (List α)) (new : List α)
    (hw : (flags.contains "O_RDWR" || flags.contains "O_WRONLY") = true) (hc : flags.contains "O_CREATE" = true)
    (ht : flags.contains "O_TRUNC" = true) : fileAfterOpenWrite flags old new = some new := by
  unfold fileAfterOpenWrite
  cases old <;> simp_all <;> (intro h; cases hw with | inl a => exact absurd a h | inr b => exact b)

/-- without O_TRUNC a shorter write leaves the tail of the old content behind -/
theorem fileAfterOpenWrite_no_trunc :
    fileAfterOpenWrite ["O_CREATE", "O_RDWR"] (some [1, 2, 3]) [9] = some [9, 2, 3] := by decide

end Ytk.K8s

/-! ## dom -/
namespace Ytk

theorem hasValue_eq_table (n : Node) : hasValue n = hasValueBy hasValueTable n := by
  cases n with
  | leaf s =>
    by_cases h : s = Scalar.null
    · subst h; decide
    · have h2 : (Node.leaf s = Node.null) = False := by
        simp [Node.null, h]
      have h3 : (s == Scalar.null) = false := by simpa using h
      simp [hasValue, hasValueBy, hasValueTable, hvCond, List.find?, h2, h3]
  | list xs => simp [hasValue, hasValueBy, hasValueTable, hvCond, List.find?, Node.null]
  | cont kvs => simp [hasValue, hasValueBy, hasValueTable, hvCond, List.find?, Node.null]

theorem coalesceList_eq_table (nodes : List Node) : coalesceList nodes = coalesceListBy coalesceStepsM nodes := by
  simp [coalesceList, coalesceListBy, coalesceStepsM]
  cases List.find? hasValue nodes.reverse <;> rfl

theorem firstValidListItem_eq_table (i : Nat) (lists : List (List Node)) :
    firstValidListItem i lists = firstValidBy firstValidStepsM i lists := by
  simp [firstValidListItem, firstValidBy, firstValidStepsM]
  cases List.find? (fun l => decide (i < l.length)) lists <;> rfl

/-- `coalesce(left, right)`: right wins unless it has no value, then left unless it has none, then null -/
theorem coalesce_right_wins (x y : Node) :
    coalesce x y = if hasValue y then y else if hasValue x then x else Node.null := by
  simp [coalesce, coalesceList, List.find?]
  cases hasValue y <;> cases hasValue x <;> rfl

namespace Overlay

/-- `put` does what the ordered case table says: a container is flattened into leaf writes, anything
    else is stored as it is -/
theorem put_decision (s : Overlay) (l path : String) (v : Node) :
    match putDecision v.shape with
    | .flatten => ∃ kvs, v = .cont kvs ∧ put s l path v = putLeaves s l path (flattenMap kvs)
    | .store => put s l path v = putNode s l path v := by
  cases v <;> simp [putDecision, putDecisionIn, putCases, shapeMatches, Node.shape, put]

/-- a leafless container writes nothing: the overlay (its layer list included) is unchanged -/
theorem put_leafless (s : Overlay) (l path : String) (kvs : AMap Node) (h : flattenMap kvs = []) :
    put s l path (.cont kvs) = .ok s := by
  simp [put, h, putLeaves]

end Overlay
end Ytk

/-! ## pipeline -/
namespace Ytk.Pipeline

theorem wrap_eq_table (l : String) (r : Res) : wrap l r = wrapBy executeStepsM l r := by
  simp [wrap, wrapBy, executeStepsM]

theorem andThen_ok (r : Res) : (r.andThen fun st => Res.ok st) = r := by
  unfold Res.andThen
  cases h : r.err with
  | some e => rfl
  | none =>
    cases r with
    | mk tr st err =>
      simp at h
      simp [Res.ok, h]

/-- ActionSpec.Do is the fold over the phase list: condition, execute, stop at the first error -/
theorem doAct_eq_table (n : Nat) (a : Action) (st : St) :
    run (n + 1) (.doAct a) st = doActBy n a actionDoPhasesM st := by
  simp [run, doActBy, actionDoPhasesM, phaseTask, andThen_ok]

end Ytk.Pipeline
