/-
  YtkProofs.HeapBuild — `build h n` (YtkModel/Heap.lean: allocate the value-level tree `n` as fresh
  cells, what `dom.LeafNode` / `ListNode` / `AddValue` on new objects do) produces exactly the kind of
  value node the refinement theorems ask for: new cells only (so it shares NOTHING with any old
  root), a tree, sorted maps when `n` is well-formed, and its abstraction is `n`.
-/
import YtkProofs.HeapBuilderRefine

namespace Ytk.Heap
open Heap

/-- a root inside a region reaches the same cells in every extension of the heap -/
theorem Region.reach_of_le {lo hi : Nat} {g g' : Heap} (hreg : Region lo hi g) (hl : g ≤ g') (hsz : hi ≤ g.size)
    {a b : Addr} (hab : Reach g' a b) (h0 : lo ≤ a) (h1 : a < hi) : Reach g a b ∧ lo ≤ b ∧ b < hi := by
  induction hab with
  | refl _ => exact ⟨.refl _, h0, h1⟩
  | @step x k y cell hg hk _ ih =>
    rw [get?_eq_of_le hl (Nat.lt_of_lt_of_le h1 hsz)] at hg
    obtain ⟨k0, k1⟩ := hreg x cell h0 h1 hg k hk
    obtain ⟨r, b0, b1⟩ := ih k0 k1
    exact ⟨.step hg hk r, b0, b1⟩

theorem SibSep.of_region {lo hi : Nat} {g g' : Heap} (hreg : Region lo hi g) (hl : g ≤ g') (hsz : hi ≤ g.size)
    {a : Addr} (h0 : lo ≤ a) (h1 : a < hi) (hs : SibSep g a) : SibSep g' a := by
  intro x cell hax hg i j ki kj hi' hj' hij b hb1 hb2 hcomp
  obtain ⟨hax', x0, x1⟩ := hreg.reach_of_le hl hsz hax h0 h1
  rw [get?_eq_of_le hl (Nat.lt_of_lt_of_le x1 hsz)] at hg
  obtain ⟨ki0, ki1⟩ := hreg x cell x0 x1 hg ki (List.mem_of_getElem? hi')
  obtain ⟨kj0, kj1⟩ := hreg x cell x0 x1 hg kj (List.mem_of_getElem? hj')
  obtain ⟨hb1', b0, b1⟩ := hreg.reach_of_le hl hsz hb1 ki0 ki1
  obtain ⟨hb2', _, _⟩ := hreg.reach_of_le hl hsz hb2 kj0 kj1
  refine hs x cell hax' hg i j ki kj hi' hj' hij b hb1' hb2' ?_
  obtain ⟨cb, hgb, hlf⟩ := hcomp
  rw [get?_eq_of_le hl (Nat.lt_of_lt_of_le b1 hsz)] at hgb
  exact ⟨cb, hgb, hlf⟩

theorem Region.of_le {lo hi : Nat} {g g' : Heap} (hreg : Region lo hi g) (hl : g ≤ g') (hsz : hi ≤ g.size) :
    Region lo hi g' := by
  intro a c h0 h1 hg
  rw [get?_eq_of_le hl (Nat.lt_of_lt_of_le h1 hsz)] at hg
  exact hreg a c h0 h1 hg

/-- widening a region at the bottom is not sound in general; joining two adjacent regions is -/
theorem Region.join {lo mid hi : Nat} {g : Heap} (h1 : Region lo mid g) (h2 : Region mid hi g) (hm : lo ≤ mid)
    (hm2 : mid ≤ hi) : Region lo hi g := by
  intro a c h0 hh hg k hk
  by_cases ha : a < mid
  · obtain ⟨k0, k1⟩ := h1 a c h0 ha hg k hk
    exact ⟨k0, Nat.lt_of_lt_of_le k1 hm2⟩
  · obtain ⟨k0, k1⟩ := h2 a c (Nat.le_of_not_lt ha) hh hg k hk
    exact ⟨Nat.le_trans hm k0, k1⟩

/-- what `build h n = (h1, a)` guarantees -/
structure BuildSpec (h : Heap) (n : Node) (h1 : Heap) (a : Addr) : Prop where
  le : h ≤ h1
  lo : h.size ≤ a
  hi : a < h1.size
  region : Region h.size h1.size h1
  abs : ∀ f, n.size ≤ f → absH f h1 a = some n
  sorted : n.WF → ∀ b kvs, h.size ≤ b → h1.get? b = some (.cont kvs) → AMap.Sorted kvs
  down : ∀ b cell, h.size ≤ b → h1.get? b = some cell → ∀ k ∈ cell.kids, k < b
  tree : SibSep h1 a

/-- … and `buildList` / `buildKvs`: every element its own region, pairwise disjoint -/
structure BuildListSpec (h : Heap) (xs : List Node) (h1 : Heap) (as : List Addr) : Prop where
  le : h ≤ h1
  region : Region h.size h1.size h1
  mem : ∀ a ∈ as, h.size ≤ a ∧ a < h1.size ∧ SibSep h1 a
  abs : ∀ f, Node.sizeList xs ≤ f → optMapM (absH f h1) as = some xs
  sorted : (∀ x ∈ xs, x.WF) → ∀ b kvs, h.size ≤ b → h1.get? b = some (.cont kvs) → AMap.Sorted kvs
  down : ∀ b cell, h.size ≤ b → h1.get? b = some cell → ∀ k ∈ cell.kids, k < b
  disjoint : ∀ (i j : Nat) (ai aj : Addr), i ≠ j → as[i]? = some ai → as[j]? = some aj →
    ∀ b, Reach h1 ai b → Reach h1 aj b → False

structure BuildKvsSpec (h : Heap) (xs : List (String × Node)) (h1 : Heap) (as : List (String × Addr)) : Prop where
  le : h ≤ h1
  region : Region h.size h1.size h1
  keys : as.map (·.1) = xs.map (·.1)
  mem : ∀ p ∈ as, h.size ≤ p.2 ∧ p.2 < h1.size ∧ SibSep h1 p.2
  abs : ∀ f, Node.sizeKvs xs ≤ f → optMapKvs (absH f h1) as = some xs
  sorted : (∀ p ∈ xs, p.2.WF) → ∀ b kvs, h.size ≤ b → h1.get? b = some (.cont kvs) → AMap.Sorted kvs
  down : ∀ b cell, h.size ≤ b → h1.get? b = some cell → ∀ k ∈ cell.kids, k < b
  disjoint : ∀ (i j : Nat) (pi pj : String × Addr), i ≠ j → as[i]? = some pi → as[j]? = some pj →
    ∀ b, Reach h1 pi.2 b → Reach h1 pj.2 b → False

theorem region_empty (h : Heap) : Region h.size h.size h := by
  intro a c h0 h1; exact absurd h1 (Nat.not_lt.mpr h0)

/-- the parent cell allocated on top of separately built children is a tree -/
theorem sibSep_alloc_parent {h1 : Heap} {lo : Nat} {c : Cell} (hreg : Region lo h1.size h1)
    (hmem : ∀ k ∈ c.kids, lo ≤ k ∧ k < h1.size ∧ SibSep h1 k)
    (hdis : ∀ (i j : Nat) (ki kj : Addr), i ≠ j → c.kids[i]? = some ki → c.kids[j]? = some kj →
      ∀ b, Reach h1 ki b → Reach h1 kj b → False) :
    SibSep (h1.alloc c).1 h1.size := by
  have hl := le_alloc h1 c
  intro x cell hax hg i j ki kj hi hj hij b hb1 hb2 hcomp
  rcases reach_inv hax with e | ⟨c0, i0, k0, hg0, hi0, hk0x⟩
  · subst e
    rw [get?_alloc_new] at hg
    cases hg
    obtain ⟨ki0, ki1, _⟩ := hmem ki (List.mem_of_getElem? hi)
    obtain ⟨kj0, kj1, _⟩ := hmem kj (List.mem_of_getElem? hj)
    exact hdis i j ki kj hij hi hj b (hreg.reach_of_le hl (Nat.le_refl _) hb1 ki0 ki1).1
      (hreg.reach_of_le hl (Nat.le_refl _) hb2 kj0 kj1).1
  · rw [get?_alloc_new] at hg0
    cases hg0
    obtain ⟨k00, k01, hsk⟩ := hmem k0 (List.mem_of_getElem? hi0)
    have hs' : SibSep (h1.alloc c).1 k0 := hsk.of_region hreg hl (Nat.le_refl _) k00 k01
    exact hs' x cell hk0x hg i j ki kj hi hj hij b hb1 hb2 hcomp

theorem optMapM_fuel {h : Heap} {f f' : Nat} (hle : f ≤ f') : ∀ {as : List Addr} {ns : List Node},
    optMapM (absH f h) as = some ns → optMapM (absH f' h) as = some ns :=
  fun hm => optMapM_imp (fun _ _ _ hx => absH_fuel_le hle hx) hm

theorem optMapKvs_fuel {h : Heap} {f f' : Nat} (hle : f ≤ f') : ∀ {as : List (String × Addr)} {ns : List (String × Node)},
    optMapKvs (absH f h) as = some ns → optMapKvs (absH f' h) as = some ns :=
  fun hm => optMapKvs_imp (fun _ _ _ hx => absH_fuel_le hle hx) hm

theorem sorted_of_keys {α β : Type} : ∀ {as : AMap α} {xs : AMap β}, as.map (·.1) = xs.map (·.1) →
    AMap.Sorted xs → AMap.Sorted as
  | [], [], _, _ => .nil
  | [], _ :: _, hk, _ => by simp at hk
  | _ :: _, [], hk, _ => by simp at hk
  | (k, a) :: as, (k', x) :: xs, hk, hs => by
    simp only [List.map_cons, List.cons.injEq] at hk
    obtain ⟨rfl, hk'⟩ := hk
    refine .cons ?_ (sorted_of_keys hk' hs.tail)
    intro p hp
    have : p.1 ∈ as.map (·.1) := List.mem_map.mpr ⟨p, hp, rfl⟩
    rw [hk'] at this
    obtain ⟨q, hq, hqp⟩ := List.mem_map.mp this
    rw [← hqp]
    exact hs.head_lt q hq

mutual
theorem build_spec : ∀ (n : Node) (h : Heap), BuildSpec h n (build h n).1 (build h n).2
  | .leaf s, h => by
    simp only [build]
    refine ⟨le_alloc _ _, Nat.le_refl _, by rw [alloc_snd, size_alloc]; exact Nat.lt_succ_self _, ?_, ?_, ?_, ?_, ?_⟩
    · intro a c h0 h1 hg k hk
      rcases get?_alloc hg with ⟨ha, _⟩ | ⟨_, rfl⟩
      · exact absurd ha (Nat.not_lt.mpr h0)
      · simp [Cell.kids] at hk
    · intro f hf
      obtain ⟨f', rfl⟩ : ∃ f', f = f' + 1 := ⟨f - 1, by simp only [Node.size] at hf; omega⟩
      exact absH_alloc_leaf f' h s
    · intro _ b kvs hb hg
      rcases get?_alloc hg with ⟨ha, _⟩ | ⟨_, he⟩
      · exact absurd ha (Nat.not_lt.mpr hb)
      · cases he
    · intro b cell hb hg k hk
      rcases get?_alloc hg with ⟨ha, _⟩ | ⟨_, rfl⟩
      · exact absurd ha (Nat.not_lt.mpr hb)
      · simp [Cell.kids] at hk
    · intro x cell hax hg i j ki kj hi _ _
      have hx : x = h.size := Reach.of_leaf (get?_alloc_new h (.leaf s)) hax
      subst hx
      rw [get?_alloc_new] at hg
      cases hg
      simp [Cell.kids] at hi
  | .list xs, h => by
    have sp := buildList_spec xs h
    simp only [build]
    generalize buildList h xs = res at sp
    obtain ⟨h1, as⟩ := res
    simp only at sp ⊢
    have hsz := size_le_of_le sp.le
    have hl := le_alloc h1 (.list as)
    refine ⟨le_trans sp.le hl, hsz, by rw [alloc_snd, size_alloc]; exact Nat.lt_succ_self _, ?_, ?_, ?_, ?_, ?_⟩
    · rw [size_alloc]
      intro a c h0 h1' hg k hk
      rcases get?_alloc hg with ⟨ha, hg'⟩ | ⟨_, rfl⟩
      · obtain ⟨k0, k1⟩ := sp.region a c h0 ha hg' k hk
        exact ⟨k0, Nat.lt_succ_of_lt k1⟩
      · obtain ⟨k0, k1, _⟩ := sp.mem k (by simpa [Cell.kids] using hk)
        exact ⟨k0, Nat.lt_succ_of_lt k1⟩
    · intro f hf
      obtain ⟨f', rfl⟩ : ∃ f', f = f' + 1 := ⟨f - 1, by simp only [Node.size] at hf; omega⟩
      rw [alloc_snd]
      exact absH_alloc_list (sp.abs f' (by simp only [Node.size] at hf; omega))
    · intro hwf b kvs hb hg
      rcases get?_alloc hg with ⟨_, hg'⟩ | ⟨_, he⟩
      · exact sp.sorted (fun x hx => hwf.of_list_mem hx) b kvs hb hg'
      · cases he
    · intro b cell hb hg k hk
      rcases get?_alloc hg with ⟨_, hg'⟩ | ⟨rfl, rfl⟩
      · exact sp.down b cell hb hg' k hk
      · exact (sp.mem k (by simpa [Cell.kids] using hk)).2.1
    · rw [alloc_snd]
      exact sibSep_alloc_parent sp.region (fun k hk => sp.mem k (by simpa [Cell.kids] using hk))
        (fun i j ki kj hij hi hj => sp.disjoint i j ki kj hij (by simpa [Cell.kids] using hi)
          (by simpa [Cell.kids] using hj))
  | .cont kvs, h => by
    have sp := buildKvs_spec kvs h
    simp only [build]
    generalize buildKvs h kvs = res at sp
    obtain ⟨h1, as⟩ := res
    simp only at sp ⊢
    have hsz := size_le_of_le sp.le
    have hl := le_alloc h1 (.cont as)
    refine ⟨le_trans sp.le hl, hsz, by rw [alloc_snd, size_alloc]; exact Nat.lt_succ_self _, ?_, ?_, ?_, ?_, ?_⟩
    · rw [size_alloc]
      intro a c h0 h1' hg k hk
      rcases get?_alloc hg with ⟨ha, hg'⟩ | ⟨_, rfl⟩
      · obtain ⟨k0, k1⟩ := sp.region a c h0 ha hg' k hk
        exact ⟨k0, Nat.lt_succ_of_lt k1⟩
      · simp only [Cell.kids, List.mem_map] at hk
        obtain ⟨p, hp, rfl⟩ := hk
        obtain ⟨k0, k1, _⟩ := sp.mem p hp
        exact ⟨k0, Nat.lt_succ_of_lt k1⟩
    · intro f hf
      obtain ⟨f', rfl⟩ : ∃ f', f = f' + 1 := ⟨f - 1, by simp only [Node.size] at hf; omega⟩
      rw [alloc_snd]
      exact absH_alloc_cont (sp.abs f' (by simp only [Node.size] at hf; omega))
    · intro hwf b kvs' hb hg
      rcases get?_alloc hg with ⟨_, hg'⟩ | ⟨_, he⟩
      · exact sp.sorted (fun p hp => by cases hwf with | cont _ hall => exact hall p hp) b kvs' hb hg'
      · cases he
        -- the new map has the keys of `kvs`, in the same order
        have hso : AMap.Sorted kvs := hwf.sorted
        exact sorted_of_keys sp.keys hso
    · intro b cell hb hg k hk
      rcases get?_alloc hg with ⟨_, hg'⟩ | ⟨rfl, rfl⟩
      · exact sp.down b cell hb hg' k hk
      · simp only [Cell.kids, List.mem_map] at hk
        obtain ⟨p, hp, rfl⟩ := hk
        exact (sp.mem p hp).2.1
    · rw [alloc_snd]
      refine sibSep_alloc_parent sp.region ?_ ?_
      · intro k hk
        simp only [Cell.kids, List.mem_map] at hk
        obtain ⟨p, hp, rfl⟩ := hk
        exact sp.mem p hp
      · intro i j ki kj hij hi hj
        simp only [Cell.kids, List.getElem?_map, Option.map_eq_some_iff] at hi hj
        obtain ⟨pi, hpi, rfl⟩ := hi
        obtain ⟨pj, hpj, rfl⟩ := hj
        exact sp.disjoint i j pi pj hij hpi hpj
theorem buildList_spec : ∀ (xs : List Node) (h : Heap), BuildListSpec h xs (buildList h xs).1 (buildList h xs).2
  | [], h => by
    simp only [buildList]
    exact ⟨le_refl _, region_empty h, (fun a ha => by cases ha), (fun _ _ => rfl),
      (fun _ b _ hb hg => absurd (get?_lt hg) (Nat.not_lt.mpr hb)),
      (fun b _ hb hg => absurd (get?_lt hg) (Nat.not_lt.mpr hb)), (fun i j ai aj _ hi => by simp at hi)⟩
  | x :: xs, h => by
    have s1 := build_spec x h
    simp only [buildList]
    generalize build h x = r1 at s1
    obtain ⟨h1, a⟩ := r1
    have s2 := buildList_spec xs h1
    generalize buildList h1 xs = r2 at s2
    obtain ⟨h2, as⟩ := r2
    simp only at s1 s2 ⊢
    have hsz1 := size_le_of_le s1.le
    have hsz2 := size_le_of_le s2.le
    have hreg1 : Region h.size h1.size h2 := s1.region.of_le s2.le (Nat.le_refl _)
    have hreach_a : ∀ b, Reach h2 a b → b < h1.size := fun b hb =>
      (s1.region.reach_of_le s2.le (Nat.le_refl _) hb s1.lo s1.hi).2.2
    have hreach_as : ∀ a' ∈ as, ∀ b, Reach h2 a' b → h1.size ≤ b := fun a' ha' b hb =>
      (Region.reach_of_le s2.region (le_refl h2) (Nat.le_refl _) hb (s2.mem a' ha').1 (s2.mem a' ha').2.1).2.1
    refine ⟨le_trans s1.le s2.le, hreg1.join s2.region hsz1 hsz2, ?_, ?_, ?_, ?_, ?_⟩
    · intro a' ha'
      rcases List.mem_cons.mp ha' with rfl | ha'
      · exact ⟨s1.lo, Nat.lt_of_lt_of_le s1.hi hsz2, s1.tree.of_region s1.region s2.le (Nat.le_refl _) s1.lo s1.hi⟩
      · exact ⟨Nat.le_trans hsz1 (s2.mem a' ha').1, (s2.mem a' ha').2.1, (s2.mem a' ha').2.2⟩
    · intro f hf
      simp only [Node.sizeList] at hf
      exact optMapM_cons_some.mpr ⟨x, xs, absH_mono s2.le f a x (s1.abs f (by omega)), s2.abs f (by omega), rfl⟩
    · intro hwf b kvs hb hg
      by_cases hb1 : b < h1.size
      · rw [get?_eq_of_le s2.le hb1] at hg
        exact s1.sorted (hwf x (List.mem_cons_self ..)) b kvs hb hg
      · exact s2.sorted (fun y hy => hwf y (List.mem_cons_of_mem _ hy)) b kvs (Nat.le_of_not_lt hb1) hg
    · intro b cell hb hg k hk
      by_cases hb1 : b < h1.size
      · rw [get?_eq_of_le s2.le hb1] at hg
        exact s1.down b cell hb hg k hk
      · exact s2.down b cell (Nat.le_of_not_lt hb1) hg k hk
    · intro i j ai aj hij hi hj b hbi hbj
      match i, j with
      | 0, 0 => exact hij rfl
      | 0, j + 1 =>
        simp only [List.getElem?_cons_zero, Option.some.injEq] at hi
        simp only [List.getElem?_cons_succ] at hj
        subst hi
        exact absurd (hreach_a b hbi) (Nat.not_lt.mpr (hreach_as aj (List.mem_of_getElem? hj) b hbj))
      | i + 1, 0 =>
        simp only [List.getElem?_cons_zero, Option.some.injEq] at hj
        simp only [List.getElem?_cons_succ] at hi
        subst hj
        exact absurd (hreach_a b hbj) (Nat.not_lt.mpr (hreach_as ai (List.mem_of_getElem? hi) b hbi))
      | i + 1, j + 1 =>
        simp only [List.getElem?_cons_succ] at hi hj
        exact s2.disjoint i j ai aj (by omega) hi hj b hbi hbj
theorem buildKvs_spec : ∀ (xs : List (String × Node)) (h : Heap), BuildKvsSpec h xs (buildKvs h xs).1 (buildKvs h xs).2
  | [], h => by
    simp only [buildKvs]
    exact ⟨le_refl _, region_empty h, rfl, (fun a ha => by cases ha), (fun _ _ => rfl),
      (fun _ b _ hb hg => absurd (get?_lt hg) (Nat.not_lt.mpr hb)),
      (fun b _ hb hg => absurd (get?_lt hg) (Nat.not_lt.mpr hb)), (fun i j ai aj _ hi => by simp at hi)⟩
  | (k, x) :: xs, h => by
    have s1 := build_spec x h
    simp only [buildKvs]
    generalize build h x = r1 at s1
    obtain ⟨h1, a⟩ := r1
    have s2 := buildKvs_spec xs h1
    generalize buildKvs h1 xs = r2 at s2
    obtain ⟨h2, as⟩ := r2
    simp only at s1 s2 ⊢
    have hsz1 := size_le_of_le s1.le
    have hsz2 := size_le_of_le s2.le
    have hreg1 : Region h.size h1.size h2 := s1.region.of_le s2.le (Nat.le_refl _)
    have hreach_a : ∀ b, Reach h2 a b → b < h1.size := fun b hb =>
      (s1.region.reach_of_le s2.le (Nat.le_refl _) hb s1.lo s1.hi).2.2
    have hreach_as : ∀ p ∈ as, ∀ b, Reach h2 p.2 b → h1.size ≤ b := fun p hp b hb =>
      (Region.reach_of_le s2.region (le_refl h2) (Nat.le_refl _) hb (s2.mem p hp).1 (s2.mem p hp).2.1).2.1
    refine ⟨le_trans s1.le s2.le, hreg1.join s2.region hsz1 hsz2, by simp [s2.keys], ?_, ?_, ?_, ?_, ?_⟩
    · intro p hp
      rcases List.mem_cons.mp hp with rfl | hp
      · exact ⟨s1.lo, Nat.lt_of_lt_of_le s1.hi hsz2, s1.tree.of_region s1.region s2.le (Nat.le_refl _) s1.lo s1.hi⟩
      · exact ⟨Nat.le_trans hsz1 (s2.mem p hp).1, (s2.mem p hp).2.1, (s2.mem p hp).2.2⟩
    · intro f hf
      simp only [Node.sizeKvs] at hf
      exact optMapKvs_cons_some.mpr ⟨x, xs, absH_mono s2.le f a x (s1.abs f (by omega)), s2.abs f (by omega), rfl⟩
    · intro hwf b kvs hb hg
      by_cases hb1 : b < h1.size
      · rw [get?_eq_of_le s2.le hb1] at hg
        exact s1.sorted (hwf (k, x) (List.mem_cons_self ..)) b kvs hb hg
      · exact s2.sorted (fun y hy => hwf y (List.mem_cons_of_mem _ hy)) b kvs (Nat.le_of_not_lt hb1) hg
    · intro b cell hb hg k hk
      by_cases hb1 : b < h1.size
      · rw [get?_eq_of_le s2.le hb1] at hg
        exact s1.down b cell hb hg k hk
      · exact s2.down b cell (Nat.le_of_not_lt hb1) hg k hk
    · intro i j pi pj hij hi hj b hbi hbj
      match i, j with
      | 0, 0 => exact hij rfl
      | 0, j + 1 =>
        simp only [List.getElem?_cons_zero, Option.some.injEq] at hi
        simp only [List.getElem?_cons_succ] at hj
        subst hi
        exact absurd (hreach_a b hbi) (Nat.not_lt.mpr (hreach_as pj (List.mem_of_getElem? hj) b hbj))
      | i + 1, 0 =>
        simp only [List.getElem?_cons_zero, Option.some.injEq] at hj
        simp only [List.getElem?_cons_succ] at hi
        subst hj
        exact absurd (hreach_a b hbj) (Nat.not_lt.mpr (hreach_as pi (List.mem_of_getElem? hi) b hbi))
      | i + 1, j + 1 =>
        simp only [List.getElem?_cons_succ] at hi hj
        exact s2.disjoint i j pi pj (by omega) hi hj b hbi hbj
end

/-- a freshly built value node satisfies every hypothesis the refinement theorems put on the value -/
theorem build_ok {h : Heap} (hi : Inv h) (n : Node) (hwf : n.WF) {c : Addr} (hcl : c < h.size) (hs : SibSep h c)
    {d : AMap Node} (hd : abs h c = some (.cont d)) :
    Inv (build h n).1 ∧ SibSep (build h n).1 c ∧ SibSep (build h n).1 (build h n).2 ∧
      Apart (build h n).1 c (build h n).2 ∧ c < (build h n).1.size ∧ (build h n).2 < (build h n).1.size ∧
      abs (build h n).1 c = some (.cont d) ∧ abs (build h n).1 (build h n).2 = some n := by
  have sp := build_spec n h
  generalize build h n = res at sp
  obtain ⟨h1, v⟩ := res
  simp only at sp ⊢
  obtain ⟨rank, hr⟩ := hi.acyclic
  have hsz := size_le_of_le sp.le
  have hclosed : h1.Closed := by
    intro a cell hg k hk
    by_cases ha : a < h.size
    · rw [get?_eq_of_le sp.le ha] at hg
      exact Nat.lt_of_lt_of_le (hi.closed a cell hg k hk) hsz
    · exact (sp.region a cell (Nat.le_of_not_lt ha) (get?_lt hg) hg k hk).2
  have hranked : h1.RankedBy (fun a => if h.size ≤ a then a else rank a) := by
    intro a cell hg k hk
    by_cases ha : a < h.size
    · rw [get?_eq_of_le sp.le ha] at hg
      have hk' := hi.closed a cell hg k hk
      simp only [if_neg (Nat.not_le.mpr ha), if_neg (Nat.not_le.mpr hk')]
      exact hr a cell hg k hk
    · have ha' := Nat.le_of_not_lt ha
      have hk0 := (sp.region a cell ha' (get?_lt hg) hg k hk).1
      simp only [if_pos ha', if_pos hk0]
      exact sp.down a cell ha' hg k hk
  have hmaps : h1.MapsOk := by
    intro a kvs hg
    by_cases ha : a < h.size
    · rw [get?_eq_of_le sp.le ha] at hg
      exact hi.mapsOk a kvs hg
    · exact sp.sorted hwf a kvs (Nat.le_of_not_lt ha) hg
  have hi1 : Inv h1 := ⟨hclosed, ⟨_, hranked⟩, hmaps, nilOk_mono hi.nilOk sp.le⟩
  have hap : Apart h1 c v := by
    intro b hcb hvb _
    have h1b : b < h.size := reach_lt hi.closed (reach_of_le sp.le hi.closed hcb hcl) hcl
    have h2b := (Region.reach_of_le sp.region (le_refl h1) (Nat.le_refl _) hvb sp.lo sp.hi).2.1
    exact absurd h1b (Nat.not_lt.mpr h2b)
  refine ⟨hi1, hs.of_le sp.le hi.closed hcl, sp.tree, hap, Nat.lt_of_lt_of_le hcl hsz, sp.hi, ?_, ?_⟩
  · exact abs_eq_of_absH hclosed hi1.acyclic (absH_mono sp.le _ _ _ (abs_absH hd))
  · exact abs_eq_of_absH hclosed hi1.acyclic (sp.abs n.size (Nat.le_refl _))

/-- REFINEMENT with a freshly built value (what `AddValueAt(path, <new node>)` is): no hypothesis on
    the value beyond well-formedness -/
theorem addValueAt_build_refines {h h' : Heap} (hi : Inv h) (n : Node) (hwf : n.WF) {c : Addr} (hcl : c < h.size)
    (hs : SibSep h c) {d : AMap Node} (hd : abs h c = some (.cont d)) {path : String}
    (he : addValueAtH (build h n).1 c path (build h n).2 = some h') :
    Inv h' ∧ abs h' c = some (.cont (addValueAt d path n)) := by
  obtain ⟨hi1, hs1, _, hap, hc1, hv1, hd1, hv⟩ := build_ok hi n hwf hcl hs hd
  exact addValueAtH_refines hi1 hs1 hap hc1 hv1 hd1 hv he

theorem addValue_build_refines {h h' : Heap} (hi : Inv h) (n : Node) (hwf : n.WF) {c : Addr} (hcl : c < h.size)
    (hs : SibSep h c) {d : AMap Node} (hd : abs h c = some (.cont d)) {name : String}
    (he : addH (build h n).1 c name (build h n).2 = some h') :
    Inv h' ∧ abs h' c = some (.cont (Ytk.add d name n)) := by
  obtain ⟨hi1, hs1, _, hap, hc1, hv1, hd1, hv⟩ := build_ok hi n hwf hcl hs hd
  exact addH_refines hi1 hs1 hap hc1 hv1 hd1 hv he

end Ytk.Heap
