/- encode ∘ decode and decode ∘ encode are identities on the index-suffix-free domain. -/
import YtkModel.Codec
import YtkProofs.Dom

namespace Ytk

namespace AMap
variable {α : Type}

/-- inserting a key larger than every present key appends -/
theorem insert_snoc {m : AMap α} {k : String} (a : α) (h : ∀ p ∈ m, p.1 < k) : insert m k a = m ++ [(k, a)] := by
  induction m with
  | nil => rfl
  | cons q m ih =>
    obtain ⟨k', v'⟩ := q
    have hlt : k' < k := h (k', v') (List.mem_cons_self ..)
    simp only [insert, if_neg (String.lt_asymm hlt), if_neg (fun e : k = k' => String.ne_of_lt hlt e.symm)]
    rw [ih (fun p hp => h p (List.mem_cons_of_mem _ hp))]
    rfl

end AMap

theorem encodeKvs_append (a b : List (String × Node)) : encodeKvs (a ++ b) = encodeKvs a ++ encodeKvs b := by
  induction a with
  | nil => rfl
  | cons p a ih => obtain ⟨k, x⟩ := p; simp [encodeKvs, ih]

/-- hypotheses on a plain value under which the round trip is exact -/
structure Val.Good (v : Val) : Prop where
  wf : v.WF
  noIdx : Val.noIdxKeys v = true

theorem Val.WF.of_arr_mem {xs : List Val} (h : (Val.arr xs).WF) {x : Val} (hx : x ∈ xs) : x.WF := by
  cases h with | arr h => exact h x hx
theorem Val.WF.sorted {kvs : List (String × Val)} (h : (Val.obj kvs).WF) : AMap.Sorted kvs := by
  cases h; assumption
theorem Val.WF.of_obj_mem {kvs : List (String × Val)} (h : (Val.obj kvs).WF) {p : String × Val} (hp : p ∈ kvs) : p.2.WF := by
  cases h with | obj _ h => exact h p hp

mutual
theorem encode_decode_aux : ∀ (v : Val), v.WF → Val.noIdxKeys v = true → encodeNode (decodeNode v) = v
  | .sc _, _, _ => rfl
  | .arr xs, hw, hn => by
    simp only [decodeNode, encodeNode]
    rw [encode_decodeList_aux xs (fun x hx => hw.of_arr_mem hx) (by simpa [Val.noIdxKeys] using hn)]
  | .obj kvs, hw, hn => by
    simp only [decodeNode, encodeNode]
    have := encode_decodeKvs_aux kvs [] hw.sorted (fun p hp => hw.of_obj_mem hp)
      (by simpa [Val.noIdxKeys] using hn) (by intro q hq; cases hq)
    simpa [encodeKvs] using this
theorem encode_decodeList_aux : ∀ (xs : List Val), (∀ x ∈ xs, x.WF) → Val.noIdxKeysList xs = true →
    encodeList (decodeList xs) = xs
  | [], _, _ => rfl
  | x :: xs, hw, hn => by
    simp only [Val.noIdxKeysList, Bool.and_eq_true] at hn
    simp only [decodeList, encodeList]
    rw [encode_decode_aux x (hw x (List.mem_cons_self ..)) hn.1,
      encode_decodeList_aux xs (fun a ha => hw a (List.mem_cons_of_mem _ ha)) hn.2]
theorem encode_decodeKvs_aux : ∀ (kvs : List (String × Val)) (acc : AMap Node), AMap.Sorted kvs →
    (∀ p ∈ kvs, p.2.WF) → Val.noIdxKeysKvs kvs = true → (∀ q ∈ acc, ∀ p ∈ kvs, q.1 < p.1) →
    encodeKvs (decodeKvs kvs acc) = encodeKvs acc ++ kvs
  | [], acc, _, _, _, _ => by simp [decodeKvs]
  | (k, v) :: rest, acc, hs, hw, hn, hlt => by
    simp only [Val.noIdxKeysKvs, Bool.and_eq_true, Bool.not_eq_true'] at hn
    obtain ⟨⟨hk, hv⟩, hr⟩ := hn
    simp only [decodeKvs]
    rw [add_of_noSuffix acc _ hk, AMap.insert_snoc _ (fun q hq => hlt q hq (k, v) (List.mem_cons_self ..))]
    rw [encode_decodeKvs_aux rest _ hs.tail (fun p hp => hw p (List.mem_cons_of_mem _ hp)) hr]
    · rw [encodeKvs_append]
      simp only [encodeKvs, List.append_assoc, List.cons_append, List.nil_append]
      rw [encode_decode_aux v (hw (k, v) (List.mem_cons_self ..)) hv]
    · intro q hq p hp
      simp only [List.mem_append, List.mem_singleton] at hq
      rcases hq with hq | rfl
      · exact hlt q hq p (List.mem_cons_of_mem _ hp)
      · exact hs.head_lt p hp
end

mutual
theorem decode_encode_aux : ∀ (n : Node), n.Valid → decodeNode (encodeNode n) = n
  | .leaf _, _ => rfl
  | .list xs, h => by
    simp only [encodeNode, decodeNode]
    rw [decode_encodeList_aux xs (fun x hx => h.of_list_mem hx)]
  | .cont kvs, h => by
    simp only [encodeNode, decodeNode]
    have := decode_encodeKvs_aux kvs [] h.sorted (fun p hp => h.of_cont_mem hp) (by intro q hq; cases hq)
    simpa using this
theorem decode_encodeList_aux : ∀ (xs : List Node), (∀ x ∈ xs, x.Valid) → decodeList (encodeList xs) = xs
  | [], _ => rfl
  | x :: xs, h => by
    simp only [encodeList, decodeList]
    rw [decode_encode_aux x (h x (List.mem_cons_self ..)),
      decode_encodeList_aux xs (fun a ha => h a (List.mem_cons_of_mem _ ha))]
theorem decode_encodeKvs_aux : ∀ (kvs : List (String × Node)) (acc : AMap Node), AMap.Sorted kvs →
    (∀ p ∈ kvs, p.2.Valid ∧ hasIdxSuffix p.1 = false) → (∀ q ∈ acc, ∀ p ∈ kvs, q.1 < p.1) →
    decodeKvs (encodeKvs kvs) acc = acc ++ kvs
  | [], acc, _, _, _ => by simp [encodeKvs, decodeKvs]
  | (k, x) :: rest, acc, hs, hv, hlt => by
    have hkx := hv (k, x) (List.mem_cons_self ..)
    simp only [encodeKvs, decodeKvs]
    rw [add_of_noSuffix acc _ hkx.2, AMap.insert_snoc _ (fun q hq => hlt q hq (k, x) (List.mem_cons_self ..))]
    rw [decode_encodeKvs_aux rest _ hs.tail (fun p hp => hv p (List.mem_cons_of_mem _ hp))]
    · rw [decode_encode_aux x hkx.1]; simp
    · intro q hq p hp
      simp only [List.mem_append, List.mem_singleton] at hq
      rcases hq with hq | rfl
      · exact hlt q hq p (List.mem_cons_of_mem _ hp)
      · exact hs.head_lt p hp
end

mutual
theorem scalarCount_encode : ∀ (n : Node), Val.scalarCount (encodeNode n) = Node.scalarCount n
  | .leaf _ => rfl
  | .list xs => by simp [encodeNode, Val.scalarCount, Node.scalarCount, scalarCount_encodeList xs]
  | .cont kvs => by simp [encodeNode, Val.scalarCount, Node.scalarCount, scalarCount_encodeKvs kvs]
theorem scalarCount_encodeList : ∀ (xs : List Node), Val.scalarCountList (encodeList xs) = Node.scalarCountList xs
  | [] => rfl
  | x :: xs => by simp [encodeList, Val.scalarCountList, Node.scalarCountList, scalarCount_encode x, scalarCount_encodeList xs]
theorem scalarCount_encodeKvs : ∀ (xs : List (String × Node)), Val.scalarCountKvs (encodeKvs xs) = Node.scalarCountKvs xs
  | [] => rfl
  | (k, x) :: xs => by simp [encodeKvs, Val.scalarCountKvs, Node.scalarCountKvs, scalarCount_encode x, scalarCount_encodeKvs xs]
end

end Ytk

namespace Ytk

mutual
/-- FromMap / decode produce a valid DOM for EVERY plain value (any keys, any order, duplicates). -/
theorem decodeNode_valid : ∀ (v : Val), (decodeNode v).Valid
  | .sc s => Node.Valid.leaf s
  | .arr xs => by
    simp only [decodeNode]
    exact Node.Valid.list_of (decodeList_valid xs)
  | .obj kvs => by
    simp only [decodeNode]
    exact decodeKvs_valid kvs [] Node.Valid.empty
theorem decodeList_valid : ∀ (xs : List Val), ∀ x ∈ decodeList xs, x.Valid
  | [] => by intro x hx; cases hx
  | v :: vs => by
    intro x hx
    simp only [decodeList, List.mem_cons] at hx
    rcases hx with rfl | hx
    · exact decodeNode_valid v
    · exact decodeList_valid vs x hx
theorem decodeKvs_valid : ∀ (kvs : List (String × Val)) (acc : AMap Node), (Node.cont acc).Valid →
    (Node.cont (decodeKvs kvs acc)).Valid
  | [], acc, h => by simpa [decodeKvs] using h
  | (k, v) :: rest, acc, h => by
    simp only [decodeKvs]
    exact decodeKvs_valid rest _ (add_valid k h (decodeNode_valid v))
end

end Ytk
