/-
  YtkProofs.FuncsLemmas — facts about the GoPrelude primitives (YtkModel/GoPrelude.lean) that the
  equivalence theorems `*_generated_eq_model` (YtkProps/Cxx.lean) between the regenerated
  translation of a Go function (YtkModel/Generated/Funcs.lean) and the hand-written model use.
  Nothing here unfolds a generated definition: an edit of a Go function can only break the
  theorem of that function in the YtkProps file of the owning property.
-/
import YtkModel.GoPrelude
import YtkModel.Generated.Funcs

namespace Ytk.Go

theorem len_beq_zero (s : String) : (Go.len s == 0) = decide (s = "") := by
  have h := @String.length_eq_zero_iff s
  by_cases hs : s = ""
  · subst hs; decide
  · have : s.length ≠ 0 := fun e => hs (h.mp e)
    simp only [Go.len, hs, decide_false, beq_eq_false_iff_ne, ne_eq]
    omega

theorem lenL_beq_zero {α : Type} (xs : List α) : (Go.lenL xs == 0) = decide (xs = []) := by
  cases xs with
  | nil => simp [Go.lenL]
  | cons a r =>
    simp only [Go.lenL, List.length_cons, reduceCtorEq, decide_false, beq_eq_false_iff_ne, ne_eq]
    omega

/-- `%d` of a non-negative int is the decimal rendering of the natural number -/
theorem fmtD_nat (i : Nat) : Go.fmtD (i : Int) = toString i := by
  simp [Go.fmtD, toString, Int.repr]

theorem index_append_length {α : Type} (pre : List α) (c : α) (suf : List α) :
    Go.index (pre ++ c :: suf) (pre.length : Int) = .ok c := by
  simp [Go.index]

theorem sliceL_zero {α : Type} (xs : List α) (n : Nat) (h : n ≤ xs.length) :
    Go.sliceL xs 0 (n : Int) = .ok (xs.take n) := by
  simp [Go.sliceL, h]

theorem len_eq (s : String) : Go.len s = (s.toList.length : Int) := by
  simp [Go.len, String.length_toList]

theorem stringsIndexC_ge (sub : List Char) : ∀ (l : List Char) (n : Nat),
    stringsIndexC sub l n = -1 ∨ (n : Int) ≤ stringsIndexC sub l n
  | [], n => by unfold stringsIndexC; split <;> simp
  | c :: cs, n => by
    unfold stringsIndexC
    split
    · simp
    · rcases stringsIndexC_ge sub cs (n + 1) with h | h
      · exact Or.inl h
      · right; omega

/-- counting from `n` shifts a hit by `n` -/
theorem stringsIndexC_shift (sub : List Char) : ∀ (l : List Char) (n : Nat),
    stringsIndexC sub l n = if stringsIndexC sub l 0 != -1 then stringsIndexC sub l 0 + n else -1
  | [], n => by unfold stringsIndexC; split <;> simp
  | c :: cs, n => by
    unfold stringsIndexC
    split
    · simp
    · rw [stringsIndexC_shift sub cs (n + 1), stringsIndexC_shift sub cs 1]
      rcases stringsIndexC_ge sub cs 0 with h | h
      · simp [h]
      · have h1 : stringsIndexC sub cs 0 ≠ -1 := by omega
        have h2 : stringsIndexC sub cs 0 + 1 ≠ -1 := by omega
        simp [h1, h2]; omega

theorem slice_nat (s : String) (a b : Nat) (h1 : a ≤ b) (h2 : b ≤ s.toList.length) :
    Go.slice s (a : Int) (b : Int) = .ok (String.ofList ((s.toList.drop a).take (b - a))) := by
  have : (0 : Int) ≤ a ∧ (a : Int) ≤ b ∧ (b : Int) ≤ (s.length : Int) := by
    rw [← String.length_toList]; omega
  simp [Go.slice, this]

theorem index_nat {α : Type} (xs : List α) (n : Nat) (h : n < xs.length) : Go.index xs (n : Int) = .ok xs[n] := by
  simp [Go.index, h]

theorem slicesIndex_of_notMem (xs : List String) (x : String) (h : x ∉ xs) : Go.slicesIndex xs x = -1 := by
  have : xs.idxOf? x = none := by simpa [List.idxOf?_eq_none_iff] using h
  simp [Go.slicesIndex, this]

theorem idxOf?_append_cons (pre : List String) (x : String) (suf : List String) (h : x ∉ pre) :
    (pre ++ x :: suf).idxOf? x = some pre.length := by
  induction pre with
  | nil => simp [List.idxOf?, List.findIdx?_cons]
  | cons a r ih =>
    have ha : a ≠ x := fun e => h (by simp [e])
    have hr : x ∉ r := fun m => h (List.mem_cons_of_mem _ m)
    have := ih hr
    simp only [List.idxOf?] at this ⊢
    simp [List.findIdx?_cons, ha, this]

theorem slicesIndex_append_cons (pre : List String) (x : String) (suf : List String) (h : x ∉ pre) :
    Go.slicesIndex (pre ++ x :: suf) x = (pre.length : Int) := by
  simp [Go.slicesIndex, idxOf?_append_cons pre x suf h]

theorem sliceL_suffix {α : Type} (pre : List α) (x : α) (suf : List α) :
    Go.sliceL (pre ++ x :: suf) ((pre.length : Int) + 1) (Go.lenL (pre ++ x :: suf)) = .ok suf := by
  have h1 : ((pre.length : Int) + 1).toNat = pre.length + 1 := by omega
  have h2 : (Go.lenL (pre ++ x :: suf)).toNat - (pre.length + 1) = suf.length := by
    simp [Go.lenL]; omega
  have h3 : (0 : Int) ≤ (pre.length : Int) + 1 ∧ (pre.length : Int) + 1 ≤ Go.lenL (pre ++ x :: suf)
      ∧ Go.lenL (pre ++ x :: suf) ≤ ((pre ++ x :: suf).length : Int) := by
    simp [Go.lenL]; omega
  unfold Go.sliceL
  rw [if_pos h3, h1, h2]
  have h4 : (pre ++ x :: suf).drop (pre.length + 1) = suf := by
    rw [show pre ++ x :: suf = (pre ++ [x]) ++ suf by simp]
    rw [List.drop_left' (by simp)]
  simp [h4]

theorem sliceL_prefix {α : Type} (pre : List α) (suf : List α) :
    Go.sliceL (pre ++ suf) 0 (pre.length : Int) = .ok pre := by
  rw [Go.sliceL_zero _ _ (by simp)]; simp

end Ytk.Go

