/-
  YtkProofs.FuncsLemmas — facts about the GoPrelude primitives (YtkModel/GoPrelude.lean) that the
  equivalence theorems `*_generated_eq_model` (YtkProps/Cxx.lean) between the regenerated
  translation of a Go function (YtkModel/Generated/Funcs.lean) and the hand-written model use.
  Nothing here unfolds a generated definition: an edit of a Go function can only break the
  theorem of that function in the YtkProps file of the owning property.
-/
import YtkModel.GoPrelude
import YtkModel.Generated.Funcs

namespace Ytk.Go

theorem len_beq_zero (s : String) : (Go.len s == 0) = decide (s = "") := by
  have h := @String.length_eq_zero_iff s
  by_cases hs : s = ""
  · subst hs; decide
  · have : s.length ≠ 0 := fun e => hs (h.mp e)
    simp only [Go.len, hs, decide_false, beq_eq_false_iff_ne, ne_eq]
    omega

theorem lenL_beq_zero {α : Type} (xs : List α) : (Go.lenL xs == 0) = decide (xs = []) := by
  cases xs with
  | nil => simp [Go.lenL]
  | cons a r =>
    simp only [Go.lenL, List.length_cons, reduceCtorEq, decide_false, beq_eq_false_iff_ne, ne_eq]
    omega

/-- `%d` of a non-negative int is the decimal rendering of the natural number -/
theorem fmtD_nat (i : Nat) : Go.fmtD (i : Int) = toString i := by
  simp [Go.fmtD, toString, Int.repr]

theorem index_append_length {α : Type} (pre : List α) (c : α) (suf : List α) :
    Go.index (pre ++ c :: suf) (pre.length : Int) = .ok c := by
  simp [Go.index]

theorem sliceL_zero {α : Type} (xs : List α) (n : Nat) (h : n ≤ xs.length) :
    Go.sliceL xs 0 (n : Int) = .ok (xs.take n) := by
  simp [Go.sliceL, h]

end Ytk.Go

