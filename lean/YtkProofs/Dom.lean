/- Lemmas on the DOM model (path components, child). -/
import YtkModel.Dom
import YtkProofs.AMap

namespace Ytk

theorem parseSegAux_none {fuel : Nat} {s : List Char} {acc : List Nat} (h : stripIdx s = none) :
    parseSegAux fuel s acc = (s, acc) := by
  cases fuel with
  | zero => rfl
  | succ n => simp [parseSegAux, h]

theorem parseSeg_of_noSuffix {s : String} (h : hasIdxSuffix s = false) : parseSeg s = (s, []) := by
  have hn : stripIdx s.toList = none := by
    simpa [hasIdxSuffix] using h
  simp [parseSeg, parseSegAux_none hn, String.ofList_toList]

theorem child_of_noSuffix (kvs : AMap Node) {k : String} (h : hasIdxSuffix k = false) :
    child kvs k = AMap.get? kvs k := by
  simp [child, parseSeg_of_noSuffix h]

theorem add_of_noSuffix (kvs : AMap Node) {k : String} (v : Node) (h : hasIdxSuffix k = false) :
    add kvs k v = AMap.insert kvs k v := by
  simp [add, parseSeg_of_noSuffix h]

end Ytk
