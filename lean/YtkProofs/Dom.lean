/- Lemmas on the DOM model (path components, child). -/
import YtkModel.Dom
import YtkProofs.AMap

namespace Ytk

theorem parseSegAux_none {fuel : Nat} {s : List Char} {acc : List Nat} (h : stripIdx s = none) :
    parseSegAux fuel s acc = (s, acc) := by
  cases fuel with
  | zero => rfl
  | succ n => simp [parseSegAux, h]

theorem parseSeg_of_noSuffix {s : String} (h : hasIdxSuffix s = false) : parseSeg s = (s, []) := by
  have hn : stripIdx s.toList = none := by
    simpa [hasIdxSuffix] using h
  simp [parseSeg, parseSegAux_none hn, String.ofList_toList]

theorem child_of_noSuffix (kvs : AMap Node) {k : String} (h : hasIdxSuffix k = false) :
    child kvs k = AMap.get? kvs k := by
  simp [child, parseSeg_of_noSuffix h]

theorem add_of_noSuffix (kvs : AMap Node) {k : String} (v : Node) (h : hasIdxSuffix k = false) :
    add kvs k v = AMap.insert kvs k v := by
  simp [add, parseSeg_of_noSuffix h]

theorem Node.Valid.leaf (v : Scalar) : (Node.leaf v).Valid := ⟨.leaf v, .leaf v⟩

theorem Node.Valid.of_list_mem {xs : List Node} (h : (Node.list xs).Valid) {x : Node} (hx : x ∈ xs) : x.Valid := by
  obtain ⟨hw, hk⟩ := h
  cases hw with
  | list hw => cases hk with
    | list hk => exact ⟨hw x hx, hk x hx⟩

theorem Node.Valid.of_cont_mem {kvs : List (String × Node)} (h : (Node.cont kvs).Valid) {p : String × Node}
    (hp : p ∈ kvs) : p.2.Valid ∧ hasIdxSuffix p.1 = false := by
  obtain ⟨hw, hk⟩ := h
  cases hw with
  | cont _ hw => cases hk with
    | cont hk1 hk2 => exact ⟨⟨hw p hp, hk2 p hp⟩, hk1 p hp⟩

theorem Node.Valid.sorted {kvs : List (String × Node)} (h : (Node.cont kvs).Valid) : AMap.Sorted kvs := h.1.sorted

end Ytk

namespace Ytk

/-! ### stripping index groups terminates with a suffix-free base -/

theorem stripIdx_length {s p : List Char} {i : Nat} (h : stripIdx s = some (p, i)) : p.length < s.length := by
  unfold stripIdx at h
  split at h
  · rename_i r hr
    split at h
    · rename_i d ds p' ht hd
      cases h
      have hlen : s.length = r.length + 1 := by
        have := congrArg List.length hr
        simpa using this
      have hr2 : r = (d :: ds) ++ ('[' :: p') := by
        have h2 := List.takeWhile_append_dropWhile (p := isDigit) (l := r)
        rw [ht, hd] at h2
        exact h2.symm
      rw [hlen, hr2]
      simp
      omega
    · cases h
  · cases h

theorem parseSegAux_noSuffix : ∀ (fuel : Nat) (s : List Char) (acc : List Nat), s.length ≤ fuel →
    stripIdx (parseSegAux fuel s acc).1 = none
  | 0, s, acc, h => by
    have : s = [] := List.eq_nil_of_length_eq_zero (by omega)
    subst this
    rfl
  | fuel + 1, s, acc, h => by
    simp only [parseSegAux]
    cases hs : stripIdx s with
    | none => simpa using hs
    | some pi =>
      obtain ⟨p, i⟩ := pi
      simp only
      exact parseSegAux_noSuffix fuel p (i :: acc) (by have := stripIdx_length hs; omega)

theorem parseSeg_base_noSuffix (s : String) : hasIdxSuffix (parseSeg s).1 = false := by
  have := parseSegAux_noSuffix s.length s.toList [] (Nat.le_of_eq String.length_toList)
  simp [hasIdxSuffix, parseSeg, String.toList_ofList, this]

/-! ### validity is preserved by the builder primitives -/

theorem Node.Valid.null : Node.null.Valid := Node.Valid.leaf _

theorem Node.Valid.list_of {xs : List Node} (h : ∀ x ∈ xs, x.Valid) : (Node.list xs).Valid :=
  ⟨.list (fun x hx => (h x hx).1), .list (fun x hx => (h x hx).2)⟩

theorem Node.Valid.cont_of {kvs : List (String × Node)} (hs : AMap.Sorted kvs)
    (h : ∀ p ∈ kvs, p.2.Valid ∧ hasIdxSuffix p.1 = false) : (Node.cont kvs).Valid :=
  ⟨.cont hs (fun p hp => (h p hp).1.1), .cont (fun p hp => (h p hp).2) (fun p hp => (h p hp).1.2)⟩

theorem Node.Valid.empty : (Node.cont []).Valid := Node.Valid.cont_of .nil (by intro p hp; cases hp)

theorem mem_padTo {xs : List Node} {n : Nat} {x : Node} (h : x ∈ padTo xs n) : x ∈ xs ∨ x = Node.null := by
  simp only [padTo, List.mem_append, List.mem_replicate] at h
  rcases h with h | h
  · exact Or.inl h
  · exact Or.inr h.2

theorem padTo_valid {xs : List Node} {n : Nat} (h : ∀ x ∈ xs, x.Valid) : ∀ x ∈ padTo xs n, x.Valid := by
  intro x hx
  rcases mem_padTo hx with hx | rfl
  · exact h x hx
  · exact Node.Valid.null

theorem set_valid {xs : List Node} {i : Nat} {v : Node} (h : ∀ x ∈ xs, x.Valid) (hv : v.Valid) :
    ∀ x ∈ xs.set i v, x.Valid := by
  intro x hx
  rcases List.mem_or_eq_of_mem_set hx with hx | rfl
  · exact h x hx
  · exact hv

theorem getElem?_valid {xs : List Node} {i : Nat} {x : Node} (h : ∀ x ∈ xs, x.Valid) (hx : xs[i]? = some x) : x.Valid :=
  h x (List.mem_of_getElem? hx)

theorem setSlot_valid : ∀ (is : List Nat) (cur : Option Node) (v : Node), (∀ n, cur = some n → n.Valid) → v.Valid →
    (setSlot cur is v).Valid
  | [], _, v, _, hv => by simpa [setSlot] using hv
  | i :: is, cur, v, hc, hv => by
    simp only [setSlot]
    have hxs : ∀ x ∈ (match cur with | some (.list xs) => xs | _ => []), x.Valid := by
      intro x hx
      split at hx
      · rename_i xs
        exact (hc _ rfl).of_list_mem hx
      · cases hx
    apply Node.Valid.list_of
    apply set_valid (padTo_valid hxs)
    apply setSlot_valid is _ v _ hv
    intro n hn
    exact getElem?_valid (padTo_valid hxs) hn

theorem AMap.mem_insert {α : Type} {m : AMap α} {k : String} {a : α} {p : String × α} (h : p ∈ AMap.insert m k a) :
    p = (k, a) ∨ p ∈ m := by
  induction m with
  | nil => simp [AMap.insert] at h; exact Or.inl h
  | cons q m ih =>
    obtain ⟨k', v'⟩ := q
    simp only [AMap.insert] at h
    split at h
    · simp only [List.mem_cons] at h ⊢
      rcases h with h | h | h
      · exact Or.inl h
      · exact Or.inr (Or.inl h)
      · exact Or.inr (Or.inr h)
    · split at h
      · rename_i hk
        simp only [List.mem_cons] at h ⊢
        rcases h with h | h
        · subst hk; exact Or.inl h
        · exact Or.inr (Or.inr h)
      · simp only [List.mem_cons] at h ⊢
        rcases h with h | h
        · exact Or.inr (Or.inl h)
        · rcases ih h with h | h
          · exact Or.inl h
          · exact Or.inr (Or.inr h)

theorem insert_valid {kvs : AMap Node} {k : String} {v : Node} (h : (Node.cont kvs).Valid)
    (hk : hasIdxSuffix k = false) (hv : v.Valid) : (Node.cont (AMap.insert kvs k v)).Valid := by
  apply Node.Valid.cont_of (AMap.sorted_insert h.sorted _ _)
  intro p hp
  rcases AMap.mem_insert hp with rfl | hp
  · exact ⟨hv, hk⟩
  · exact h.of_cont_mem hp

theorem get?_valid {kvs : AMap Node} {k : String} {n : Node} (h : (Node.cont kvs).Valid)
    (hg : AMap.get? kvs k = some n) : n.Valid :=
  (h.of_cont_mem (AMap.mem_of_get? hg)).1

/-- `add` (AddValue / AddContainer / AddList, with or without index groups) preserves validity —
    for EVERY name: the API invariant behind D26. -/
theorem add_valid {kvs : AMap Node} (name : String) {v : Node} (h : (Node.cont kvs).Valid) (hv : v.Valid) :
    (Node.cont (add kvs name v)).Valid := by
  unfold add
  have hb := parseSeg_base_noSuffix name
  cases hp : parseSeg name with
  | mk b is =>
    rw [hp] at hb
    cases is with
    | nil =>
      simp only
      -- no index group: name itself is the key and equals its base
      have : name = b := by
        have h1 : (parseSeg name).2 = [] := by rw [hp]
        unfold parseSeg at hp h1
        -- when no group was stripped the base is the name itself
        have : ∀ (fuel : Nat) (s : List Char) (acc : List Nat), (parseSegAux fuel s acc).2 = [] → (parseSegAux fuel s acc).1 = s := by
          intro fuel
          induction fuel with
          | zero => intro s acc _; rfl
          | succ n ih =>
            intro s acc hnil
            simp only [parseSegAux] at hnil ⊢
            cases hs : stripIdx s with
            | none => simp
            | some pi =>
              obtain ⟨p, i⟩ := pi
              simp only [hs] at hnil
              -- the accumulator only grows
              have grow : ∀ (fuel : Nat) (s : List Char) (acc : List Nat), acc ≠ [] → (parseSegAux fuel s acc).2 ≠ [] := by
                intro fuel
                induction fuel with
                | zero => intro s acc h; simpa [parseSegAux] using h
                | succ n ih2 =>
                  intro s acc h
                  simp only [parseSegAux]
                  cases stripIdx s with
                  | none => simpa using h
                  | some pi => exact ih2 _ _ (by simp)
              exact absurd hnil (grow n p (i :: acc) (by simp))
        have hb1 := this name.length name.toList [] h1
        have := congrArg Prod.fst hp
        simp only at this
        rw [hb1, String.ofList_toList] at this
        exact this
      subst this
      exact insert_valid h hb hv
    | cons i is =>
      simp only
      apply insert_valid h hb
      apply setSlot_valid _ _ _ _ hv
      intro n hn
      exact get?_valid h hn

end Ytk

namespace Ytk

theorem walkIdx_valid : ∀ (is : List Nat) (cur : Option Node) (n : Node), (∀ m, cur = some m → m.Valid) →
    walkIdx cur is = some n → n.Valid
  | [], cur, n, hc, h => by
    cases cur with
    | none => simp [walkIdx] at h
    | some m => simp [walkIdx] at h; subst h; exact hc m rfl
  | i :: is, cur, n, hc, h => by
    cases cur with
    | none => simp [walkIdx] at h
    | some m =>
      cases m with
      | leaf _ => simp [walkIdx] at h
      | cont _ => simp [walkIdx] at h
      | list xs =>
        simp only [walkIdx] at h
        apply walkIdx_valid is _ n _ h
        intro m hm
        exact (hc _ rfl).of_list_mem (List.mem_of_getElem? hm)

theorem child_valid {kvs : AMap Node} (h : (Node.cont kvs).Valid) {name : String} {n : Node}
    (hc : child kvs name = some n) : n.Valid := by
  unfold child at hc
  cases hp : parseSeg name with
  | mk b is =>
    rw [hp] at hc
    cases is with
    | nil => exact get?_valid h hc
    | cons i is =>
      simp only at hc
      exact walkIdx_valid _ _ n (fun m hm => get?_valid h hm) hc

end Ytk
