/-
  YtkProofs.HeapBuilderHist — WHOLE HISTORIES of builder calls that mix calls on the root with calls on
  HANDLES (addresses returned by earlier AddContainer / AddList / Child / Lookup calls).

  1. `path_replace`        the generic lifting lemma: when `Lookup(segs)` from `c` finds `x`, a heap change
                           that writes only below `x` and turns `x`'s abstraction into `xn'` is, seen from
                           `c`, the value-level `updateAtSegs d (fun _ => xn') segs`; `lookupSegsH_abs`
  2. `walkContH`           a call on a live CONTAINER handle is literally the path-level call from the root
                           (`walkContH_append`); `live_*_refines`: the per-kind refinement lemmas
  3. `HOp.atPath`          the value-level call(s) (`BOp`) a heap-level call made on the handle that sits at
                           the path string `p` corresponds to (`p = ""`: the root); `restoreAt`: the
                           fallback for calls without a path-level counterpart; `LiveAt`: the handle is
                           what `Lookup(p)` returns now; `hstep_live_refines`: one live call
  4. `hstep_cells_frame`   a call on a DETACHED handle changes no cell below the root; `hstep_detached`
  5. `HandleRun`           the correspondence of histories (a relation): live calls contribute
                           `HOp.atPath`, calls on detached handles contribute nothing;
     `HandleRun.refines`   the abstraction of the root after the heap-level history is `brun` of the
                           corresponding value-level history; the invariants hold at the end;
     `HandleRun.refines_panic`  the documented `MustSet` panic happens in both models or in neither
  6. `apartB`, `sibSepB`   executable sufficient checks for `Apart` / `SibSep` on concrete heaps
  7. `addH_detaches_deep`  overwriting a position through a container call — plain name or list position
                           `l[i]…[k]` (`setSlotH_along_walk`) — detaches the node that was stored there
-/
import YtkProofs.HeapBuilderRun
import YtkProofs.HeapBuilderRefine
import YtkProofs.OverlaySafe
import YtkProofs.PipelineData

namespace Ytk.Heap
open Heap Refine

/-! ## 1. lifting a change below a node found by `Lookup` to the root of the walk -/

theorem path_replace {g g' : Heap} {P : Addr → Prop} {x : Addr} {xn' : Node} (hm : g.MapsOk)
    (hsz : g.size ≤ g'.size) (hfr : FrameOn g g' (fun b => Reach g x b ∧ Composite g b))
    (hst : Stable g' (Foot g (some x) P) x xn') (f : Node → Node) (hf : ∀ xn, Abs g x xn → f xn = xn') :
    ∀ (segs : List String) (c : Addr) (d : AMap Node), Abs g c (.cont d) → SibSep g c →
      lookupSegsH g c segs = some x →
      Reach g c x ∧ Stable g' (Foot g (some c) P) c (.cont (updateAtSegs d f segs))
  | [], _, _, _, _, hl => by simp [lookupSegsH] at hl
  | [last], c, d, hd, hs, hl => by
    simp only [lookupSegsH] at hl
    have ho := Refine.childH_abs hd last
    rw [hl] at ho
    cases hcd : child d last with
    | none => rw [hcd] at ho; exact absurd ho id
    | some n =>
      rw [hcd] at ho
      have hab : Abs g x n := ho
      obtain ⟨hr, hst'⟩ := enter_spec hd hs (fun kvs hg => hm c kvs hg) hl hsz hfr hst
      refine ⟨hr, ?_⟩
      simp only [updateAtSegs, hcd, hf n hab]
      exact hst'
  | p :: q :: rest, c, d, hd, hs, hl => by
    simp only [lookupSegsH] at hl
    cases hcc : contChildH g c p with
    | none => simp [hcc] at hl
    | some y =>
      simp only [hcc] at hl
      obtain ⟨hch, dy, hcd, hdy⟩ := Refine.contChildH_some hd hcc
      have hcy : Reach g c y := Refine.childH_reach hd hch
      obtain ⟨hyx, hsty⟩ := path_replace hm hsz hfr hst f hf (q :: rest) y dy hdy (sibSep_of_reach hs hcy) hl
      obtain ⟨_, hstc⟩ := enter_spec hd hs (fun kvs hg => hm c kvs hg) hch hsz
        (hfr.weaken (fun b hS => ⟨hyx.trans hS.1, hS.2⟩)) hsty
      refine ⟨hcy.trans hyx, ?_⟩
      simp only [updateAtSegs, hcd]
      exact hstc

/-- the value-level node `Lookup(segs)` finds is the abstraction of the heap-level one -/
theorem lookupSegsH_abs {g : Heap} : ∀ (segs : List String) (c x : Addr) (d : AMap Node), Abs g c (.cont d) →
    lookupSegsH g c segs = some x → Reach g c x ∧ ∃ n, lookupSegs d segs = some n ∧ Abs g x n
  | [], _, _, _, _, hl => by simp [lookupSegsH] at hl
  | [last], c, x, d, hd, hl => by
    simp only [lookupSegsH] at hl
    have ho := Refine.childH_abs hd last
    rw [hl] at ho
    cases hcd : child d last with
    | none => rw [hcd] at ho; exact absurd ho id
    | some n =>
      rw [hcd] at ho
      exact ⟨Refine.childH_reach hd hl, n, by simp only [lookupSegs, hcd], ho⟩
  | p :: q :: rest, c, x, d, hd, hl => by
    simp only [lookupSegsH] at hl
    cases hcc : contChildH g c p with
    | none => simp [hcc] at hl
    | some y =>
      simp only [hcc] at hl
      obtain ⟨hch, dy, hcd, hdy⟩ := Refine.contChildH_some hd hcc
      obtain ⟨hyx, n, hn, hxn⟩ := lookupSegsH_abs (q :: rest) y x dy hdy hl
      exact ⟨(Refine.childH_reach hd hch).trans hyx, n, by simp only [lookupSegs, hcd]; exact hn, hxn⟩

theorem Abs.unique {h : Heap} {a : Addr} {n m : Node} (h1 : Abs h a n) (h2 : Abs h a m) : n = m := by
  obtain ⟨f1, e1⟩ := h1
  obtain ⟨f2, e2⟩ := h2
  have a1 := absH_fuel_le (Nat.le_max_left f1 f2) e1
  have a2 := absH_fuel_le (Nat.le_max_right f1 f2) e2
  rw [a1] at a2
  exact Option.some.inj a2

/-! ## 2. walking through containers: a call on a live container handle is the path-level call -/

/-- the container the walk of ALL components ends in (existing containers are entered) -/
def walkContH (h : Heap) : Addr → List String → Option Addr
  | c, [] => some c
  | c, p :: rest =>
    match contChildH h c p with
    | some x => walkContH h x rest
    | none => none

theorem walkContH_of_lookup {h : Heap} : ∀ (segs : List String) (c x : Addr) (kvs : AMap Addr),
    lookupSegsH h c segs = some x → h.get? x = some (.cont kvs) → walkContH h c segs = some x
  | [], _, _, _, hl, _ => by simp [lookupSegsH] at hl
  | [last], c, x, kvs, hl, hg => by
    simp only [lookupSegsH] at hl
    simp only [walkContH, contChildH, hl, hg]
  | p :: q :: rest, c, x, kvs, hl, hg => by
    simp only [lookupSegsH] at hl
    cases hcc : contChildH h c p with
    | none => simp [hcc] at hl
    | some y =>
      simp only [hcc] at hl
      simp only [walkContH, hcc]
      exact walkContH_of_lookup (q :: rest) y x kvs hl hg

theorem walkContH_append {h : Heap} (v : Addr) : ∀ (segs : List String) (c x : Addr) (rest : List String),
    walkContH h c segs = some x → rest ≠ [] →
    addAtSegsH h c (segs ++ rest) v = addAtSegsH h x rest v ∧
    removeAtSegsH h c (segs ++ rest) = removeAtSegsH h x rest
  | [], c, x, rest, hw, _ => by
    simp only [walkContH, Option.some.injEq] at hw
    subst hw
    simp
  | p :: segs, c, x, rest, hw, hne => by
    simp only [walkContH] at hw
    cases hcc : contChildH h c p with
    | none => simp [hcc] at hw
    | some y =>
      simp only [hcc] at hw
      obtain ⟨q, t, hqt⟩ : ∃ q t, segs ++ rest = q :: t := by
        cases hst : segs ++ rest with
        | nil =>
          rw [List.append_eq_nil_iff] at hst
          exact absurd hst.2 hne
        | cons q t => exact ⟨q, t, rfl⟩
      have ih := walkContH_append v segs y x rest hw hne
      rw [List.cons_append, hqt]
      simp only [addAtSegsH, removeAtSegsH, hcc]
      rw [← hqt]
      exact ih

theorem addH_cont {h h' : Heap} {c v : Addr} {name : String} (he : addH h c name v = some h') :
    ∃ kvs, h.get? c = some (.cont kvs) := by
  unfold addH at he
  split at he
  · rename_i kvs hg; exact ⟨kvs, hg⟩
  · cases he

theorem remove_cont {h h' : Heap} {c : Addr} {name : String} (he : Ytk.Heap.remove h c name = some h') :
    ∃ kvs, h.get? c = some (.cont kvs) := by
  unfold Ytk.Heap.remove at he
  split at he
  · rename_i kvs hg; exact ⟨kvs, hg⟩
  · cases he

theorem addAtSegsH_cont {h h' : Heap} {c v : Addr} (hi : Inv h) (hv : v < h.size) (hcl : c < h.size) :
    ∀ (segs : List String), segs ≠ [] → addAtSegsH h c segs v = some h' → ∃ kvs, h.get? c = some (.cont kvs)
  | [], hne, _ => absurd rfl hne
  | [s], _, he => by
    simp only [addAtSegsH] at he
    exact addH_cont he
  | s :: t :: rest, _, he => by
    simp only [addAtSegsH] at he
    cases hcc : contChildH h c s with
    | some x =>
      have hch := (Ytk.Heap.contChildH_some hcc).1
      unfold childH at hch
      split at hch
      · rename_i kvs hg; exact ⟨kvs, hg⟩
      · cases hch
    | none =>
      simp only [hcc] at he
      obtain ⟨rank, hr⟩ := hi.acyclic
      obtain ⟨hl, _⟩ := Ytk.Heap.spineH_spec hi.closed hr hi.nilOk hv (t :: rest)
      obtain ⟨kvs, hg⟩ := addH_cont he
      rw [get?_eq_of_le hl hcl] at hg
      exact ⟨kvs, hg⟩

section live
variable {h h' : Heap} {root x v : Addr} {d : AMap Node} {vn : Node} {segs : List String}

theorem live_addAt_refines (hi : Inv h) (hs : SibSep h root) (hap : Apart h root v) (hrl : root < h.size)
    (hvl : v < h.size) (hd : abs h root = some (.cont d)) (hv : abs h v = some vn)
    (hw : walkContH h root segs = some x) {rest : List String} (hne : rest ≠ [])
    (he : addAtSegsH h x rest v = some h') :
    abs h' root = some (.cont (addAtSegs d (segs ++ rest) vn)) := by
  rw [← (walkContH_append v segs root x rest hw hne).1] at he
  exact (addAtSegsH_refines hi hs hap hrl hvl hd hv (by simp [hne]) he).2

theorem live_removeAt_refines (hi : Inv h) (hi' : Inv h') (hs : SibSep h root) (hd : abs h root = some (.cont d))
    (hw : walkContH h root segs = some x) {rest : List String} (hne : rest ≠ [])
    (he : removeAtSegsH h x rest = some h') :
    abs h' root = some (.cont (removeAtSegs d (segs ++ rest))) := by
  obtain ⟨rank, hr⟩ := hi.acyclic
  rw [← (walkContH_append 0 segs root x rest hw hne).2] at he
  obtain ⟨f', hf'⟩ := Refine.removeAtSegsH_abs hi.closed hr hi.mapsOk hs (abs_absH hd) he
  exact abs_eq_of_absH hi'.closed hi'.acyclic hf'

/-- AddContainer / AddList on a live container handle -/
theorem live_addNew_refines {c0 : Cell} {n0 : Node} (hk : c0.kids = []) (hs0 : ∀ kvs, c0 = .cont kvs → AMap.Sorted kvs)
    (hn0 : ∀ f, absH (f + 1) (h.alloc c0).1 h.size = some n0)
    (hi : Inv h) (hs : SibSep h root) (hrl : root < h.size) (hd : abs h root = some (.cont d))
    (hl : lookupSegsH h root segs = some x) {name : String}
    (he : addH (h.alloc c0).1 x name h.size = some h') :
    abs h' root = some (.cont (addAtSegs d (segs ++ [name]) n0)) := by
  obtain ⟨rank, hr⟩ := hi.acyclic
  have hle := le_alloc h c0
  have hi1 : Inv (h.alloc c0).1 :=
    ⟨closed_alloc hi.closed (by rw [hk]; intro k hkm; cases hkm), ⟨rank, rankedBy_alloc_empty hr hk⟩,
      mapsOk_alloc hi.mapsOk hs0, nilOk_mono hi.nilOk hle⟩
  have hrl1 : root < (h.alloc c0).1.size := Nat.lt_of_lt_of_le hrl (size_le_of_le hle)
  have hap : Apart (h.alloc c0).1 root h.size := by
    intro b hcb hbb _
    have hb : b = h.size := reach_of_no_kids (get?_alloc_new h c0) hk hbb
    have : b < h.size := reach_lt hi.closed (reach_of_le hle hi.closed hcb hrl) hrl
    exact Nat.lt_irrefl _ (hb ▸ this)
  have hd1 : absH ((h.alloc c0).1.size) (h.alloc c0).1 root = some (.cont d) :=
    absH_fuel_le (size_le_of_le hle) (absH_mono hle _ _ _ (abs_absH hd))
  have hv1 : absH ((h.alloc c0).1.size) (h.alloc c0).1 h.size = some n0 := by
    rw [size_alloc]; exact hn0 _
  have hag : ∀ b, Reach h root b → (h.alloc c0).1.get? b = h.get? b :=
    fun b hb => get?_eq_of_le hle (reach_lt hi.closed hb hrl)
  have hl1 : lookupSegsH (h.alloc c0).1 root segs = some x := by
    rw [lookupSegsH_congr segs root hag]; exact hl
  obtain ⟨kvs, hgx⟩ := addH_cont he
  have hw1 := walkContH_of_lookup segs root x kvs hl1 hgx
  exact live_addAt_refines hi1 (hs.of_le hle hi.closed hrl) hap hrl1 (by rw [size_alloc]; exact Nat.lt_succ_self _)
    hd1 hv1 hw1 (rest := [name]) (by simp) (by simpa only [addAtSegsH] using he)

/-- a change of the single cell `l` found by `Lookup(segs)`, seen from the root -/
theorem live_cell_refines {l : Addr} {P : Addr → Prop} {n' : Node} (hi : Inv h) (hi' : Inv h') (hs : SibSep h root)
    (hd : abs h root = some (.cont d)) (hl : lookupSegsH h root segs = some l) (hsz : h.size ≤ h'.size)
    (hfr : ∀ b, b < h.size → b ≠ l → h'.get? b = h.get? b) (hcomp : Composite h l)
    (hab : Abs h' l n') (hreach : ∀ b, Reach h' l b → Foot h (some l) P b)
    (f : Node → Node) (hf : ∀ xn, Abs h l xn → f xn = n') :
    abs h' root = some (.cont (updateAtSegs d f segs)) := by
  have hst : Stable h' (Foot h (some l) P) l n' := (Stable.of_abs hab).weaken hreach
  have hfr' : FrameOn h h' (fun b => Reach h l b ∧ Composite h b) :=
    fun b hb hn => hfr b hb (fun e => hn (by subst e; exact ⟨.refl _, hcomp⟩))
  obtain ⟨_, hst'⟩ := path_replace hi.mapsOk hsz hfr' hst f hf segs root d ⟨_, abs_absH hd⟩ hs hl
  obtain ⟨f', hf'⟩ := hst'.abs
  exact abs_eq_of_absH hi'.closed hi'.acyclic hf'

/-- Set / MustSet / Append on a live list handle: an `AttachSpec` write of the list cell itself -/
theorem live_listAttach_refines {l : Addr} {n' : Node} (hi : Inv h) (hi' : Inv h') (hs : SibSep h root)
    (hrl : root < h.size) (hvl : v < h.size)
    (hd : abs h root = some (.cont d)) (hl : lookupSegsH h root segs = some l) (spec : AttachSpec h l v l h')
    (hab : abs h' l = some n') (f : Node → Node) (hf : ∀ xn, Abs h l xn → f xn = n') :
    abs h' root = some (.cont (updateAtSegs d f segs)) := by
  have hrl' : Reach h root l := (lookupSegsH_abs segs root l d ⟨_, abs_absH hd⟩ hl).1
  have hll : l < h.size := reach_lt hi.closed hrl' hrl
  refine live_cell_refines (P := Reach h v) hi hi' hs hd hl spec.size_le spec.frame spec.composite_w
    ⟨_, abs_absH hab⟩ ?_ f hf
  intro b hb
  rcases spec.reach_after hi.closed hi.nilOk hvl hll hb with h1 | h1 | h1 | h1
  · exact Or.inr (Or.inr (Or.inl h1))
  · exact Or.inl h1
  · exact Or.inr (Or.inr (Or.inr h1))
  · exact Or.inr (Or.inl h1)

/-- replacing the node found at an existing position is `addAtSegs` -/
theorem updateAtSegs_const {n' : Node} : ∀ (segs : List String) (d : AMap Node) (n : Node),
    lookupSegs d segs = some n → updateAtSegs d (fun _ => n') segs = addAtSegs d segs n'
  | [], _, _, hl => by simp [lookupSegs] at hl
  | [last], d, n, hl => by
    simp only [lookupSegs] at hl
    simp only [updateAtSegs, addAtSegs, hl]
  | p :: q :: rest, d, n, hl => by
    simp only [lookupSegs] at hl
    cases hc : child d p with
    | none => simp [hc] at hl
    | some m =>
      cases m with
      | leaf s => simp [hc] at hl
      | list xs => simp [hc] at hl
      | cont c =>
        simp only [hc] at hl
        simp only [updateAtSegs, addAtSegs, hc]
        rw [updateAtSegs_const (q :: rest) c n hl]

/-- a change below the live handle `x` that turns its abstraction into `xn'`, seen from the root:
    `xn'` is stored at the handle's path -/
theorem live_restore_refines {P : Addr → Prop} {xn' : Node} (hi : Inv h) (hi' : Inv h') (hs : SibSep h root)
    (hd : abs h root = some (.cont d)) (hl : lookupSegsH h root segs = some x) (hsz : h.size ≤ h'.size)
    (hfr : FrameOn h h' (fun b => Reach h x b ∧ Composite h b)) (hst : Stable h' (Foot h (some x) P) x xn') :
    abs h' root = some (.cont (addAtSegs d segs xn')) := by
  obtain ⟨_, n, hn, _⟩ := lookupSegsH_abs segs root x d ⟨_, abs_absH hd⟩ hl
  obtain ⟨_, hst'⟩ := path_replace hi.mapsOk hsz hfr hst (fun _ => xn') (fun _ _ => rfl) segs root d
    ⟨_, abs_absH hd⟩ hs hl
  obtain ⟨f', hf'⟩ := hst'.abs
  rw [updateAtSegs_const segs d n hn] at hf'
  exact abs_eq_of_absH hi'.closed hi'.acyclic hf'

/-- the container cell a container call succeeded on, with its abstraction -/
theorem live_cont_abs {kvs : AMap Addr} {xn : Node} (hd : abs h root = some (.cont d))
    (hl : lookupSegsH h root segs = some x) (hg : h.get? x = some (.cont kvs)) (hxn : abs h x = some xn) :
    Reach h root x ∧ ∃ dx, xn = .cont dx ∧ Abs h x (.cont dx) := by
  obtain ⟨hrx, n, _, hxa⟩ := lookupSegsH_abs segs root x d ⟨_, abs_absH hd⟩ hl
  obtain ⟨_, dx, _, rfl⟩ := hxa.cont_inv hg
  exact ⟨hrx, dx, Abs.unique ⟨_, abs_absH hxn⟩ hxa, hxa⟩

/-- AddContainer / AddList on a live container handle, stated as the re-stored subtree -/
theorem live_restoreNew_refines {c0 : Cell} {n0 : Node} {dx : AMap Node} (hk : c0.kids = [])
    (hs0 : ∀ kvs, c0 = .cont kvs → AMap.Sorted kvs)
    (hn0 : ∀ f, absH (f + 1) (h.alloc c0).1 h.size = some n0)
    (hi : Inv h) (hi' : Inv h') (hs : SibSep h root) (hrl : root < h.size) (hd : abs h root = some (.cont d))
    (hl : lookupSegsH h root segs = some x) (hdx : Abs h x (.cont dx)) {name : String}
    (he : addH (h.alloc c0).1 x name h.size = some h') :
    abs h' root = some (.cont (addAtSegs d segs (.cont (Ytk.add dx name n0)))) := by
  obtain ⟨rank, hr⟩ := hi.acyclic
  have hle := le_alloc h c0
  have hi1 : Inv (h.alloc c0).1 :=
    ⟨closed_alloc hi.closed (by rw [hk]; intro k hkm; cases hkm), ⟨rank, rankedBy_alloc_empty hr hk⟩,
      mapsOk_alloc hi.mapsOk hs0, nilOk_mono hi.nilOk hle⟩
  have hd1 : abs (h.alloc c0).1 root = some (.cont d) :=
    absH_fuel_le (size_le_of_le hle) (absH_mono hle _ _ _ (abs_absH hd))
  have hag : ∀ b, Reach h root b → (h.alloc c0).1.get? b = h.get? b :=
    fun b hb => get?_eq_of_le hle (reach_lt hi.closed hb hrl)
  have hl1 : lookupSegsH (h.alloc c0).1 root segs = some x := by
    rw [lookupSegsH_congr segs root hag]; exact hl
  have hrx : Reach h root x := (lookupSegsH_abs segs root x d ⟨_, abs_absH hd⟩ hl).1
  have hxl : x < h.size := reach_lt hi.closed hrx hrl
  have hs1 : SibSep (h.alloc c0).1 root := hs.of_le hle hi.closed hrl
  have hvst : Stable (h.alloc c0).1 (Reach (h.alloc c0).1 h.size) h.size n0 := Stable.of_abs ⟨_, hn0 0⟩
  obtain ⟨hsz, hfr, hst⟩ := Refine.addH_spec hi1.nilOk hvst (hdx.mono hle)
    (sibSep_of_reach hs1 (reach_mono hle hrx)) (fun kvs hg => hi1.mapsOk x kvs hg)
    (fun b hxb _ hbb => by
      have hb : b = h.size := reach_of_no_kids (get?_alloc_new h c0) hk hbb
      have : b < h.size := reach_lt hi.closed (reach_of_le hle hi.closed hxb hxl) hxl
      exact Nat.lt_irrefl _ (hb ▸ this)) he
  exact live_restore_refines hi1 hi' hs1 hd1 hl1 hsz hfr hst

end live

/-! ## 3. the value-level calls a call on a handle corresponds to -/

/-- a call made on the ROOT: the root-level `BOp` (`HOp.toBOp`); `Child` / `Lookup` change nothing -/
def HOp.atRoot (vn : Node) : HOp → Option (List BOp)
  | .child _ _ => some []
  | .lookup _ _ => some []
  | op => (op.toBOp vn).map fun b => [b]

/-- the fallback correspondence for a container handle: re-store the handle's updated subtree at its
    path — `xn` is the abstraction of the handle, `f` the value-level edit of its children -/
def restoreAt (p : String) (xn : Node) (f : AMap Node → AMap Node) : Option (List BOp) :=
  match xn with
  | .cont dx => some [.addValueAt p (.cont (f dx))]
  | _ => none

/-- a call made on the handle that sits at the non-empty path string `p` (what `Lookup(p)` returns):
    the PATH-LEVEL call at `p` extended by the call's own name / path (`utils.ToPath`), list calls
    are addressed by `p` itself.  `vn` = the abstraction of the value node, `xn` = the abstraction of
    the handle.  Two kinds of calls have no path-level counterpart and are rendered by `restoreAt`
    (the handle's updated subtree is stored at `p`): a member name containing a '.'
    (`x.AddValue("a.b", v)` stores the literal key, a path would be split) and `Walk(CompactFn)` on a
    sub-container (`BOp.compact` is the root call). -/
def HOp.atSub (p : String) (vn xn : Node) : HOp → Option (List BOp)
  | .addValue _ name _ =>
    if '.' ∈ name.toList then restoreAt p xn fun dx => Ytk.add dx name vn
    else some [.addValueAt (toPath p name) vn]
  | .addValueAt _ path _ => some [.addValueAt (toPath p path) vn]
  | .addContainer _ name =>
    if '.' ∈ name.toList then restoreAt p xn fun dx => Ytk.add dx name (.cont [])
    else some [.addValueAt (toPath p name) (.cont [])]
  | .addList _ name =>
    if '.' ∈ name.toList then restoreAt p xn fun dx => Ytk.add dx name (.list [])
    else some [.addValueAt (toPath p name) (.list [])]
  | .remove _ name =>
    if '.' ∈ name.toList then restoreAt p xn fun dx => Ytk.remove dx name
    else some [.removeAt (toPath p name)]
  | .removeAt _ path => some [.removeAt (toPath p path)]
  | .child _ _ => some []
  | .lookup _ _ => some []
  | .listSet _ i _ => some [.listSet p i vn]
  | .listMustSet _ i _ => some [.listMustSet p i vn]
  | .listAppend _ _ => some [.listAppend p vn]
  | .listClear _ => some [.listClear p]
  | .compact _ => restoreAt p xn compactKvs

/-- THE CORRESPONDENCE of one call: the value-level calls for a heap-level call made on the handle at
    path `p` (`p = ""`: the root itself) -/
def HOp.atPath (p : String) (vn xn : Node) (op : HOp) : Option (List BOp) :=
  if p = "" then op.atRoot vn else op.atSub p vn xn

/-- the handle `x` is LIVE at `p`: it is the root (`p = ""`) or what `root.Lookup(p)` returns now -/
def LiveAt (h : Heap) (root x : Addr) (p : String) : Prop :=
  if p = "" then x = root else lookupH h root p = some x

instance (h : Heap) (root x : Addr) (p : String) : Decidable (LiveAt h root x p) := by
  unfold LiveAt; infer_instance

theorem outcome_unwrap {α : Type} {h' : Heap} {ret : Option Addr} (o : Option α) (g : α → Heap × Option Addr)
    (hx : outcomeOfOption (o.map g) = .ok (h', ret)) : ∃ x, o = some x ∧ g x = (h', ret) := by
  cases o with
  | none => simp [outcomeOfOption] at hx
  | some x => exact ⟨x, rfl, by simpa [outcomeOfOption] using hx⟩

theorem addValueAt_toPath {p : String} (hp : p ≠ "") (d : AMap Node) (k : String) (v : Node) :
    addValueAt d (toPath p k) v = addAtSegs d (splitPath p ++ splitPath k) v := by
  unfold addValueAt; rw [splitPath_toPath hp]

theorem removeAt_toPath {p : String} (hp : p ≠ "") (d : AMap Node) (k : String) :
    removeAt d (toPath p k) = removeAtSegs d (splitPath p ++ splitPath k) := by
  unfold removeAt; rw [splitPath_toPath hp]

theorem updateAt_ne {p : String} (hp : p ≠ "") (d : AMap Node) (f : Node → Node) :
    updateAt d p f = updateAtSegs d f (splitPath p) := by
  unfold updateAt; rw [if_neg hp]

/-- the list cell a list call succeeded on, with its abstraction -/
theorem live_list_abs {h : Heap} {root l : Addr} {d : AMap Node} {segs : List String} {xs : List Addr}
    (hi : Inv h) (hrl : root < h.size) (hd : abs h root = some (.cont d))
    (hl : lookupSegsH h root segs = some l) (hg : h.get? l = some (.list xs)) :
    Reach h root l ∧ l < h.size ∧ ∃ ns, lookupSegs d segs = some (.list ns) ∧ abs h l = some (.list ns) ∧
      ∀ xn, Abs h l xn → xn = .list ns := by
  obtain ⟨hrl', n, hn, hln⟩ := lookupSegsH_abs segs root l d ⟨_, abs_absH hd⟩ hl
  obtain ⟨_, ns, _, rfl⟩ := hln.list_inv hg
  obtain ⟨f, hf⟩ := hln
  exact ⟨hrl', reach_lt hi.closed hrl' hrl, ns, hn, abs_eq_of_absH hi.closed hi.acyclic hf,
    fun xn hx => Abs.unique hx ⟨f, hf⟩⟩

/-- REFINEMENT of one call made on a LIVE handle -/
theorem hstep_live_refines {h h' : Heap} {root : Addr} {op : HOp} {ret : Option Addr} {d : AMap Node} {vn : Node}
    {p : String} {bops : List BOp} (hi : Inv h) (hs : SibSep h root) (hrl : root < h.size)
    (hok : op.TreeOk h root) (hlive : LiveAt h root op.target p) (hd : abs h root = some (.cont d))
    (hv : ∀ v, op.value = some v → abs h v = some vn) {xn : Node} (hxn : abs h op.target = some xn)
    (hb : op.atPath p vn xn = some bops) (he : hstep h op = .ok (h', ret)) :
    ∃ d', brun d bops = .ok d' ∧ abs h' root = some (.cont d') := by
  obtain ⟨hi', hs'⟩ := hstep_tree hi hs hrl hok he
  by_cases hp : p = ""
  · subst hp
    have htgt : op.target = root := by simpa [LiveAt] using hlive
    simp only [HOp.atPath, if_true] at hb
    by_cases hq : (∃ c n, op = .child c n) ∨ (∃ c q, op = .lookup c q)
    · have hh : h' = h := by
        rcases hq with ⟨c, n, rfl⟩ | ⟨c, q, rfl⟩ <;>
          · simp only [hstep, Outcome.ok.injEq, Prod.mk.injEq] at he
            exact he.1.symm
      have hbn : bops = [] := by
        rcases hq with ⟨c, n, rfl⟩ | ⟨c, q, rfl⟩ <;>
          · simp only [HOp.atRoot, Option.some.injEq] at hb
            exact hb.symm
      subst hh; subst hbn
      exact ⟨d, rfl, hd⟩
    · have hb' : ∃ bop, op.toBOp vn = some bop ∧ bops = [bop] := by
        cases op with
        | child c n => exact absurd (Or.inl ⟨c, n, rfl⟩) hq
        | lookup c q => exact absurd (Or.inr ⟨c, q, rfl⟩) hq
        | _ =>
          simp only [HOp.atRoot, Option.map_eq_some_iff] at hb
          obtain ⟨bop, h1, h2⟩ := hb
          exact ⟨bop, h1, h2.symm⟩
      obtain ⟨bop, hbop, rfl⟩ := hb'
      obtain ⟨d', h1, h2⟩ := hstep_bstep hi hs hrl hok htgt hd hv hbop he
      exact ⟨d', by simp only [brun, h1], h2⟩
  · have hl : lookupSegsH h root (splitPath p) = some op.target := by
      simpa [LiveAt, hp, lookupH] using hlive
    simp only [HOp.atPath, if_neg hp] at hb
    obtain ⟨hrt, hval⟩ := hok
    have hxl : op.target < h.size := reach_lt hi.closed hrt hrl
    cases op with
    | addValue x name v =>
      simp only [HOp.atSub] at hb
      split at hb
      · obtain ⟨y, hx, hf⟩ := outcome_unwrap _ _ he
        cases hf
        obtain ⟨hvl, _, hap⟩ := hval v rfl
        obtain ⟨kvs, hgx⟩ := addH_cont hx
        obtain ⟨hrx, dx, rfl, hdx⟩ := live_cont_abs hd hl hgx hxn
        simp only [restoreAt, Option.some.injEq] at hb; subst hb
        obtain ⟨hsz, hfr, hst⟩ := Refine.addH_spec hi.nilOk (Stable.of_abs ⟨_, abs_absH (hv v rfl)⟩) hdx
          (sibSep_of_reach hs hrx) (fun kvs hg => hi.mapsOk x kvs hg)
          (fun b hb hc hvb => hap b (hrx.trans hb) hvb hc) hx
        have := live_restore_refines hi hi' hs hd hl hsz hfr hst
        refine ⟨_, (by simp only [brun, bstep] <;> rfl), ?_⟩
        unfold addValueAt
        exact this
      · rename_i hdot
        simp only [Option.some.injEq] at hb; subst hb
        obtain ⟨y, hx, hf⟩ := outcome_unwrap _ _ he
        cases hf
        obtain ⟨hvl, _, hap⟩ := hval v rfl
        obtain ⟨kvs, hgx⟩ := addH_cont hx
        have hw := walkContH_of_lookup _ root x kvs hl hgx
        have := live_addAt_refines hi hs hap hrl hvl hd (hv v rfl) hw (rest := [name]) (by simp)
          (by simpa only [addAtSegsH] using hx)
        refine ⟨_, (by simp only [brun, bstep] <;> rfl), ?_⟩
        rw [addValueAt_toPath hp, PD.splitPath_plain hdot]
        exact this
    | addValueAt x path v =>
      simp only [HOp.atSub, Option.some.injEq] at hb; subst hb
      obtain ⟨y, hx, hf⟩ := outcome_unwrap _ _ he
      cases hf
      obtain ⟨hvl, _, hap⟩ := hval v rfl
      unfold addValueAtH at hx
      obtain ⟨kvs, hgx⟩ := addAtSegsH_cont hi hvl hxl _ (Ytk.splitPath_ne_nil path) hx
      have hw := walkContH_of_lookup _ root x kvs hl hgx
      have := live_addAt_refines hi hs hap hrl hvl hd (hv v rfl) hw (Ytk.splitPath_ne_nil path) hx
      refine ⟨_, (by simp only [brun, bstep] <;> rfl), ?_⟩
      rw [addValueAt_toPath hp]
      exact this
    | addContainer x name =>
      simp only [HOp.atSub] at hb
      split at hb
      · obtain ⟨y, hx, hf⟩ := outcome_unwrap _ _ he
        obtain ⟨h2, b⟩ := y
        cases hf
        have he' : addH (h.alloc (.cont [])).1 x name h.size = some h2 := by
          unfold addContainerH at hx
          simp only at hx
          split at hx
          · rename_i h2' he'
            simp only [Option.some.injEq, Prod.mk.injEq] at hx
            rw [← hx.1]; exact he'
          · cases hx
        obtain ⟨kvs, hgx⟩ := addH_cont he'
        rw [get?_eq_of_le (le_alloc h _) (show x < h.size from hxl)] at hgx
        obtain ⟨hrx, dx, rfl, hdx⟩ := live_cont_abs hd hl hgx hxn
        simp only [restoreAt, Option.some.injEq] at hb; subst hb
        have := live_restoreNew_refines (n0 := .cont []) rfl (fun kvs hk => by cases hk; exact .nil)
          (fun f => by rw [absH, get?_alloc_new]; rfl) hi hi' hs hrl hd hl hdx he'
        refine ⟨_, (by simp only [brun, bstep] <;> rfl), ?_⟩
        unfold addValueAt
        exact this
      · rename_i hdot
        simp only [Option.some.injEq] at hb; subst hb
        obtain ⟨y, hx, hf⟩ := outcome_unwrap _ _ he
        obtain ⟨h2, b⟩ := y
        cases hf
        have he' : addH (h.alloc (.cont [])).1 x name h.size = some h2 := by
          unfold addContainerH at hx
          simp only at hx
          split at hx
          · rename_i h2' he'
            simp only [Option.some.injEq, Prod.mk.injEq] at hx
            rw [← hx.1]; exact he'
          · cases hx
        have := live_addNew_refines (n0 := .cont []) rfl (fun kvs hk => by cases hk; exact .nil)
          (fun f => by rw [absH, get?_alloc_new]; rfl) hi hs hrl hd hl he'
        refine ⟨_, (by simp only [brun, bstep] <;> rfl), ?_⟩
        rw [addValueAt_toPath hp, PD.splitPath_plain hdot]
        exact this
    | addList x name =>
      simp only [HOp.atSub] at hb
      split at hb
      · obtain ⟨y, hx, hf⟩ := outcome_unwrap _ _ he
        obtain ⟨h2, b⟩ := y
        cases hf
        have he' : addH (h.alloc (.list [])).1 x name h.size = some h2 := by
          unfold addListH at hx
          simp only at hx
          split at hx
          · rename_i h2' he'
            simp only [Option.some.injEq, Prod.mk.injEq] at hx
            rw [← hx.1]; exact he'
          · cases hx
        obtain ⟨kvs, hgx⟩ := addH_cont he'
        rw [get?_eq_of_le (le_alloc h _) (show x < h.size from hxl)] at hgx
        obtain ⟨hrx, dx, rfl, hdx⟩ := live_cont_abs hd hl hgx hxn
        simp only [restoreAt, Option.some.injEq] at hb; subst hb
        have := live_restoreNew_refines (n0 := .list []) rfl (fun kvs hk => by cases hk)
          (fun f => by rw [absH, get?_alloc_new]; rfl) hi hi' hs hrl hd hl hdx he'
        refine ⟨_, (by simp only [brun, bstep] <;> rfl), ?_⟩
        unfold addValueAt
        exact this
      · rename_i hdot
        simp only [Option.some.injEq] at hb; subst hb
        obtain ⟨y, hx, hf⟩ := outcome_unwrap _ _ he
        obtain ⟨h2, b⟩ := y
        cases hf
        have he' : addH (h.alloc (.list [])).1 x name h.size = some h2 := by
          unfold addListH at hx
          simp only at hx
          split at hx
          · rename_i h2' he'
            simp only [Option.some.injEq, Prod.mk.injEq] at hx
            rw [← hx.1]; exact he'
          · cases hx
        have := live_addNew_refines (n0 := .list []) rfl (fun kvs hk => by cases hk)
          (fun f => by rw [absH, get?_alloc_new]; rfl) hi hs hrl hd hl he'
        refine ⟨_, (by simp only [brun, bstep] <;> rfl), ?_⟩
        rw [addValueAt_toPath hp, PD.splitPath_plain hdot]
        exact this
    | remove x name =>
      simp only [HOp.atSub] at hb
      split at hb
      · obtain ⟨y, hx, hf⟩ := outcome_unwrap _ _ he
        cases hf
        obtain ⟨kvs, hgx⟩ := remove_cont hx
        obtain ⟨hrx, dx, rfl, hdx⟩ := live_cont_abs hd hl hgx hxn
        simp only [restoreAt, Option.some.injEq] at hb; subst hb
        obtain ⟨hsz, hfr, hst⟩ := Refine.remove_spec hdx hx
        have := live_restore_refines hi hi' hs hd hl hsz hfr hst
        refine ⟨_, (by simp only [brun, bstep] <;> rfl), ?_⟩
        unfold addValueAt
        exact this
      · rename_i hdot
        simp only [Option.some.injEq] at hb; subst hb
        obtain ⟨y, hx, hf⟩ := outcome_unwrap _ _ he
        cases hf
        obtain ⟨kvs, hgx⟩ := remove_cont hx
        have hw := walkContH_of_lookup _ root x kvs hl hgx
        have := live_removeAt_refines hi hi' hs hd hw (rest := [name]) (by simp)
          (by simpa only [removeAtSegsH] using hx)
        refine ⟨_, (by simp only [brun, bstep] <;> rfl), ?_⟩
        rw [removeAt_toPath hp, PD.splitPath_plain hdot]
        exact this
    | removeAt x path =>
      simp only [HOp.atSub, Option.some.injEq] at hb; subst hb
      obtain ⟨y, hx, hf⟩ := outcome_unwrap _ _ he
      cases hf
      unfold removeAtH at hx
      split at hx
      · rename_i kvs hgx
        have hw := walkContH_of_lookup _ root x kvs hl hgx
        have := live_removeAt_refines hi hi' hs hd hw (Ytk.splitPath_ne_nil path) hx
        refine ⟨_, (by simp only [brun, bstep] <;> rfl), ?_⟩
        rw [removeAt_toPath hp]
        exact this
      · cases hx
    | child c name =>
      simp only [HOp.atSub, Option.some.injEq] at hb; subst hb
      simp only [hstep, Outcome.ok.injEq, Prod.mk.injEq] at he
      obtain ⟨rfl, _⟩ := he
      exact ⟨d, rfl, hd⟩
    | lookup c path =>
      simp only [HOp.atSub, Option.some.injEq] at hb; subst hb
      simp only [hstep, Outcome.ok.injEq, Prod.mk.injEq] at he
      obtain ⟨rfl, _⟩ := he
      exact ⟨d, rfl, hd⟩
    | listSet l i v =>
      simp only [HOp.atSub, Option.some.injEq] at hb; subst hb
      obtain ⟨y, hx, hf⟩ := outcome_unwrap _ _ he
      cases hf
      obtain ⟨hvl, _, hap⟩ := hval v rfl
      have hcell : ∃ xs, h.get? l = some (.list xs) := by
        unfold Ytk.Heap.listSet at hx
        split at hx
        · rename_i xs hg; exact ⟨xs, hg⟩
        · cases hx
      obtain ⟨xs, hg⟩ := hcell
      obtain ⟨hrl', hll, ns, hn, habs, huniq⟩ := live_list_abs hi hrl hd hl hg
      have hvl' : ¬ Reach h v l := fun hvr => hap l hrl' hvr ⟨_, hg, rfl⟩
      have hab := (listSet_refines hi hvl' hll hvl habs (hv v rfl) hx).2
      have := live_listAttach_refines hi hi' hs hrl hvl hd hl (listSet_spec hx) hab
        (onList fun xs => Ytk.listSet xs i vn) (fun xn hxn => by rw [huniq xn hxn]; rfl)
      refine ⟨_, (by simp only [brun, bstep] <;> rfl), ?_⟩
      rw [updateAt_ne hp]
      exact this
    | listAppend l v =>
      simp only [HOp.atSub, Option.some.injEq] at hb; subst hb
      obtain ⟨y, hx, hf⟩ := outcome_unwrap _ _ he
      cases hf
      obtain ⟨hvl, _, hap⟩ := hval v rfl
      have hcell : ∃ xs, h.get? l = some (.list xs) := by
        unfold Ytk.Heap.listAppend at hx
        split at hx
        · rename_i xs hg; exact ⟨xs, hg⟩
        · cases hx
      obtain ⟨xs, hg⟩ := hcell
      obtain ⟨hrl', hll, ns, hn, habs, huniq⟩ := live_list_abs hi hrl hd hl hg
      have hvl' : ¬ Reach h v l := fun hvr => hap l hrl' hvr ⟨_, hg, rfl⟩
      have hab := (listAppend_refines hi hvl' hll hvl habs (hv v rfl) hx).2
      have := live_listAttach_refines hi hi' hs hrl hvl hd hl (listAppend_spec hx) hab
        (onList fun xs => Ytk.listAppend xs vn) (fun xn hxn => by rw [huniq xn hxn]; rfl)
      refine ⟨_, (by simp only [brun, bstep] <;> rfl), ?_⟩
      rw [updateAt_ne hp]
      exact this
    | listClear l =>
      simp only [HOp.atSub, Option.some.injEq] at hb; subst hb
      obtain ⟨y, hx, hf⟩ := outcome_unwrap _ _ he
      cases hf
      have hcell : ∃ xs, h.get? l = some (.list xs) ∧ h' = h.write l (.list []) := by
        unfold listClear at hx
        split at hx
        · rename_i xs hg
          simp only [Option.some.injEq] at hx
          exact ⟨xs, hg, hx.symm⟩
        · cases hx
      obtain ⟨xs, hg, hh'⟩ := hcell
      obtain ⟨hrl', hll, ns, hn, habs, huniq⟩ := live_list_abs hi hrl hd hl hg
      have hab := (listClear_refines hi habs hx).2
      have spec := listClear_spec hx
      have := live_cell_refines (P := NoVal) hi hi' hs hd hl (Nat.le_of_eq spec.size_eq.symm)
        (fun b _ hne => by rw [hh']; exact get?_write_ne h _ hne) ⟨_, hg, rfl⟩ ⟨_, abs_absH hab⟩
        (fun b hb => Or.inr (Or.inr (Or.inl (spec.reach hb))))
        (onList fun _ => []) (fun xn hxn => by rw [huniq xn hxn]; rfl)
      refine ⟨_, (by simp only [brun, bstep] <;> rfl), ?_⟩
      rw [updateAt_ne hp]
      exact this
    | listMustSet l i v =>
      simp only [HOp.atSub, Option.some.injEq] at hb; subst hb
      simp only [hstep] at he
      cases hms : listMustSetH h l i v with
      | err => rw [hms] at he; simp [Outcome.map] at he
      | panic => rw [hms] at he; simp [Outcome.map] at he
      | ok y =>
        rw [hms] at he
        simp only [Outcome.map, Outcome.ok.injEq, Prod.mk.injEq] at he
        obtain ⟨rfl, _⟩ := he
        obtain ⟨hvl, _, hap⟩ := hval v rfl
        have hcell : ∃ xs, h.get? l = some (.list xs) := by
          unfold listMustSetH at hms
          split at hms
          · rename_i xs hg; exact ⟨xs, hg⟩
          · cases hms
        obtain ⟨xs, hg⟩ := hcell
        obtain ⟨hrl', hll, ns, hn, habs, huniq⟩ := live_list_abs hi hrl hd hl hg
        have hvl' : ¬ Reach h v l := fun hvr => hap l hrl' hvr ⟨_, hg, rfl⟩
        obtain ⟨rank, hr⟩ := hi.acyclic
        have hboth := Refine.listMustSetH_abs (i := i) hi.closed hr hvl' (abs_absH habs) (abs_absH (hv v rfl))
        by_cases hlt : i < ns.length
        · obtain ⟨h2, f', h2e, h2a, _⟩ := hboth.1 hlt
          rw [hms] at h2e
          cases h2e
          have hab := abs_eq_of_absH hi'.closed hi'.acyclic h2a
          have := live_listAttach_refines hi hi' hs hrl hvl hd hl (listMustSetH_spec hms) hab
            (onList fun xs => xs.set i vn) (fun xn hxn => by rw [huniq xn hxn]; rfl)
          refine ⟨_, (by simp only [brun, bstep, lookup, if_neg hp, hn, if_pos hlt] <;> rfl), ?_⟩
          rw [updateAt_ne hp]
          exact this
        · have := (hboth.2 (Nat.le_of_not_lt hlt)).1
          rw [hms] at this
          cases this
    | compact x =>
      simp only [HOp.atSub] at hb
      obtain ⟨y, hx, hf⟩ := outcome_unwrap _ _ he
      cases hf
      have hcell : ∃ kvs, h.get? x = some (.cont kvs) := by
        unfold compactH at hx
        cases hsz0 : h.size with
        | zero => rw [hsz0] at hx; simp [compactF] at hx
        | succ n =>
          rw [hsz0] at hx
          simp only [compactF] at hx
          split at hx
          · rename_i kvs hg; exact ⟨kvs, hg⟩
          · cases hx
      obtain ⟨kvs, hgx⟩ := hcell
      obtain ⟨hrx, dx, rfl, hdx⟩ := live_cont_abs hd hl hgx hxn
      simp only [restoreAt, Option.some.injEq] at hb; subst hb
      obtain ⟨hshr, _, hfr, hst⟩ := Refine.compactF_spec h.size h x dx _ hi.mapsOk hdx (sibSep_of_reach hs hrx) hx
      have := live_restore_refines (P := NoVal) hi hi' hs hd hl (Nat.le_of_eq hshr.size_eq.symm) hfr
        (hst.weaken (fun b hb => Or.inr (Or.inr (Or.inl hb))))
      refine ⟨_, (by simp only [brun, bstep] <;> rfl), ?_⟩
      unfold addValueAt
      exact this

/-! ## 4. calls on DETACHED handles: no cell of the document changes -/

theorem AttachSpec.cells_frame {h h' : Heap} {c v w root : Addr} (hs : AttachSpec h c v w h') (hc : h.Closed)
    (hrlt : root < h.size) (hap : Apart h root c) : ∀ b, Reach h root b → h'.get? b = h.get? b := by
  intro b hb
  have hblt := reach_lt hc hb hrlt
  apply hs.frame b hblt
  intro e; subst e
  obtain ⟨cw, _, h1w, _, hleaf, _⟩ := hs.written
  exact hap b hb hs.reach_w ⟨cw, h1w, hleaf⟩

theorem shrink_cells_frame {h h' : Heap} {c root : Addr} (hs : ShrinkSpec h h') (hc : h.Closed)
    (hfr : ∀ a, ¬ Reach h c a → h'.get? a = h.get? a) (hrlt : root < h.size) (hap : Apart h root c) :
    ∀ b, Reach h root b → h'.get? b = h.get? b := by
  intro b hb
  by_cases hcb : Reach h c b
  · obtain ⟨cell, hg⟩ := get?_some_of_lt (reach_lt hc hb hrlt)
    cases cell with
    | leaf s => rw [hs.leaves b s hg, hg]
    | list xs => exact absurd ⟨_, hg, rfl⟩ (hap b hb hcb)
    | cont kvs => exact absurd ⟨_, hg, rfl⟩ (hap b hb hcb)
  · exact hfr b hcb

/-- a call made on a handle whose graph shares no container / list with the graph of `root` leaves
    every CELL below `root` unchanged -/
theorem hstep_cells_frame {h h' : Heap} {op : HOp} {ret : Option Addr} (hi : Inv h) (hok : op.Ok h)
    (he : hstep h op = .ok (h', ret)) {root : Addr} (hrlt : root < h.size) (hap : Apart h root op.target) :
    ∀ b, Reach h root b → h'.get? b = h.get? b := by
  obtain ⟨rank, hr⟩ := hi.acyclic
  obtain ⟨htl, hval⟩ := hok
  cases op with
  | addValue c name v =>
    obtain ⟨x, hx, hf⟩ := outcome_unwrap _ _ he
    cases hf
    obtain ⟨w, spec⟩ := addH_spec hr hi.nilOk hi.mapsOk hx
    exact spec.cells_frame hi.closed hrlt hap
  | addValueAt c path v =>
    obtain ⟨x, hx, hf⟩ := outcome_unwrap _ _ he
    cases hf
    obtain ⟨hv, _⟩ := hval v rfl
    obtain ⟨w, spec⟩ := addAtSegsH_spec hi.closed hr hi.nilOk hi.mapsOk hv _ c _ (Ytk.splitPath_ne_nil path) htl hx
    exact spec.cells_frame hi.closed hrlt hap
  | addContainer c name =>
    obtain ⟨x, hx, hf⟩ := outcome_unwrap _ _ he
    obtain ⟨h2, b⟩ := x
    cases hf
    obtain ⟨rfl, w, spec⟩ := addContainerH_spec hr hi.nilOk hi.mapsOk hx
    have hl := le_alloc h (.cont [])
    have hwlt : w < h.size := reach_lt hi.closed (reach_of_le hl hi.closed spec.reach_w htl) htl
    intro b hb
    have hblt := reach_lt hi.closed hb hrlt
    rw [spec.frame b (Nat.lt_of_lt_of_le hblt (size_le_of_le hl)) ?_, get?_eq_of_le hl hblt]
    intro e; subst e
    obtain ⟨cw, h1w, hleaf⟩ := spec.composite_w
    rw [get?_eq_of_le hl hwlt] at h1w
    exact hap b hb (reach_of_le hl hi.closed spec.reach_w htl) ⟨cw, h1w, hleaf⟩
  | addList c name =>
    obtain ⟨x, hx, hf⟩ := outcome_unwrap _ _ he
    obtain ⟨h2, b⟩ := x
    cases hf
    obtain ⟨rfl, w, spec⟩ := addListH_spec hr hi.nilOk hi.mapsOk hx
    have hl := le_alloc h (.list [])
    have hwlt : w < h.size := reach_lt hi.closed (reach_of_le hl hi.closed spec.reach_w htl) htl
    intro b hb
    have hblt := reach_lt hi.closed hb hrlt
    rw [spec.frame b (Nat.lt_of_lt_of_le hblt (size_le_of_le hl)) ?_, get?_eq_of_le hl hblt]
    intro e; subst e
    obtain ⟨cw, h1w, hleaf⟩ := spec.composite_w
    rw [get?_eq_of_le hl hwlt] at h1w
    exact hap b hb (reach_of_le hl hi.closed spec.reach_w htl) ⟨cw, h1w, hleaf⟩
  | remove c name =>
    obtain ⟨x, hx, hf⟩ := outcome_unwrap _ _ he
    cases hf
    exact shrink_cells_frame (remove_spec hx) hi.closed
      (fun a hna => remove_frame hx (fun e => hna (e ▸ .refl _))) hrlt hap
  | removeAt c path =>
    obtain ⟨x, hx, hf⟩ := outcome_unwrap _ _ he
    cases hf
    unfold removeAtH at hx
    split at hx
    · exact shrink_cells_frame (removeAtSegsH_spec _ c _ hx) hi.closed (removeAtSegsH_frame _ c _ hx) hrlt hap
    · cases hx
  | child c name =>
    simp only [hstep, Outcome.ok.injEq, Prod.mk.injEq] at he
    obtain ⟨rfl, _⟩ := he; exact fun _ _ => rfl
  | lookup c path =>
    simp only [hstep, Outcome.ok.injEq, Prod.mk.injEq] at he
    obtain ⟨rfl, _⟩ := he; exact fun _ _ => rfl
  | listSet l idx v =>
    obtain ⟨x, hx, hf⟩ := outcome_unwrap _ _ he
    cases hf
    exact (listSet_spec hx).cells_frame hi.closed hrlt hap
  | listMustSet l idx v =>
    simp only [hstep] at he
    cases hms : listMustSetH h l idx v with
    | ok x =>
      rw [hms] at he
      simp only [Outcome.map, Outcome.ok.injEq, Prod.mk.injEq] at he
      obtain ⟨rfl, _⟩ := he
      exact (listMustSetH_spec hms).cells_frame hi.closed hrlt hap
    | err => rw [hms] at he; simp [Outcome.map] at he
    | panic => rw [hms] at he; simp [Outcome.map] at he
  | listAppend l v =>
    obtain ⟨x, hx, hf⟩ := outcome_unwrap _ _ he
    cases hf
    exact (listAppend_spec hx).cells_frame hi.closed hrlt hap
  | listClear l =>
    obtain ⟨x, hx, hf⟩ := outcome_unwrap _ _ he
    cases hf
    refine shrink_cells_frame (listClear_spec hx) hi.closed ?_ hrlt hap
    intro a hna
    unfold listClear at hx
    split at hx
    · simp only [Option.some.injEq] at hx; subst hx
      exact get?_write_ne h _ (fun e => hna (e ▸ .refl _))
    · cases hx
  | compact c =>
    obtain ⟨x, hx, hf⟩ := outcome_unwrap _ _ he
    cases hf
    exact shrink_cells_frame (compactF_spec _ _ c _ hx) hi.closed (compactF_frame _ _ c _ hx) hrlt hap

/-- tree-ness only depends on the cells below the root -/
theorem sibSep_of_agree {h h' : Heap} {root : Addr} (hs : SibSep h root)
    (hag : ∀ b, Reach h root b → h'.get? b = h.get? b) : SibSep h' root := by
  have hR : ∀ b, Reach h' root b → Reach h root b := fun b hb => reach_of_agree hb hag
  intro a cell ha hcell i j ki kj hi hj hij b hkib hkjb hcb
  have hga := hR a ha
  rw [hag a hga] at hcell
  have hki : Reach h root ki := hga.trans (.step hcell (List.mem_of_getElem? hi) (.refl _))
  have hkj : Reach h root kj := hga.trans (.step hcell (List.mem_of_getElem? hj) (.refl _))
  have h1' : Reach h ki b := reach_of_agree hkib (fun b' hb' => hag b' (hki.trans hb'))
  have h2' : Reach h kj b := reach_of_agree hkjb (fun b' hb' => hag b' (hkj.trans hb'))
  refine hs a cell hga hcell i j ki kj hi hj hij b h1' h2' ?_
  obtain ⟨cb, hgb, hlf⟩ := hcb
  exact ⟨cb, by rw [← hag b (hki.trans h1')]; exact hgb, hlf⟩

/-- one call on a DETACHED handle: invariants, tree-ness and the root's abstraction are kept -/
theorem hstep_detached {h h' : Heap} {root : Addr} {op : HOp} {ret : Option Addr} {n : Node} (hi : Inv h)
    (hs : SibSep h root) (hrl : root < h.size) (hok : op.Ok h) (hap : Apart h root op.target)
    (hd : abs h root = some n) (he : hstep h op = .ok (h', ret)) :
    Inv h' ∧ SibSep h' root ∧ root < h'.size ∧ abs h' root = some n := by
  have hi' := hstep_inv hi hok he
  have hsz := hstep_size_le hi hok he
  have hag := hstep_cells_frame hi hok he hrl hap
  refine ⟨hi', sibSep_of_agree hs hag, Nat.lt_of_lt_of_le hrl hsz, ?_⟩
  show absH h'.size h' root = some n
  rw [absH_agree h'.size root hag]
  exact absH_fuel_le hsz (abs_absH hd)

/-! ## 5. whole histories -/

/-- THE CORRESPONDENCE OF HISTORIES.  `HandleRun root h ops bops h'`: the heap-level history `ops`
    (calls addressed by handle ADDRESS), run from `h`, ends in `h'`, every call succeeds, and `bops` is
    the corresponding value-level history:

    * `live`: the call is made on a handle that is LIVE at the path string `p` in the heap the call is
      applied to (`LiveAt`: the root for `p = ""`, else what `root.Lookup(p)` returns now); it attaches
      (if anything) a tree that shares at most leaves with the document (`HOp.TreeOk`) whose
      abstraction is `vn`; `xn` is the abstraction of the handle; it contributes
      `HOp.atPath p vn xn op` — the path-level call at `p`;
    * `detached`: the call is made on a handle whose graph shares no container / list with the
      document (`Apart`) and is `HOp.Ok`; it contributes NOTHING. -/
inductive HandleRun (root : Addr) : Heap → List HOp → List BOp → Heap → Prop
  | nil (h : Heap) : HandleRun root h [] [] h
  | live {h h1 h' : Heap} {op : HOp} {ops : List HOp} {ret : Option Addr} {p : String} {vn xn : Node}
      {bs bops : List BOp} :
      op.TreeOk h root → LiveAt h root op.target p → (∀ v, op.value = some v → abs h v = some vn) →
      abs h op.target = some xn → op.atPath p vn xn = some bs → hstep h op = .ok (h1, ret) →
      HandleRun root h1 ops bops h' →
      HandleRun root h (op :: ops) (bs ++ bops) h'
  | detached {h h1 h' : Heap} {op : HOp} {ops : List HOp} {ret : Option Addr} {bops : List BOp} :
      op.Ok h → Apart h root op.target → hstep h op = .ok (h1, ret) → HandleRun root h1 ops bops h' →
      HandleRun root h (op :: ops) bops h'

theorem brun_append : ∀ (bs : List BOp) (d d1 : AMap Node) (bops : List BOp), brun d bs = .ok d1 →
    brun d (bs ++ bops) = brun d1 bops
  | [], d, d1, bops, hb => by
    simp only [brun, Outcome.ok.injEq] at hb; subst hb; rfl
  | b :: bs, d, d1, bops, hb => by
    simp only [List.cons_append, brun] at hb ⊢
    cases hs : bstep d b with
    | ok d2 => rw [hs] at hb; simp only at hb ⊢; exact brun_append bs d2 d1 bops hb
    | err => rw [hs] at hb; cases hb
    | panic => rw [hs] at hb; cases hb

/-- WHOLE-HISTORY REFINEMENT -/
theorem HandleRun.refines {root : Addr} {h h' : Heap} {ops : List HOp} {bops : List BOp}
    (hrun : HandleRun root h ops bops h') : ∀ {d : AMap Node}, Inv h → SibSep h root → root < h.size →
      abs h root = some (.cont d) →
      Inv h' ∧ SibSep h' root ∧ root < h'.size ∧ Ytk.Heap.hrun h ops = .ok h' ∧
        ∃ d', brun d bops = .ok d' ∧ abs h' root = some (.cont d') := by
  induction hrun with
  | nil h => intro d hi hs hrl hd; exact ⟨hi, hs, hrl, rfl, d, rfl, hd⟩
  | live hok hlive hv hxn hb he _ ih =>
    intro d hi hs hrl hd
    obtain ⟨hi1, hs1⟩ := hstep_tree hi hs hrl hok he
    have hrl1 := Nat.lt_of_lt_of_le hrl (hstep_size_le hi (hok.ok hi hrl) he)
    obtain ⟨d1, hb1, hd1⟩ := hstep_live_refines hi hs hrl hok hlive hd hv hxn hb he
    obtain ⟨hi', hs', hrl', hr', d', hb', hd'⟩ := ih hi1 hs1 hrl1 hd1
    exact ⟨hi', hs', hrl', by simp only [Ytk.Heap.hrun, he, hr'], d', by rw [brun_append _ _ _ _ hb1]; exact hb', hd'⟩
  | detached hok hap he _ ih =>
    intro d hi hs hrl hd
    obtain ⟨hi1, hs1, hrl1, hd1⟩ := hstep_detached hi hs hrl hok hap hd he
    obtain ⟨hi', hs', hrl', hr', d', hb', hd'⟩ := ih hi1 hs1 hrl1 hd1
    exact ⟨hi', hs', hrl', by simp only [Ytk.Heap.hrun, he, hr'], d', hb', hd'⟩

/-! ### the documented panic: `MustSet` out of range on a live list handle -/

theorem hrun_append : ∀ (ops : List HOp) (h h1 : Heap) (ops' : List HOp), Ytk.Heap.hrun h ops = .ok h1 →
    Ytk.Heap.hrun h (ops ++ ops') = Ytk.Heap.hrun h1 ops'
  | [], h, h1, ops', hr => by
    simp only [Ytk.Heap.hrun, Outcome.ok.injEq] at hr; subst hr; rfl
  | op :: ops, h, h1, ops', hr => by
    simp only [List.cons_append, Ytk.Heap.hrun] at hr ⊢
    cases hs : hstep h op with
    | ok q => rw [hs] at hr; simp only at hr ⊢; exact hrun_append ops q.1 h1 ops' hr
    | err => rw [hs] at hr; cases hr
    | panic => rw [hs] at hr; cases hr

/-- `l.MustSet(i, v)` on a live list handle panics at heap level EXACTLY WHEN the value-level call
    addressed by the handle's path does -/
theorem hstep_live_mustSet_panic {h : Heap} {root l v : Addr} {i : Nat} {d : AMap Node} {p : String} {vn : Node}
    (hi : Inv h) (hrl : root < h.size) (hd : abs h root = some (.cont d)) (hp : p ≠ "")
    (hlive : LiveAt h root l p) :
    hstep h (.listMustSet l i v) = .panic ↔ bstep d (.listMustSet p i vn) = .panic := by
  have hl : lookupSegsH h root (splitPath p) = some l := by simpa [LiveAt, hp, lookupH] using hlive
  obtain ⟨_, n, hn, hln⟩ := lookupSegsH_abs _ root l d ⟨_, abs_absH hd⟩ hl
  have hlook : lookup d p = some n := by simp only [lookup, if_neg hp]; exact hn
  obtain ⟨f, hf⟩ := hln
  obtain ⟨f', cell, _, hg, hm⟩ := absH_inv hf
  simp only [hstep, listMustSetH, hg, bstep, hlook]
  cases cell with
  | leaf s => cases hm; simp [Outcome.map]
  | cont kvs => obtain ⟨m, _, rfl⟩ := hm; simp [Outcome.map]
  | list xs =>
    obtain ⟨ns, h1, rfl⟩ := hm
    have hlen : ns.length = xs.length := optMapM_length h1
    simp only [hlen]
    by_cases hlt : i < xs.length
    · simp [hlt, Outcome.map]
    · simp [hlt, Outcome.map]

/-- a history that ends in the documented panic: both models panic -/
theorem HandleRun.refines_panic {root : Addr} {h h1 : Heap} {ops : List HOp} {bops : List BOp} {d : AMap Node}
    (hrun : HandleRun root h ops bops h1) (hi : Inv h) (hs : SibSep h root) (hrl : root < h.size)
    (hd : abs h root = some (.cont d)) {l v : Addr} {i : Nat} {p : String} (vn : Node) (hp : p ≠ "")
    (hlive : LiveAt h1 root l p) :
    Ytk.Heap.hrun h (ops ++ [.listMustSet l i v]) = .panic ↔ brun d (bops ++ [.listMustSet p i vn]) = .panic := by
  obtain ⟨hi1, _, hrl1, hr1, d1, hb1, hd1⟩ := hrun.refines hi hs hrl hd
  rw [hrun_append ops h h1 _ hr1, brun_append bops d d1 _ hb1]
  have key := hstep_live_mustSet_panic (i := i) (v := v) (vn := vn) hi1 hrl1 hd1 hp hlive
  simp only [Ytk.Heap.hrun, brun]
  constructor
  · intro hh
    have : hstep h1 (.listMustSet l i v) = .panic := by
      cases hs : hstep h1 (.listMustSet l i v) with
      | ok q => rw [hs] at hh; cases hh
      | err => rw [hs] at hh; cases hh
      | panic => rfl
    rw [key.mp this]
  · intro hh
    have : bstep d1 (.listMustSet p i vn) = .panic := by
      cases hs : bstep d1 (.listMustSet p i vn) with
      | ok q => rw [hs] at hh; cases hh
      | err => rw [hs] at hh; cases hh
      | panic => rfl
    rw [key.mpr this]

/-! ### handles are BORN live: what AddContainer / AddList / Child / Lookup on a live handle return is live -/

theorem walkContH_congr {h g : Heap} : ∀ (segs : List String) (y : Addr),
    (∀ b, Reach h y b → g.get? b = h.get? b) → walkContH g y segs = walkContH h y segs
  | [], _, _ => rfl
  | s :: rest, y, hag => by
    simp only [walkContH, contChildH_congr hag s]
    cases hcc : contChildH h y s with
    | none => rfl
    | some x =>
      exact walkContH_congr rest x (fun b hb =>
        hag b ((Ytk.Heap.childH_reach (Ytk.Heap.contChildH_some hcc).1).trans hb))

theorem walkContH_lookup_append {h : Heap} : ∀ (segs : List String) (c x : Addr) (rest : List String),
    walkContH h c segs = some x → rest ≠ [] → lookupSegsH h c (segs ++ rest) = lookupSegsH h x rest
  | [], c, x, rest, hw, _ => by
    simp only [walkContH, Option.some.injEq] at hw
    subst hw
    simp
  | p :: segs, c, x, rest, hw, hne => by
    simp only [walkContH] at hw
    cases hcc : contChildH h c p with
    | none => simp [hcc] at hw
    | some y =>
      simp only [hcc] at hw
      obtain ⟨q, t, hqt⟩ : ∃ q t, segs ++ rest = q :: t := by
        cases hst : segs ++ rest with
        | nil =>
          rw [List.append_eq_nil_iff] at hst
          exact absurd hst.2 hne
        | cons q t => exact ⟨q, t, rfl⟩
      have ih := walkContH_lookup_append segs y x rest hw hne
      rw [List.cons_append, hqt]
      simp only [lookupSegsH, hcc]
      rw [← hqt]
      exact ih

/-- the walk a live CONTAINER handle sits at: `[]` for the root, `splitPath p` otherwise -/
def liveSegs (p : String) : List String := if p = "" then [] else splitPath p

theorem LiveAt.walk {h : Heap} {root x : Addr} {p : String} {kvs : AMap Addr} (hlive : LiveAt h root x p)
    (hg : h.get? x = some (.cont kvs)) : walkContH h root (liveSegs p) = some x := by
  unfold liveSegs
  by_cases hp : p = ""
  · have : x = root := by simpa [LiveAt, hp] using hlive
    simp [hp, walkContH, this]
  · have hl : lookupSegsH h root (splitPath p) = some x := by simpa [LiveAt, hp, lookupH] using hlive
    rw [if_neg hp]
    exact walkContH_of_lookup _ root x kvs hl hg

theorem liveSegs_toPath (p k : String) : liveSegs p ++ splitPath k = splitPath (toPath p k) := by
  unfold liveSegs
  by_cases hp : p = ""
  · simp [hp, toPath]
  · rw [if_neg hp, splitPath_toPath hp]

theorem liveAt_of_lookupSegs {h : Heap} {root y : Addr} {q : String} (hq : q ≠ "")
    (hl : lookupSegsH h root (splitPath q) = some y) : LiveAt h root y q := by
  simp only [LiveAt, if_neg hq, lookupH]
  exact hl

/-- the new cell attached by `x.AddContainer(name)` / `x.AddList(name)` on a live handle is live -/
theorem born_live_new {h h' : Heap} {root x : Addr} {p name : String} {c0 : Cell} (hk : c0.kids = [])
    (hs0 : ∀ kvs, c0 = .cont kvs → AMap.Sorted kvs) (hi : Inv h) (hrl : root < h.size)
    (hlive : LiveAt h root x p) (hdot : '.' ∉ name.toList) (hq : toPath p name ≠ "")
    (he : addH (h.alloc c0).1 x name h.size = some h') : LiveAt h' root h.size (toPath p name) := by
  obtain ⟨rank, hr⟩ := hi.acyclic
  have hle := le_alloc h c0
  have hi1 : Inv (h.alloc c0).1 :=
    ⟨closed_alloc hi.closed (by rw [hk]; intro k hkm; cases hkm), ⟨rank, rankedBy_alloc_empty hr hk⟩,
      mapsOk_alloc hi.mapsOk hs0, nilOk_mono hi.nilOk hle⟩
  obtain ⟨rank1, hr1⟩ := hi1.acyclic
  have hrl1 : root < (h.alloc c0).1.size := Nat.lt_of_lt_of_le hrl (size_le_of_le hle)
  obtain ⟨kvs1, hgx1⟩ := addH_cont he
  have hxl : x < h.size := by
    by_cases hp : p = ""
    · have : x = root := by simpa [LiveAt, hp] using hlive
      rw [this]; exact hrl
    · have hl : lookupSegsH h root (splitPath p) = some x := by simpa [LiveAt, hp, lookupH] using hlive
      obtain ⟨m, hm⟩ := abs_defined hi.closed hi.acyclic hrl
      cases hcell : h.get? root with
      | none => exact absurd (get?_some_of_lt hrl) (by simp [hcell])
      | some cell =>
        cases cell with
        | cont kvs0 =>
          obtain ⟨_, dm, _, rfl⟩ := (show Abs h root m from ⟨_, hm⟩).cont_inv hcell
          exact reach_lt hi.closed (lookupSegsH_abs _ root x dm ⟨_, hm⟩ hl).1 hrl
        | leaf sc =>
          exfalso
          cases hsp : splitPath p with
          | nil => exact Ytk.splitPath_ne_nil p hsp
          | cons a t =>
            rw [hsp] at hl
            cases t with
            | nil => simp [lookupSegsH, childH, hcell] at hl
            | cons b t' => simp [lookupSegsH, contChildH, childH, hcell] at hl
        | list xs0 =>
          exfalso
          cases hsp : splitPath p with
          | nil => exact Ytk.splitPath_ne_nil p hsp
          | cons a t =>
            rw [hsp] at hl
            cases t with
            | nil => simp [lookupSegsH, childH, hcell] at hl
            | cons b t' => simp [lookupSegsH, contChildH, childH, hcell] at hl
  have hgx : h.get? x = some (.cont kvs1) := by rw [← get?_eq_of_le hle hxl]; exact hgx1
  have hw := hlive.walk hgx
  have hw1 : walkContH (h.alloc c0).1 root (liveSegs p) = some x := by
    rw [walkContH_congr (liveSegs p) root (fun b hb => get?_eq_of_le hle (reach_lt hi.closed hb hrl))]
    exact hw
  have he' : addAtSegsH (h.alloc c0).1 root (liveSegs p ++ [name]) h.size = some h' := by
    rw [(walkContH_append h.size (liveSegs p) root x [name] hw1 (by simp)).1]
    simpa only [addAtSegsH] using he
  have hlk := addAtSegsH_lookup hi1.closed hr1 hi1.nilOk hi1.mapsOk
    (show h.size < (h.alloc c0).1.size by rw [size_alloc]; exact Nat.lt_succ_self _)
    (liveSegs p ++ [name]) root h' (by simp) hrl1 he'
  refine liveAt_of_lookupSegs hq ?_
  rw [← liveSegs_toPath, PD.splitPath_plain hdot]
  exact hlk

/-- what `x.Child(name)` / `x.Lookup(q)` on a live container handle return is live -/
theorem born_live_read {h : Heap} {root x y : Addr} {p : String} {kvs : AMap Addr} (hlive : LiveAt h root x p)
    (hg : h.get? x = some (.cont kvs)) (q : String) (hq : toPath p q ≠ "")
    (hl : lookupSegsH h x (splitPath q) = some y) : LiveAt h root y (toPath p q) := by
  refine liveAt_of_lookupSegs hq ?_
  rw [← liveSegs_toPath, walkContH_lookup_append (liveSegs p) root x _ (hlive.walk hg) (Ytk.splitPath_ne_nil q)]
  exact hl

/-! ## 6. sufficient executable checks on concrete heaps (for non-vacuity instances) -/

/-- the list `S` of addresses is closed under children -/
def closedSetB (h : Heap) (S : List Addr) : Bool :=
  S.all fun a =>
    match h.get? a with
    | some c => c.kids.all fun k => S.contains k
    | none => true

theorem reach_mem_of_closedSetB {h : Heap} {S : List Addr} (hS : closedSetB h S = true) {a b : Addr}
    (ha : a ∈ S) (hr : Reach h a b) : b ∈ S := by
  refine Reach.closed_set (fun x => x ∈ S) ?_ hr ha
  intro x c hx hg k hk
  have := List.all_eq_true.mp hS x hx
  simp only [hg] at this
  have hk' := List.all_eq_true.mp this k hk
  simpa using hk'

def leafAtB (h : Heap) (b : Addr) : Bool :=
  match h.get? b with
  | some (.leaf _) => true
  | _ => false

/-- sufficient check for `Apart h x y` via the executable `reach` -/
def apartB (h : Heap) (x y : Addr) : Bool :=
  closedSetB h (reach h x) && closedSetB h (reach h y) &&
    (reach h x).all fun b => !((reach h y).contains b) || leafAtB h b

theorem mem_reach_self (h : Heap) (a : Addr) : a ∈ reach h a := by
  unfold reach
  cases h.size with
  | zero => simp [reachF]
  | succ n => simp [reachF]

theorem apart_of_apartB {h : Heap} {x y : Addr} (hb : apartB h x y = true) : Apart h x y := by
  simp only [apartB, Bool.and_eq_true] at hb
  obtain ⟨⟨hx, hy⟩, hall⟩ := hb
  intro b hxb hyb hcomp
  have hbx := reach_mem_of_closedSetB hx (mem_reach_self h x) hxb
  have hby := reach_mem_of_closedSetB hy (mem_reach_self h y) hyb
  have := List.all_eq_true.mp hall b hbx
  simp only [Bool.or_eq_true, Bool.not_eq_true', List.contains_eq_mem, decide_eq_false_iff_not] at this
  rcases this with hn | hl
  · exact hn hby
  · obtain ⟨cell, hg, hlf⟩ := hcomp
    unfold leafAtB at hl
    rw [hg] at hl
    cases cell with
    | leaf s => simp [Cell.isLeaf] at hlf
    | list xs => simp at hl
    | cont kvs => simp at hl

/-- sufficient check for `SibSep h r` -/
def sibSepB (h : Heap) (r : Addr) : Bool :=
  closedSetB h (reach h r) && (reach h r).all fun a =>
    match h.get? a with
    | some c => (List.range c.kids.length).all fun i => (List.range c.kids.length).all fun j =>
        i == j || match c.kids[i]?, c.kids[j]? with
          | some ki, some kj => apartB h ki kj
          | _, _ => true
    | none => true

theorem sibSep_of_sibSepB {h : Heap} {r : Addr} (hb : sibSepB h r = true) : SibSep h r := by
  simp only [sibSepB, Bool.and_eq_true] at hb
  obtain ⟨hcl, hall⟩ := hb
  intro a c hra hg i j ki kj hi hj hij
  have ha := reach_mem_of_closedSetB hcl (mem_reach_self h r) hra
  have h1 := List.all_eq_true.mp hall a ha
  simp only [hg] at h1
  have hil : i < c.kids.length := (List.getElem?_eq_some_iff.mp hi).1
  have hjl : j < c.kids.length := (List.getElem?_eq_some_iff.mp hj).1
  have h2 := List.all_eq_true.mp (List.all_eq_true.mp h1 i (List.mem_range.mpr hil)) j (List.mem_range.mpr hjl)
  simp only [hi, hj, Bool.or_eq_true, beq_iff_eq] at h2
  rcases h2 with e | h2
  · exact absurd e hij
  · exact apart_of_apartB h2

/-- a leaf value meets every side condition of `HOp.TreeOk` / `HOp.Ok` -/
theorem leaf_value_ok {h : Heap} {v : Addr} {s : Scalar} (hg : h.get? v = some (.leaf s)) (x : Addr) :
    v < h.size ∧ SibSep h v ∧ Apart h x v ∧ ∀ w, Reach h x w → Composite h w → ¬ Reach h v w := by
  refine ⟨get?_lt hg, sibSep_leaf hg, ?_, ?_⟩
  · intro b _ hvb hcomp
    have := reach_leaf hg hvb
    subst this
    exact not_composite_leaf hg hcomp
  · intro w _ hcomp hvw
    have := reach_leaf hg hvw
    subst this
    exact not_composite_leaf hg hcomp

/-! ## 7. overwriting a LIST SLOT through a container call (`AddValue("l[i][j]", v)`) -/

/-- when the walk through the index groups exists, `ensureList` reuses every list on the way and the
    only content change is the last slot of the deepest list -/
theorem setSlotH_along_walk {h : Heap} {rank : Addr → Nat} (hr : h.RankedBy rank) (v y : Addr) :
    ∀ (is : List Nat) (cur : Option Addr), is ≠ [] → walkIdxH h cur is = some y →
      ∃ (a l : Addr) (xs : List Addr) (i : Nat), cur = some a ∧ Reach h a l ∧ h.get? l = some (.list xs) ∧
        xs[i]? = some y ∧ setSlotH h cur is v = (h.write l (.list (xs.set i v)), a)
  | [], _, hne, _ => absurd rfl hne
  | [i], cur, _, hw => by
    cases cur with
    | none => simp [walkIdxH] at hw
    | some a =>
      cases hg : h.get? a with
      | none => simp [walkIdxH, hg] at hw
      | some cell =>
        cases cell with
        | leaf s => simp [walkIdxH, hg] at hw
        | cont kvs => simp [walkIdxH, hg] at hw
        | list xs =>
          simp only [walkIdxH, hg] at hw
          have hlt : i < xs.length := (List.getElem?_eq_some_iff.mp hw).1
          refine ⟨a, a, xs, i, rfl, .refl _, hg, hw, ?_⟩
          simp only [setSlotH, listAt, hg, padH_eq_self (Nat.succ_le_of_lt hlt)]
  | i :: j :: js, cur, _, hw => by
    cases cur with
    | none => simp [walkIdxH] at hw
    | some a =>
      cases hg : h.get? a with
      | none => simp [walkIdxH, hg] at hw
      | some cell =>
        cases cell with
        | leaf s => simp [walkIdxH, hg] at hw
        | cont kvs => simp [walkIdxH, hg] at hw
        | list xs =>
          simp only [walkIdxH, hg] at hw
          obtain ⟨a', l, xs', i', hcur, ha'l, hgl, hy, hset⟩ :=
            setSlotH_along_walk hr v y (j :: js) xs[i]? (by simp) hw
          have hlt : i < xs.length := (List.getElem?_eq_some_iff.mp hcur).1
          have hkid : a' ∈ (Cell.list xs).kids := by simpa [Cell.kids] using List.mem_of_getElem? hcur
          have hal : a ≠ l := fun e => not_reach_parent hr hg hkid (e ▸ ha'l) rfl
          refine ⟨a, l, xs', i', rfl, .step hg hkid ha'l, hgl, hy, ?_⟩
          rw [setSlotH_cons_some i (j :: js) v (show listAt h (some a) = some (a, xs) by simp [listAt, hg])]
          simp only [padH_eq_self (Nat.succ_le_of_lt hlt), hset, set_of_getElem? hcur]
          rw [write_same (by rw [get?_write_ne h _ hal]; exact hg)]

/-- DEEP DETACHMENT, without any reachability condition on the new children (the variant of
    `cell_write_detaches_deep` in YtkProofs/HeapBuilder.lean whose side condition `¬ Reach h k x` is not
    needed): below `root` (a tree), the cell `x` is rewritten so that the slot `sy` that held `y` is gone
    or holds something else — every child of the new cell is an old child from ANOTHER slot, or a node
    that shares no container / list with `y`.  Afterwards `root` and `y` share no container / list. -/
theorem cell_write_detaches_deep' {h : Heap} {rank : Addr → Nat} (hr : h.RankedBy rank) {root x y : Addr}
    (hs : SibSep h root) (hrx : Reach h root x) {cx cx' : Cell} (hg : h.get? x = some cx)
    {sy : Nat} (hsy : cx.kids[sy]? = some y)
    (hk : ∀ k ∈ cx'.kids, (∃ (j : Nat), j ≠ sy ∧ cx.kids[j]? = some k) ∨ Apart h k y) :
    Apart (h.write x cx') root y := by
  have hyk : y ∈ cx.kids := List.mem_of_getElem? hsy
  have hyx : ¬ Reach h y x := fun hr' => not_reach_parent hr hg hyk hr' rfl
  have hxlt := get?_lt hg
  intro b hrb hyb hcomp
  have hyb' : Reach h y b := (reach_write_frame _ hyx).mp hyb
  have hbx : b ≠ x := fun e => hyx (e ▸ hyb')
  have hcomp' : Composite h b := by
    obtain ⟨cell, hgb, hl⟩ := hcomp
    rw [get?_write_ne h _ hbx] at hgb
    exact ⟨cell, hgb, hl⟩
  let S : Addr → Prop := fun a =>
    (Reach h root a ∨ ∃ k ∈ cx'.kids, Apart h k y ∧ Reach h k a) ∧ ¬ (Reach h y a ∧ Composite h a)
  have hroot : S root := ⟨Or.inl (.refl _), fun hh => hyx (hh.1.trans hrx)⟩
  have hclosed : ∀ a cell, S a → (h.write x cx').get? a = some cell → ∀ k ∈ cell.kids, S k := by
    intro a cell hSa hga k hkm
    by_cases hax : a = x
    · subst hax
      rw [get?_write_self h _ hxlt] at hga
      cases Option.some.inj hga
      rcases hk k hkm with ⟨j, hj, hjk⟩ | hnew
      · refine ⟨Or.inl (hrx.trans (.step hg (List.mem_of_getElem? hjk) (.refl _))), ?_⟩
        intro hh
        exact hs a _ hrx hg j sy k y hjk hsy hj k (.refl _) hh.1 hh.2
      · exact ⟨Or.inr ⟨k, hkm, hnew, .refl _⟩, fun hh => hnew k (.refl _) hh.1 hh.2⟩
    · rw [get?_write_ne h _ hax] at hga
      obtain ⟨hside, hnot⟩ := hSa
      refine ⟨?_, fun hh => ?_⟩
      · rcases hside with hside | ⟨p, hp, hnew, hpa⟩
        · exact Or.inl (hside.trans (.step hga hkm (.refl _)))
        · exact Or.inr ⟨p, hp, hnew, hpa.trans (.step hga hkm (.refl _))⟩
      · rcases hside with hside | ⟨p, hp, hnew, hpa⟩
        · obtain ⟨ia, hia⟩ := List.getElem?_of_mem hkm
          rcases reach_last hh.1 with e | ⟨pp, cp, hypp, hgpp, hkpp⟩
          · subst e
            have := (unique_parent hr (rank root) root (Nat.le_refl _) hs a x k cell cx ia sy hside hrx hga hg
              hia hsy hh.2).1
            exact hax this
          · obtain ⟨ip, hip⟩ := List.getElem?_of_mem hkpp
            have hrpp : Reach h root pp := hrx.trans (.step hg hyk hypp)
            have := (unique_parent hr (rank root) root (Nat.le_refl _) hs a pp k cell cp ia ip hside hrpp hga hgpp
              hia hip hh.2).1
            subst this
            refine hnot ⟨hypp, cell, hga, ?_⟩
            cases cell with
            | leaf _ => simp [Cell.kids] at hkm
            | list _ => rfl
            | cont _ => rfl
        · exact hnew k (hpa.trans (.step hga hkm (.refl _))) hh.1 hh.2
  have hSb : S b := Reach.closed_set S hclosed hrb hroot
  exact hSb.2 ⟨hyb', hcomp'⟩

/-- `x.AddValue(last, v)` on a container `x` of a tree-shaped document, for EVERY name (plain or with
    index groups `b[i]…[k]`): the node `y` that `x.Child(last)` returned before is detached from the
    whole document, provided the new node shares no container / list with `y` — nothing else is asked of
    `v`.  With index groups the only content change is the slot of the deepest list. -/
theorem addH_detaches_deep {h h' : Heap} {rank : Addr → Nat} (hr : h.RankedBy rank) (hm : h.MapsOk)
    {root x v y : Addr} (hs : SibSep h root) (hrx : Reach h root x) {last : String}
    (hy : childH h x last = some y) (hvy : Apart h v y) (he : addH h x last v = some h') :
    Apart h' root y := by
  unfold addH at he
  unfold childH at hy
  split at he
  · rename_i kvs hg
    simp only [hg, childKvs] at hy
    cases hp : parseSeg last with
    | mk b is =>
    rw [hp] at hy he
    cases is with
    | nil =>
      simp only [Option.some.injEq] at hy he
      subst he
      obtain ⟨sy, hsy⟩ := List.getElem?_of_mem (AMap.mem_of_get? hy)
      refine cell_write_detaches_deep' (sy := sy) hr hs hrx hg (by simp [Cell.kids, List.getElem?_map, hsy]) ?_
      intro k hkm
      simp only [Cell.kids, List.mem_map] at hkm
      obtain ⟨p, hp', rfl⟩ := hkm
      rcases mem_insert_ne (hm x kvs hg) hp' with ⟨hpk, hpn⟩ | hpv
      · left
        obtain ⟨ip, hip⟩ := List.getElem?_of_mem hpk
        refine ⟨ip, ?_, by simp [Cell.kids, List.getElem?_map, hip]⟩
        intro e; subst e
        rw [hip] at hsy
        exact hpn (by cases hsy; rfl)
      · exact Or.inr (by rw [hpv]; exact hvy)
    | cons i is =>
      simp only at hy he
      obtain ⟨a, l, xs, i', hcur, hal, hgl, hyi, hset⟩ := setSlotH_along_walk hr v y (i :: is) _ (by simp) hy
      rw [hset] at he
      simp only [Option.some.injEq] at he
      have hxl : x ≠ l := by
        intro e; subst e; rw [hg] at hgl; cases hgl
      have hxl' : Reach h x l := .step hg (mem_kids_of_get? hcur) hal
      have hh : h' = h.write l (.list (xs.set i' v)) := by
        rw [← he, Refine.AMap.insert_of_get? (hm x kvs hg) hcur]
        exact write_same (by rw [get?_write_ne h _ hxl]; exact hg)
      rw [hh]
      refine cell_write_detaches_deep' (sy := i') hr hs (hrx.trans hxl') hgl hyi ?_
      intro k hkm
      simp only [Cell.kids] at hkm
      obtain ⟨j, hj⟩ := List.getElem?_of_mem hkm
      by_cases hji : j = i'
      · subst hji
        have hlt : j < xs.length := (List.getElem?_eq_some_iff.mp hyi).1
        rw [List.getElem?_set_self hlt] at hj
        cases hj
        exact Or.inr hvy
      · rw [List.getElem?_set_ne (Ne.symm hji)] at hj
        exact Or.inl ⟨j, hji, hj⟩
  · cases he

/-- DETACHMENT BY A PATH WRITE, every path, no condition on the new node but `Apart h v y` -/
theorem pathwrite_detaches_full {h h' : Heap} {rank : Addr → Nat} (hr : h.RankedBy rank) (hm : h.MapsOk)
    {root x y v : Addr} (hs : SibSep h root) {segs : List String}
    (ha : ancestorH h root segs = some x) (hy : lookupSegsH h root segs = some y) (hvy : Apart h v y)
    (he : addAtSegsH h root segs v = some h') : Apart h' root y := by
  obtain ⟨last, _, h1, _, h3⟩ := ancestorH_spec v segs root x ha
  rw [h1] at he
  rw [h3] at hy
  exact addH_detaches_deep hr hm hs (ancestorH_reach segs root x ha) hy hvy he

end Ytk.Heap
