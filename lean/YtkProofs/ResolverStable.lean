/-
  YtkProofs.ResolverStable — the resolver model under the real `norm` (re-lexing), PER RUN.

  `resolve_terminates_balanced_relex_partial` (YtkProofs/ResolverRelex.lean) asks that NO character
  token of the table values and of the input is the first character of a delimiter — a static
  condition on the whole alphabet.  Here the hypothesis is weakened to what the run itself does:

      `stableRun norm n tbl s seen`  —  every resolved placeholder text `ph'` that the run of
      `resolve norm n tbl s seen` looks up satisfies `norm ph' = ph'`

  (a Boolean with the recursion of `resolve`; it inspects exactly the lookups the run performs and
  nothing else: values that are never substituted, substituted values that never reach a key
  position, and lone delimiter characters that do not glue into a delimiter are all fine).

  * `resolve_eq_id_of_stableRun` : a stable run IS the run of the `norm = id` model (same fuel);
  * `stableRun_fuel_mono`        : once the run has ended, more fuel inspects the same lookups;
  * `stableRun_of_over`          : the static alphabet condition implies stability of every run
                                   (so the old theorem is an instance);
  * `resolves_balanced_stable`   : termination for balanced tables on every eventually-stable run.
-/
import YtkProofs.ResolverRelex

namespace Ytk.Resolver

/-- every text the run `resolve norm n tbl s seen` looks up is a fixed point of `norm` -/
def stableRun (norm : Toks → Toks) : Nat → Table → Toks → List Toks → Bool
  | 0, _, _, _ => true
  | n + 1, tbl, s, seen =>
    match firstPh s with
    | none => true
    | some (_, ph, after) =>
      if seen.contains ph then true
      else
        stableRun norm n tbl ph (seen ++ [ph]) &&
        match resolve norm n tbl ph (seen ++ [ph]) with
        | .ok ph' =>
          (norm ph' == ph') &&
          match resolvePlaceholder tbl (norm ph') with
          | some pv =>
            stableRun norm n tbl pv (seen ++ [ph]) &&
            match resolve norm n tbl pv (seen ++ [ph]) with
            | .ok _ => stableRun norm n tbl after seen
            | _ => true
          | none => stableRun norm n tbl after seen
        | _ => true

variable {norm : Toks → Toks} {tbl : Table}

theorem stableRun_succ_none {s : Toks} (n : Nat) (seen : List Toks) (h : firstPh s = none) :
    stableRun norm (n + 1) tbl s seen = true := by
  simp only [stableRun, h]

theorem stableRun_succ_here {s before ph after : Toks} (n : Nat) {seen : List Toks}
    (h : firstPh s = some (before, ph, after)) (hc : ph ∈ seen) :
    stableRun norm (n + 1) tbl s seen = true := by
  have : seen.contains ph = true := by simpa using hc
  simp only [stableRun, h, this, if_true]

/-- the part of `stableRun` behind the stack test -/
def stableBody (norm : Toks → Toks) (rec : Toks → List Toks → Res) (chk : Toks → List Toks → Bool)
    (tbl : Table) (ph after : Toks) (seen : List Toks) : Bool :=
  chk ph (seen ++ [ph]) &&
    match rec ph (seen ++ [ph]) with
    | .ok ph' =>
      (norm ph' == ph') &&
      match resolvePlaceholder tbl (norm ph') with
      | some pv =>
        chk pv (seen ++ [ph]) &&
        match rec pv (seen ++ [ph]) with
        | .ok _ => chk after seen
        | _ => true
      | none => chk after seen
    | _ => true

theorem stableRun_succ_some {s before ph after : Toks} (n : Nat) {seen : List Toks}
    (h : firstPh s = some (before, ph, after)) (hc : ph ∉ seen) :
    stableRun norm (n + 1) tbl s seen =
      stableBody norm (resolve norm n tbl) (stableRun norm n tbl) tbl ph after seen := by
  have : seen.contains ph = false := by simpa using hc
  simp only [stableRun, h, this, Bool.false_eq_true, if_false]
  rfl

/-! ## a stable run is the run of the `norm = id` model -/

theorem resolve_eq_id_of_stableRun :
    ∀ (n : Nat) (s : Toks) (seen : List Toks), stableRun norm n tbl s seen = true →
      resolve norm n tbl s seen = resolve id n tbl s seen := by
  intro n
  induction n with
  | zero => intro s seen _; rfl
  | succ n ih =>
    intro s seen h
    cases hf : firstPh s with
    | none => rw [resolve_succ_none n seen hf, resolve_succ_none n seen hf]
    | some p =>
      obtain ⟨before, ph, after⟩ := p
      by_cases hc : ph ∈ seen
      · rw [resolve_succ_here n hf hc, resolve_succ_here n hf hc]
      · rw [resolve_succ_some n hf hc, resolve_succ_some n hf hc]
        rw [stableRun_succ_some n hf hc] at h
        unfold stableBody at h
        unfold body
        rw [Bool.and_eq_true] at h
        obtain ⟨h1, h⟩ := h
        rw [← ih _ _ h1]
        cases hr : resolve norm n tbl ph (seen ++ [ph]) with
        | outOfFuel => rfl
        | cycle o => rfl
        | ok ph' =>
          simp only [hr, Bool.and_eq_true, beq_iff_eq] at h ⊢
          obtain ⟨hn, h⟩ := h
          simp only [id, hn] at h ⊢
          cases hp : resolvePlaceholder tbl ph' with
          | none =>
            simp only [hp] at h ⊢
            rw [ih _ _ h]
          | some pv =>
            simp only [hp, Bool.and_eq_true] at h ⊢
            obtain ⟨h2, h⟩ := h
            rw [← ih _ _ h2]
            cases hr2 : resolve norm n tbl pv (seen ++ [ph]) with
            | outOfFuel => rfl
            | cycle o => rfl
            | ok pv' =>
              simp only [hr2] at h ⊢
              rw [ih _ _ h]

/-! ## fuel monotonicity of the check -/

theorem stableRun_fuel_succ :
    ∀ (n : Nat) (s : Toks) (seen : List Toks), resolve norm n tbl s seen ≠ .outOfFuel →
      stableRun norm (n + 1) tbl s seen = stableRun norm n tbl s seen := by
  intro n
  induction n with
  | zero => intro s seen h; simp at h
  | succ n ih =>
    intro s seen h
    cases hf : firstPh s with
    | none => rw [stableRun_succ_none _ seen hf, stableRun_succ_none _ seen hf]
    | some p =>
      obtain ⟨before, ph, after⟩ := p
      by_cases hc : ph ∈ seen
      · rw [stableRun_succ_here _ hf hc, stableRun_succ_here _ hf hc]
      · rw [stableRun_succ_some _ hf hc, stableRun_succ_some _ hf hc]
        rw [resolve_succ_some n hf hc] at h
        unfold body at h
        unfold stableBody
        cases hr : resolve norm n tbl ph (seen ++ [ph]) with
        | outOfFuel => simp [hr] at h
        | cycle o =>
          rw [resolve_fuel_succ norm tbl n _ _ (by rw [hr]; simp), hr, ih _ _ (by rw [hr]; simp)]
        | ok ph' =>
          rw [resolve_fuel_succ norm tbl n _ _ (by rw [hr]; simp), hr, ih _ _ (by rw [hr]; simp)]
          simp only [hr] at h ⊢
          cases hp : resolvePlaceholder tbl (norm ph') with
          | none =>
            simp only [hp] at h ⊢
            rw [ih _ _ (prepend_ne_outOfFuel.mp h)]
          | some pv =>
            simp only [hp] at h ⊢
            cases hr2 : resolve norm n tbl pv (seen ++ [ph]) with
            | outOfFuel => simp [hr2] at h
            | cycle o =>
              rw [resolve_fuel_succ norm tbl n _ _ (by rw [hr2]; simp), hr2, ih _ _ (by rw [hr2]; simp)]
            | ok pv' =>
              rw [resolve_fuel_succ norm tbl n _ _ (by rw [hr2]; simp), hr2, ih _ _ (by rw [hr2]; simp)]
              simp only [hr2] at h ⊢
              rw [ih _ _ (prepend_ne_outOfFuel.mp h)]

/-- once the run has ended, more fuel inspects the same lookups -/
theorem stableRun_fuel_mono {n m : Nat} (hnm : n ≤ m) (s : Toks) (seen : List Toks)
    (h : resolve norm n tbl s seen ≠ .outOfFuel) :
    stableRun norm m tbl s seen = stableRun norm n tbl s seen := by
  induction hnm with
  | refl => rfl
  | step hle ih =>
    rw [stableRun_fuel_succ _ s seen (by rw [resolve_fuel_mono norm tbl hle s seen h]; exact h), ih]

/-- less fuel inspects fewer lookups -/
theorem stableRun_fuel_pred :
    ∀ (n : Nat) (s : Toks) (seen : List Toks), stableRun norm (n + 1) tbl s seen = true →
      stableRun norm n tbl s seen = true := by
  intro n
  induction n with
  | zero => intro s seen _; rfl
  | succ n ih =>
    intro s seen h
    cases hf : firstPh s with
    | none => exact stableRun_succ_none _ seen hf
    | some p =>
      obtain ⟨before, ph, after⟩ := p
      by_cases hc : ph ∈ seen
      · exact stableRun_succ_here _ hf hc
      · rw [stableRun_succ_some _ hf hc] at h ⊢
        unfold stableBody at h ⊢
        rw [Bool.and_eq_true] at h ⊢
        obtain ⟨h1, h⟩ := h
        refine ⟨ih _ _ h1, ?_⟩
        cases hr : resolve norm n tbl ph (seen ++ [ph]) with
        | outOfFuel => rfl
        | cycle o => rfl
        | ok ph' =>
          rw [resolve_fuel_succ norm tbl n _ _ (by rw [hr]; simp), hr] at h
          simp only [Bool.and_eq_true] at h ⊢
          obtain ⟨hn, h⟩ := h
          refine ⟨hn, ?_⟩
          cases hp : resolvePlaceholder tbl (norm ph') with
          | none =>
            simp only [hp] at h ⊢
            exact ih _ _ h
          | some pv =>
            simp only [hp, Bool.and_eq_true] at h ⊢
            obtain ⟨h2, h⟩ := h
            refine ⟨ih _ _ h2, ?_⟩
            cases hr2 : resolve norm n tbl pv (seen ++ [ph]) with
            | outOfFuel => rfl
            | cycle o => rfl
            | ok pv' =>
              rw [resolve_fuel_succ norm tbl n _ _ (by rw [hr2]; simp), hr2] at h
              exact ih _ _ h

theorem stableRun_fuel_anti {n m : Nat} (hnm : n ≤ m) (s : Toks) (seen : List Toks)
    (h : stableRun norm m tbl s seen = true) : stableRun norm n tbl s seen = true := by
  induction hnm with
  | refl => exact h
  | step hle ih => exact ih (stableRun_fuel_pred _ s seen h)

/-- ONE run that ends and is stable: the check holds for every fuel -/
theorem stableRun_all_of_run {n : Nat} {s : Toks} {seen : List Toks}
    (hn : resolve norm n tbl s seen ≠ .outOfFuel) (h : stableRun norm n tbl s seen = true) :
    ∀ m, stableRun norm m tbl s seen = true := by
  intro m
  rcases Nat.le_total n m with hle | hle
  · rw [stableRun_fuel_mono hle s seen hn]; exact h
  · exact stableRun_fuel_anti hle s seen h

/-! ## the static alphabet condition implies stability of every run -/

theorem stableRun_of_over {A : Tok → Prop} (hA : ∀ t, Over A t → norm t = t)
    (hT : ∀ kv ∈ tbl, Over A kv.2) :
    ∀ (n : Nat) (s : Toks) (seen : List Toks), Over A s → stableRun norm n tbl s seen = true := by
  intro n
  induction n with
  | zero => intro s seen _; rfl
  | succ n ih =>
    intro s seen hs
    cases hf : firstPh s with
    | none => exact stableRun_succ_none _ seen hf
    | some p =>
      obtain ⟨before, ph, after⟩ := p
      by_cases hc : ph ∈ seen
      · exact stableRun_succ_here _ hf hc
      · obtain ⟨hse, _, _⟩ := firstPh_eq hf
        rw [hse] at hs
        have hph : Over A ph := hs.right.tail.left
        have hafter : Over A after := hs.right.tail.right.tail
        rw [stableRun_succ_some _ hf hc]
        unfold stableBody
        rw [Bool.and_eq_true]
        refine ⟨ih _ _ hph, ?_⟩
        obtain ⟨e1, o1⟩ := resolve_norm_eq_id hA hT n ph (seen ++ [ph]) hph
        cases hr : resolve norm n tbl ph (seen ++ [ph]) with
        | outOfFuel => rfl
        | cycle o => rfl
        | ok ph' =>
          have hph' : Over A ph' := o1 ph' (by rw [← e1]; exact hr)
          simp only [Bool.and_eq_true, beq_iff_eq]
          refine ⟨hA ph' hph', ?_⟩
          rw [hA ph' hph']
          cases hp : resolvePlaceholder tbl ph' with
          | none => exact ih _ _ hafter
          | some pv =>
            have hpv : Over A pv := over_value hT hph' hp
            simp only [Bool.and_eq_true]
            refine ⟨ih _ _ hpv, ?_⟩
            cases hr2 : resolve norm n tbl pv (seen ++ [ph]) with
            | outOfFuel => rfl
            | cycle o => rfl
            | ok pv' => exact ih _ _ hafter

/-! ## termination for balanced tables on stable runs -/

/-- a run of the model under `norm` that is stable from some fuel on ends with the result of the
    `norm = id` model — for delimiter-balanced tables that is: it ENDS (any input, any stack) -/
theorem resolves_balanced_stable (hb : ∀ kv ∈ tbl, Balanced kv.2) (s : Toks) (seen : List Toks)
    (hst : ∃ n0, ∀ n, n0 ≤ n → stableRun norm n tbl s seen = true) :
    ∃ r, Resolves norm tbl s seen r ∧ Resolves id tbl s seen r := by
  obtain ⟨r, n, hn, hr⟩ := resolves_balanced tbl hb s seen
  obtain ⟨n0, h0⟩ := hst
  have hid : resolve id (max n n0) tbl s seen = r := by
    rw [resolve_fuel_mono id tbl (Nat.le_max_left n n0) s seen (by rw [hn]; exact hr), hn]
  refine ⟨r, ⟨max n n0, ?_, hr⟩, ⟨n, hn, hr⟩⟩
  rw [resolve_eq_id_of_stableRun _ s seen (h0 _ (Nat.le_max_right n n0)), hid]

/-- on an eventually-stable run the big-step reading does not depend on `norm` (any table) -/
theorem resolves_norm_iff_id_of_stable {s : Toks} {seen : List Toks}
    (hst : ∃ n0, ∀ n, n0 ≤ n → stableRun norm n tbl s seen = true) (r : Res) :
    Resolves norm tbl s seen r ↔ Resolves id tbl s seen r := by
  obtain ⟨n0, h0⟩ := hst
  constructor
  · rintro ⟨n, hn, hne⟩
    refine ⟨max n n0, ?_, hne⟩
    rw [← resolve_eq_id_of_stableRun _ s seen (h0 _ (Nat.le_max_right n n0)),
      resolve_fuel_mono norm tbl (Nat.le_max_left n n0) s seen (by rw [hn]; exact hne), hn]
  · rintro ⟨n, hn, hne⟩
    refine ⟨max n n0, ?_, hne⟩
    rw [resolve_eq_id_of_stableRun _ s seen (h0 _ (Nat.le_max_right n n0)),
      resolve_fuel_mono id tbl (Nat.le_max_left n n0) s seen (by rw [hn]; exact hne), hn]

end Ytk.Resolver
