/-
  YtkProofs.FuncsDomBuilder — the regenerated translation of the ListBuilder methods of dom/list.go (Append, Clear,
  MustSet, Set: they mutate their receiver and return it; the receiver is the threaded value) in
  YtkModel/Generated/FuncsDom.lean EQUALS the hand-written list primitives of YtkModel/Dom.lean (`listAppend`,
  `listMustSet`, `listSet`) — the definitions behind the DomPrelude primitives `GoDom.append` / `GoDom.set` that the
  other translated functions call.  Restated in YtkProps/C03.lean.
-/
import YtkModel.Generated.FuncsDom
import YtkProofs.FuncsLemmas

set_option linter.unusedSimpArgs false

namespace Ytk.FuncsDomBuilder
open Ytk Ytk.Generated

/-- a model `Outcome` (no error case arises here) as a result of the translation -/
def resOf {α : Type} : Outcome α → Go.Res α
  | .ok a => .ok a
  | _ => .panic

theorem listBuilderAppend_generated_eq_model (l : List Node) (x : Node) :
    FuncsDom.listBuilderAppend l x = .ok (GoDom.append l x) := rfl

theorem listBuilderClear_generated_eq_model (l : List Node) : FuncsDom.listBuilderClear l = .ok [] := rfl

theorem listBuilderMustSet_generated_eq_model (l : List Node) (i : Nat) (x : Node) :
    FuncsDom.listBuilderMustSet l i x = resOf (listMustSet l i x) := by
  simp only [FuncsDom.listBuilderMustSet, GoDom.items, Go.lenL, listMustSet, GoDom.setItemAt, Int.ofNat_eq_natCast]
  by_cases h : i < l.length
  · have : ¬ ((i : Int) > (l.length : Int) - 1) := by omega
    simp only [this, decide_false, Bool.false_eq_true, if_false, h, if_true, Go.Res.ok_bind, Go.Res.pure_eq, resOf]
  · have : ((i : Int) > (l.length : Int) - 1) := by omega
    simp only [this, decide_true, if_true, h, if_false, resOf]

theorem padTo_append_null (l : List Node) (n : Nat) (h : l.length < n) :
    padTo (l ++ [Node.null]) n = padTo l n := by
  simp only [padTo, List.length_append, List.length_cons, List.length_nil, List.append_assoc]
  congr 1
  have : n - l.length = (n - (l.length + 0 + 1)) + 1 := by omega
  rw [this, List.replicate_succ]
  simp

theorem padTo_of_le (l : List Node) (n : Nat) (h : n ≤ l.length) : padTo l n = l := by
  have : n - l.length = 0 := by omega
  simp [padTo, this]

theorem natCast_succ' (i : Nat) : ((i : Int) + 1) = ((i + 1 : Nat) : Int) := by omega

theorem set_loop_eq (index : Nat) : ∀ (fuel : Nat) (l : List Node) (j : Nat), j ≤ l.length → j ≤ index + 1 →
    index + 1 - j < fuel →
    FuncsDom.listBuilderSet_loop1 index fuel l (j : Int) = .ok (padTo l (index + 1), ((index + 1 : Nat) : Int)) := by
  intro fuel
  induction fuel with
  | zero => intro l j _ _ h; omega
  | succ fuel ih =>
    intro l j hj hi hf
    simp only [FuncsDom.listBuilderSet_loop1, GoDom.items, Go.lenL, Int.ofNat_eq_natCast]
    by_cases h : j ≤ index
    · have h1 : ((j : Int) ≤ (index : Int)) := by omega
      simp only [h1, decide_true, if_true]
      by_cases h2 : j < l.length
      · have : ¬ ((j : Int) > (l.length : Int) - 1) := by omega
        simp only [this, decide_false, Bool.false_eq_true, if_false, natCast_succ']
        exact ih l (j + 1) (by omega) (by omega) (by omega)
      · have : ((j : Int) > (l.length : Int) - 1) := by omega
        have e : j = l.length := by omega
        simp only [this, decide_true, if_true, listBuilderAppend_generated_eq_model, Go.Res.ok_bind, GoDom.append,
          listAppend, natCast_succ']
        have := ih (l ++ [Node.leaf GoDom.nilLeaf]) (j + 1) (by simp; omega) (by omega) (by omega)
        rw [this]
        congr 2
        exact padTo_append_null l (index + 1) (by omega)
    · have h1 : ¬ ((j : Int) ≤ (index : Int)) := by omega
      have e : j = index + 1 := by omega
      simp only [h1, decide_false, Bool.false_eq_true, if_false, Go.Res.pure_eq]
      rw [padTo_of_le l (index + 1) (by omega), e]

/-- ListBuilder.Set(index, item): pad with nil leaves up to the index, then overwrite — the model's `listSet` -/
theorem listBuilderSet_generated_eq_model (l : List Node) (i : Nat) (x : Node) :
    FuncsDom.listBuilderSet l i x = .ok (GoDom.set l i x) := by
  have h := set_loop_eq i (i + 2) l 0 (by omega) (by omega) (by omega)
  have e : (Int.ofNat i + 2).toNat = i + 2 := by simp only [Int.ofNat_eq_natCast]; omega
  simp only [Int.natCast_zero] at h
  simp only [FuncsDom.listBuilderSet, e, h, Go.Res.ok_bind, GoDom.setItemAt, GoDom.set, listSet]
  have : i < (padTo l (i + 1)).length := by simp [padTo]; omega
  simp [this]

theorem ListNode_loop_eq : ∀ (items l : List Node), FuncsDom.ListNode_loop1 items l = .ok (l ++ items) := by
  intro items
  induction items with
  | nil => intro l; simp [FuncsDom.ListNode_loop1]
  | cons x rest ih =>
    intro l
    simp only [FuncsDom.ListNode_loop1, listBuilderAppend_generated_eq_model, Go.Res.ok_bind, GoDom.append, listAppend, ih]
    simp

/-- dom.ListNode(items...) is the list of its arguments -/
theorem ListNode_generated_eq_model (items : List Node) : FuncsDom.ListNode items = .ok items := by
  simp [FuncsDom.ListNode, ListNode_loop_eq, GoDom.newList]

/-- ContainerBuilder.Remove(name): `delete(c.children, name)` — the model's `remove` -/
theorem containerBuilderRemove_generated_eq_model (c : AMap Node) (name : String) :
    FuncsDom.containerBuilderRemove c name = .ok (GoDom.remove c name) := rfl

end Ytk.FuncsDomBuilder
