/-
  YtkProofs.FuncsDomCodec — the regenerated translation of the encoders of dom/codec.go (encodeLeafFn,
  encodeListFn, encodeContainerFn; AsMap, AsSlice, DefaultNodeEncoderFn / DefaultNodeMappingFn on top) in
  YtkModel/Generated/FuncsDom.lean EQUALS the hand-written model `encodeNode / encodeList / encodeKvs`
  (YtkModel/Codec.lean) on every node in the model's representation of Go maps.  Restated in YtkProps/C01.lean.
-/
import YtkModel.Generated.FuncsDom
import YtkModel.Codec
import YtkProofs.FuncsLemmas
import YtkProofs.PlainSpec
import YtkProofs.Props

set_option linter.unusedSimpArgs false

namespace Ytk.FuncsDomCodec
open Ytk Ytk.Generated

theorem set_mid (pre : List Val) (f v : Val) (tl : List Val) :
    GoDom.plainListSet (pre ++ f :: tl) (pre.length : Int) v = .ok (pre ++ v :: tl) := by
  have h : (0 : Int) ≤ (pre.length : Int) ∧ pre.length < (pre ++ f :: tl).length := by
    constructor
    · omega
    · simp
  simp only [GoDom.plainListSet, Int.toNat_natCast, h, and_self, if_true]
  congr 1
  simp [List.set_append]

theorem natCast_succ' (i : Nat) : ((i : Int) + 1) = ((i + 1 : Nat) : Int) := by omega

section loops
variable (rc : GoDom.Container → Go.Res (List (String × Val))) (rl : GoDom.DList → Go.Res (List Val)) (N : Nat)
  (hrc : ∀ c, (Node.cont c).WF → Node.sizeKvs c < N → rc c = .ok (encodeKvs c))
  (hrl : ∀ l, (Node.list l).WF → Node.sizeList l < N → rl l = .ok (encodeList l))

include hrc hrl in
theorem encodeList_loop_eq : ∀ (xs : List Node) (pre fill suf : List Val), (∀ x ∈ xs, x.WF) →
    Node.sizeList xs ≤ N → fill.length = xs.length →
    FuncsDom.encodeListFn_loop1 rc rl xs (pre.length : Int) (pre ++ fill ++ suf) = .ok (pre ++ encodeList xs ++ suf) := by
  intro xs
  induction xs with
  | nil =>
    intro pre fill suf _ _ hf
    have : fill = [] := List.eq_nil_of_length_eq_zero (by simpa using hf)
    subst this
    simp [FuncsDom.encodeListFn_loop1, encodeList]
  | cons x rest ih =>
    intro pre fill suf hw hs hf
    obtain ⟨f, fill', rfl⟩ : ∃ f fill', fill = f :: fill' := by
      cases fill with
      | nil => simp at hf
      | cons f t => exact ⟨f, t, rfl⟩
    have hf' : fill'.length = rest.length := by simpa using hf
    have hsz : x.size + Node.sizeList rest = Node.sizeList (x :: rest) := by simp [Node.sizeList]
    have hwr : ∀ y ∈ rest, y.WF := fun y hy => hw y (List.mem_cons_of_mem _ hy)
    have hwx : x.WF := hw x (List.mem_cons_self ..)
    have e1 : pre ++ f :: fill' ++ suf = pre ++ f :: (fill' ++ suf) := by simp
    have step : ∀ v : Val,
        FuncsDom.encodeListFn_loop1 rc rl rest (((pre.length + 1 : Nat)) : Int) (pre ++ v :: (fill' ++ suf))
          = .ok (pre ++ v :: encodeList rest ++ suf) := by
      intro v
      have := ih (pre ++ [v]) fill' suf hwr (by omega) hf'
      simpa [List.append_assoc] using this
    cases x with
    | cont c =>
      have hc : Node.sizeKvs c < N := by simp only [Node.size] at hsz; omega
      simp only [FuncsDom.encodeListFn_loop1, GoDom.isContainer, GoDom.isList, Node.isCont, Node.isList, Bool.false_eq_true, if_false, if_true, GoDom.asContainer, GoDom.asList, GoDom.asLeaf, Go.Res.ok_bind,
        hrc c hwx hc, e1, set_mid, natCast_succ', step, encodeList, encodeNode]
    | list l =>
      have hl : Node.sizeList l < N := by simp only [Node.size] at hsz; omega
      simp only [FuncsDom.encodeListFn_loop1, GoDom.isContainer, GoDom.isList, Node.isCont, Node.isList, Bool.false_eq_true, if_false, if_true, GoDom.asContainer, GoDom.asList, GoDom.asLeaf, Go.Res.ok_bind,
        hrl l hwx hl, e1, set_mid, natCast_succ', step, encodeList, encodeNode]
    | leaf s =>
      simp only [FuncsDom.encodeListFn_loop1, GoDom.isContainer, GoDom.isList, Node.isCont, Node.isList, Bool.false_eq_true, if_false, if_true, GoDom.asContainer, GoDom.asList, GoDom.asLeaf, Go.Res.ok_bind,
        FuncsDom.encodeLeafFn, GoDom.value, Go.Res.pure_eq, e1, set_mid, natCast_succ', step, encodeList, encodeNode]

include hrc hrl in
theorem encodeContainer_loop_eq : ∀ (kvs : List (String × Node)) (acc : AMap Node), (∀ p ∈ kvs, p.2.WF) →
    Node.sizeKvs kvs ≤ N →
    FuncsDom.encodeContainerFn_loop1 rc rl kvs (encodeKvs acc)
      = .ok (encodeKvs (kvs.foldl (fun m p => AMap.insert m p.1 p.2) acc)) := by
  intro kvs
  induction kvs with
  | nil => intro acc _ _; simp [FuncsDom.encodeContainerFn_loop1]
  | cons q rest ih =>
    intro acc hw hs
    obtain ⟨k, x⟩ := q
    have hsz : x.size + Node.sizeKvs rest = Node.sizeKvs ((k, x) :: rest) := by simp [Node.sizeKvs]
    have hwr : ∀ y ∈ rest, y.2.WF := fun y hy => hw y (List.mem_cons_of_mem _ hy)
    have hwx : x.WF := hw (k, x) (List.mem_cons_self ..)
    have step : ∀ v : Node, GoDom.plainMapSet (encodeKvs acc) k (encodeNode v) = encodeKvs (AMap.insert acc k v) := by
      intro v; simp [GoDom.plainMapSet, encodeKvs_insert]
    cases x with
    | cont c =>
      have hc : Node.sizeKvs c < N := by simp only [Node.size] at hsz; omega
      have := step (.cont c)
      simp only [encodeNode] at this
      simp only [FuncsDom.encodeContainerFn_loop1, GoDom.isContainer, GoDom.isList, Node.isCont, Node.isList, Bool.false_eq_true, if_false, if_true, GoDom.asContainer, GoDom.asList, GoDom.asLeaf, Go.Res.ok_bind,
        hrc c hwx hc, this, ih _ hwr (by omega), List.foldl_cons]
    | list l =>
      have hl : Node.sizeList l < N := by simp only [Node.size] at hsz; omega
      have := step (.list l)
      simp only [encodeNode] at this
      simp only [FuncsDom.encodeContainerFn_loop1, GoDom.isContainer, GoDom.isList, Node.isCont, Node.isList, Bool.false_eq_true, if_false, if_true, GoDom.asContainer, GoDom.asList, GoDom.asLeaf, Go.Res.ok_bind,
        hrl l hwx hl, this, ih _ hwr (by omega), List.foldl_cons]
    | leaf s =>
      have := step (.leaf s)
      simp only [encodeNode] at this
      simp only [FuncsDom.encodeContainerFn_loop1, GoDom.isContainer, GoDom.isList, Node.isCont, Node.isList, Bool.false_eq_true, if_false, if_true, GoDom.asContainer, GoDom.asList, GoDom.asLeaf, Go.Res.ok_bind,
        FuncsDom.encodeLeafFn, GoDom.value, Go.Res.pure_eq, this, ih _ hwr (by omega), List.foldl_cons]
end loops

theorem encode_rec_eq : ∀ (fuel : Nat),
    (∀ c, (Node.cont c).WF → Node.sizeKvs c < fuel → FuncsDom.encodeContainerFn_rec fuel c = .ok (encodeKvs c)) ∧
    (∀ l, (Node.list l).WF → Node.sizeList l < fuel → FuncsDom.encodeListFn_rec fuel l = .ok (encodeList l)) := by
  intro fuel
  induction fuel with
  | zero => exact ⟨fun _ _ h => by omega, fun _ _ h => by omega⟩
  | succ fuel ih =>
    refine ⟨fun c hw h => ?_, fun l hw h => ?_⟩
    · have hv : ∀ p ∈ c, p.2.WF := by cases hw with | cont _ hall => exact hall
      have := encodeContainer_loop_eq _ _ fuel ih.1 ih.2 c [] hv (by omega)
      simp only [encodeKvs] at this
      simp only [FuncsDom.encodeContainerFn_rec, GoDom.newPlainMap, GoDom.children, this, Go.Res.ok_bind, Go.Res.pure_eq]
      have e : List.foldl (fun m p => AMap.insert m p.1 p.2) [] c = c := Ytk.Props.ofList_sorted hw.sorted
      rw [e]
    · have hv : ∀ x ∈ l, x.WF := by cases hw with | list hall => exact hall
      have := encodeList_loop_eq _ _ fuel ih.1 ih.2 l [] (List.replicate l.length Val.null) [] hv (by omega) (by simp)
      simp only [List.length_nil, Int.natCast_zero, List.nil_append, List.append_nil] at this
      simp only [FuncsDom.encodeListFn_rec, GoDom.makePlainList, GoDom.size, GoDom.items, Int.toNat_natCast, this,
        Go.Res.ok_bind, Go.Res.pure_eq]

theorem encodeContainerFn_generated_eq_model (c : AMap Node) (h : (Node.cont c).WF) :
    FuncsDom.encodeContainerFn c = .ok (encodeKvs c) :=
  (encode_rec_eq _).1 c h (by simp [GoDom.sizeC])

theorem encodeListFn_generated_eq_model (l : List Node) (h : (Node.list l).WF) :
    FuncsDom.encodeListFn l = .ok (encodeList l) :=
  (encode_rec_eq _).2 l h (by simp [GoDom.sizeL])

theorem containerAsMap_generated_eq_model (c : AMap Node) (h : (Node.cont c).WF) :
    FuncsDom.containerAsMap c = .ok (asMap c) := by
  simp [FuncsDom.containerAsMap, encodeContainerFn_generated_eq_model c h, asMap]

theorem listAsSlice_generated_eq_model (l : List Node) (h : (Node.list l).WF) :
    FuncsDom.listAsSlice l = .ok (encodeList l) := by
  simp [FuncsDom.listAsSlice, encodeListFn_generated_eq_model l h]

theorem DefaultNodeEncoderFn_generated_eq_model (c : AMap Node) (h : (Node.cont c).WF) :
    FuncsDom.DefaultNodeEncoderFn c = .ok (encodeNode (.cont c)) := by
  simp [FuncsDom.DefaultNodeEncoderFn, FuncsDom.DefaultNodeMappingFn, encodeContainerFn_generated_eq_model c h, encodeNode]

end Ytk.FuncsDomCodec
