/-
  YtkProofs.GapAnalyticsResolve — the placeholder report (C19) instantiated with the resolver
  model (C11): what `resolveOr merged` does to a value, in terms of `Resolver.resolveTop`; a value
  that is exactly one placeholder `${u}` with a plain unknown key `u` is resolved to itself
  (uses the C11 theorems `resolve_one`, `resolve_noPre`, `resolvePlaceholder_none`, `unlex_lex`).
-/
import YtkModel.GapAnalyticsResolve
import YtkProofs.GapAnalytics
import YtkProofs.GapResolverStr
import YtkProps.C11

namespace Ytk.Analytics
open Ytk.Resolver

/-- `s` is a fixed point of `resolveOr merged` iff the C11 run on the lexed `s` does not end
    with a DIFFERENT text (it ends with a token list rendering to `s`, or is circular / out of fuel) -/
theorem resolveOr_fix_iff (merged : Flat) (s : String) :
    (s == resolveOr merged s) = true ↔
      ∀ t, resolveTop (relex defaultDelims) 400 (mergedTable merged) (lex defaultDelims s.toList) = .ok t →
        unlex defaultDelims t = s.toList := by
  simp only [beq_iff_eq, resolveOr, resolveStr]
  cases h : resolveTop (relex defaultDelims) 400 (mergedTable merged) (lex defaultDelims s.toList) with
  | ok t =>
    simp only [Option.getD_some, Res.ok.injEq, forall_eq']
    constructor
    · intro e; rw [e, String.toList_ofList]
    · intro e; rw [e, String.ofList_toList]
  | cycle o => simp
  | outOfFuel => simp

theorem defaultDelims_eq : defaultDelims = ⟨['$', '{'], ['}'], [':']⟩ := by decide

theorem defaultDelims_lexOK : defaultDelims.LexOK := by decide

theorem unlex_map_ch (d : Delims) (l : List Char) : unlex d (l.map .ch) = l := by
  induction l with
  | nil => rfl
  | cons c l ih => simp [unlex, unlexTok, ih]

/-- the lexer is injective (every delimiter triple): different strings have different token lists -/
theorem lex_injective (d : Delims) {a b : List Char} (h : lex d a = lex d b) : a = b := by
  rw [← unlex_lex' d a, h, unlex_lex']

theorem table_get_none {tbl : Table} {x : Toks} (h : ∀ kv ∈ tbl, kv.1 ≠ x) : tbl.get x = none := by
  induction tbl with
  | nil => rfl
  | cons kv r ih =>
    obtain ⟨k, v⟩ := kv
    simp only [Table.get]
    rw [if_neg (fun e => h (k, v) (List.mem_cons_self ..) e.symm)]
    exact ih fun kv hkv => h kv (List.mem_cons_of_mem _ hkv)

/-- a key text without any of the characters `$`, `}`, `:` (every path-safe key) -/
def PlainKey (u : List Char) : Prop := ∀ c ∈ u, c ≠ '$' ∧ c ≠ '}' ∧ c ≠ ':'

instance (u : List Char) : Decidable (PlainKey u) := inferInstanceAs (Decidable (∀ c ∈ u, _))

theorem plain_clean {u : List Char} (hu : PlainKey u) : Over (CleanTok defaultDelims) (u.map .ch) := by
  intro x hx
  obtain ⟨c, hc, rfl⟩ := List.mem_map.mp hx
  obtain ⟨h1, h2, h3⟩ := hu c hc
  rw [defaultDelims_eq]
  simp [CleanTok, Delims.firsts, h1, h2, h3]

theorem lex_plain {u : List Char} (hu : PlainKey u) : lex defaultDelims u = u.map .ch := by
  have := relex_clean defaultDelims_lexOK _ (plain_clean hu)
  rwa [relex, unlex_map_ch] at this

/-- `${u}` for a plain `u` is lexed to prefix, the characters of `u`, suffix -/
theorem lex_single {u : List Char} (hu : PlainKey u) :
    lex defaultDelims ("${".toList ++ u ++ "}".toList) = .pre :: (u.map .ch ++ [.suf]) := by
  have hc : Over (CleanTok defaultDelims) (.pre :: (u.map .ch ++ [.suf])) :=
    .cons trivial ((plain_clean hu).append (.cons trivial (fun _ h => by cases h)))
  have := relex_clean defaultDelims_lexOK _ hc
  rw [relex] at this
  rw [← this]
  congr 1
  show _ = defaultDelims.pre ++ unlex defaultDelims (u.map .ch ++ [.suf])
  rw [DivR.unlex_append, unlex_map_ch]
  simp [unlex, unlexTok, defaultDelims]

/-- C11 on a single unresolvable placeholder: `${u}` with a plain key `u` that is no key of the
    merged document stays verbatim (every fuel ≥ 2) -/
theorem resolveTop_single_unresolvable (merged : Flat) {u : List Char} (hu : PlainKey u)
    (hnk : ∀ kv ∈ merged, kv.1.toList ≠ u) (n : Nat) :
    resolveTop (relex defaultDelims) (n + 2) (mergedTable merged) (lex defaultDelims ("${".toList ++ u ++ "}".toList)) =
      .ok (lex defaultDelims ("${".toList ++ u ++ "}".toList)) := by
  rw [lex_single hu]
  have hclean := plain_clean hu
  have hno : ∀ t : Tok, (∀ c, t ≠ .ch c) → t ∉ u.map Tok.ch := by
    intro t ht hm
    obtain ⟨c, _, rfl⟩ := List.mem_map.mp hm
    exact ht c rfl
  have hpre : Tok.pre ∉ u.map Tok.ch := hno _ (fun _ => by simp)
  have hsuf : Tok.suf ∉ u.map Tok.ch := hno _ (fun _ => by simp)
  have hsep : Tok.sep ∉ u.map Tok.ch := hno _ (fun _ => by simp)
  have hget : (mergedTable merged).get (u.map .ch) = none := by
    apply table_get_none
    intro kv hkv e
    obtain ⟨kv', hkv', rfl⟩ := List.mem_map.mp hkv
    rw [← lex_plain hu] at e
    exact hnk kv' hkv' (lex_injective _ e)
  have h := C11.resolve_one (relex defaultDelims) (mergedTable merged) (n + 1) [] (u.map .ch) [] []
    (by simp) (C11.resolve_one_flat_hyp _ _ hpre hsuf)
  simp only [C11.resolve_noPre _ _ n _ _ hpre, relex_clean defaultDelims_lexOK _ hclean,
    C11.resolvePlaceholder_none _ hsep hget, C11.resolve_noPre (relex defaultDelims) (mergedTable merged) n [] []
      (by simp), List.nil_append, List.contains_nil, Bool.false_eq_true, if_false, Res.prepend,
    List.append_nil, List.cons_append] at h
  exact h

end Ytk.Analytics
