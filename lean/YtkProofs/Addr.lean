/- Flatten counts scalar positions; rebuild keeps validity. -/
import YtkModel.Addr
import YtkProofs.Builder

namespace Ytk

mutual
theorem flattenNode_length : ∀ (n : Node) (p : String), (flattenNode n p).length = Node.scalarCount n
  | .leaf _, _ => rfl
  | .list xs, p => by simp only [flattenNode, Node.scalarCount]; exact flattenList_length xs p 0
  | .cont kvs, p => by simp only [flattenNode, Node.scalarCount]; exact flattenKvs_length kvs p
theorem flattenList_length : ∀ (xs : List Node) (p : String) (i : Nat), (flattenList xs p i).length = Node.scalarCountList xs
  | [], _, _ => rfl
  | x :: xs, p, i => by
    simp only [flattenList, Node.scalarCountList, List.length_append, flattenNode_length x, flattenList_length xs]
theorem flattenKvs_length : ∀ (kvs : List (String × Node)) (p : String), (flattenKvs kvs p).length = Node.scalarCountKvs kvs
  | [], _ => rfl
  | (k, x) :: xs, p => by
    simp only [flattenKvs, Node.scalarCountKvs, List.length_append, flattenNode_length x, flattenKvs_length xs]
end

mutual
/-- every flattened entry carries the scalar of a leaf: values are exactly the leaves, in order -/
theorem flattenNode_values : ∀ (n : Node) (p : String), (flattenNode n p).map (·.2) = Node.leaves n
  | .leaf _, _ => rfl
  | .list xs, p => by simp only [flattenNode, Node.leaves]; exact flattenList_values xs p 0
  | .cont kvs, p => by simp only [flattenNode, Node.leaves]; exact flattenKvs_values kvs p
theorem flattenList_values : ∀ (xs : List Node) (p : String) (i : Nat), (flattenList xs p i).map (·.2) = Node.leavesList xs
  | [], _, _ => rfl
  | x :: xs, p, i => by
    simp only [flattenList, Node.leavesList, List.map_append, flattenNode_values x, flattenList_values xs]
theorem flattenKvs_values : ∀ (kvs : List (String × Node)) (p : String), (flattenKvs kvs p).map (·.2) = Node.leavesKvs kvs
  | [], _ => rfl
  | (k, x) :: xs, p => by
    simp only [flattenKvs, Node.leavesKvs, List.map_append, flattenNode_values x, flattenKvs_values xs]
end

theorem rebuild_valid_aux : ∀ (pairs : List (String × Scalar)) (d : AMap Node), (Node.cont d).Valid →
    (Node.cont (pairs.foldl (fun d p => addValueAt d p.1 (.leaf p.2)) d)).Valid
  | [], d, h => by simpa using h
  | p :: ps, d, h => by
    simp only [List.foldl_cons]
    exact rebuild_valid_aux ps _ (addValueAt_valid d p.1 _ h (Node.Valid.leaf _))

theorem rebuild_snoc (pairs : List (String × Scalar)) (p : String) (v : Scalar) :
    rebuild (pairs ++ [(p, v)]) = addValueAt (rebuild pairs) p (.leaf v) := by
  simp [rebuild, List.foldl_append]

end Ytk
