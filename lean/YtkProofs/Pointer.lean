/- Lemmas on the JSON Pointer model (parse / serialise round trips, Atoi vs canonical index, Eval). -/
import YtkModel.Pointer
import YtkProofs.Dom

namespace Ytk.Ptr

/-! ## the scanner, one rune (or escape pair) at a time -/

theorem scan_tilde0 (r cur : List Char) : scan ('~' :: '0' :: r) cur = scan r (cur ++ ['~']) := by
  simp [scan]

theorem scan_tilde1 (r cur : List Char) : scan ('~' :: '1' :: r) cur = scan r (cur ++ ['/']) := by
  simp [scan]

theorem scan_slash (r cur : List Char) : scan ('/' :: r) cur = cur :: scan r [] := by
  cases r with
  | nil => simp [scan]
  | cons n r => simp [scan]

theorem scan_plain {c : Char} (h1 : c ≠ '~') (h2 : c ≠ '/') (r cur : List Char) :
    scan (c :: r) cur = scan r (cur ++ [c]) := by
  cases r with
  | nil => simp [scan, h2]
  | cons n r => simp [scan, h1, h2]

theorem encTok_append (a b : List Char) : encTok (a ++ b) = encTok a ++ encTok b := by
  induction a with
  | nil => rfl
  | cons c a ih => simp [encTok, ih]

theorem scan_encTok (t rest cur : List Char) : scan (encTok t ++ rest) cur = scan rest (cur ++ t) := by
  induction t generalizing cur with
  | nil => simp [encTok]
  | cons c t ih =>
    simp only [encTok, encChar]
    by_cases h1 : c = '~'
    · subst h1
      simp only [if_true, List.cons_append, List.nil_append]
      rw [scan_tilde0, ih]; simp
    · by_cases h2 : c = '/'
      · subst h2
        simp only [if_neg h1, if_true, List.cons_append, List.nil_append]
        rw [scan_tilde1, ih]; simp
      · simp only [if_neg h1, if_neg h2, List.cons_append, List.nil_append]
        rw [scan_plain h1 h2, ih]; simp

theorem scan_ptrString (ts : List (List Char)) (cur : List Char) : scan (ptrString ts) cur = cur :: ts := by
  induction ts generalizing cur with
  | nil => simp [ptrString, scan]
  | cons t ts ih =>
    simp only [ptrString]
    rw [scan_slash, scan_encTok, ih]; simp

theorem ptrParse_ptrString (ts : List (List Char)) : ptrParse (ptrString ts) = some ts := by
  cases ts with
  | nil => rfl
  | cons t ts =>
    simp only [ptrString, ptrParse, if_true]
    rw [scan_encTok, scan_ptrString]; simp

/-- serialising what the scanner produced gives back the scanned text (grammar strings) -/
theorem ptrString_scan (r : List Char) : ∀ (cur : List Char), bodyOk r = true →
    ptrString (scan r cur) = '/' :: (encTok cur ++ r) := by
  induction r using bodyOk.induct with
  | case1 => intro cur _; simp [scan, ptrString]
  | case2 c =>
    intro cur h
    have hc : c ≠ '~' := by simpa [bodyOk] using h
    by_cases h2 : c = '/'
    · subst h2; simp [scan, ptrString, encTok]
    · simp [scan, h2, ptrString, encTok_append, encTok, encChar, hc]
  | case3 n r ih =>
    intro cur h
    simp only [bodyOk, if_true, Bool.and_eq_true, Bool.or_eq_true, decide_eq_true_eq] at h
    obtain ⟨hn, hr⟩ := h
    rcases hn with rfl | rfl
    · rw [scan_tilde0, ih _ hr]; simp [encTok_append, encTok, encChar]
    · rw [scan_tilde1, ih _ hr]; simp [encTok_append, encTok, encChar]
  | case4 c n r hc ih =>
    intro cur h
    simp only [bodyOk, if_neg hc] at h
    by_cases h2 : c = '/'
    · subst h2
      rw [scan_slash]
      simp only [ptrString]
      rw [ih _ h]; simp [encTok]
    · rw [scan_plain hc h2, ih _ h]; simp [encTok_append, encTok, encChar, hc, h2]

theorem ptrString_ptrParse {s : List Char} (h : rfc6901 s = true) :
    (ptrParse s).map ptrString = some s := by
  cases s with
  | nil => rfl
  | cons c r =>
    simp only [rfc6901, Bool.and_eq_true, decide_eq_true_eq] at h
    obtain ⟨rfl, hr⟩ := h
    simp only [ptrParse, if_true, Option.map_some]
    rw [ptrString_scan r [] hr]; simp [encTok]

/-! ## Parent / LastSegment -/

theorem parent_eq_dropLast {α : Type} (p : List α) : parent p = p.dropLast := by
  unfold parent
  split
  · rename_i h
    match p, h with
    | [], _ => rfl
    | [_], _ => rfl
    | _ :: _ :: _, h => simp at h
  · rw [List.dropLast_eq_take]

theorem parent_cons_cons {α : Type} (a b : α) (l : List α) : parent (a :: b :: l) = a :: parent (b :: l) := by
  simp [parent_eq_dropLast]

theorem lastSegment_cons_cons (a b : String) (l : Path) : lastSegment (a :: b :: l) = lastSegment (b :: l) := by
  simp [lastSegment, List.getLast?_cons_cons]

/-! ## strconv.Atoi against the canonical index -/

theorem isDigit_minus : isDigit '-' = false := by decide
theorem isDigit_plus : isDigit '+' = false := by decide

theorem atoiC_of_allDigits {c : Char} {r : List Char} (h : allDigits (c :: r) = true) :
    atoiC (c :: r) = if digitsToNat (c :: r) < int64Lim then some (digitsToNat (c :: r) : Int) else none := by
  have hc : isDigit c = true := by
    simp only [allDigits, List.all_cons, Bool.and_eq_true] at h; exact h.1
  have h1 : c ≠ '-' := fun e => by rw [e, isDigit_minus] at hc; cases hc
  have h2 : c ≠ '+' := fun e => by rw [e, isDigit_plus] at hc; cases hc
  have hv : digitsVal (c :: r) = some (digitsToNat (c :: r)) := by simp [digitsVal, h]
  unfold atoiC
  split
  · rename_i ds heq; cases heq; exact absurd rfl h1
  · rename_i ds heq; cases heq; exact absurd rfl h2
  · rw [hv]

theorem atoiC_of_canonIdxC {cs : List Char} {n : Nat} (h : canonIdxC cs = some n) :
    atoiC cs = if n < int64Lim then some (n : Int) else none := by
  unfold canonIdxC at h
  split at h
  · cases h
  · cases h; decide
  · rename_i c r _
    split at h
    · cases h
    · split at h
      · rename_i hd
        cases h
        exact atoiC_of_allDigits hd
      · cases h

/-- on in-domain tokens the list branch of `Eval` and the canonical-index lookup agree -/
theorem listStep_eq (xs : List Node) {t : String} (h : tokOk t = true) :
    (match atoi t with
     | some i => if 0 ≤ i ∧ i < (xs.length : Int) then xs[i.toNat]? else none
     | none => none) =
    (match canonIdx t with
     | some i => xs[i]?
     | none => none) := by
  simp only [tokOk, Bool.and_eq_true] at h
  obtain ⟨h, _⟩ := h
  cases hc : canonIdx t with
  | some n =>
    rw [hc] at h
    have hn : n < int64Lim := by simpa using h
    have ha : atoi t = some (n : Int) := by
      unfold atoi; unfold canonIdx at hc
      rw [atoiC_of_canonIdxC hc, if_pos hn]
    rw [ha]
    simp only [Int.toNat_natCast]
    by_cases hl : n < xs.length
    · have : (0 : Int) ≤ n ∧ (n : Int) < (xs.length : Int) := ⟨by omega, by omega⟩
      rw [if_pos this]
    · have : ¬ ((0 : Int) ≤ n ∧ (n : Int) < (xs.length : Int)) := by omega
      rw [if_neg this]
      exact (List.getElem?_eq_none (by omega)).symm
  | none =>
    rw [hc] at h
    cases ha : atoi t with
    | none => rfl
    | some i =>
      rw [ha] at h
      have hi : i < 0 := by simpa using h
      have : ¬ (0 ≤ i ∧ i < (xs.length : Int)) := by omega
      simp [this]

theorem tokOk_noSuffix {t : String} (h : tokOk t = true) : hasIdxSuffix t = false := by
  simp only [tokOk, Bool.and_eq_true, Bool.not_eq_true'] at h
  exact h.2

/-- one reference step -/
def stepRef (d : Node) (t : String) : Option Node :=
  match d with
  | .cont kvs => AMap.get? kvs t
  | .list xs =>
    match canonIdx t with
    | some i => xs[i]?
    | none => none
  | .leaf _ => none

theorem step_eq_stepRef (d : Node) {t : String} (h : tokOk t = true) : step d t = stepRef d t := by
  cases d with
  | leaf v => rfl
  | list xs => simp only [step, stepRef]; exact listStep_eq xs h
  | cont kvs => simp only [step, stepRef]; exact child_of_noSuffix kvs (tokOk_noSuffix h)

theorem getTok_cons (d : Node) (t : String) (ts : Path) :
    getTok d (t :: ts) = match stepRef d t with | some c => getTok c ts | none => none := by
  cases d with
  | leaf v => simp [getTok, stepRef]
  | list xs =>
    simp only [getTok, stepRef]
    cases canonIdx t with
    | none => rfl
    | some i => rfl
  | cont kvs =>
    simp only [getTok, stepRef]
    cases AMap.get? kvs t <;> rfl

theorem getTok_single (d : Node) (t : String) : getTok d [t] = stepRef d t := by
  rw [getTok_cons]; cases stepRef d t <;> simp [getTok]

theorem evalLoop_snd (p : Path) : ∀ (d : Node), (∀ t ∈ p, tokOk t = true) → (evalLoop d p).2 = getTok d p := by
  induction p with
  | nil => intro d _; simp [evalLoop, getTok]
  | cons t ts ih =>
    intro d h
    have ht := h t (List.mem_cons_self ..)
    rw [getTok_cons, ← step_eq_stepRef d ht]
    simp only [evalLoop]
    cases hs : step d t with
    | none => rfl
    | some n => exact ih n (fun x hx => h x (List.mem_cons_of_mem _ hx))

theorem evalLoop_fst (p : Path) : ∀ (d : Node), (∀ t ∈ p, tokOk t = true) → (evalLoop d p).1 = trailTok d p := by
  induction p with
  | nil => intro d _; simp [evalLoop, trailTok]
  | cons t ts ih =>
    intro d h
    have ht := h t (List.mem_cons_self ..)
    simp only [evalLoop, trailTok]
    rw [getTok_single, ← step_eq_stepRef d ht]
    cases hs : step d t with
    | none => rfl
    | some n => simp [ih n (fun x hx => h x (List.mem_cons_of_mem _ hx))]

theorem evalLoop_last (p : Path) : ∀ (d n : Node), p ≠ [] → (evalLoop d p).2 = some n →
    (evalLoop d p).1.getLast? = some n := by
  induction p with
  | nil => intro d n h; exact absurd rfl h
  | cons t ts ih =>
    intro d n _ h
    simp only [evalLoop] at h ⊢
    cases hs : step d t with
    | none => rw [hs] at h; cases h
    | some m =>
      rw [hs] at h
      simp only at h ⊢
      cases ts with
      | nil => simp only [evalLoop] at h ⊢; simpa using h
      | cons t2 ts =>
        have := ih m n (by simp) h
        cases hr : (evalLoop m (t2 :: ts)).1 with
        | nil => rw [hr] at this; cases this
        | cons a as => rw [hr] at this; rw [List.getLast?_cons_cons]; exact this

theorem evalLoop_length (p : Path) : ∀ (d n : Node), (evalLoop d p).2 = some n →
    (evalLoop d p).1.length = p.length := by
  induction p with
  | nil => intro d n _; rfl
  | cons t ts ih =>
    intro d n h
    simp only [evalLoop] at h ⊢
    cases hs : step d t with
    | none => rw [hs] at h; cases h
    | some m => rw [hs] at h; simp only at h ⊢; simp [ih m n h]

theorem eval_snd (p : Path) (d : Node) : (eval p d).2 = (evalLoop d p).2 := by
  cases p <;> rfl

end Ytk.Ptr
