/-
  YtkProofs.HeapOverlay — lemmas about the heap-level overlay model (YtkModel/HeapOverlay.lean).

  1. `Upd R h h'`: the step from `h` to `h'` only allocates and only writes CONTAINER cells whose
     address satisfies `R`, and `R` stays closed under the child edge.  Every overlay write
     (ensureOverlay, ensurePath, Put, Add, Populate) is such a step for every `R` that is closed,
     contains the layer roots, the caller's argument nodes, the nil leaf and everything fresh.
  2. Frame: such writes leave the abstraction of every root alone that reaches only cells outside
     `R` or leaf cells.
  3. `Layers()`: prefix, freshness, abstraction.
-/
import YtkProofs.Heap
import YtkModel.HeapOverlay

namespace Ytk.Heap
open Heap

/-! ## 1. Steps that write only container cells inside a closed set -/

/-- `R` is closed under the parent → child edge of `h` -/
def ClosedIn (R : Addr → Prop) (h : Heap) : Prop :=
  ∀ a c, R a → h.get? a = some c → ∀ k ∈ c.kids, R k

/-- every address that is not allocated yet is in `R` -/
def FreshIn (R : Addr → Prop) (h : Heap) : Prop := ∀ a, h.size ≤ a → R a

/-- the cell written is in `R` and holds a container at the time of the write -/
def WC (R : Addr → Prop) : Heap → Addr → Prop :=
  fun g b => R b ∧ ∃ kvs, g.get? b = some (.cont kvs)

structure Upd (R : Addr → Prop) (h h' : Heap) : Prop where
  writes : Writes (WC R) h h'
  closed : ClosedIn R h'
  size : h.size ≤ h'.size

theorem ClosedIn.reach {R : Addr → Prop} {h : Heap} (hc : ClosedIn R h) {a b : Addr} (ha : R a)
    (hr : Reach h a b) : R b :=
  Reach.closed_set R (fun x c hx hg k hk => hc x c hx hg k hk) hr ha

theorem FreshIn.mono {R : Addr → Prop} {h h' : Heap} (hf : FreshIn R h) (hs : h.size ≤ h'.size) :
    FreshIn R h' := fun a ha => hf a (Nat.le_trans hs ha)

theorem Upd.refl {R : Addr → Prop} {h : Heap} (hc : ClosedIn R h) : Upd R h h :=
  ⟨.refl _, hc, Nat.le_refl _⟩

theorem Upd.trans {R : Addr → Prop} {a b c : Heap} (h1 : Upd R a b) (h2 : Upd R b c) : Upd R a c :=
  ⟨h1.writes.trans h2.writes, h2.closed, Nat.le_trans h1.size h2.size⟩

theorem upd_alloc {R : Addr → Prop} {h : Heap} (hc : ClosedIn R h) {c : Cell}
    (hk : ∀ k ∈ c.kids, R k) : Upd R h (h.alloc c).1 := by
  refine ⟨.alloc c (.refl _), ?_, by rw [size_alloc]; exact Nat.le_succ _⟩
  intro a d ha hg k hkd
  rcases get?_alloc hg with ⟨_, hg'⟩ | ⟨_, rfl⟩
  · exact hc a d ha hg' k hkd
  · exact hk k hkd

theorem upd_write_cont {R : Addr → Prop} {h : Heap} (hc : ClosedIn R h) {a : Addr} {kvs kvs' : AMap Addr}
    (ha : R a) (hg : h.get? a = some (.cont kvs)) (hk : ∀ k ∈ (Cell.cont kvs').kids, R k) :
    Upd R h (h.write a (.cont kvs')) := by
  refine ⟨.write a _ ⟨ha, kvs, hg⟩ (.refl _), ?_, by rw [size_write]; exact Nat.le_refl _⟩
  intro b d hb hgb k hkd
  by_cases hba : b = a
  · subst hba
    rw [get?_write_self h _ (get?_lt hg)] at hgb
    cases Option.some.inj hgb
    exact hk k hkd
  · rw [get?_write_ne h _ hba] at hgb
    exact hc b d hb hgb k hkd

theorem kids_insert {kvs : AMap Addr} {name : String} {v k : Addr}
    (hk : k ∈ (Cell.cont (AMap.insert kvs name v)).kids) : k = v ∨ k ∈ (Cell.cont kvs).kids := by
  simp only [Cell.kids, List.mem_map] at hk ⊢
  obtain ⟨p, hp, rfl⟩ := hk
  rcases Ytk.mem_insert hp with rfl | hp
  · exact Or.inl rfl
  · exact Or.inr ⟨p, hp, rfl⟩

theorem kids_of_get? {kvs : AMap Addr} {name : String} {n : Addr} (hg : AMap.get? kvs name = some n) :
    n ∈ (Cell.cont kvs).kids := by
  simp only [Cell.kids, List.mem_map]
  exact ⟨(name, n), AMap.mem_of_get? hg, rfl⟩

section ops
variable {R : Addr → Prop}

theorem addValue_upd {h h' : Heap} {c v : Addr} {name : String} (hc : ClosedIn R h) (hR : R c) (hv : R v)
    (he : addValue h c name v = some h') : Upd R h h' := by
  unfold addValue at he
  split at he
  · rename_i kvs hg
    cases he
    refine upd_write_cont hc hR hg ?_
    intro k hk
    rcases kids_insert hk with rfl | hk
    · exact hv
    · exact hc c _ hR hg k hk
  · cases he

theorem addContainer_upd {h h' : Heap} {c b : Addr} {name : String} (hc : ClosedIn R h) (hf : FreshIn R h)
    (hR : R c) (he : addContainer h c name = some (h', b)) : Upd R h h' ∧ R b := by
  unfold addContainer at he
  split at he
  · rename_i kvs hg
    simp only [Option.some.injEq, Prod.mk.injEq] at he
    obtain ⟨rfl, rfl⟩ := he
    have hb : R (h.alloc (.cont [])).2 := hf _ (Nat.le_refl _)
    have u1 : Upd R h (h.alloc (.cont [])).1 := upd_alloc hc (by intro k hk; simp [Cell.kids] at hk)
    have hg1 : (h.alloc (.cont [])).1.get? c = some (.cont kvs) := get?_of_le (le_alloc _ _) hg
    refine ⟨u1.trans (upd_write_cont u1.closed hR hg1 ?_), hb⟩
    intro k hk
    rcases kids_insert hk with rfl | hk
    · exact hb
    · exact hc c _ hR hg k hk
  · cases he

theorem ensurePathH_upd : ∀ (comps : List String) (h : Heap) (node : Addr) (h' : Heap) (c : Addr),
    ClosedIn R h → FreshIn R h → R node → ensurePathH h node comps = some (h', c) → Upd R h h' ∧ R c
  | [], h, node, h', c, hc, _, hn, he => by
    simp only [ensurePathH, Option.some.injEq, Prod.mk.injEq] at he
    obtain ⟨rfl, rfl⟩ := he
    exact ⟨Upd.refl hc, hn⟩
  | comp :: rest, h, node, h', c, hc, hf, hn, he => by
    simp only [ensurePathH] at he
    cases hg : h.get? node with
    | none => simp [hg] at he
    | some cell =>
      cases cell with
      | leaf s => simp [hg] at he
      | list xs => simp [hg] at he
      | cont kvs =>
        simp only [hg] at he
        cases hk : AMap.get? kvs comp with
        | none =>
          simp only [hk] at he
          cases ha : addContainer h node comp with
          | none => simp [ha] at he
          | some q =>
            obtain ⟨h1, b⟩ := q
            simp only [ha] at he
            obtain ⟨u1, hb⟩ := addContainer_upd hc hf hn ha
            obtain ⟨u2, hcR⟩ := ensurePathH_upd rest h1 b h' c u1.closed (hf.mono u1.size) hb he
            exact ⟨u1.trans u2, hcR⟩
        | some n =>
          simp only [hk] at he
          have hnR : R n := hc node _ hn hg n (kids_of_get? hk)
          cases hgn : h.get? n with
          | none => simp [hgn] at he
          | some cn =>
            cases cn with
            | leaf s => simp [hgn] at he
            | list xs => simp [hgn] at he
            | cont kvs2 =>
              simp only [hgn] at he
              exact ensurePathH_upd rest h n h' c hc hf hnR he

theorem HOverlay.find_mem : ∀ {s : HOverlay} {l : String} {a : Addr}, s.find l = some a → a ∈ s.roots
  | [], _, _, h => by simp [HOverlay.find] at h
  | (n, b) :: rest, l, a, h => by
    simp only [HOverlay.find] at h
    simp only [HOverlay.roots, List.map_cons, List.mem_cons]
    split at h
    · left; exact (Option.some.inj h).symm
    · right; exact HOverlay.find_mem (s := rest) h

/-- how the layer list changes: every root (and every `find` result) is an old one or new -/
def SNew (h : Heap) (s s' : HOverlay) : Prop :=
  (∀ a ∈ s'.roots, a ∈ s.roots ∨ h.size ≤ a) ∧
  (∀ l a, s'.find l = some a → s.find l = some a ∨ h.size ≤ a)

theorem SNew.refl (h : Heap) (s : HOverlay) : SNew h s s :=
  ⟨fun _ ha => Or.inl ha, fun _ _ ha => Or.inl ha⟩

theorem SNew.trans {h h1 : Heap} {s s1 s2 : HOverlay} (a : SNew h s s1) (b : SNew h1 s1 s2)
    (hs : h.size ≤ h1.size) : SNew h s s2 := by
  refine ⟨fun x hx => ?_, fun l x hx => ?_⟩
  · rcases b.1 x hx with h1' | h1'
    · exact a.1 x h1'
    · exact Or.inr (Nat.le_trans hs h1')
  · rcases b.2 l x hx with h1' | h1'
    · exact a.2 l x h1'
    · exact Or.inr (Nat.le_trans hs h1')

theorem HOverlay.find_append {l l' : String} {n a : Addr} : ∀ {s : HOverlay},
    HOverlay.find (s ++ [(l, n)]) l' = some a → s.find l' = some a ∨ a = n
  | [], h => by
    simp only [List.nil_append, HOverlay.find] at h
    split at h
    · right; exact (Option.some.inj h).symm
    · cases h
  | (m, b) :: rest, h => by
    simp only [List.cons_append, HOverlay.find] at h ⊢
    split
    · rename_i hm; simp only [hm, if_true] at h; left; exact h
    · rename_i hm; simp only [hm, if_false] at h; exact HOverlay.find_append (s := rest) h

theorem ensureOverlay_upd {h : Heap} {s : HOverlay} {l : String} (hc : ClosedIn R h) (hf : FreshIn R h)
    (hs : ∀ a, s.find l = some a → R a) :
    Upd R h (ensureOverlay h s l).1 ∧ R (ensureOverlay h s l).2.2 ∧
      SNew h s (ensureOverlay h s l).2.1 ∧ (ensureOverlay h s l).2.1.find l = some (ensureOverlay h s l).2.2 := by
  unfold ensureOverlay
  cases hfnd : s.find l with
  | some a => exact ⟨Upd.refl hc, hs a hfnd, SNew.refl h s, hfnd⟩
  | none =>
    refine ⟨upd_alloc hc (by intro k hk; simp [Cell.kids] at hk), hf _ (Nat.le_refl _), ⟨?_, ?_⟩, ?_⟩
    · intro a ha
      simp only [HOverlay.roots, List.map_append, List.map_cons, List.map_nil, List.mem_append,
        List.mem_singleton] at ha
      rcases ha with ha | rfl
      · exact Or.inl ha
      · exact Or.inr (Nat.le_refl _)
    · intro l' a ha
      rcases HOverlay.find_append ha with h1 | rfl
      · exact Or.inl h1
      · exact Or.inr (Nat.le_refl _)
    · -- the new layer is found under its name
      have : ∀ (t : HOverlay), t.find l = none → HOverlay.find (t ++ [(l, h.size)]) l = some h.size := by
        intro t
        induction t with
        | nil => intro _; simp [HOverlay.find]
        | cons p t ih =>
          obtain ⟨m, b⟩ := p
          intro ht
          simp only [HOverlay.find] at ht
          simp only [List.cons_append, HOverlay.find]
          split
          · rename_i hm; simp [hm] at ht
          · rename_i hm; simp only [hm, if_false] at ht; exact ih ht
      exact this s hfnd

theorem putNodeH_upd {h h' : Heap} {s s' : HOverlay} {l : String} {comps : List String} {v : Addr}
    (hc : ClosedIn R h) (hf : FreshIn R h) (hs : ∀ a, s.find l = some a → R a) (hv : R v)
    (he : putNodeH h s l comps v = some (h', s')) : Upd R h h' ∧ SNew h s s' := by
  unfold putNodeH at he
  cases hl : comps.getLast? with
  | none => simp [hl] at he
  | some last =>
    simp only [hl] at he
    obtain ⟨u0, hcur, hs1, _⟩ := ensureOverlay_upd (l := l) hc hf hs
    generalize ensureOverlay h s l = eo at he u0 hcur hs1
    obtain ⟨h1, s1, cur⟩ := eo
    simp only at he u0 hcur hs1
    cases hp : ensurePathH h1 cur comps.dropLast with
    | none => simp [hp] at he
    | some q =>
      obtain ⟨h2, c⟩ := q
      simp only [hp] at he
      obtain ⟨u1, hcR⟩ := ensurePathH_upd _ h1 cur h2 c u0.closed (hf.mono u0.size) hcur hp
      cases ha : addValue h2 c last v with
      | none => simp [ha] at he
      | some h3 =>
        simp only [ha, Option.some.injEq, Prod.mk.injEq] at he
        obtain ⟨rfl, rfl⟩ := he
        exact ⟨(u0.trans u1).trans (addValue_upd u1.closed hcR hv ha), hs1⟩

theorem find_R_of_snew {h : Heap} {s s' : HOverlay} {l : String} (hf : FreshIn R h)
    (hs : ∀ a, s.find l = some a → R a) (hn : SNew h s s') : ∀ a, s'.find l = some a → R a := by
  intro a ha
  rcases hn.2 l a ha with h1 | h1
  · exact hs a h1
  · exact hf a h1

theorem putLeavesH_upd {l : String} {comps : List String} :
    ∀ (leaves : List (List String × Addr)) (h : Heap) (s : HOverlay) (h' : Heap) (s' : HOverlay),
      ClosedIn R h → FreshIn R h → (∀ a, s.find l = some a → R a) → (∀ p ∈ leaves, R p.2) →
      putLeavesH l comps h s leaves = some (h', s') → Upd R h h' ∧ SNew h s s'
  | [], h, s, h', s', hc, _, _, _, he => by
    simp only [putLeavesH, Option.some.injEq, Prod.mk.injEq] at he
    obtain ⟨rfl, rfl⟩ := he
    exact ⟨Upd.refl hc, SNew.refl h s⟩
  | (k, a) :: rest, h, s, h', s', hc, hf, hs, hl, he => by
    simp only [putLeavesH] at he
    cases hp : putNodeH h s l (comps ++ k) a with
    | none => simp [hp] at he
    | some q =>
      obtain ⟨h1, s1⟩ := q
      simp only [hp] at he
      obtain ⟨u1, hs1⟩ := putNodeH_upd hc hf hs (hl (k, a) (List.mem_cons_self ..)) hp
      obtain ⟨u2, hs2⟩ := putLeavesH_upd rest h1 s1 h' s' u1.closed (hf.mono u1.size)
        (find_R_of_snew hf hs hs1) (fun p hp => hl p (List.mem_cons_of_mem _ hp)) he
      exact ⟨u1.trans u2, hs1.trans hs2 u1.size⟩

/-! ### Flatten hands out nodes reachable from the value -/

/-- `b` is reached from `a` and holds a leaf -/
def LeafBelow (h : Heap) (a b : Addr) : Prop := Reach h a b ∧ ∃ sc, h.get? b = some (.leaf sc)

theorem flattenKvs_reach {h : Heap} {g : Addr → List String → Option (List (List String × Addr))}
    (hg : ∀ a pre out, g a pre = some out → ∀ p ∈ out, LeafBelow h a p.2) :
    ∀ (kvs : List (String × Addr)) (pre : List String) (out : List (List String × Addr)),
      flattenKvs g kvs pre = some out → ∀ p ∈ out, ∃ q ∈ kvs, LeafBelow h q.2 p.2
  | [], _, out, he, p, hp => by
    simp only [flattenKvs, Option.some.injEq] at he
    subst he; cases hp
  | (k, a) :: rest, pre, out, he, p, hp => by
    simp only [flattenKvs] at he
    cases h1 : g a (pre ++ [k]) with
    | none => simp [h1] at he
    | some xs =>
      simp only [h1] at he
      cases h2 : flattenKvs g rest pre with
      | none => simp [h2] at he
      | some ys =>
        simp only [h2, Option.some.injEq] at he
        subst he
        rcases List.mem_append.mp hp with hp | hp
        · exact ⟨(k, a), List.mem_cons_self .., hg a _ xs h1 p hp⟩
        · obtain ⟨q, hq, hr⟩ := flattenKvs_reach hg rest pre ys h2 p hp
          exact ⟨q, List.mem_cons_of_mem _ hq, hr⟩

theorem flattenF_reach {h : Heap} : ∀ (f : Nat) (a : Addr) (pre : List String)
    (out : List (List String × Addr)), flattenF f h a pre = some out → ∀ p ∈ out, LeafBelow h a p.2
  | 0, _, _, _, he, _, _ => by simp [flattenF] at he
  | f + 1, a, pre, out, he, p, hp => by
    simp only [flattenF] at he
    cases hg : h.get? a with
    | none => simp [hg] at he
    | some cell =>
      cases cell with
      | leaf s =>
        simp only [hg, Option.some.injEq] at he
        subst he
        simp only [List.mem_singleton] at hp
        subst hp
        exact ⟨.refl _, s, hg⟩
      | list xs => simp [hg] at he
      | cont kvs =>
        simp only [hg] at he
        obtain ⟨q, hq, hr, hlf⟩ := flattenKvs_reach (flattenF_reach f) kvs pre out he p hp
        exact ⟨.step hg (by simp only [Cell.kids, List.mem_map]; exact ⟨q, hq, rfl⟩) hr, hlf⟩

/-- Put: a value that is not a container must be in `R` itself; of a container value only the
    LEAF cells below it have to be -/
theorem putH_upd {h h' : Heap} {s s' : HOverlay} {l : String} {comps : List String} {v : Addr}
    (hc : ClosedIn R h) (hf : FreshIn R h) (hs : ∀ a, s.find l = some a → R a)
    (hv : (∀ kvs, h.get? v ≠ some (.cont kvs)) → R v)
    (hleaf : (∃ kvs, h.get? v = some (.cont kvs)) → ∀ b, LeafBelow h v b → R b)
    (he : putH h s l comps v = some (h', s')) : Upd R h h' ∧ SNew h s s' := by
  unfold putH at he
  cases hg : h.get? v with
  | none => simp [hg] at he
  | some cell =>
    cases cell with
    | leaf sc =>
      simp only [hg] at he
      exact putNodeH_upd hc hf hs (hv (by intro kvs hk; rw [hg] at hk; cases hk)) he
    | list xs =>
      simp only [hg] at he
      exact putNodeH_upd hc hf hs (hv (by intro kvs hk; rw [hg] at hk; cases hk)) he
    | cont kvs =>
      simp only [hg] at he
      cases hfl : flattenKvs (flattenF h.size h) kvs [] with
      | none => simp [hfl] at he
      | some leaves =>
        simp only [hfl] at he
        refine putLeavesH_upd leaves h s h' s' hc hf hs ?_ he
        intro p hp
        obtain ⟨q, hq, hr, hlf⟩ := flattenKvs_reach (flattenF_reach h.size) kvs [] leaves hfl p hp
        exact hleaf ⟨kvs, hg⟩ p.2
          ⟨.step hg (by simp only [Cell.kids, List.mem_map]; exact ⟨q, hq, rfl⟩) hr, hlf⟩

theorem addAllH_upd {c : Addr} : ∀ (kvs : List (String × Addr)) (h h' : Heap),
    ClosedIn R h → R c → (∀ p ∈ kvs, R p.2) → addAllH h c kvs = some h' → Upd R h h'
  | [], h, h', hc, _, _, he => by
    simp only [addAllH, Option.some.injEq] at he
    subst he; exact Upd.refl hc
  | (k, v) :: rest, h, h', hc, hR, hk, he => by
    simp only [addAllH] at he
    cases ha : addValue h c k v with
    | none => simp [ha] at he
    | some h1 =>
      simp only [ha] at he
      have u1 := addValue_upd hc hR (hk (k, v) (List.mem_cons_self ..)) ha
      exact u1.trans (addAllH_upd rest h1 h' u1.closed hR (fun p hp => hk p (List.mem_cons_of_mem _ hp)) he)

/-- Add: the container `c` itself is not stored; its children must be in `R` -/
theorem addH_upd {h h' : Heap} {s s' : HOverlay} {l : String} {c : Addr}
    (hc : ClosedIn R h) (hf : FreshIn R h) (hs : ∀ a, s.find l = some a → R a)
    (hv : ∀ cell, h.get? c = some cell → ∀ k ∈ cell.kids, R k) (hlt : c < h.size)
    (he : ovAddH h s l c = some (h', s')) : Upd R h h' ∧ SNew h s s' := by
  unfold ovAddH at he
  obtain ⟨u0, hcur, hs1, _⟩ := ensureOverlay_upd (l := l) hc hf hs
  have hprefix : (ensureOverlay h s l).1.get? c = h.get? c := by
    unfold ensureOverlay
    cases s.find l with
    | some a => rfl
    | none => exact get?_eq_of_le (le_alloc _ _) hlt
  generalize ensureOverlay h s l = eo at he u0 hcur hs1 hprefix
  obtain ⟨h1, s1, cur⟩ := eo
  simp only at he u0 hcur hs1 hprefix
  cases hg : h1.get? c with
  | none => simp [hg] at he
  | some cell =>
    cases cell with
    | leaf sc => simp [hg] at he
    | list xs => simp [hg] at he
    | cont kvs =>
      simp only [hg] at he
      cases ha : addAllH h1 cur kvs with
      | none => simp [ha] at he
      | some h2 =>
        simp only [ha, Option.some.injEq, Prod.mk.injEq] at he
        obtain ⟨rfl, rfl⟩ := he
        refine ⟨u0.trans (addAllH_upd kvs h1 h2 u0.closed hcur ?_ ha), hs1⟩
        intro p hp
        rw [hprefix] at hg
        exact hv _ hg p.2 (by simp only [Cell.kids, List.mem_map]; exact ⟨p, hp, rfl⟩)

/-! ### decodeContainerFn: new cells and the shared nil leaf -/

mutual
theorem decodeNode_upd (hnil : R nilAddr) : ∀ (n : Node) (h : Heap), ClosedIn R h → FreshIn R h →
    Upd R h (decodeNode h n).1 ∧ R (decodeNode h n).2
  | .leaf s, h, hc, hf => by
    simp only [decodeNode]
    split
    · exact ⟨Upd.refl hc, hnil⟩
    · exact ⟨upd_alloc hc (by intro k hk; simp [Cell.kids] at hk), hf _ (Nat.le_refl _)⟩
  | .list xs, h, hc, hf => by
    simp only [decodeNode]
    obtain ⟨u1, hk⟩ := decodeList_upd hnil xs h hc hf
    generalize decodeList h xs = r at u1 hk
    obtain ⟨h1, as⟩ := r
    exact ⟨u1.trans (upd_alloc u1.closed (by intro k hkk; exact hk k (by simpa [Cell.kids] using hkk))),
      hf _ u1.size⟩
  | .cont kvs, h, hc, hf => by
    simp only [decodeNode]
    obtain ⟨u1, hk⟩ := decodeKvs_upd hnil kvs h hc hf
    generalize decodeKvs h kvs = r at u1 hk
    obtain ⟨h1, m⟩ := r
    refine ⟨u1.trans (upd_alloc u1.closed ?_), hf _ u1.size⟩
    intro k hkk
    simp only [Cell.kids, List.mem_map] at hkk
    obtain ⟨p, hp, rfl⟩ := hkk
    exact hk p hp
theorem decodeList_upd (hnil : R nilAddr) : ∀ (xs : List Node) (h : Heap), ClosedIn R h → FreshIn R h →
    Upd R h (decodeList h xs).1 ∧ ∀ a ∈ (decodeList h xs).2, R a
  | [], h, hc, _ => by
    simp only [decodeList]
    exact ⟨Upd.refl hc, fun a ha => by cases ha⟩
  | x :: xs, h, hc, hf => by
    simp only [decodeList]
    obtain ⟨u1, ha⟩ := decodeNode_upd hnil x h hc hf
    generalize decodeNode h x = r1 at u1 ha
    obtain ⟨h1, a⟩ := r1
    obtain ⟨u2, has⟩ := decodeList_upd hnil xs h1 u1.closed (hf.mono u1.size)
    generalize decodeList h1 xs = r2 at u2 has
    obtain ⟨h2, as⟩ := r2
    refine ⟨u1.trans u2, ?_⟩
    intro b hb
    rcases List.mem_cons.mp hb with rfl | hb
    · exact ha
    · exact has b hb
theorem decodeKvs_upd (hnil : R nilAddr) : ∀ (kvs : List (String × Node)) (h : Heap), ClosedIn R h → FreshIn R h →
    Upd R h (decodeKvs h kvs).1 ∧ ∀ p ∈ (decodeKvs h kvs).2, R p.2
  | [], h, hc, _ => by
    simp only [decodeKvs]
    exact ⟨Upd.refl hc, fun a ha => by cases ha⟩
  | (k, x) :: xs, h, hc, hf => by
    simp only [decodeKvs]
    obtain ⟨u1, ha⟩ := decodeNode_upd hnil x h hc hf
    generalize decodeNode h x = r1 at u1 ha
    obtain ⟨h1, a⟩ := r1
    obtain ⟨u2, has⟩ := decodeKvs_upd hnil xs h1 u1.closed (hf.mono u1.size)
    generalize decodeKvs h1 xs = r2 at u2 has
    obtain ⟨h2, as⟩ := r2
    refine ⟨u1.trans u2, ?_⟩
    intro b hb
    rcases List.mem_cons.mp hb with rfl | hb
    · exact ha
    · exact has b hb
end

theorem decodeInto_upd (hnil : R nilAddr) {c : Addr} : ∀ (data : List (String × Node)) (h h' : Heap),
    ClosedIn R h → FreshIn R h → R c → decodeInto h c data = some h' → Upd R h h'
  | [], h, h', hc, _, _, he => by
    simp only [decodeInto, Option.some.injEq] at he
    subst he; exact Upd.refl hc
  | (k, x) :: rest, h, h', hc, hf, hR, he => by
    simp only [decodeInto] at he
    obtain ⟨u1, ha⟩ := decodeNode_upd hnil x h hc hf
    generalize decodeNode h x = r1 at he u1 ha
    obtain ⟨h1, a⟩ := r1
    simp only at he u1 ha
    cases hav : addValue h1 c k a with
    | none => simp [hav] at he
    | some h2 =>
      simp only [hav] at he
      have u2 := addValue_upd u1.closed hR ha hav
      exact (u1.trans u2).trans
        (decodeInto_upd hnil rest h2 h' u2.closed (hf.mono (u1.trans u2).size) hR he)

theorem populateH_upd {h h' : Heap} {s s' : HOverlay} {l : String} {comps : List String}
    {data : List (String × Node)} (hnil : R nilAddr)
    (hc : ClosedIn R h) (hf : FreshIn R h) (hs : ∀ a, s.find l = some a → R a)
    (he : populateH h s l comps data = some (h', s')) : Upd R h h' ∧ SNew h s s' := by
  unfold populateH at he
  obtain ⟨u0, hcur, hs1, _⟩ := ensureOverlay_upd (l := l) hc hf hs
  generalize ensureOverlay h s l = eo at he u0 hcur hs1
  obtain ⟨h1, s1, cur⟩ := eo
  simp only at he u0 hcur hs1
  cases hp : ensurePathH h1 cur comps with
  | none => simp [hp] at he
  | some q =>
    obtain ⟨h2, c⟩ := q
    simp only [hp] at he
    obtain ⟨u1, hcR⟩ := ensurePathH_upd _ h1 cur h2 c u0.closed (hf.mono u0.size) hcur hp
    cases hd : decodeInto h2 c data with
    | none => simp [hd] at he
    | some h3 =>
      simp only [hd, Option.some.injEq, Prod.mk.injEq] at he
      obtain ⟨rfl, rfl⟩ := he
      exact ⟨(u0.trans u1).trans
        (decodeInto_upd hnil data h2 h3 u1.closed (hf.mono (u0.trans u1).size) hcR hd), hs1⟩

/-- every overlay write is an `Upd` step for every closed set that holds the layer roots, the
    caller's argument nodes, the nil leaf and everything not allocated yet -/
theorem applyOvOp_upd {h h' : Heap} {s s' : HOverlay} {op : OvOp} (hnil : R nilAddr)
    (hc : ClosedIn R h) (hf : FreshIn R h) (hs : ∀ a, s.find op.layer = some a → R a)
    (hargs : ∀ a ∈ op.args, R a ∧ a < h.size)
    (he : applyOvOp h s op = some (h', s')) : Upd R h h' ∧ SNew h s s' := by
  cases op with
  | put l comps v =>
    have hv := (hargs v (by simp [OvOp.args])).1
    exact putH_upd hc hf hs (fun _ => hv) (fun _ b hb => hc.reach hv hb.1) he
  | add l c =>
    have hv := hargs c (by simp [OvOp.args])
    exact addH_upd hc hf hs (fun cell hg k hk => hc c cell hv.1 hg k hk) hv.2 he
  | populate l comps data => exact populateH_upd hnil hc hf hs he

theorem applyOvOps_upd (hnil : R nilAddr) : ∀ (ops : List OvOp) (h : Heap) (s : HOverlay) (h' : Heap)
    (s' : HOverlay), ClosedIn R h → FreshIn R h → (∀ a ∈ s.roots, R a) →
    (∀ op ∈ ops, ∀ a ∈ op.args, R a ∧ a < h.size) → applyOvOps h s ops = some (h', s') →
    Upd R h h' ∧ ∀ a ∈ s'.roots, R a
  | [], h, s, h', s', hc, _, hs, _, he => by
    simp only [applyOvOps, Option.some.injEq, Prod.mk.injEq] at he
    obtain ⟨rfl, rfl⟩ := he
    exact ⟨Upd.refl hc, hs⟩
  | op :: ops, h, s, h', s', hc, hf, hs, hargs, he => by
    simp only [applyOvOps] at he
    cases h1 : applyOvOp h s op with
    | none => simp [h1] at he
    | some q =>
      obtain ⟨g, t⟩ := q
      simp only [h1] at he
      obtain ⟨u1, hs1⟩ := applyOvOp_upd hnil hc hf (fun a ha => hs a (HOverlay.find_mem ha))
        (hargs op (List.mem_cons_self ..)) h1
      have hst : ∀ a ∈ t.roots, R a := by
        intro a ha
        rcases hs1.1 a ha with h2 | h2
        · exact hs a h2
        · exact hf a h2
      obtain ⟨u2, hs2⟩ := applyOvOps_upd hnil ops g t h' s' u1.closed (hf.mono u1.size) hst
        (fun o ho a ha => ⟨(hargs o (List.mem_cons_of_mem _ ho) a ha).1,
          Nat.lt_of_lt_of_le (hargs o (List.mem_cons_of_mem _ ho) a ha).2 u1.size⟩) he
      exact ⟨u1.trans u2, hs2⟩

end ops

/-! ## 2. Frame -/

/-- in an extension of the heap a root with a defined abstraction reaches what it reached -/
theorem reach_of_le' {h h' : Heap} (hl : h ≤ h') {f : Nat} {r : Addr} {n : Node}
    (hn : absH f h r = some n) {b : Addr} (hr : Reach h' r b) : Reach h r b := by
  have hlt := reach_lt_of_absH f r n hn
  refine Reach.closed_set (fun x => Reach h r x) ?_ hr (.refl _)
  intro a c ha hg k hk
  have hal := hlt a ha
  rw [get?_eq_of_le hl hal] at hg
  exact ha.trans (Reach.child hg hk)

/-- writes of container cells inside `R` leave alone every root that reaches only cells outside
    `R` or leaf cells -/
theorem Writes.absH_frame_wc {R : Addr → Prop} {r : Addr} {h h' : Heap} (hw : Writes (WC R) h h')
    (hsep : ∀ b, Reach h r b → ¬ R b ∨ ∃ s, h.get? b = some (.leaf s)) {f : Nat} {n : Node}
    (hn : absH f h r = some n) : absH f h' r = some n := by
  induction hw with
  | refl _ => exact hn
  | @write g g' a c hp _ ih =>
    have hnr : ¬ Reach g r a := by
      intro hra
      obtain ⟨hRa, kvs, hga⟩ := hp
      rcases hsep a hra with h1 | ⟨s, h1⟩
      · exact h1 hRa
      · rw [hga] at h1; cases h1
    refine ih ?_ (by rw [absH_write_frame c hnr]; exact hn)
    intro b hb
    have hb' : Reach g r b := (reach_write_frame c hnr).mp hb
    have hba : b ≠ a := fun e => hnr (e ▸ hb')
    rw [get?_write_ne g c hba]
    exact hsep b hb'
  | @alloc g g' c _ ih =>
    have hl := le_alloc g c
    refine ih ?_ (absH_mono hl f r n hn)
    intro b hb
    have hb' : Reach g r b := reach_of_le' hl hn hb
    have hlt := reach_lt_of_absH f r n hn b hb'
    rw [get?_eq_of_le hl hlt]
    exact hsep b hb'

/-- … and every cell outside `R` as it was -/
theorem Writes.get?_frame_wc {R : Addr → Prop} {h h' : Heap} (hw : Writes (WC R) h h') {b : Addr}
    (hb : ¬ R b) (hlt : b < h.size) : h'.get? b = h.get? b := by
  induction hw with
  | refl _ => rfl
  | @write g g' a c hp _ ih =>
    have hba : b ≠ a := fun e => hb (e ▸ hp.1)
    rw [ih (by rw [size_write]; exact hlt), get?_write_ne g c hba]
  | @alloc g g' c _ ih =>
    rw [ih (by rw [size_alloc]; exact Nat.lt_succ_of_lt hlt), get?_eq_of_le (le_alloc g c) hlt]

/-! ## 3. Layers() -/

theorem layersF_spec (f : Nat) : ∀ (s : HOverlay) (h h' : Heap) (snaps : HOverlay),
    layersF f h s = some (h', snaps) →
    h ≤ h' ∧ snaps.names = s.names ∧ (∀ p ∈ snaps, h.size ≤ p.2 ∧ p.2 < h'.size) ∧
      ∀ n, n ≤ h.size → FreshClosed n h → FreshClosed n h'
  | [], h, h', snaps, he => by
    simp only [layersF, Option.some.injEq, Prod.mk.injEq] at he
    obtain ⟨rfl, rfl⟩ := he
    exact ⟨le_refl _, rfl, (fun p hp => by cases hp), fun _ _ hf => hf⟩
  | (n, a) :: rest, h, h', snaps, he => by
    simp only [layersF] at he
    cases hc : cloneF f h a with
    | none => simp [hc] at he
    | some q =>
      obtain ⟨h1, r⟩ := q
      simp only [hc] at he
      cases hr : layersF f h1 rest with
      | none => simp [hr] at he
      | some q2 =>
        obtain ⟨h2, sn⟩ := q2
        simp only [hr, Option.some.injEq, Prod.mk.injEq] at he
        obtain ⟨rfl, rfl⟩ := he
        obtain ⟨l1, b1, b2, f1⟩ := cloneF_spec f h a h1 r hc
        obtain ⟨l2, hn, b3, f2⟩ := layersF_spec f rest h1 h2 sn hr
        refine ⟨le_trans l1 l2, ?_, ?_, ?_⟩
        · simp only [HOverlay.names, List.map_cons] at hn ⊢
          rw [hn]
        · intro p hp
          rcases List.mem_cons.mp hp with rfl | hp
          · exact ⟨b1, Nat.lt_of_lt_of_le b2 (size_le_of_le l2)⟩
          · exact ⟨Nat.le_trans (size_le_of_le l1) (b3 p hp).1, (b3 p hp).2⟩
        · intro m hm hf
          exact f2 m (Nat.le_trans hm (size_le_of_le l1)) (f1 m hm hf)

/-- after `Layers()` the new cells form a region -/
theorem layersF_region {f : Nat} {s snaps : HOverlay} {h h' : Heap}
    (he : layersF f h s = some (h', snaps)) : Region h.size h'.size h' := by
  obtain ⟨_, _, _, hf⟩ := layersF_spec f s h h' snaps he
  have hfc := hf h.size (Nat.le_refl _) (freshClosed_size h)
  intro b d hb0 _ hg k hk
  exact hfc b d hb0 hg k hk

/-- `Layers()` succeeds on layers with defined abstractions; snapshot `i` abstracts to what layer
    `i` abstracts to -/
theorem layersF_abs (f : Nat) : ∀ (s : HOverlay) (h : Heap), (∀ p ∈ s, ∃ x, absH f h p.2 = some x) →
    ∃ h' snaps, layersF f h s = some (h', snaps) ∧
      ∀ (i : Nat) (p q : String × Addr), s[i]? = some p → snaps[i]? = some q →
        p.1 = q.1 ∧ absH f h' q.2 = absH f h p.2
  | [], h, _ => ⟨h, [], rfl, fun i p q hp _ => by simp at hp⟩
  | (n, a) :: rest, h, hd => by
    obtain ⟨x, hx⟩ := hd (n, a) (List.mem_cons_self ..)
    obtain ⟨h1, r, hc, hr⟩ := cloneF_abs f h a x hx
    have l1 := (cloneF_spec f h a h1 r hc).1
    have hd1 : ∀ p ∈ rest, ∃ y, absH f h1 p.2 = some y := by
      intro p hp
      obtain ⟨y, hy⟩ := hd p (List.mem_cons_of_mem _ hp)
      exact ⟨y, absH_mono l1 f p.2 y hy⟩
    obtain ⟨h2, sn, he, hall⟩ := layersF_abs f rest h1 hd1
    have l2 := (layersF_spec f rest h1 h2 sn he).1
    refine ⟨h2, (n, r) :: sn, by simp [layersF, hc, he], ?_⟩
    intro i p q hp hq
    cases i with
    | zero =>
      simp only [List.getElem?_cons_zero, Option.some.injEq] at hp hq
      subst hp; subst hq
      exact ⟨rfl, by rw [hx]; exact absH_mono l2 f r x hr⟩
    | succ j =>
      simp only [List.getElem?_cons_succ] at hp hq
      obtain ⟨e1, e2⟩ := hall j p q hp hq
      refine ⟨e1, ?_⟩
      obtain ⟨y, hy⟩ := hd p (List.mem_cons_of_mem _ (List.mem_of_getElem? hp))
      rw [e2, hy]
      exact absH_mono l1 f p.2 y hy

/-- the snapshots of one `Layers()` call lie in consecutive, disjoint address intervals: every cell
    of an earlier snapshot is below every cell of a later one -/
theorem layersF_ordered (f : Nat) : ∀ (s : HOverlay) (h h' : Heap) (snaps : HOverlay),
    layersF f h s = some (h', snaps) →
    ∀ (i j : Nat) (p q : String × Addr), i < j → snaps[i]? = some p → snaps[j]? = some q →
      ∀ b b', Reach h' p.2 b → Reach h' q.2 b' → b < b'
  | [], h, h', snaps, he => by
    simp only [layersF, Option.some.injEq, Prod.mk.injEq] at he
    obtain ⟨_, rfl⟩ := he
    intro i j p q _ hp; simp at hp
  | (n, a) :: rest, h, h', snaps, he => by
    simp only [layersF] at he
    cases hc : cloneF f h a with
    | none => simp [hc] at he
    | some q1 =>
      obtain ⟨h1, r⟩ := q1
      simp only [hc] at he
      cases hr : layersF f h1 rest with
      | none => simp [hr] at he
      | some q2 =>
        obtain ⟨h2, sn⟩ := q2
        simp only [hr, Option.some.injEq, Prod.mk.injEq] at he
        obtain ⟨rfl, rfl⟩ := he
        obtain ⟨l1, b1, b2, _⟩ := cloneF_spec f h a h1 r hc
        obtain ⟨l2, _, hb, _⟩ := layersF_spec f rest h1 h2 sn hr
        have hreg1 := cloneF_region hc
        have hreg2 := layersF_region hr
        -- the first snapshot's region is untouched by the later clones
        have hreg1' : Region h.size h1.size h2 := by
          intro x c hx0 hx1 hg k hk
          rw [get?_eq_of_le l2 hx1] at hg
          exact hreg1 x c hx0 hx1 hg k hk
        intro i j p q hij hp hq b b' hrb hrb'
        cases j with
        | zero => omega
        | succ j' =>
          simp only [List.getElem?_cons_succ] at hq
          have hq2 := hb q (List.mem_of_getElem? hq)
          have hb' := hreg2.reach hrb' hq2.1 hq2.2
          cases i with
          | zero =>
            simp only [List.getElem?_cons_zero, Option.some.injEq] at hp
            subst hp
            have hb0 := hreg1'.reach hrb b1 b2
            exact Nat.lt_of_lt_of_le hb0.2 hb'.1
          | succ i' =>
            simp only [List.getElem?_cons_succ] at hp
            exact layersF_ordered f rest h1 h2 sn hr i' j' p q (by omega) hp hq b b' hrb hrb'

end Ytk.Heap
