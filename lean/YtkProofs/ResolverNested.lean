/-
  YtkProofs.ResolverNested — the recursive-descent reference evaluator for templates whose
  placeholder KEYS are templates themselves (`${a${b}}`, `${${k}:dflt}`) and the refinement
  `evalT2 ⊑ resolve` under the key-safety hypothesis "no resolved key text contains a separator".

  Semantics read off `resolve` (YtkModel/Resolver.lean) / props/resolver.go:
  the whole placeholder text `key[:default]` is resolved first, left to right, with the
  placeholder's ORIGINAL text pushed on the expansion stack; the resolved text is looked up,
  then split at its FIRST separator; a known key gives its value, which is resolved again on the
  same stack; an unknown key gives the (already resolved) default, which is scanned a second time;
  an unknown key without default leaves the placeholder verbatim in its ORIGINAL (unresolved) form.
-/
import YtkProofs.ResolverEval

namespace Ytk.Resolver

/-! ## general facts about the resolver model (any `norm`, any table) -/

section general

variable {norm : Toks → Toks} {tbl : Table}

theorem firstPh_append {s before ph after : Toks} (t : Toks)
    (h : firstPh s = some (before, ph, after)) :
    firstPh (s ++ t) = some (before, ph, after ++ t) := by
  obtain ⟨afterPre, h₁, h₂⟩ := firstPh_split h
  exact firstPh_of (findPre_append_some t h₁) (findEnd_append_some t h₂)

/-- a circular reference found in `s₁` is found in `s₁ ++ s₂` as well, whatever follows
    (same fuel; no balance hypothesis: the scanner never gets behind the failing placeholder) -/
theorem resolve_cycle_append (s₂ : Toks) :
    ∀ (n : Nat) (s₁ : Toks) (seen : List Toks) (o : Toks),
      resolve norm n tbl s₁ seen = .cycle o → resolve norm n tbl (s₁ ++ s₂) seen = .cycle o := by
  intro n
  induction n with
  | zero => intro s₁ seen o h; simp at h
  | succ n ih =>
    intro s₁ seen o h
    cases hf : firstPh s₁ with
    | none => rw [resolve_succ_none n seen hf] at h; cases h
    | some p =>
      obtain ⟨before, ph, after⟩ := p
      have hf' := firstPh_append s₂ hf
      by_cases hc : ph ∈ seen
      · rw [resolve_succ_here n hf hc] at h
        rw [resolve_succ_here n hf' hc]; exact h
      · rw [resolve_succ_some n hf hc] at h
        rw [resolve_succ_some n hf' hc]
        unfold body at h ⊢
        cases h1 : resolve norm n tbl ph (seen ++ [ph]) with
        | outOfFuel => simp [h1] at h
        | cycle o' => simp only [h1] at h ⊢; exact h
        | ok ph' =>
          simp only [h1] at h ⊢
          cases hp : resolvePlaceholder tbl (norm ph') with
          | none =>
            simp only [hp] at h ⊢
            rw [ih _ _ _ (prepend_eq_cycle h)]; rfl
          | some pv =>
            simp only [hp] at h ⊢
            cases h2 : resolve norm n tbl pv (seen ++ [ph]) with
            | outOfFuel => simp [h2] at h
            | cycle o' => simp only [h2] at h ⊢; exact h
            | ok pv' =>
              simp only [h2] at h ⊢
              rw [ih _ _ _ (prepend_eq_cycle h)]; rfl

theorem Resolves.cycle_append {s₁ : Toks} (s₂ : Toks) {seen : List Toks} {o : Toks}
    (h : Resolves norm tbl s₁ seen (.cycle o)) : Resolves norm tbl (s₁ ++ s₂) seen (.cycle o) := by
  obtain ⟨n, hn, _⟩ := h
  exact ⟨n, resolve_cycle_append s₂ n s₁ seen o hn, by simp⟩

/-- a text result does not depend on the stack entries that were never hit: the same result is
    obtained on every smaller stack (same fuel) -/
theorem resolve_ok_anti :
    ∀ (n : Nat) (s : Toks) (S₁ S₂ : List Toks) (t : Toks), (∀ x ∈ S₂, x ∈ S₁) →
      resolve norm n tbl s S₁ = .ok t → resolve norm n tbl s S₂ = .ok t := by
  intro n
  induction n with
  | zero => intro s S₁ S₂ t _ h; simp at h
  | succ n ih =>
    intro s S₁ S₂ t hsub h
    cases hf : firstPh s with
    | none =>
      rw [resolve_succ_none n S₁ hf] at h
      rw [resolve_succ_none n S₂ hf]; exact h
    | some p =>
      obtain ⟨before, ph, after⟩ := p
      by_cases hc : ph ∈ S₁
      · rw [resolve_succ_here n hf hc] at h; cases h
      · have hc₂ : ph ∉ S₂ := fun hm => hc (hsub _ hm)
        have hsub' : ∀ x ∈ S₂ ++ [ph], x ∈ S₁ ++ [ph] := by
          intro x hx
          rcases List.mem_append.mp hx with hx | hx
          · exact List.mem_append_left _ (hsub _ hx)
          · exact List.mem_append_right _ hx
        rw [resolve_succ_some n hf hc] at h
        rw [resolve_succ_some n hf hc₂]
        unfold body at h ⊢
        cases h1 : resolve norm n tbl ph (S₁ ++ [ph]) with
        | outOfFuel => simp [h1] at h
        | cycle o' => simp [h1] at h
        | ok ph' =>
          rw [ih _ _ _ _ hsub' h1]
          simp only [h1] at h ⊢
          cases hp : resolvePlaceholder tbl (norm ph') with
          | none =>
            simp only [hp] at h ⊢
            obtain ⟨t', ht', rfl⟩ := prepend_eq_ok h
            rw [ih _ _ _ _ hsub ht']; rfl
          | some pv =>
            simp only [hp] at h ⊢
            cases h2 : resolve norm n tbl pv (S₁ ++ [ph]) with
            | outOfFuel => simp [h2] at h
            | cycle o' => simp [h2] at h
            | ok pv' =>
              rw [ih _ _ _ _ hsub' h2]
              simp only [h2] at h ⊢
              obtain ⟨t', ht', rfl⟩ := prepend_eq_ok h
              rw [ih _ _ _ _ hsub ht']; rfl

theorem Resolves.ok_anti {s : Toks} {S₁ S₂ : List Toks} {t : Toks} (hsub : ∀ x ∈ S₂, x ∈ S₁)
    (h : Resolves norm tbl s S₁ (.ok t)) : Resolves norm tbl s S₂ (.ok t) := by
  obtain ⟨n, hn, _⟩ := h
  exact ⟨n, resolve_ok_anti n s S₁ S₂ t hsub hn, by simp⟩

/-- concatenation homomorphism (= `resolve_append_balanced` of C11) -/
theorem Resolves.append {s₁ s₂ : Toks} {seen : List Toks} {r₁ r₂ : Res} (hb : Balanced s₁)
    (h₁ : Resolves norm tbl s₁ seen r₁) (h₂ : Resolves norm tbl s₂ seen r₂) :
    Resolves norm tbl (s₁ ++ s₂) seen (r₁.seq r₂) := by
  obtain ⟨n, hn, hr⟩ := h₁
  subst hn
  exact resolves_append_aux norm tbl s₂ n s₁ seen r₂ hb hr h₂

end general

/-! ## templates with nested keys -/

/-- templates, as a sequence: end | text · rest | `${key}` · rest | `${key:default}` · rest,
    where `key` and `default` are templates again -/
inductive Tmpl2 where
  | done
  | lit (t : Toks) (rest : Tmpl2)
  | ph (key : Tmpl2) (rest : Tmpl2)
  | phd (key : Tmpl2) (dflt : Tmpl2) (rest : Tmpl2)
  deriving Repr, DecidableEq

def render2 : Tmpl2 → Toks
  | .done => []
  | .lit t rest => t ++ render2 rest
  | .ph key rest => Tok.pre :: (render2 key ++ Tok.suf :: render2 rest)
  | .phd key d rest => Tok.pre :: ((render2 key ++ Tok.sep :: render2 d) ++ Tok.suf :: render2 rest)

/-- the text of a placeholder with default as the resolver sees it -/
def rawD2 (key d : Tmpl2) : Toks := render2 key ++ Tok.sep :: render2 d

/-- literal text never contains a delimiter half (it MAY contain separators: outside a
    placeholder and behind the first separator of a placeholder they are plain text) -/
def NoDelim (t : Toks) : Prop := Tok.pre ∉ t ∧ Tok.suf ∉ t

instance (t : Toks) : Decidable (NoDelim t) := inferInstanceAs (Decidable (_ ∧ _))

/-- grammar-generated -/
def Tmpl2.WF : Tmpl2 → Prop
  | .done => True
  | .lit t rest => NoDelim t ∧ rest.WF
  | .ph key rest => key.WF ∧ rest.WF
  | .phd key d rest => key.WF ∧ d.WF ∧ rest.WF

instance Tmpl2.decWF : (t : Tmpl2) → Decidable t.WF
  | .done => isTrue trivial
  | .lit t rest =>
    have := Tmpl2.decWF rest
    inferInstanceAs (Decidable (NoDelim t ∧ rest.WF))
  | .ph key rest =>
    have := Tmpl2.decWF key
    have := Tmpl2.decWF rest
    inferInstanceAs (Decidable (key.WF ∧ rest.WF))
  | .phd key d rest =>
    have := Tmpl2.decWF key
    have := Tmpl2.decWF d
    have := Tmpl2.decWF rest
    inferInstanceAs (Decidable (key.WF ∧ d.WF ∧ rest.WF))

abbrev TTable2 := List (Toks × Tmpl2)

def TTable2.get : TTable2 → Toks → Option Tmpl2
  | [], _ => none
  | (k, v) :: r, x => if x = k then some v else TTable2.get r x

/-- table keys contain no separator, table values are templates -/
def TTable2.WF (tt : TTable2) : Prop := ∀ kv ∈ tt, Tok.sep ∉ kv.1 ∧ kv.2.WF

instance (tt : TTable2) : Decidable tt.WF := inferInstanceAs (Decidable (∀ kv ∈ tt, _))

/-- the string table the resolver sees -/
def toTable2 (tt : TTable2) : Table := tt.map fun kv => (kv.1, render2 kv.2)

theorem toTable2_get (tt : TTable2) (x : Toks) : (toTable2 tt).get x = (tt.get x).map render2 := by
  induction tt with
  | nil => rfl
  | cons kv r ih =>
    obtain ⟨k, v⟩ := kv
    simp only [toTable2, List.map_cons, Table.get, TTable2.get]
    split
    · rfl
    · exact ih

theorem TTable2.get_wf {tt : TTable2} (h : tt.WF) {x : Toks} {v : Tmpl2} (hg : tt.get x = some v) :
    v.WF := by
  induction tt with
  | nil => cases hg
  | cons kv r ih =>
    obtain ⟨k, v'⟩ := kv
    simp only [TTable2.get] at hg
    split at hg
    · cases hg; exact (h _ (List.mem_cons_self ..)).2
    · exact ih (fun kv hkv => h kv (List.mem_cons_of_mem _ hkv)) hg

theorem toTable2_get_sep {tt : TTable2} (h : tt.WF) {x : Toks} (hx : Tok.sep ∈ x) :
    (toTable2 tt).get x = none := by
  induction tt with
  | nil => rfl
  | cons kv r ih =>
    obtain ⟨k, v⟩ := kv
    simp only [toTable2, List.map_cons, Table.get]
    split
    · rename_i e
      exact absurd (e ▸ hx) (h _ (List.mem_cons_self ..)).1
    · exact ih (fun kv hkv => h kv (List.mem_cons_of_mem _ hkv))

/-- The reference semantics (recursive descent over the AST; one unit of fuel per node).
    `${key}`: circular if this very text is being expanded; the key template is evaluated (with
    the text on the stack), the evaluated key text is looked up: known → its value, evaluated;
    unknown → the placeholder stays verbatim in its ORIGINAL form.
    `${key:default}`: circular if this very text is being expanded; key and default are evaluated,
    in this order (a circular reference inside either is reported even if the other alone would
    decide the result — as in the Go code); known key → its value, evaluated; else the evaluated
    default. -/
def evalT2 (tt : TTable2) : Nat → Tmpl2 → List Toks → Res
  | 0, _, _ => .outOfFuel
  | _ + 1, .done, _ => .ok []
  | n + 1, .lit t rest, st => (evalT2 tt n rest st).prepend t
  | n + 1, .ph key rest, st =>
    if st.contains (render2 key) then .cycle (render2 key)
    else
      match evalT2 tt n key (st ++ [render2 key]) with
      | .ok k' =>
        match tt.get k' with
        | some v =>
          match evalT2 tt n v (st ++ [render2 key]) with
          | .ok v' => (evalT2 tt n rest st).prepend v'
          | e => e
        | none => (evalT2 tt n rest st).prepend (Tok.pre :: render2 key ++ [Tok.suf])
      | e => e
  | n + 1, .phd key d rest, st =>
    if st.contains (rawD2 key d) then .cycle (rawD2 key d)
    else
      match evalT2 tt n key (st ++ [rawD2 key d]) with
      | .ok k' =>
        match evalT2 tt n d (st ++ [rawD2 key d]) with
        | .ok d' =>
          match tt.get k' with
          | some v =>
            match evalT2 tt n v (st ++ [rawD2 key d]) with
            | .ok v' => (evalT2 tt n rest st).prepend v'
            | e => e
          | none => (evalT2 tt n rest st).prepend d'
        | e => e
      | e => e

/-- THE HYPOTHESIS of the refinement, per run (decidable, same recursion as `evalT2`):
    every key text that the run of `evalT2 tt n t st` evaluates and looks up is separator-free.
    Only the parts of the run that are really executed are inspected (nothing behind a circular
    reference, no value of an unknown key, …). -/
def keySafe (tt : TTable2) : Nat → Tmpl2 → List Toks → Bool
  | 0, _, _ => true
  | _ + 1, .done, _ => true
  | n + 1, .lit _ rest, st => keySafe tt n rest st
  | n + 1, .ph key rest, st =>
    if st.contains (render2 key) then true
    else
      keySafe tt n key (st ++ [render2 key]) &&
      match evalT2 tt n key (st ++ [render2 key]) with
      | .ok k' =>
        !k'.contains Tok.sep &&
        match tt.get k' with
        | some v =>
          keySafe tt n v (st ++ [render2 key]) &&
          match evalT2 tt n v (st ++ [render2 key]) with
          | .ok _ => keySafe tt n rest st
          | _ => true
        | none => keySafe tt n rest st
      | _ => true
  | n + 1, .phd key d rest, st =>
    if st.contains (rawD2 key d) then true
    else
      keySafe tt n key (st ++ [rawD2 key d]) &&
      match evalT2 tt n key (st ++ [rawD2 key d]) with
      | .ok k' =>
        !k'.contains Tok.sep &&
        keySafe tt n d (st ++ [rawD2 key d]) &&
        match evalT2 tt n d (st ++ [rawD2 key d]) with
        | .ok _ =>
          match tt.get k' with
          | some v =>
            keySafe tt n v (st ++ [rawD2 key d]) &&
            match evalT2 tt n v (st ++ [rawD2 key d]) with
            | .ok _ => keySafe tt n rest st
            | _ => true
          | none => keySafe tt n rest st
        | _ => true
      | _ => true

/-! ## scanning rendered templates -/

theorem findEnd_noDelim {t : Toks} (ht : NoDelim t) (d : Nat) (r : Toks) :
    findEnd d (t ++ r) = (findEnd d r).map fun p => (t ++ p.1, p.2) := by
  induction t with
  | nil => simp
  | cons x t ih =>
    have hx1 : x ≠ Tok.pre := fun e => ht.1 (e ▸ List.mem_cons_self ..)
    have hx2 : x ≠ Tok.suf := fun e => ht.2 (e ▸ List.mem_cons_self ..)
    have ht' : NoDelim t := ⟨fun e => ht.1 (List.mem_cons_of_mem _ e), fun e => ht.2 (List.mem_cons_of_mem _ e)⟩
    cases x with
    | pre => exact absurd rfl hx1
    | suf => exact absurd rfl hx2
    | sep | ch c =>
      simp only [List.cons_append, findEnd, ih ht', Option.map_map]
      cases findEnd d r <;> simp

theorem findEnd_render2 {t : Tmpl2} (ht : t.WF) :
    ∀ (d : Nat) (r : Toks),
      findEnd d (render2 t ++ r) = (findEnd d r).map fun p => (render2 t ++ p.1, p.2) := by
  induction t with
  | done => intro d r; simp [render2]
  | lit t rest ih =>
    intro d r
    obtain ⟨h1, h2⟩ := ht
    simp only [render2, List.append_assoc, findEnd_noDelim h1, ih h2, Option.map_map]
    cases findEnd d r <;> simp
  | ph key rest ihk ih =>
    intro d r
    obtain ⟨h1, h2⟩ := ht
    simp only [render2, List.cons_append, List.append_assoc, findEnd, ihk h1, ih h2, Option.map_map]
    cases findEnd d r <;> simp
  | phd key dflt rest ihk ihd ih =>
    intro d r
    obtain ⟨h1, h2, h3⟩ := ht
    simp only [render2, List.cons_append, List.append_assoc, findEnd, ihk h1, ihd h2, ih h3,
      Option.map_map]
    cases findEnd d r <;> simp

theorem balancedAux_noPre {b : Toks} (h : Tok.pre ∉ b) (hs : Tok.suf ∉ b) (d : Nat) (r : Toks) :
    balancedAux d (b ++ r) = balancedAux d r := by
  induction b with
  | nil => rfl
  | cons t b ih =>
    have ht : t ≠ Tok.pre := fun e => h (e ▸ List.mem_cons_self ..)
    have ht2 : t ≠ Tok.suf := fun e => hs (e ▸ List.mem_cons_self ..)
    have hb : Tok.pre ∉ b := fun e => h (List.mem_cons_of_mem _ e)
    have hb2 : Tok.suf ∉ b := fun e => hs (List.mem_cons_of_mem _ e)
    cases t with
    | pre => exact absurd rfl ht
    | suf => exact absurd rfl ht2
    | sep | ch c => simp only [List.cons_append, balancedAux]; exact ih hb hb2

theorem balancedAux_render2 {t : Tmpl2} (ht : t.WF) :
    ∀ (d : Nat) (r : Toks), balancedAux d (render2 t ++ r) = balancedAux d r := by
  induction t with
  | done => intro d r; rfl
  | lit t rest ih =>
    intro d r
    obtain ⟨h1, h2⟩ := ht
    simp only [render2, List.append_assoc]
    rw [balancedAux_noPre h1.1 h1.2, ih h2]
  | ph key rest ihk ih =>
    intro d r
    obtain ⟨h1, h2⟩ := ht
    simp only [render2, List.cons_append, List.append_assoc, balancedAux]
    rw [ihk h1]
    simp only [balancedAux]
    exact ih h2 d r
  | phd key dflt rest ihk ihd ih =>
    intro d r
    obtain ⟨h1, h2, h3⟩ := ht
    simp only [render2, List.cons_append, List.append_assoc, balancedAux]
    rw [ihk h1]
    simp only [balancedAux]
    rw [ihd h2]
    simp only [balancedAux]
    exact ih h3 d r

theorem balanced_render2 {t : Tmpl2} (ht : t.WF) : Balanced (render2 t) := by
  have := balancedAux_render2 ht 0 []
  simpa [Balanced, balancedAux] using this

/-- the text of `${key}` is closed by the suffix that follows it -/
theorem findEnd_key {key : Tmpl2} (hk : key.WF) (z : Toks) :
    findEnd 0 (render2 key ++ Tok.suf :: z) = some (render2 key, z) := by
  rw [findEnd_render2 hk]
  simp [findEnd]

/-- the text of `${key:default}` is closed by the suffix that follows it -/
theorem findEnd_rawD2 {key d : Tmpl2} (hk : key.WF) (hd : d.WF) (z : Toks) :
    findEnd 0 (rawD2 key d ++ Tok.suf :: z) = some (rawD2 key d, z) := by
  have e : rawD2 key d ++ Tok.suf :: z = render2 key ++ (Tok.sep :: (render2 d ++ Tok.suf :: z)) := by
    simp [rawD2]
  rw [e, findEnd_render2 hk]
  simp only [findEnd, findEnd_render2 hd, Option.map_some]
  simp [rawD2]

theorem firstPh_block {raw : Toks} (hz : ∀ z, findEnd 0 (raw ++ Tok.suf :: z) = some (raw, z))
    (z : Toks) : firstPh (Tok.pre :: (raw ++ Tok.suf :: z)) = some ([], raw, z) :=
  firstPh_of (before := []) rfl (hz z)

/-! ## idempotent outputs: a further scan changes nothing -/

/-- balanced, and resolving it again (on the stack `st`) gives the text itself -/
def Idem (tbl : Table) (st : List Toks) (t : Toks) : Prop :=
  Balanced t ∧ Resolves id tbl t st (.ok t)

theorem Idem.nil {tbl : Table} {st : List Toks} : Idem tbl st [] :=
  ⟨by decide, Resolves.plain st rfl⟩

theorem Idem.text_append {tbl : Table} {st : List Toks} {a t : Toks} (ha : Tok.pre ∉ a)
    (h : Idem tbl st t) : Idem tbl st (a ++ t) :=
  ⟨(Balanced.of_noPre ha).append h.1, by simpa [Res.prepend] using Resolves.text ha h.2⟩

theorem Idem.append {tbl : Table} {st : List Toks} {a t : Toks} (ha : Idem tbl st a)
    (h : Idem tbl st t) : Idem tbl st (a ++ t) :=
  ⟨ha.1.append h.1, by simpa [Res.seq] using Resolves.append ha.1 ha.2 h.2⟩

theorem Idem.anti {tbl : Table} {st st' : List Toks} {t : Toks} (hs : ∀ x ∈ st', x ∈ st)
    (h : Idem tbl st t) : Idem tbl st' t :=
  ⟨h.1, h.2.ok_anti hs⟩

/-- a verbatim block `${raw}` in front of an idempotent text -/
theorem Idem.block {tbl : Table} {st : List Toks} {raw k' t : Toks}
    (hz : ∀ z, findEnd 0 (raw ++ Tok.suf :: z) = some (raw, z)) (hn : raw ∉ st)
    (h1 : Resolves id tbl raw (st ++ [raw]) (.ok k')) (hp : resolvePlaceholder tbl (id k') = none)
    (h : Idem tbl st t) : Idem tbl st (Tok.pre :: raw ++ [Tok.suf] ++ t) := by
  refine ⟨(Balanced.verbatim (hz [])).append h.1, ?_⟩
  have e : Tok.pre :: raw ++ [Tok.suf] ++ t = Tok.pre :: (raw ++ Tok.suf :: t) := by simp
  rw [e]
  have := Resolves.verbatim (firstPh_block hz t) hn h1 hp h.2
  simpa [Res.prepend] using this

/-! ## the lookup step on evaluated key texts -/

theorem rp2_key_some {tt : TTable2} {k' : Toks} {v : Tmpl2} (hg : tt.get k' = some v) :
    resolvePlaceholder (toTable2 tt) (id k') = some (render2 v) := by
  simp [resolvePlaceholder, toTable2_get, hg]

theorem rp2_key_none {tt : TTable2} {k' : Toks} (hk : Tok.sep ∉ k') (hg : tt.get k' = none) :
    resolvePlaceholder (toTable2 tt) (id k') = none := by
  simp [resolvePlaceholder, toTable2_get, hg, findSep_none_of_not_mem hk]

theorem rp2_dflt_some {tt : TTable2} (hT : tt.WF) {k' d' : Toks} {v : Tmpl2} (hk : Tok.sep ∉ k')
    (hg : tt.get k' = some v) :
    resolvePlaceholder (toTable2 tt) (id (k' ++ Tok.sep :: d')) = some (render2 v) := by
  have h1 : (toTable2 tt).get (k' ++ Tok.sep :: d') = none := toTable2_get_sep hT (by simp)
  simp [resolvePlaceholder, h1, findSep_append_of_not_mem d' hk, toTable2_get, hg]

theorem rp2_dflt_none {tt : TTable2} (hT : tt.WF) {k' d' : Toks} (hk : Tok.sep ∉ k')
    (hg : tt.get k' = none) :
    resolvePlaceholder (toTable2 tt) (id (k' ++ Tok.sep :: d')) = some d' := by
  have h1 : (toTable2 tt).get (k' ++ Tok.sep :: d') = none := toTable2_get_sep hT (by simp)
  simp [resolvePlaceholder, h1, findSep_append_of_not_mem d' hk, toTable2_get, hg]

/-- the text `key:default` resolves left to right: key first, then the default -/
theorem resolves_rawD2 {tbl : Table} {key d : Tmpl2} {st : List Toks} {k' : Toks} {r : Res}
    (hk : key.WF) (h1 : Resolves id tbl (render2 key) st (.ok k'))
    (h2 : Resolves id tbl (render2 d) st r) :
    Resolves id tbl (rawD2 key d) st (r.prepend (k' ++ [Tok.sep])) := by
  have h2' := Resolves.text (t := [Tok.sep]) (by simp) h2
  have := Resolves.append (balanced_render2 hk) h1 h2'
  have e : (Res.ok k').seq (r.prepend [Tok.sep]) = r.prepend (k' ++ [Tok.sep]) := by
    cases r <;> simp [Res.seq, Res.prepend]
  rw [e] at this
  simpa [rawD2] using this

theorem resolves_rawD2_cycle {tbl : Table} {key d : Tmpl2} {st : List Toks} {o : Toks}
    (h1 : Resolves id tbl (render2 key) st (.cycle o)) :
    Resolves id tbl (rawD2 key d) st (.cycle o) :=
  h1.cycle_append _

/-! ## the refinement -/

theorem not_sep_of_contains {k' : Toks} (h : (!k'.contains Tok.sep) = true) : Tok.sep ∉ k' := by
  simpa using h

/-- `evalT2 ⊑ resolve`: whenever the reference evaluator ends (text or circular reference) on a
    key-safe run, the resolver model ends with the SAME result on the rendered template, for
    every stack; and the evaluated text is idempotent (a further scan changes nothing). -/
theorem evalT2_refines {tt : TTable2} (hT : tt.WF) :
    ∀ (n : Nat) (t : Tmpl2) (st : List Toks) (r : Res), t.WF → evalT2 tt n t st = r →
      r ≠ .outOfFuel → keySafe tt n t st = true →
      Resolves id (toTable2 tt) (render2 t) st r ∧ ∀ t', r = .ok t' → Idem (toTable2 tt) st t' := by
  intro n
  induction n with
  | zero => intro t st r _ h hne; exact absurd h.symm hne
  | succ n ih =>
    intro t st r hwf h hne hks
    cases t with
    | done =>
      simp only [evalT2] at h; subst h
      exact ⟨Resolves.plain st rfl, fun t' e => by cases e; exact .nil⟩
    | lit a rest =>
      obtain ⟨ha, hrest⟩ := hwf
      simp only [evalT2] at h; subst h
      simp only [keySafe] at hks
      obtain ⟨hr, hi⟩ := ih rest st _ hrest rfl (prepend_ne_outOfFuel.mp hne) hks
      refine ⟨Resolves.text ha.1 hr, fun t' e => ?_⟩
      obtain ⟨t0, e0, rfl⟩ := prepend_eq_ok e
      exact (hi t0 e0).text_append ha.1
    | ph key rest =>
      obtain ⟨hkey, hrest⟩ := hwf
      have hz := findEnd_key hkey
      have hf : firstPh (render2 (.ph key rest)) = some ([], render2 key, render2 rest) :=
        firstPh_block hz _
      simp only [evalT2] at h
      simp only [keySafe] at hks
      by_cases hc : st.contains (render2 key) = true
      · rw [if_pos hc] at h; subst h
        exact ⟨Resolves.here hf (by simpa using hc), fun t' e => by cases e⟩
      · rw [if_neg hc] at h
        rw [if_neg hc] at hks
        have hn : render2 key ∉ st := by simpa using hc
        rw [Bool.and_eq_true] at hks
        obtain ⟨hks1, hks⟩ := hks
        cases e1 : evalT2 tt n key (st ++ [render2 key]) with
        | outOfFuel => simp only [e1] at h; exact absurd h.symm hne
        | cycle o =>
          simp only [e1] at h; subst h
          obtain ⟨hr1, _⟩ := ih key _ _ hkey e1 (by simp) hks1
          exact ⟨Resolves.key_fail hf hn hr1, fun t' e => by cases e⟩
        | ok k' =>
          simp only [e1] at h hks
          rw [Bool.and_eq_true] at hks
          obtain ⟨hsep, hks⟩ := hks
          have hsep := not_sep_of_contains hsep
          obtain ⟨hr1, _⟩ := ih key _ _ hkey e1 (by simp) hks1
          cases hg : tt.get k' with
          | none =>
            simp only [hg] at h hks; subst h
            obtain ⟨hr, hi⟩ := ih rest st _ hrest rfl (prepend_ne_outOfFuel.mp hne) hks
            have := Resolves.verbatim hf hn hr1 (rp2_key_none hsep hg) hr
            refine ⟨by simpa using this, fun t' e => ?_⟩
            obtain ⟨t0, e0, rfl⟩ := prepend_eq_ok e
            exact Idem.block hz hn hr1 (rp2_key_none hsep hg) (hi t0 e0)
          | some v =>
            simp only [hg] at h hks
            rw [Bool.and_eq_true] at hks
            obtain ⟨hks2, hks⟩ := hks
            have hv : v.WF := TTable2.get_wf hT hg
            cases e2 : evalT2 tt n v (st ++ [render2 key]) with
            | outOfFuel => simp only [e2] at h; exact absurd h.symm hne
            | cycle o =>
              simp only [e2] at h; subst h
              obtain ⟨hr2, _⟩ := ih v _ _ hv e2 (by simp) hks2
              exact ⟨Resolves.value_fail hf hn hr1 (rp2_key_some hg) hr2, fun t' e => by cases e⟩
            | ok v' =>
              simp only [e2] at h hks; subst h
              obtain ⟨hr2, hi2⟩ := ih v _ _ hv e2 (by simp) hks2
              obtain ⟨hr, hi⟩ := ih rest st _ hrest rfl (prepend_ne_outOfFuel.mp hne) hks
              have := Resolves.subst hf hn hr1 (rp2_key_some hg) hr2 hr
              refine ⟨by simpa using this, fun t' e => ?_⟩
              obtain ⟨t0, e0, rfl⟩ := prepend_eq_ok e
              exact ((hi2 v' rfl).anti (subset_push st _)).append (hi t0 e0)
    | phd key d rest =>
      obtain ⟨hkey, hd, hrest⟩ := hwf
      have hz := findEnd_rawD2 hkey hd
      have hf : firstPh (render2 (.phd key d rest)) = some ([], rawD2 key d, render2 rest) :=
        firstPh_block hz _
      simp only [evalT2] at h
      simp only [keySafe] at hks
      by_cases hc : st.contains (rawD2 key d) = true
      · rw [if_pos hc] at h; subst h
        exact ⟨Resolves.here hf (by simpa using hc), fun t' e => by cases e⟩
      · rw [if_neg hc] at h
        rw [if_neg hc] at hks
        have hn : rawD2 key d ∉ st := by simpa using hc
        rw [Bool.and_eq_true] at hks
        obtain ⟨hks1, hks⟩ := hks
        cases e1 : evalT2 tt n key (st ++ [rawD2 key d]) with
        | outOfFuel => simp only [e1] at h; exact absurd h.symm hne
        | cycle o =>
          simp only [e1] at h; subst h
          obtain ⟨hr1, _⟩ := ih key _ _ hkey e1 (by simp) hks1
          exact ⟨Resolves.key_fail hf hn (resolves_rawD2_cycle hr1), fun t' e => by cases e⟩
        | ok k' =>
          simp only [e1] at h hks
          rw [Bool.and_eq_true, Bool.and_eq_true] at hks
          obtain ⟨⟨hsep, hksd⟩, hks⟩ := hks
          have hsep := not_sep_of_contains hsep
          obtain ⟨hr1, _⟩ := ih key _ _ hkey e1 (by simp) hks1
          cases e3 : evalT2 tt n d (st ++ [rawD2 key d]) with
          | outOfFuel => simp only [e3] at h; exact absurd h.symm hne
          | cycle o =>
            simp only [e3] at h; subst h
            obtain ⟨hr3, _⟩ := ih d _ _ hd e3 (by simp) hksd
            have := resolves_rawD2 hkey hr1 hr3
            exact ⟨Resolves.key_fail hf hn (by simpa [Res.prepend] using this), fun t' e => by cases e⟩
          | ok d' =>
            simp only [e3] at h hks
            obtain ⟨hr3, hi3⟩ := ih d _ _ hd e3 (by simp) hksd
            have hraw : Resolves id (toTable2 tt) (rawD2 key d) (st ++ [rawD2 key d])
                (.ok (k' ++ Tok.sep :: d')) := by
              have := resolves_rawD2 hkey hr1 hr3
              simpa [Res.prepend] using this
            have hid : Idem (toTable2 tt) (st ++ [rawD2 key d]) d' := hi3 d' rfl
            cases hg : tt.get k' with
            | none =>
              simp only [hg] at h hks; subst h
              obtain ⟨hr, hi⟩ := ih rest st _ hrest rfl (prepend_ne_outOfFuel.mp hne) hks
              have := Resolves.subst hf hn hraw (rp2_dflt_none hT hsep hg) hid.2 hr
              refine ⟨by simpa using this, fun t' e => ?_⟩
              obtain ⟨t0, e0, rfl⟩ := prepend_eq_ok e
              exact (hid.anti (subset_push st _)).append (hi t0 e0)
            | some v =>
              simp only [hg] at h hks
              rw [Bool.and_eq_true] at hks
              obtain ⟨hks2, hks⟩ := hks
              have hv : v.WF := TTable2.get_wf hT hg
              cases e2 : evalT2 tt n v (st ++ [rawD2 key d]) with
              | outOfFuel => simp only [e2] at h; exact absurd h.symm hne
              | cycle o =>
                simp only [e2] at h; subst h
                obtain ⟨hr2, _⟩ := ih v _ _ hv e2 (by simp) hks2
                exact ⟨Resolves.value_fail hf hn hraw (rp2_dflt_some hT hsep hg) hr2,
                  fun t' e => by cases e⟩
              | ok v' =>
                simp only [e2] at h hks; subst h
                obtain ⟨hr2, hi2⟩ := ih v _ _ hv e2 (by simp) hks2
                obtain ⟨hr, hi⟩ := ih rest st _ hrest rfl (prepend_ne_outOfFuel.mp hne) hks
                have := Resolves.subst hf hn hraw (rp2_dflt_some hT hsep hg) hr2 hr
                refine ⟨by simpa using this, fun t' e => ?_⟩
                obtain ⟨t0, e0, rfl⟩ := prepend_eq_ok e
                exact ((hi2 v' rfl).anti (subset_push st _)).append (hi t0 e0)

/-! ## a static (syntactic) sufficient condition for key safety -/

/-- syntactic: the evaluated output is separator-free, provided the table values it may splice in
    are: literal text without separator; a placeholder without default may stay verbatim, so its
    own text must be separator-free; with a default only the default counts -/
def Tmpl2.SepFreeOut : Tmpl2 → Prop
  | .done => True
  | .lit t rest => Tok.sep ∉ t ∧ rest.SepFreeOut
  | .ph key rest => Tok.sep ∉ render2 key ∧ rest.SepFreeOut
  | .phd _ d rest => d.SepFreeOut ∧ rest.SepFreeOut

/-- syntactic: every key sub-template (at any depth) has separator-free output -/
def Tmpl2.KeysOK : Tmpl2 → Prop
  | .done => True
  | .lit _ rest => rest.KeysOK
  | .ph key rest => key.SepFreeOut ∧ key.KeysOK ∧ rest.KeysOK
  | .phd key d rest => key.SepFreeOut ∧ key.KeysOK ∧ d.KeysOK ∧ rest.KeysOK

instance Tmpl2.decSepFreeOut : (t : Tmpl2) → Decidable t.SepFreeOut
  | .done => isTrue trivial
  | .lit t rest =>
    have := Tmpl2.decSepFreeOut rest
    inferInstanceAs (Decidable (Tok.sep ∉ t ∧ rest.SepFreeOut))
  | .ph key rest =>
    have := Tmpl2.decSepFreeOut rest
    inferInstanceAs (Decidable (Tok.sep ∉ render2 key ∧ rest.SepFreeOut))
  | .phd _ d rest =>
    have := Tmpl2.decSepFreeOut d
    have := Tmpl2.decSepFreeOut rest
    inferInstanceAs (Decidable (d.SepFreeOut ∧ rest.SepFreeOut))

instance Tmpl2.decKeysOK : (t : Tmpl2) → Decidable t.KeysOK
  | .done => isTrue trivial
  | .lit _ rest =>
    have := Tmpl2.decKeysOK rest
    inferInstanceAs (Decidable rest.KeysOK)
  | .ph key rest =>
    have := Tmpl2.decKeysOK key
    have := Tmpl2.decKeysOK rest
    inferInstanceAs (Decidable (key.SepFreeOut ∧ key.KeysOK ∧ rest.KeysOK))
  | .phd key d rest =>
    have := Tmpl2.decKeysOK key
    have := Tmpl2.decKeysOK d
    have := Tmpl2.decKeysOK rest
    inferInstanceAs (Decidable (key.SepFreeOut ∧ key.KeysOK ∧ d.KeysOK ∧ rest.KeysOK))

/-- the TABLE hypothesis: every value has separator-free output and safe keys -/
def TTable2.KeySafe (tt : TTable2) : Prop := ∀ kv ∈ tt, kv.2.SepFreeOut ∧ kv.2.KeysOK

instance (tt : TTable2) : Decidable tt.KeySafe := inferInstanceAs (Decidable (∀ kv ∈ tt, _))

theorem TTable2.get_mem {tt : TTable2} {x : Toks} {v : Tmpl2} (h : tt.get x = some v) :
    ∃ k, (k, v) ∈ tt := by
  induction tt with
  | nil => cases h
  | cons kv r ih =>
    obtain ⟨k, v'⟩ := kv
    simp only [TTable2.get] at h
    split at h
    · cases h; exact ⟨k, List.mem_cons_self ..⟩
    · obtain ⟨k', hk'⟩ := ih h
      exact ⟨k', List.mem_cons_of_mem _ hk'⟩

/-- outputs of `SepFreeOut` templates over a `KeySafe` table contain no separator -/
theorem evalT2_sepFree {tt : TTable2} (hS : tt.KeySafe) :
    ∀ (n : Nat) (t : Tmpl2) (st : List Toks) (out : Toks), t.SepFreeOut →
      evalT2 tt n t st = .ok out → Tok.sep ∉ out := by
  intro n
  induction n with
  | zero => intro t st out _ h; cases h
  | succ n ih =>
    intro t st out hs h
    cases t with
    | done => simp only [evalT2] at h; cases h; simp
    | lit a rest =>
      simp only [evalT2] at h
      obtain ⟨t0, e0, rfl⟩ := prepend_eq_ok h
      have := ih rest st t0 hs.2 e0
      simp only [List.mem_append, not_or]; exact ⟨hs.1, this⟩
    | ph key rest =>
      simp only [evalT2] at h
      by_cases hc : st.contains (render2 key) = true
      · rw [if_pos hc] at h; cases h
      · rw [if_neg hc] at h
        cases e1 : evalT2 tt n key (st ++ [render2 key]) with
        | outOfFuel => simp [e1] at h
        | cycle o => simp [e1] at h
        | ok k' =>
          simp only [e1] at h
          cases hg : tt.get k' with
          | none =>
            simp only [hg] at h
            obtain ⟨t0, e0, rfl⟩ := prepend_eq_ok h
            have := ih rest st t0 hs.2 e0
            have e' : Tok.pre :: render2 key ++ [Tok.suf] ++ t0 =
                [Tok.pre] ++ (render2 key ++ ([Tok.suf] ++ t0)) := by simp
            rw [e']
            intro hm
            rcases List.mem_append.mp hm with h' | h'
            · simp at h'
            · rcases List.mem_append.mp h' with h' | h'
              · exact hs.1 h'
              · rcases List.mem_append.mp h' with h' | h'
                · simp at h'
                · exact this h'
          | some v =>
            simp only [hg] at h
            obtain ⟨k, hk⟩ := TTable2.get_mem hg
            cases e2 : evalT2 tt n v (st ++ [render2 key]) with
            | outOfFuel => simp [e2] at h
            | cycle o => simp [e2] at h
            | ok v' =>
              simp only [e2] at h
              obtain ⟨t0, e0, rfl⟩ := prepend_eq_ok h
              have h1 := ih v _ v' (hS _ hk).1 e2
              have h2 := ih rest st t0 hs.2 e0
              simp only [List.mem_append, not_or]; exact ⟨h1, h2⟩
    | phd key d rest =>
      simp only [evalT2] at h
      by_cases hc : st.contains (rawD2 key d) = true
      · rw [if_pos hc] at h; cases h
      · rw [if_neg hc] at h
        cases e1 : evalT2 tt n key (st ++ [rawD2 key d]) with
        | outOfFuel => simp [e1] at h
        | cycle o => simp [e1] at h
        | ok k' =>
          simp only [e1] at h
          cases e3 : evalT2 tt n d (st ++ [rawD2 key d]) with
          | outOfFuel => simp [e3] at h
          | cycle o => simp [e3] at h
          | ok d' =>
            simp only [e3] at h
            cases hg : tt.get k' with
            | none =>
              simp only [hg] at h
              obtain ⟨t0, e0, rfl⟩ := prepend_eq_ok h
              have h1 := ih d _ d' hs.1 e3
              have h2 := ih rest st t0 hs.2 e0
              simp only [List.mem_append, not_or]; exact ⟨h1, h2⟩
            | some v =>
              simp only [hg] at h
              obtain ⟨k, hk⟩ := TTable2.get_mem hg
              cases e2 : evalT2 tt n v (st ++ [rawD2 key d]) with
              | outOfFuel => simp [e2] at h
              | cycle o => simp [e2] at h
              | ok v' =>
                simp only [e2] at h
                obtain ⟨t0, e0, rfl⟩ := prepend_eq_ok h
                have h1 := ih v _ v' (hS _ hk).1 e2
                have h2 := ih rest st t0 hs.2 e0
                simp only [List.mem_append, not_or]; exact ⟨h1, h2⟩

theorem contains_sep_of_not_mem {k' : Toks} (h : Tok.sep ∉ k') : (!k'.contains Tok.sep) = true := by
  simpa using h

/-- the static hypotheses imply key safety of EVERY run (all fuels, all stacks) -/
theorem keySafe_of_static {tt : TTable2} (hS : tt.KeySafe) :
    ∀ (n : Nat) (t : Tmpl2) (st : List Toks), t.KeysOK → keySafe tt n t st = true := by
  intro n
  induction n with
  | zero => intro t st _; rfl
  | succ n ih =>
    intro t st hk
    cases t with
    | done => rfl
    | lit a rest => simp only [keySafe]; exact ih rest st hk
    | ph key rest =>
      obtain ⟨hks, hkk, hkr⟩ := hk
      simp only [keySafe]
      by_cases hc : st.contains (render2 key) = true
      · rw [if_pos hc]
      · rw [if_neg hc, Bool.and_eq_true]
        refine ⟨ih key _ hkk, ?_⟩
        cases e1 : evalT2 tt n key (st ++ [render2 key]) with
        | outOfFuel => rfl
        | cycle o => rfl
        | ok k' =>
          simp only
          rw [Bool.and_eq_true]
          refine ⟨contains_sep_of_not_mem (evalT2_sepFree hS n key _ k' hks e1), ?_⟩
          cases hg : tt.get k' with
          | none => exact ih rest st hkr
          | some v =>
            obtain ⟨k, hkv⟩ := TTable2.get_mem hg
            simp only
            rw [Bool.and_eq_true]
            refine ⟨ih v _ (hS _ hkv).2, ?_⟩
            cases evalT2 tt n v (st ++ [render2 key]) with
            | outOfFuel => rfl
            | cycle o => rfl
            | ok v' => exact ih rest st hkr
    | phd key d rest =>
      obtain ⟨hks, hkk, hkd, hkr⟩ := hk
      simp only [keySafe]
      by_cases hc : st.contains (rawD2 key d) = true
      · rw [if_pos hc]
      · rw [if_neg hc, Bool.and_eq_true]
        refine ⟨ih key _ hkk, ?_⟩
        cases e1 : evalT2 tt n key (st ++ [rawD2 key d]) with
        | outOfFuel => rfl
        | cycle o => rfl
        | ok k' =>
          simp only
          rw [Bool.and_eq_true, Bool.and_eq_true]
          refine ⟨⟨contains_sep_of_not_mem (evalT2_sepFree hS n key _ k' hks e1), ih d _ hkd⟩, ?_⟩
          cases evalT2 tt n d (st ++ [rawD2 key d]) with
          | outOfFuel => rfl
          | cycle o => rfl
          | ok d' =>
            simp only
            cases hg : tt.get k' with
            | none => exact ih rest st hkr
            | some v =>
              obtain ⟨k, hkv⟩ := TTable2.get_mem hg
              simp only
              rw [Bool.and_eq_true]
              refine ⟨ih v _ (hS _ hkv).2, ?_⟩
              cases evalT2 tt n v (st ++ [rawD2 key d]) with
              | outOfFuel => rfl
              | cycle o => rfl
              | ok v' => exact ih rest st hkr

end Ytk.Resolver
