/-
  The merge (dom/merge.go) with arbitrary Go map iteration order AT EVERY DEPTH.

  `merger.mergeContainers(c1, c2)` ranges over `c1.Children()` (copy into `merged`) and over
  `c2.Children()` (fold into `merged`); it calls itself for a key (a list index, through
  `mergeListsMeld`) that holds a container on both sides.  The executable model (`mergeKvs`,
  `mergeNode`, `meldList`) takes key order everywhere; `YtkProofs/Merge.lean: mergeKvs_perm`
  frees the order of the OUTERMOST second range only.  Here every range, at every depth, may
  use any permutation:

  * `MergeNodeRel o n v r`   — the three-way dispatch for a key / index present on both sides
  * `MergeContRel o a b r`   — one `mergeContainers(a, b)` call
  * `MergeKvsRel o acc b r`  — the second loop, entries of `b` in the order given
  * `MeldRel o xs ys r`      — `mergeListsMeld`
  * `MergedRel o acc ls r`   — `mergeOverlay`: fold over the layers in creation order

  `…_det`: on well-formed documents every run yields the executable model's result;
  `…_self`: the model's result is one of the runs.
-/
import YtkProofs.Merge
import YtkProofs.Props

namespace Ytk

mutual
inductive MergeNodeRel (o : ListStrategy) : Node → Node → Node → Prop
  | cont {ka kb : List (String × Node)} {r : AMap Node} :
      MergeContRel o ka kb r → MergeNodeRel o (.cont ka) (.cont kb) (.cont r)
  | listAppend {xa yb : List Node} : o = .append →
      MergeNodeRel o (.list xa) (.list yb) (.list (appendList xa yb))
  | listMeld {xa yb r : List Node} : o = .meld → MeldRel o xa yb r →
      MergeNodeRel o (.list xa) (.list yb) (.list r)
  | other {n v : Node} : ¬ (n.isCont = true ∧ v.isCont = true) → ¬ (n.isList = true ∧ v.isList = true) →
      MergeNodeRel o n v (coalesce n v)
/-- mergeContainers(c1, c2): `a'` is the order in which c1's children are copied into the fresh
    map `merged` (a Go map: `AMap.ofList`), `b'` the order in which c2's children are folded in -/
inductive MergeContRel (o : ListStrategy) : List (String × Node) → List (String × Node) → AMap Node → Prop
  | mk {a a' b b' : List (String × Node)} {r : AMap Node} :
      a'.Perm a → b'.Perm b → MergeKvsRel o (AMap.ofList a') b' r → MergeContRel o a b r
inductive MergeKvsRel (o : ListStrategy) : AMap Node → List (String × Node) → AMap Node → Prop
  | nil (a : AMap Node) : MergeKvsRel o a [] a
  | fresh {a : AMap Node} {k : String} {v : Node} {rest : List (String × Node)} {r : AMap Node} :
      AMap.get? a k = none → MergeKvsRel o (AMap.insert a k v) rest r → MergeKvsRel o a ((k, v) :: rest) r
  | both {a : AMap Node} {k : String} {n v x : Node} {rest : List (String × Node)} {r : AMap Node} :
      AMap.get? a k = some n → MergeNodeRel o n v x → MergeKvsRel o (AMap.insert a k x) rest r →
      MergeKvsRel o a ((k, v) :: rest) r
inductive MeldRel (o : ListStrategy) : List Node → List Node → List Node → Prop
  | rightNil (xs : List Node) : MeldRel o xs [] xs
  | leftNil (y : Node) (ys : List Node) : MeldRel o [] (y :: ys) (y :: ys)
  | cons {x y z : Node} {xs ys zs : List Node} :
      MergeNodeRel o x y z → MeldRel o xs ys zs → MeldRel o (x :: xs) (y :: ys) (z :: zs)
end

theorem wf_values_insert {a : AMap Node} {k : String} {x : Node} (ha : ∀ p ∈ a, p.2.WF) (hx : x.WF) :
    ∀ p ∈ AMap.insert a k x, p.2.WF := by
  intro p hp
  rcases mem_insert hp with rfl | hp
  · exact hx
  · exact ha p hp

mutual
/-- on well-formed documents every run of the relational merge gives the model's result -/
theorem mergeNodeRel_det {o : ListStrategy} : ∀ {n v r : Node}, MergeNodeRel o n v r → n.WF → v.WF →
    r = mergeNode o n v
  | _, _, _, .cont h, hn, hv => by
    rw [mergeNode_cont_cont, mergeContRel_det h hn hv]
  | _, _, _, .listAppend (xa := xa) (yb := yb) ho, _, _ => by
    have e : mergeList o xa yb = appendList xa yb := by rw [ho]; rfl
    rw [mergeNode_list_list, e]
  | _, _, _, .listMeld (xa := xa) (yb := yb) ho h, hn, hv => by
    have ih := meldRel_det h (fun x hx => hn.of_list_mem hx) (fun y hy => hv.of_list_mem hy)
    have e : mergeList o xa yb = meldList o xa yb := by rw [ho]; rfl
    rw [mergeNode_list_list, e, ih]
  | _, _, _, .other h1 h2, _, _ => (mergeNode_other o _ _ h1 h2).symm
theorem mergeContRel_det {o : ListStrategy} : ∀ {a b : List (String × Node)} {r : AMap Node},
    MergeContRel o a b r → (Node.cont a).WF → (Node.cont b).WF → r = mergeKvs o a b
  | _, _, _, .mk (a := a) (a' := a') (b := b) (b' := b') ha hb h, hwa, hwb => by
    have e : AMap.ofList a' = a := Props.ofList_eq_of_mem_iff hwa.sorted (fun x => ha.mem_iff)
    have hva : ∀ p ∈ AMap.ofList a', p.2.WF := by
      rw [e]; cases hwa with | cont _ hall => exact hall
    have hvb : ∀ p ∈ b', p.2.WF := by
      intro p hp
      cases hwb with | cont _ hall => exact hall p (hb.mem_iff.mp hp)
    have := mergeKvsRel_det h (AMap.sorted_ofList a') hva hvb
    rw [this, e]
    exact (mergeKvs_perm o hwa.sorted hb.symm (keys_nodup_of_sorted hwb.sorted)).symm
theorem mergeKvsRel_det {o : ListStrategy} : ∀ {a : AMap Node} {b : List (String × Node)} {r : AMap Node},
    MergeKvsRel o a b r → AMap.Sorted a → (∀ p ∈ a, p.2.WF) → (∀ p ∈ b, p.2.WF) → r = mergeKvs o a b
  | _, _, _, .nil a, _, _, _ => by simp [mergeKvs]
  | _, _, _, .fresh (v := v) hg h, hs, ha, hb => by
    simp only [mergeKvs, hg]
    exact mergeKvsRel_det h (AMap.sorted_insert hs _ _)
      (wf_values_insert ha (hb _ (List.mem_cons_self ..))) (fun p hp => hb p (List.mem_cons_of_mem _ hp))
  | _, _, _, .both (n := n) (v := v) hg hm h, hs, ha, hb => by
    have hn : n.WF := ha _ (AMap.mem_of_get? hg)
    have hv : v.WF := hb _ (List.mem_cons_self ..)
    have hx := mergeNodeRel_det hm hn hv
    simp only [mergeKvs, hg]
    rw [← hx]
    exact mergeKvsRel_det h (AMap.sorted_insert hs _ _)
      (wf_values_insert ha (hx ▸ wf_mergeNode o n v hn hv)) (fun p hp => hb p (List.mem_cons_of_mem _ hp))
theorem meldRel_det {o : ListStrategy} : ∀ {xs ys r : List Node}, MeldRel o xs ys r →
    (∀ x ∈ xs, x.WF) → (∀ y ∈ ys, y.WF) → r = meldList o xs ys
  | _, _, _, .rightNil xs, _, _ => (meldList_nil_right o xs).symm
  | _, _, _, .leftNil y ys, _, _ => (meldList_nil_left o (y :: ys)).symm
  | _, _, _, .cons h h', hx, hy => by
    simp only [meldList]
    rw [mergeNodeRel_det h (hx _ (List.mem_cons_self ..)) (hy _ (List.mem_cons_self ..)),
      meldRel_det h' (fun a ha => hx a (List.mem_cons_of_mem _ ha)) (fun a ha => hy a (List.mem_cons_of_mem _ ha))]
end

mutual
/-- the key-order merge is one of the runs -/
theorem mergeNodeRel_self (o : ListStrategy) : ∀ (n v : Node), n.WF → v.WF → MergeNodeRel o n v (mergeNode o n v)
  | n, .leaf s, _, _ => by
    have h1 : ¬ (n.isCont = true ∧ (Node.leaf s).isCont = true) := by simp [Node.isCont]
    have h2 : ¬ (n.isList = true ∧ (Node.leaf s).isList = true) := by simp [Node.isList]
    rw [mergeNode_other o _ _ h1 h2]
    exact .other h1 h2
  | n, .list ys, hn, hv => by
    cases n with
    | leaf s =>
      have h1 : ¬ ((Node.leaf s).isCont = true ∧ (Node.list ys).isCont = true) := by simp [Node.isCont]
      have h2 : ¬ ((Node.leaf s).isList = true ∧ (Node.list ys).isList = true) := by simp [Node.isList]
      rw [mergeNode_other o _ _ h1 h2]
      exact .other h1 h2
    | cont ka =>
      have h1 : ¬ ((Node.cont ka).isCont = true ∧ (Node.list ys).isCont = true) := by simp [Node.isCont]
      have h2 : ¬ ((Node.cont ka).isList = true ∧ (Node.list ys).isList = true) := by simp [Node.isList]
      rw [mergeNode_other o _ _ h1 h2]
      exact .other h1 h2
    | list xs =>
      rw [mergeNode_list_list]
      cases o with
      | append => exact .listAppend rfl
      | meld =>
        simp only [mergeList]
        exact .listMeld rfl (meldRel_self .meld xs ys (fun x hx => hn.of_list_mem hx) (fun y hy => hv.of_list_mem hy))
  | n, .cont kb, hn, hv => by
    cases n with
    | leaf s =>
      have h1 : ¬ ((Node.leaf s).isCont = true ∧ (Node.cont kb).isCont = true) := by simp [Node.isCont]
      have h2 : ¬ ((Node.leaf s).isList = true ∧ (Node.cont kb).isList = true) := by simp [Node.isList]
      rw [mergeNode_other o _ _ h1 h2]
      exact .other h1 h2
    | list xs =>
      have h1 : ¬ ((Node.list xs).isCont = true ∧ (Node.cont kb).isCont = true) := by simp [Node.isCont]
      have h2 : ¬ ((Node.list xs).isList = true ∧ (Node.cont kb).isList = true) := by simp [Node.isList]
      rw [mergeNode_other o _ _ h1 h2]
      exact .other h1 h2
    | cont ka =>
      rw [mergeNode_cont_cont]
      have ha : ∀ p ∈ ka, p.2.WF := by cases hn with | cont _ hall => exact hall
      have hb : ∀ p ∈ kb, p.2.WF := by cases hv with | cont _ hall => exact hall
      refine .cont (.mk (a' := ka) (b' := kb) (List.Perm.refl _) (List.Perm.refl _) ?_)
      rw [Props.ofList_sorted hn.sorted]
      exact mergeKvsRel_self o ka kb hn.sorted ha hb
theorem mergeKvsRel_self (o : ListStrategy) : ∀ (a : AMap Node) (b : List (String × Node)), AMap.Sorted a →
    (∀ p ∈ a, p.2.WF) → (∀ p ∈ b, p.2.WF) → MergeKvsRel o a b (mergeKvs o a b)
  | a, [], _, _, _ => by simp only [mergeKvs]; exact .nil a
  | a, (k, v) :: rest, hs, ha, hb => by
    have hv : v.WF := hb _ (List.mem_cons_self ..)
    have hrest : ∀ p ∈ rest, p.2.WF := fun p hp => hb p (List.mem_cons_of_mem _ hp)
    simp only [mergeKvs]
    cases hg : AMap.get? a k with
    | none =>
      exact .fresh hg (mergeKvsRel_self o _ rest (AMap.sorted_insert hs _ _) (wf_values_insert ha hv) hrest)
    | some n =>
      have hn : n.WF := ha _ (AMap.mem_of_get? hg)
      exact .both hg (mergeNodeRel_self o n v hn hv)
        (mergeKvsRel_self o _ rest (AMap.sorted_insert hs _ _) (wf_values_insert ha (wf_mergeNode o n v hn hv)) hrest)
theorem meldRel_self (o : ListStrategy) : ∀ (xs ys : List Node), (∀ x ∈ xs, x.WF) → (∀ y ∈ ys, y.WF) →
    MeldRel o xs ys (meldList o xs ys)
  | xs, [], _, _ => by rw [meldList_nil_right]; exact .rightNil xs
  | [], y :: ys, _, _ => by rw [meldList_nil_left]; exact .leftNil y ys
  | x :: xs, y :: ys, hx, hy => by
    simp only [meldList]
    exact .cons (mergeNodeRel_self o x y (hx _ (List.mem_cons_self ..)) (hy _ (List.mem_cons_self ..)))
      (meldRel_self o xs ys (fun a ha => hx a (List.mem_cons_of_mem _ ha)) (fun a ha => hy a (List.mem_cons_of_mem _ ha)))
end

theorem mergeContRel_self (o : ListStrategy) {a b : AMap Node} (ha : (Node.cont a).WF) (hb : (Node.cont b).WF) :
    MergeContRel o a b (mergeKvs o a b) := by
  have hva : ∀ p ∈ a, p.2.WF := by cases ha with | cont _ hall => exact hall
  have hvb : ∀ p ∈ b, p.2.WF := by cases hb with | cont _ hall => exact hall
  refine .mk (a' := a) (b' := b) (List.Perm.refl _) (List.Perm.refl _) ?_
  rw [Props.ofList_sorted ha.sorted]
  exact mergeKvsRel_self o a b ha.sorted hva hvb

/-! ## constructors with the intermediate maps named (for concrete derivations) -/

theorem MergeKvsRel.nil_eq {o : ListStrategy} {a r : AMap Node} (e : a = r) : MergeKvsRel o a [] r := e ▸ .nil a

theorem MergeKvsRel.fresh_eq {o : ListStrategy} {a a₂ : AMap Node} {k : String} {v : Node}
    {rest : List (String × Node)} {r : AMap Node} (hg : AMap.get? a k = none) (e : AMap.insert a k v = a₂)
    (h : MergeKvsRel o a₂ rest r) : MergeKvsRel o a ((k, v) :: rest) r := .fresh hg (e ▸ h)

theorem MergeKvsRel.both_eq {o : ListStrategy} {a a₂ : AMap Node} {k : String} {n v x : Node}
    {rest : List (String × Node)} {r : AMap Node} (hg : AMap.get? a k = some n) (hm : MergeNodeRel o n v x)
    (e : AMap.insert a k x = a₂) (h : MergeKvsRel o a₂ rest r) : MergeKvsRel o a ((k, v) :: rest) r :=
  .both hg hm (e ▸ h)

theorem MergeContRel.mk_eq {o : ListStrategy} {a a' b b' : List (String × Node)} {a₀ r : AMap Node}
    (ha : a'.Perm a) (hb : b'.Perm b) (e : AMap.ofList a' = a₀) (h : MergeKvsRel o a₀ b' r) :
    MergeContRel o a b r := .mk ha hb (e ▸ h)

/-- merger.mergeOverlay: `merged = mergeContainers(merged, overlays[name])` over `m.names` in
    order, every `mergeContainers` (and every nested one) with free map order -/
inductive MergedRel (o : ListStrategy) : AMap Node → List (AMap Node) → AMap Node → Prop
  | nil (acc : AMap Node) : MergedRel o acc [] acc
  | cons {acc c acc' : AMap Node} {rest : List (AMap Node)} {r : AMap Node} :
      MergeContRel o acc c acc' → MergedRel o acc' rest r → MergedRel o acc (c :: rest) r

theorem wf_mergeC (o : ListStrategy) {a b : AMap Node} (ha : (Node.cont a).WF) (hb : (Node.cont b).WF) :
    (Node.cont (mergeKvs o a b)).WF := by
  have := wf_mergeNode o (.cont a) (.cont b) ha hb
  rwa [mergeNode_cont_cont] at this

theorem mergedRel_det {o : ListStrategy} {acc : AMap Node} {ls : List (AMap Node)} {r : AMap Node}
    (h : MergedRel o acc ls r) : (Node.cont acc).WF → (∀ c ∈ ls, (Node.cont c).WF) →
    r = ls.foldl (mergeKvs o) acc := by
  induction h with
  | nil acc => intro _ _; rfl
  | @cons acc c acc' rest r h1 _ ih =>
    intro ha hl
    have hc := hl c (List.mem_cons_self ..)
    have e := mergeContRel_det h1 ha hc
    subst e
    simp only [List.foldl_cons]
    exact ih (wf_mergeC o ha hc) (fun d hd => hl d (List.mem_cons_of_mem _ hd))

theorem mergedRel_self (o : ListStrategy) : ∀ (ls : List (AMap Node)) (acc : AMap Node), (Node.cont acc).WF →
    (∀ c ∈ ls, (Node.cont c).WF) → MergedRel o acc ls (ls.foldl (mergeKvs o) acc)
  | [], acc, _, _ => .nil acc
  | c :: rest, acc, ha, hl => by
    have hc := hl c (List.mem_cons_self ..)
    simp only [List.foldl_cons]
    have h1 : MergeContRel o acc c (mergeKvs o acc c) := mergeContRel_self o ha hc
    exact .cons h1 (mergedRel_self o rest _ (wf_mergeC o ha hc) (fun d hd => hl d (List.mem_cons_of_mem _ hd)))

end Ytk
