/-
  YtkProofs.HeapBuilder — what the heap-level builder calls (YtkModel/HeapBuilder.lean) write:

  1. small heap facts (no-op writes, reachability in an extended heap, ranks)
  2. `setSlotH` (ensureList): at most ONE existing cell changes, a list on the walked chain
  3. `addH`, `addContainerH`, `spineH`, `addAtSegsH` satisfy `AttachSpec`
  4. removing calls satisfy `ShrinkSpec`
  5. reading back: `Lookup` after `AddValueAt` returns the very node; handles
-/
import YtkProofs.HeapBuilderDefs
import YtkProofs.LensIdx
import YtkProofs.Builder

namespace Ytk.Heap
open Heap

/-! ## 1. small facts -/

theorem Heap.ext_get? {h h' : Heap} (hs : h'.size = h.size) (hg : ∀ a, a < h.size → h'.get? a = h.get? a) :
    h' = h := by
  cases h with | mk cs =>
  cases h' with | mk cs' =>
  simp only [Heap.size] at hs
  simp only [Heap.get?, Heap.size] at hg
  congr 1
  apply List.ext_getElem?
  intro a
  by_cases ha : a < cs.length
  · exact hg a ha
  · rw [List.getElem?_eq_none (by omega), List.getElem?_eq_none (by omega)]

/-- writing a cell with the content it already has changes nothing -/
theorem write_same {h : Heap} {a : Addr} {c : Cell} (hg : h.get? a = some c) : h.write a c = h := by
  apply Heap.ext_get? (size_write h a c)
  intro b _
  by_cases hb : b = a
  · subst hb; rw [get?_write_self h c (get?_lt hg), hg]
  · exact get?_write_ne h c hb

theorem get?_some_of_lt {h : Heap} {a : Addr} (ha : a < h.size) : ∃ c, h.get? a = some c := by
  unfold Heap.get?; exact ⟨_, List.getElem?_eq_getElem ha⟩

theorem rank_le_of_reach {h : Heap} {rank : Addr → Nat} (hr : h.RankedBy rank) {a b : Addr}
    (hab : Reach h a b) : rank b ≤ rank a := by
  induction hab with
  | refl _ => exact Nat.le_refl _
  | step hg hk _ ih => exact Nat.le_trans ih (Nat.le_of_lt (hr _ _ hg _ hk))

/-- a stored child never reaches its parent in a ranked heap -/
theorem not_reach_parent {h : Heap} {rank : Addr → Nat} (hr : h.RankedBy rank) {a k : Addr} {c : Cell}
    (hg : h.get? a = some c) (hk : k ∈ c.kids) {b : Addr} (hb : Reach h k b) : b ≠ a := by
  intro e
  subst e
  have h1 := rank_le_of_reach hr hb
  have h2 := hr _ _ hg _ hk
  omega

theorem reach_lt {h : Heap} (hc : h.Closed) {a b : Addr} (hab : Reach h a b) (ha : a < h.size) : b < h.size := by
  induction hab with
  | refl _ => exact ha
  | step hg hk _ ih => exact ih (hc _ _ hg _ hk)

/-- reachability between old cells does not change when the heap is extended -/
theorem reach_of_le {h h1 : Heap} (hl : h ≤ h1) (hc : h.Closed) {a b : Addr} (hab : Reach h1 a b)
    (ha : a < h.size) : Reach h a b := by
  induction hab with
  | refl _ => exact .refl _
  | @step x k y d hg hk _ ih =>
    rw [get?_eq_of_le hl ha] at hg
    exact .step hg hk (ih (hc _ _ hg _ hk))

theorem reach_mono {h h1 : Heap} (hl : h ≤ h1) {a b : Addr} (hab : Reach h a b) : Reach h1 a b := by
  induction hab with
  | refl _ => exact .refl _
  | step hg hk _ ih => exact .step (get?_of_le hl hg) hk ih

theorem mem_kids_of_get? {kvs : AMap Addr} {k : String} {a : Addr} (h : AMap.get? kvs k = some a) :
    a ∈ (Cell.cont kvs).kids := by
  simp only [Cell.kids, List.mem_map]
  exact ⟨(k, a), AMap.mem_of_get? h, rfl⟩

theorem mem_padH {xs : List Addr} {n : Nat} {x : Addr} (h : x ∈ padH xs n) : x ∈ xs ∨ x = nilAddr := by
  simp only [padH, List.mem_append, List.mem_replicate] at h
  rcases h with h | h
  · exact Or.inl h
  · exact Or.inr h.2

theorem padH_length (xs : List Addr) (n : Nat) : (padH xs n).length = max xs.length n := by
  simp only [padH, List.length_append, List.length_replicate]; omega

theorem padH_eq_self {xs : List Addr} {n : Nat} (h : n ≤ xs.length) : padH xs n = xs := by
  simp [padH, Nat.sub_eq_zero_of_le h]

theorem mem_set_padH {xs : List Addr} {i : Nat} {r x : Addr} (h : x ∈ (padH xs (i + 1)).set i r) :
    x ∈ xs ∨ x = nilAddr ∨ x = r := by
  rcases List.mem_or_eq_of_mem_set h with h | h
  · rcases mem_padH h with h | h
    · exact Or.inl h
    · exact Or.inr (Or.inl h)
  · exact Or.inr (Or.inr h)

theorem listAt_some {h : Heap} {cur : Option Addr} {a : Addr} {xs : List Addr}
    (hl : listAt h cur = some (a, xs)) : cur = some a ∧ h.get? a = some (.list xs) := by
  cases cur with
  | none => simp [listAt] at hl
  | some b =>
    simp only [listAt] at hl
    split at hl
    · rename_i ys hg
      simp only [Option.some.injEq, Prod.mk.injEq] at hl
      obtain ⟨rfl, rfl⟩ := hl
      exact ⟨rfl, hg⟩
    · cases hl

theorem padH_getElem?_ge {xs : List Addr} {i : Nat} (h : xs.length ≤ i) : (padH xs (i + 1))[i]? = some nilAddr := by
  unfold padH
  rw [List.getElem?_append_right h, List.getElem?_replicate]
  have : i - xs.length < i + 1 - xs.length := by omega
  simp [this]

theorem listAt_nil {h : Heap} (hn : h.NilOk) : listAt h (some nilAddr) = none := by
  simp only [listAt]
  rw [show h.get? nilAddr = some (.leaf Scalar.null) from hn]

/-! ## 2. `setSlotH` -/

/-- cells allocated on top of the first `n0`: they only point to older new cells, `v` or the nil
    leaf, and new children maps are sorted -/
def FreshKids (n0 : Nat) (v : Addr) (h' : Heap) : Prop :=
  ∀ a cell, n0 ≤ a → h'.get? a = some cell →
    (∀ k ∈ cell.kids, (n0 ≤ k ∧ k < a) ∨ k = v ∨ k = nilAddr) ∧ (∀ kvs, cell = .cont kvs → AMap.Sorted kvs)

theorem FreshKids.alloc {n0 : Nat} {v : Addr} {h : Heap} (hf : FreshKids n0 v h) {c : Cell} (hn : n0 ≤ h.size)
    (hk : ∀ k ∈ c.kids, (n0 ≤ k ∧ k < h.size) ∨ k = v ∨ k = nilAddr)
    (hs : ∀ kvs, c = .cont kvs → AMap.Sorted kvs) : FreshKids n0 v (h.alloc c).1 := by
  intro a cell ha hg
  rcases get?_alloc hg with ⟨_, hg'⟩ | ⟨rfl, rfl⟩
  · exact hf a cell ha hg'
  · exact ⟨hk, hs⟩

theorem FreshKids.write_old {n0 : Nat} {v : Addr} {h : Heap} (hf : FreshKids n0 v h) {a : Addr} (c : Cell)
    (ha : a < n0) : FreshKids n0 v (h.write a c) := by
  intro b cell hb hg
  rw [get?_write_ne h c (Nat.ne_of_gt (Nat.lt_of_lt_of_le ha hb))] at hg
  exact hf b cell hb hg

theorem freshKids_self (h : Heap) (v : Addr) : FreshKids h.size v h := by
  intro a cell ha hg
  exact absurd (get?_lt hg) (Nat.not_lt.mpr ha)

/-- what `setSlotH h cur is v = (h1, r)` does -/
structure SlotSpec (h : Heap) (cur : Option Addr) (is : List Nat) (v : Addr) (h1 : Heap) (r : Addr) : Prop where
  size_le : h.size ≤ h1.size
  fresh : FreshKids h.size v h1
  nil_is : is = [] → h1 = h ∧ r = v
  notList : listAt h cur = none → (∀ a, a < h.size → h1.get? a = h.get? a) ∧
    (is ≠ [] → h.size ≤ r ∧ r < h1.size)
  isList : ∀ a xs, listAt h cur = some (a, xs) → is ≠ [] → r = a ∧ ∃ w ys ys', Reach h a w ∧
    h.get? w = some (.list ys) ∧ h1.get? w = some (.list ys') ∧
    (∀ k ∈ ys', k ∈ ys ∨ k = nilAddr ∨ k = v ∨ (h.size ≤ k ∧ k < h1.size)) ∧
    (∀ b, b < h.size → b ≠ w → h1.get? b = h.get? b)

theorem setSlotH_spec {h : Heap} {rank : Addr → Nat} (hr : h.RankedBy rank) (hn : h.NilOk) (v : Addr) :
    ∀ (is : List Nat) (cur : Option Addr), SlotSpec h cur is v (setSlotH h cur is v).1 (setSlotH h cur is v).2
  | [], cur => by
    simp only [setSlotH]
    exact ⟨Nat.le_refl _, freshKids_self h v, fun _ => ⟨rfl, rfl⟩, fun _ => ⟨fun _ _ => rfl, fun hne => absurd rfl hne⟩,
      fun _ _ _ hne => absurd rfl hne⟩
  | i :: is, cur => by
    simp only [setSlotH]
    cases hl : listAt h cur with
    | none =>
      simp only
      have ih := setSlotH_spec hr hn v is ((padH [] (i + 1))[i]?)
      generalize setSlotH h ((padH [] (i + 1))[i]?) is v = res at ih
      obtain ⟨h1, r'⟩ := res
      simp only at ih ⊢
      have hslot : (padH [] (i + 1))[i]? = some nilAddr := padH_getElem?_ge (by simp)
      rw [hslot] at ih
      have hfr := ih.notList (listAt_nil hn)
      refine ⟨?_, ?_, (fun hne => by cases hne), fun _ => ⟨?_, fun _ => ?_⟩, (fun _ _ hc => by rw [hl] at hc; cases hc)⟩
      · rw [size_alloc]; exact Nat.le_succ_of_le ih.size_le
      · apply ih.fresh.alloc ih.size_le
        · intro k hk
          simp only [Cell.kids] at hk
          rcases mem_set_padH hk with hk | hk | hk
          · cases hk
          · exact Or.inr (Or.inr hk)
          · subst hk
            by_cases hnil : is = []
            · exact Or.inr (Or.inl (ih.nil_is hnil).2)
            · exact Or.inl (hfr.2 hnil)
        · intro kvs hk; cases hk
      · intro a ha
        rw [get?_eq_of_le (le_alloc h1 _) (Nat.lt_of_lt_of_le ha ih.size_le)]
        exact hfr.1 a ha
      · rw [alloc_snd, size_alloc]
        exact ⟨ih.size_le, Nat.lt_succ_self _⟩
    | some p =>
      obtain ⟨a, xs⟩ := p
      simp only
      obtain ⟨hcur, hga⟩ := listAt_some hl
      have halt := get?_lt hga
      have ih := setSlotH_spec hr hn v is ((padH xs (i + 1))[i]?)
      generalize setSlotH h ((padH xs (i + 1))[i]?) is v = res at ih
      obtain ⟨h1, r'⟩ := res
      simp only at ih ⊢
      have ha1 : a < h1.size := Nat.lt_of_lt_of_le halt ih.size_le
      refine ⟨(by rw [size_write]; exact ih.size_le), ih.fresh.write_old _ halt, (fun hne => by cases hne),
        (fun hc => by rw [hl] at hc; cases hc), ?_⟩
      intro a0 xs0 he _
      rw [hl] at he
      simp only [Option.some.injEq, Prod.mk.injEq] at he
      obtain ⟨rfl, rfl⟩ := he
      refine ⟨rfl, ?_⟩
      -- does the slot hold a list that is reused?
      by_cases hnil : is = []
      · obtain ⟨rfl, rfl⟩ := ih.nil_is hnil
        refine ⟨a, xs, (padH xs (i + 1)).set i r', .refl _, hga, get?_write_self _ _ halt, ?_, ?_⟩
        · intro k hk
          rcases mem_set_padH hk with hk | hk | hk
          · exact Or.inl hk
          · exact Or.inr (Or.inl hk)
          · exact Or.inr (Or.inr (Or.inl hk))
        · intro b _ hb
          exact get?_write_ne _ _ hb
      · cases hl' : listAt h ((padH xs (i + 1))[i]?) with
        | none =>
          obtain ⟨hfr, hr'⟩ := ih.notList hl'
          refine ⟨a, xs, (padH xs (i + 1)).set i r', .refl _, hga, get?_write_self _ _ ha1, ?_, ?_⟩
          · intro k hk
            rcases mem_set_padH hk with hk | hk | hk
            · exact Or.inl hk
            · exact Or.inr (Or.inl hk)
            · subst hk
              have := hr' hnil
              exact Or.inr (Or.inr (Or.inr ⟨this.1, by rw [size_write]; exact this.2⟩))
          · intro b hb hba
            rw [get?_write_ne _ _ hba]
            exact hfr b hb
        | some q =>
          obtain ⟨a', xs'⟩ := q
          obtain ⟨hr', w, ys, ys', hrw, hgw, hgw', hkids, hframe⟩ := ih.isList a' xs' hl' hnil
          obtain ⟨hslot, hga'⟩ := listAt_some hl'
          -- the slot is inside the list: padding would hold the nil leaf, which is no list
          have hi : i < xs.length := by
            apply Classical.byContradiction
            intro hge
            rw [padH_getElem?_ge (Nat.le_of_not_lt hge)] at hslot
            cases hslot
            rw [show h.get? nilAddr = some (.leaf Scalar.null) from hn] at hga'
            cases hga'
          rw [padH_eq_self (by omega)] at hslot ⊢
          have hmem : a' ∈ xs := List.mem_of_getElem? hslot
          have hwa : w ≠ a := not_reach_parent hr hga (by simpa [Cell.kids] using hmem) hrw
          have hset : xs.set i r' = xs := by
            rw [hr']
            apply List.ext_getElem?
            intro j
            by_cases hj : j = i
            · subst hj; rw [List.getElem?_set_self hi, hslot]
            · rw [List.getElem?_set_ne (Ne.symm hj)]
          rw [hset]
          have hsame : h1.write a (.list xs) = h1 := write_same (by rw [hframe a halt (Ne.symm hwa)]; exact hga)
          rw [hsame]
          exact ⟨w, ys, ys', .step hga (by simpa [Cell.kids] using hmem) hrw, hgw, hgw', hkids, hframe⟩

end Ytk.Heap
